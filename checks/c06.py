"""C06 - stream filters: decode(encode(x)) = x, parameters survive the dictionary, chains stay aligned."""
import os
from vcommon import Check

c = Check("C06")
c.translate(needed=["Gen_C06.v", "Gen_C06ccitt.v", "Gen_C06ccitt2d.v"])
c.coq(["C06"], "C06", "Prop_C06.v")
drv = c.model("C06")
h = c.harness("c06")


def load(path):
    d = {}
    if os.path.exists(path):
        for ln in open(path, errors="replace"):
            k, _, v = ln.rstrip("\n").partition(" ")
            if k:
                d[k] = v
    return d


def compare(impl_path, model_path):
    """Line-wise; the model answers `any` where the implementation's verdict depends on how
    Read calls are cut (RunLength input that ends inside a literal block)."""
    a, b = load(impl_path), load(model_path)
    mism = []
    for k, v in a.items():
        w = b.get(k, "<missing>")
        if v != w and w != "any":
            mism.append({"id": k, "impl": v[:300], "model": w[:300]})
    c.cov["traces_validated_against_model"] = c.cov.get("traces_validated_against_model", 0) + len(a)
    return mism


if h:
    rc, out = c.run([h], timeout=3000)
    c.log.write(out)
    if rc != 0:
        c.tie_broken("harness c06 crashed", out[-2000:])
    c.absorb_harness()
    if drv and rc == 0:
        rc, out = c.run("%s < cases.txt > model.obs" % drv, timeout=3000)
        if rc != 0:
            c.tie_broken("model driver C06 failed", out[-2000:])
        else:
            w = c.work
            mism = compare(os.path.join(w, "impl.obs"), os.path.join(w, "model.obs"))
            # how close the degenerate LZW inputs bring the reader's staging area to the pending output
            # (model bookkeeping, LZWStage.v; the buffer has lzw_outputLen = 8192 bytes)
            hw = [int(v) for k, v in load(os.path.join(w, "model.obs")).items() if k.endswith(".hw") and v.isdigit()]
            if hw:
                c.cov["lzw_staging_high_water_mark"] = max(hw)
                if max(hw) < 7000:
                    c.notes.append("degenerate LZW inputs reach only %d bytes of the staging buffer" % max(hw))
            if mism:
                kinds = sorted({m["id"].rstrip("0123456789") for m in mism})
                c.tie_broken(
                    "correspondence model vs implementation (d: impl-encode -> model-decode, m: decode of damaged "
                    "encodings, p/q: parameters, c: chains): %d of the compared observations differ (kinds %s)"
                    % (len(mism), ",".join(kinds)),
                    mism[:10],
                )
            rc, out = c.run([h, "-phase2"], timeout=3000)
            c.log.write(out)
            if rc != 0:
                c.tie_broken("harness c06 -phase2 crashed", out[-2000:])
            else:
                mism = compare(os.path.join(w, "impl2.obs"), os.path.join(w, "expect2.obs"))
                if mism:
                    c.tie_broken(
                        "correspondence model-encode -> implementation-decode: %d encodings produced by the model "
                        "(proved decodable) are not decoded to the original data by the implementation" % len(mism),
                        mism[:10],
                    )
c.finish(
    assumptions=[
        "bytes are < 256 (wf); predictor and CCITTFax input consists of WHOLE rows: a partial last row is outside the "
        "property (the predictor writer zero-pads it, the CCITT writer drops it, Close succeeds in both cases - pinned by "
        "the library's own tests TestWriterShortFinalRow / filterRoundTrip); CCITT rows have zero padding bits",
        "CCITTFax: at most ccitt_max_rows(Columns, Rows) rows - the encoder refuses more (F67), which the harness requires",
        "chain_rt: at most 8 filters (maxFilterChainLength, GetFilters rejects longer chains); each stage satisfies "
        "dec(MakeFilter(Info s))(enc s x) = x - proved for ASCIIHex, ASCII85, RunLength, LZW, PNG and TIFF predictors "
        "and CCITTFax with K = 0 (g3_1d_rt) and K < 0 (g4_rt): rows of ceil(Columns/8) bytes with zero padding bits, at "
        "most ccitt_max_rows rows; assumed for Flate (zlib) and CCITTFax with K > 0",
        "MakeFilter treats an empty parameter dictionary like a missing one (every parse function only looks keys up)",
        "Go ints are 64 bit (flate_ints / int_ok)",
        "lzw_staging_safe: the LZW reader stages an expansion in the last n bytes of r.output and flushes pending bytes "
        "only after a code when there are >= flushBuffer of them (reader.go, read by hand; the two sizes and maxCode are "
        "translated); the bookkeeping model LZWStage.v is tied by the degenerate inputs (expansions up to 3839 bytes, "
        "high-water mark reported by the model) decoded identically by implementation and model",
    ],
    trusted=[
        "hand-written Gallina models coq/C06/{AHx,A85,RunLen,LZW,Predict,Chain,FilterParams}.v of filter.go, "
        "internal/filter/{asciihex,ascii85,runlength,lzw,predict}, appendFilter/GetFilters - tied by cross round trip, "
        "decode agreement on damaged encodings and parameter/chain observations",
        "coq/C06/CCITT.v: Group 3 one-dimensional coding (K = 0) with the code tables translated from "
        "internal/filter/ccittfax/tables.go (Gen_C06ccitt.v), tied by cross round trip on images and damaged code streams",
        "coq/C06/CCITT2D.v: Group 4 (K < 0) two-dimensional coding (changing elements, pass/vertical/horizontal modes, "
        "EOFB, byte alignment, reference row), tied by cross round trip on images and damaged code streams; "
        "coq/C06/CCITTParams.v: the row limit, its geometric part translated from FilterCCITTFax.toParams (Gen_C06ccitt2d.v)",
        "zlib (compress/zlib) and mixed CCITT coding (K > 0) are not modelled: only their parameters and "
        "their place in a chain; their round trips are tested on the implementation",
    ],
    partial=[
        "CCITTFax with K > 0 (Group 3 two-dimensional / mixed coding) and Flate have no model: their round trips are "
        "tested on the implementation only and enter chain_rt as premises (every other codec, including CCITTFax "
        "K = 0 and K < 0, is proved for all inputs of its domain)",
    ],
)
