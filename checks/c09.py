"""C09 - encryption: correct passwords recover everything, wrong ones nothing."""
import os
from concurrent.futures import ThreadPoolExecutor
from vcommon import Check


def run_model_parallel(c, drv, cases="cases.txt", out="model.obs", workers=8):
    """Run the extracted model over the cases, split over several processes.
    Revision 5/6 lines (Algorithm 2.B in extracted SHA-2/AES) cost seconds each and are
    spread evenly; everything else is dealt round-robin."""
    lines = [ln for ln in open(os.path.join(c.work, cases)) if ln.strip()]

    def cost(ln):
        """rough cost in runs of Algorithm 2.B (about 4 s each in the extracted model; more for long passwords)"""
        f = ln.split(None, 16)
        if len(f) < 4:
            return 0.0
        if f[1] == "A" and f[2] in ("5", "6"):
            return 4.0 * (3.0 if len(f) > 13 and len(f[13]) > 200 else 1.0)
        if f[1] == "C" and f[2] == "5":
            return 4.0
        if f[1] == "F" and f[2] == "5":
            return 4.0 if f[4] != "255" else 0.1
        if f[1] == "G" and (" R i 6 " in ln or " R i 5 " in ln):
            return 3.0
        return 0.0

    def heavy(ln):
        return cost(ln) >= 1.0

    parts = [[] for _ in range(workers)]
    load = [0.0] * workers
    hv = sorted((ln for ln in lines if heavy(ln)), key=cost, reverse=True)
    lt = [ln for ln in lines if not heavy(ln)]
    for ln in hv:  # longest processing time first
        i = load.index(min(load))
        parts[i].append(ln)
        load[i] += cost(ln)
    per_light = (sum(load) / max(1, len(lt))) if False else 0.006  # a light line is a few milliseconds
    for ln in lt:
        i = load.index(min(load))
        parts[i].append(ln)
        load[i] += per_light

    def one(i):
        inp = os.path.join(c.work, "cases.%d.txt" % i)
        with open(inp, "w") as o:
            o.writelines(parts[i])
        return c.run("%s < %s > %s.%d" % (drv, inp, out, i), timeout=3000)

    with ThreadPoolExecutor(max_workers=workers) as ex:
        results = list(ex.map(one, range(workers)))
    with open(os.path.join(c.work, out), "w") as o:
        for i in range(workers):
            p = os.path.join(c.work, "%s.%d" % (out, i))
            if os.path.exists(p):
                o.write(open(p).read())
    bad = [(rc, outp) for rc, outp in results if rc != 0]
    return (bad[0] if bad else (0, "")), len(hv)


if __name__ == "__main__":
    c = Check("C09")
    c.translate(needed=["Gen_Perm.v", "Gen_Consts.v"])
    c.coq(["C09"], "C09", "Prop_C09.v")
    drv = c.model("C09")
    h = c.harness("c09")
    if h:
        rc, out = c.run([h], timeout=3000)
        c.log.write(out)
        if rc != 0:
            c.tie_broken("harness c09 crashed", out[-2000:])
        c.absorb_harness()
        if drv and rc == 0:
            (rc, out), nheavy = run_model_parallel(c, drv)
            c.cov["r6_model_cases"] = nheavy
            if rc != 0:
                c.tie_broken("model driver C09 failed", out[-2000:])
            else:
                mism = c.compare_obs(os.path.join(c.work, "impl.obs"), os.path.join(c.work, "model.obs"), "stdsec")
                if mism:
                    kinds = sorted({k[0] for k, _, _ in mism})
                    c.tie_broken(
                        "correspondence StdSec (model) vs crypto.go (implementation): %d of the compared observations differ (case kinds %s: a=authenticate/decrypt, c=createStdSecHandler, p=permission algebra, h/x/b/u=primitives)"
                        % (len(mism), ",".join(kinds)),
                        [{"id": k, "impl": a[:200], "model": b[:200]} for k, a, b in mism[:10]],
                    )
    c.finish(
        assumptions=[
            "password preparation (PDFDocEncoding table, SASLprep) is a function supplied from outside the model; candidates outside its domain are not quantified over",
            "bytes_rt/stream_rt: in the AES case the object key is assumed to have 16 or 32 bytes (true of MD5/file-key output; the length of the model's MD5 output is not a theorem)",
            "wrong_pw / wrong_pw_r6: no collision of the password-to-/U and password-to-/O maps on the passwords involved (cryptographic premise)",
        ],
        trusted=[
            "hand-written Gallina model coq/C09/StdSec.v (+ MD5, RC4, SHA2, AES, Pkcs7) of crypto.go, tied by correspondence",
            "Gallina MD5/SHA-2/RC4/AES checked against RFC 1321 / FIPS 180-4 / FIPS 197 vectors (Vectors.v) and against Go's crypto/* on random inputs in every run",
        ],
        partial=[],
    )
