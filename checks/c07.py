"""C07 - filter output is readable by, and filter input writable by, independent codecs."""
import os
from vcommon import Check

c = Check("C07")
c.translate(needed=["Gen_C06.v", "Gen_C06ccitt.v", "Gen_C06ccitt2d.v"])
c.coq(["C07"], "C07", "Prop_C07.v")
drv = c.model("C06")  # the models of coq/C06 are the independent codecs; C07 adds theorems about them
h = c.harness("c07")


def load(path):
    d = {}
    if os.path.exists(path):
        for ln in open(path, errors="replace"):
            k, _, v = ln.rstrip("\n").partition(" ")
            if k:
                d[k] = v
    return d


def codec_of(cases, k):
    fs = cases.get(k, "").split()
    return fs[1].split(":")[0] if len(fs) > 1 else "?"


if h:
    rc, out = c.run([h], timeout=3000)
    c.log.write(out)
    if rc != 0:
        c.tie_broken("harness c07 crashed", out[-2000:])
    c.absorb_harness()
    if drv and rc == 0:
        w = c.work
        rc, out = c.run("%s < cases.txt > model.obs" % drv, timeout=3000)
        if rc != 0:
            c.tie_broken("model driver (C06) failed", out[-2000:])
        else:
            cases = load(os.path.join(w, "cases.txt"))
            # D lines: the model (an independent decoder, proved correct for every conforming encoding)
            # reads what the library wrote
            a, b = load(os.path.join(w, "impl.obs")), load(os.path.join(w, "model.obs"))
            c.cov["traces_validated_against_model"] = len(a)
            n = 0
            for k, v in a.items():
                mv = b.get(k, "<missing>")
                if mv != v:
                    n += 1
                    if n <= 12:
                        c.fail(
                            "interop-model-decodes-lib-" + codec_of(cases, k),
                            "the independent (Coq-extracted) %s decoder does not recover the data from the library's encoding"
                            % codec_of(cases, k),
                            {"case": cases.get(k, "")[:4000], "expected": v[:2000], "model": mv[:2000]},
                        )
            rc, out = c.run([h, "-phase2"], timeout=3000)
            c.log.write(out)
            if rc != 0:
                c.tie_broken("harness c07 -phase2 crashed", out[-2000:])
            else:
                a, b = load(os.path.join(w, "impl2.obs")), load(os.path.join(w, "expect2.obs"))
                c.cov["traces_validated_against_model"] += len(a)
                c.cov["evaluations"] += len(a) + len(load(os.path.join(w, "impl.obs")))
                n = 0
                for k, v in a.items():
                    if b.get(k) != v:
                        n += 1
                        if n <= 12:
                            c.fail(
                                "interop-lib-decodes-model-" + codec_of(cases, k),
                                "the library does not decode data written by the independent (Coq-extracted) %s encoder"
                                % codec_of(cases, k),
                                {"case": cases.get(k, "")[:4000], "expected": b.get(k, "")[:2000], "lib": v[:2000]},
                            )
c.finish(
    assumptions=[
        "bytes are < 256; conforming encodings are those of coq/C06/Conform.v (ISO 32000-2 7.4.2, 7.4.3, 7.4.5): any "
        "record split, any white space before the EOD marker, either digit case, odd digit counts, z or !!!!!",
        "the Go referees implement the standards they name: compress/zlib, encoding/ascii85, compress/lzw (EarlyChange 0), "
        "golang.org/x/image/tiff/lzw (EarlyChange 1), golang.org/x/image/ccitt (T.4 1-D with EOL, T.6), image/png (filter types 0-4)",
    ],
    trusted=[
        "models coq/C06/*.v written from ISO 32000-2 7.4 / PNG 9 / TIFF 6.0 section 14, extracted and used as independent codecs",
        "reference RunLength / ASCIIHex codecs in harness/c07/main.go",
        "CCITTFax: x/image/ccitt (own code tables) reads the library's Group 4 and Group 3 (with EOL) output, incl. one image "
        "per run length 0..2700 of either colour; Group 3 without EOL codes and Group 3 with EOL + byte alignment are outside "
        "x/image/ccitt (T.4 proper; aligns after the EOL code) - there the Coq model of K = 0 (coq/C06/CCITT.v, tables "
        "translated from the Go source and proved prefix-free / consistent, g3_1d_rt) is the referee, in both directions",
    ],
    partial=[
        "lzw_accepts_all (every code stream a conforming LZW encoder may emit) is not stated or proved; LZW interoperability "
        "rests on compress/lzw, x/image/tiff/lzw and the extracted model in both directions",
        "CCITTFax: decode direction only (library encodes, x/image/ccitt decodes)",
    ],
)
