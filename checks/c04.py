"""C04 - the Reader follows the specification for every conforming serialisation and history."""
import os
from vcommon import Check

c = Check("C04")
c.translate(needed=["Gen_Consts.v"])
c.coq(["C04"], "C04", "Prop_C04.v")
drv = c.model("C04")
h = c.harness("c04")
if h and drv:
    import json
    K = 4 if c.tier == "quick" else 8
    os.makedirs(os.path.join(c.work, "gen"), exist_ok=True)
    rc, out = c.run([h, "-dir", "gen", "gen"], timeout=1800)
    c.log.write(out)
    if rc != 0:
        c.tie_broken("harness c04 gen crashed", out[-2000:])
    else:
        # K pipelines: the extracted renderer writes the files, the real Reader opens them
        script = ["set -o pipefail", "cd gen && split -d -a 2 -n r/%d cases.txt shard. && cd .." % K]
        for i in range(K):
            os.makedirs(os.path.join(c.work, "run%d" % i), exist_ok=True)
            script.append("( '%s' < gen/shard.%02d | '%s' -dir run%d run gen/shard.%02d %d %d ) > run%d/log 2>&1 &"
                          % (drv, i, h, i, i, i, K, i))
        script.append("fail=0; for j in $(jobs -p); do wait $j || fail=1; done; cat run*/log; exit $fail")
        rc, out = c.run(["bash", "-c", "\n".join(script)], timeout=3000)
        c.log.write(out)
        if rc != 0:
            c.tie_broken("model driver C04 / harness c04 run failed", out[-2000:])
        # merge the shards
        merged = {"evaluations": 0, "distinct_nontrivial": 0, "samples": [], "input_distribution": {}, "impl_failing_cases": 0}
        with open(os.path.join(c.work, "fails.jsonl"), "w") as fo, \
             open(os.path.join(c.work, "impl.obs"), "w") as io_, open(os.path.join(c.work, "model.obs"), "w") as mo:
            for i in range(K):
                d = os.path.join(c.work, "run%d" % i)
                sp = os.path.join(d, "stats.json")
                if not os.path.exists(sp):
                    continue
                st = json.load(open(sp))
                for k, v in st.items():
                    if k == "input_distribution":
                        for kk, vv in v.items():
                            merged[k][kk] = merged[k].get(kk, 0) + vv
                    elif k == "samples":
                        merged[k] += v[:2]
                    elif isinstance(v, int) and not isinstance(v, bool):
                        merged[k] = merged.get(k, 0) + v
                    else:
                        merged[k] = v
                for name, o in (("fails.jsonl", fo), ("impl.obs", io_), ("model.obs", mo)):
                    fp = os.path.join(d, name)
                    if os.path.exists(fp):
                        o.write(open(fp, errors="replace").read())
                mp = os.path.join(d, "mismatch.txt")
                if os.path.exists(mp):
                    c.log.write(open(mp, errors="replace").read()[:20000])
        json.dump(merged, open(os.path.join(c.work, "stats.json"), "w"))
        for f in os.listdir(os.path.join(c.work, "gen")):
            if f.startswith("shard."):
                os.remove(os.path.join(c.work, "gen", f))
        c.absorb_harness()
        if rc == 0:
            mism = c.compare_obs(os.path.join(c.work, "impl.obs"), os.path.join(c.work, "model.obs"), "reader")
            if mism:
                spec = [m for m in mism if m[0].endswith(".spec")]
                other = [m for m in mism if not m[0].endswith(".spec")]
                if spec:
                    c.tie_broken(
                        "the Go reference model (apply revisions oldest to newest) and XRef.spec_resolve disagree on %d histories (texts in check.log)" % len(spec),
                        [{"id": k, "go_reference": a, "coq_spec": b} for k, a, b in spec[:10]])
                if other:
                    c.tie_broken(
                        "correspondence XRef.impl_read / XRefText decoders / Extent.stream_obj (model) vs pdf.Reader (implementation): %d of the compared observations differ (history observations are digests; texts in check.log)" % len(other),
                        [{"id": k, "impl": a, "model": b} for k, a, b in other[:10]])
c.finish(
    assumptions=[
        "conforming files: every object number at most once per revision, section offsets distinct and inside the file, xref stream fields within the ranges of ISO 32000-2 Table 18 (wf_chain)",
        "hybrid sections: a number may be listed both in the table and in /XRefStm only as a hidden object (free in the table); the stream's entry wins (fix F39); a conflict of two in-use entries is outside conforming files",
        "the original section (no /Prev) does not begin with the mis-numbered pattern `1 n / 0000000000 65535` (ISO 32000 7.5.4 requires it to begin at object 0)",
        "H-regexp: Go's regexp finds the leftmost match of [\\r\\n]endstream (Extent.find_eol_endstream)",
        "the reader keeps only the trailer keys Root, Encrypt, Info, ID and second/third-class names (keep_trailer)",
    ],
    trusted=[
        "hand-written Gallina models coq/C04/{XRef,XRefText,Extent}.v of xref.go / reader.go / scanner.go, tied by correspondence",
        "Gen_Consts.v (class table, maxGeneration, maxXRefSize) regenerated from the Go source on every run",
        "coq/C04/Seq.v: the independent renderer (extracted and run; proved about it: the shape of the file in RenderShape.v and literal_string_rt for its literal strings against coq/C04/LitString.v, the 7.3.4.2 reader)",
        "the 30-line Go reference model in harness/c04 (reference()) used as the direct oracle",
    ],
    partial=[
        "resolve_refines is a full theorem (no guard). resolve_refines_pre_F22_refuted and resolve_refines_pre_F39_refuted document named pre-fix variants of the model",
        "read_render is a full theorem: the reader on bytes (FileReader.open_bytes: header, startxref, /Prev loop, /XRefStm, every section parsed from the file) opened on render h c returns the specification's table and trailer for every history (classic, stream and hybrid sections) and every choice list c, under conditions on the history and the file size only (rev_ok, wf_chain, shorter than 10^10 bytes; evaluated for every generated file: files_satisfying_read_render_side_conditions) and H-parse for the generic dictionary parser; that the reader's checks accept what the renderer writes is derived in RenderChecks.v",
    ],
)
