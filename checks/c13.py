"""C13 - CMap and ToUnicode mappings survive construction, embedding and extraction."""
import os
from vcommon import Check

c = Check("C13")
c.translate(needed=["Gen_C13.v"])
c.coq(["C13"], "C13", "Prop_C13.v")
drv = c.model("C13")
h = c.harness("c13")
if h:
    rc, out = c.run([h], timeout=3000)
    c.log.write(out)
    if rc != 0:
        c.tie_broken("harness c13 crashed", out[-2000:])
    c.absorb_harness()
    if drv and rc == 0:
        # the extracted list functions are not tail recursive: the budget cases (2^20 pairs) need a deep stack
        rc, out = c.run("ulimit -s unlimited 2>/dev/null || ulimit -s $(ulimit -Hs) 2>/dev/null; %s < cases.txt > model.obs" % drv, timeout=3000)
        if rc != 0:
            c.tie_broken("model driver C13 failed", out[-2000:])
        else:
            mism = c.compare_obs(os.path.join(c.work, "impl.obs"), os.path.join(c.work, "model.obs"), "lookup/all")
            # leg B: the model-written text (W cases of model.obs) through the real extractor
            rc2, out2 = c.run([h], timeout=3000, envx={"C13_PHASE": "2"})
            c.log.write(out2)
            if rc2 != 0:
                c.tie_broken("harness c13 (phase two: model-written text through the real extractor) crashed", out2[-2000:])
            else:
                mb = c.compare_obs(os.path.join(c.work, "legb.impl.obs"), os.path.join(c.work, "legb.want.obs"), "model text -> Extract")
                if mb:
                    c.tie_broken(
                        "correspondence write_tokens_cid/write_tokens_tu (model text) read by cmap.Extract/ExtractToUnicode vs the original file: "
                        "%d of the compared observations differ" % len(mb),
                        [{"id": k, "extracted-from-model-text": a[:400], "original": b[:400]} for k, a, b in mb[:6]],
                    )
            if mism:
                # which entry points disagree (case kinds: C = SetMapping chain, T = NewToUnicodeFile chain,
                # F/U = hand-made CID / ToUnicode file: lookup precedence, rangeIndex, codesInRange)
                kinds = {}
                for ln in open(os.path.join(c.work, "cases.txt"), errors="replace"):
                    f = ln.split(" ", 2)
                    if len(f) > 1:
                        kinds[f[0]] = f[1]
                names = {"C": "set_mapping/lookup_cid/all_cid vs File.SetMapping/LookupCID/All",
                         "T": "new_tounicode/lookup_tu/all_tu/get_mapping vs NewToUnicodeFile/Lookup/All/GetMapping",
                         "F": "lookup_cid/all_cid (range_index, codes_in_range) vs File.LookupCID/All on hand-made files",
                         "U": "lookup_tu/all_tu (range_index, codes_in_range, next_string) vs ToUnicodeFile.Lookup/All on hand-made files",
                         "WC": "write_tokens_cid vs the tokens of the embedded CMap stream (File.WriteTo)",
                         "WT": "write_tokens_tu vs the tokens of the embedded ToUnicode stream (toUnicodeTmplNew)",
                         "RC": "read_tokens_cid (on the tokens of the real stream) vs the structure cmap.Extract returns",
                         "RT": "read_tokens_tu (on the tokens of the real stream) vs the structure cmap.ExtractToUnicode returns"}
                bykind = {}
                for k, a, b in mism:
                    bykind.setdefault(kinds.get(k, "?"), []).append((k, a, b))
                for kd, ms in sorted(bykind.items()):
                    c.tie_broken(
                        "correspondence %s: %d of the compared observations differ" % (names.get(kd, kd), len(ms)),
                        [{"id": k, "impl": a[:400], "model": b[:400]} for k, a, b in ms[:6]],
                    )
c.finish(
    assumptions=[
        "code space ranges are the ones NewCodec accepts (no code a proper prefix of another): hypothesis prefix_free; "
        "Codec.Decode/AppendCode behave as C12 specifies (a string is a code iff it lies in a range of its own length)",
        "unmapped codes: LookupCID = the chain's singles/ranges first (lookupMapped), then LookupNotdefCID of the file itself (own notdef entries, "
        "then the parents'); SetMapping omits an entry only when a mapping of the parent chain gives the same CID",
        "maps have distinct keys that are codes of the code space, CIDs are uint32; text values are valid UTF-8 "
        "(modelled as rune lists; a string that is not valid UTF-8 cannot be stored in a ToUnicode CMap)",
        "enumeration theorems assume at most limits.MaxCMapMappings (translated constant) entries, the documented budget of All()",
        "rangeIndex results are capped at math.MaxInt32 as the Go code documents (hypothesis i <= max_int32)",
        "codes are byte STRINGS in the model (the *_bytes theorems are keyed by them): <41>, <0041> and <000041> are different keys; runs are cut "
        "by the all-but-last-byte prefix, so codes of different lengths never share a range (setmapping_ranges_wf, tounicode_ranges_wf)",
        "the SetMapping theorems quantify over an arbitrary parent file/chain (hand-made, overlapping entries, ranges wider than "
        "MaxCMapMappings); redundancy of an entry is decided by lookup in the parent chain (first match), not by its enumeration",
        "Embed/Extract of chains: the /UseCMap stream of the dictionary decides the parent, the usecmap name is looked up among the predefined "
        "CMaps only without it (extract_embed_chain holds for every table of predefined CMaps, so also when custom files carry predefined names); "
        "reading back sorts the lists, so every custom file of the chain is asked to be stable (sorted lists, or built by SetMapping)",
        "text level: files are well-formed (wf_ctext / wf_ttext: at most 100 code space ranges, non-empty codes, ranges of equal length with "
        "first <= last, CIDs below 2^32, valid text); reading back sorts every list by code (the interpreter's endcmap), so the lookup corollaries "
        "ask for notdef lists that are already sorted (nd_sorted_wf); the parent is a name in the text and resolved outside (PDF /UseCMap)",
        "H-ps (Section hypothesis of cmap_bytes_rt / tounicode_bytes_rt only): the PostScript scanner turns the printed text back into the token list; "
        "everything above the tokens (blocks, chunking, UTF-16BE, the CIDInit operators with their limits, readCMap/readToUnicode) is modelled and proved",
    ],
    trusted=[
        "hand-written Gallina models coq/C13/CMapRanges.v (font/cmap/{mapping,tu-mapping,range,file,tounicode}.go) and coq/C13/CMapText.v "
        "(the two templates, seehuhn.de/go/postscript cmap.go operators, readCMap/readToUnicode), tied by correspondence",
        "the small PostScript tokenizer and printer of harness/c13/text.go (used to compare token lists and to feed model-written text to the real extractor)",
        "not modelled: the interpreter's operation/memory budgets (MaxOps 10^6, 64 MiB), the PDF stream dictionary of an embedded CMap",
    ],
    partial=[
        "the byte level (cmap_bytes_rt, tounicode_bytes_rt) assumes H-ps: the scanner/printer pair is exercised by the harness, not proved",
        "tounicode_text_rt asks for at most 497 values per range (the first entry of a bfrange block needs 3+m <= 500 interpreter operands; "
        "the bound is exact: list_498_refused); files built by NewToUnicodeFile have at most 256 (new_tounicode_lists_256), so "
        "embed_extract_lookup_tounicode has no size condition",
    ],
)
