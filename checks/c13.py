"""C13 - CMap and ToUnicode mappings survive construction, embedding and extraction."""
import os
from vcommon import Check

c = Check("C13")
c.translate(needed=["Gen_C13.v"])
c.coq(["C13"], "C13", "Prop_C13.v")
drv = c.model("C13")
h = c.harness("c13")
if h:
    rc, out = c.run([h], timeout=3000)
    c.log.write(out)
    if rc != 0:
        c.tie_broken("harness c13 crashed", out[-2000:])
    c.absorb_harness()
    if drv and rc == 0:
        # the extracted list functions are not tail recursive: the budget cases (2^20 pairs) need a deep stack
        rc, out = c.run("ulimit -s unlimited 2>/dev/null || ulimit -s $(ulimit -Hs) 2>/dev/null; %s < cases.txt > model.obs" % drv, timeout=3000)
        if rc != 0:
            c.tie_broken("model driver C13 failed", out[-2000:])
        else:
            mism = c.compare_obs(os.path.join(c.work, "impl.obs"), os.path.join(c.work, "model.obs"), "lookup/all")
            if mism:
                # which entry points disagree (case kinds: C = SetMapping chain, T = NewToUnicodeFile chain,
                # F/U = hand-made CID / ToUnicode file: lookup precedence, rangeIndex, codesInRange)
                kinds = {}
                for ln in open(os.path.join(c.work, "cases.txt"), errors="replace"):
                    f = ln.split(" ", 2)
                    if len(f) > 1:
                        kinds[f[0]] = f[1]
                names = {"C": "set_mapping/lookup_cid/all_cid vs File.SetMapping/LookupCID/All",
                         "T": "new_tounicode/lookup_tu/all_tu/get_mapping vs NewToUnicodeFile/Lookup/All/GetMapping",
                         "F": "lookup_cid/all_cid (range_index, codes_in_range) vs File.LookupCID/All on hand-made files",
                         "U": "lookup_tu/all_tu (range_index, codes_in_range, next_string) vs ToUnicodeFile.Lookup/All on hand-made files"}
                bykind = {}
                for k, a, b in mism:
                    bykind.setdefault(kinds.get(k, "?"), []).append((k, a, b))
                for kd, ms in sorted(bykind.items()):
                    c.tie_broken(
                        "correspondence %s: %d of the compared observations differ" % (names.get(kd, kd), len(ms)),
                        [{"id": k, "impl": a[:400], "model": b[:400]} for k, a, b in ms[:6]],
                    )
c.finish(
    assumptions=[
        "code space ranges are the ones NewCodec accepts (no code a proper prefix of another): hypothesis prefix_free; "
        "Codec.Decode/AppendCode behave as C12 specifies (a string is a code iff it lies in a range of its own length)",
        "unmapped codes: LookupCID = the chain's singles/ranges first (lookupMapped), then LookupNotdefCID of the file itself (own notdef entries, "
        "then the parents'); SetMapping omits an entry only when a mapping of the parent chain gives the same CID",
        "maps have distinct keys that are codes of the code space, CIDs are uint32; text values are valid UTF-8 "
        "(modelled as rune lists; a string that is not valid UTF-8 cannot be stored in a ToUnicode CMap)",
        "enumeration theorems assume at most limits.MaxCMapMappings (translated constant) entries, the documented budget of All()",
        "rangeIndex results are capped at math.MaxInt32 as the Go code documents (hypothesis i <= max_int32)",
    ],
    trusted=[
        "hand-written Gallina model coq/C13/CMapRanges.v of font/cmap/{mapping,tu-mapping,range,file,tounicode}.go, tied by correspondence",
        "H-ps: the template-based CMap writer and the PostScript CMap reader are not modelled; the embed->reopen->extract "
        "leg is exercised on the implementation only (failing-input search)",
    ],
    partial=[
        "embed/extract (WriteTo/readCMap/readToUnicode) has no theorem: checked on the implementation for every generated case",
    ],
)
