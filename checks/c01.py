"""C01 - object syntax round trip: format then parse is the identity."""
import os
from vcommon import Check

c = Check("C01")
c.translate(needed=["Gen_Consts.v", "Gen_C01.v"])
c.coq(["C01"], "C01", "Prop_C01.v")
drv = c.model("C01")
h = c.harness("c01")


def compare(a, b, what, name):
    mism = c.compare_obs(os.path.join(c.work, a), os.path.join(c.work, b), what)
    if mism:
        c.tie_broken(
            "%s: %d of the compared observations differ" % (name, len(mism)),
            [{"id": k, "left(" + a + ")": x, "right(" + b + ")": y} for k, x, y in mism[:10]],
        )


if h:
    rc, out = c.run([h], timeout=3000)
    c.log.write(out)
    if rc != 0:
        c.tie_broken("harness c01 crashed", out[-2000:])
    c.absorb_harness()
    if drv and rc == 0:
        # (a) real formatter -> model scanner ; (c) arbitrary bytes -> both scanners
        rc, out = c.run("%s < cases.txt > model.obs" % drv, timeout=3000)
        if rc != 0:
            c.tie_broken("model driver C01 failed", out[-2000:])
        else:
            compare(
                "impl.obs", "model.obs", "scan",
                "correspondence Scan.scan_objects / parse_string / parse_name (model) vs scanner.go, on the "
                "implementation's formatted text (must give the original values) and on arbitrary bytes "
                "(value or error class); the key sequence of every dictionary the implementation writes, as the model "
                "scanner reads it from the text, must be the model's SortedKeys order (op SO, Scan.text_ordered)",
            )
        # (b) model formatter -> real scanner
        rc, out = c.run("%s < cases_b.txt > model_b.obs" % drv, timeout=3000)
        if rc != 0:
            c.tie_broken("model driver C01 failed (formatter cases)", out[-2000:])
        else:
            rc, out = c.run([h], timeout=3000, envx={"VERIF_PHASE": "2"})
            c.log.write(out)
            if rc != 0:
                c.tie_broken("harness c01 (phase 2) crashed", out[-2000:])
            else:
                compare(
                    "want_b.obs", "impl_b.obs", "format",
                    "correspondence Format.format / fmt_string / fmt_name (model) -> real scanner: the text the "
                    "model formatter writes must parse to the original values",
                )
c.finish(
    assumptions=[
        "values are compared after normalisation (DESIGN.md C01, Reading of the property text): a nil dictionary "
        "entry is absent, a nil Array is null, a nil Dict is the empty dictionary; <<>> for a nil Dict is not a defect",
        "H-float: strconv.ParseFloat(strconv.FormatFloat(x,'f',-1,64) [+ '.']) == x and FormatFloat's output matches "
        "-?[0-9]+(\\.[0-9]+)?; a Real is its decimal token in the model (theorem real_value_rt states the dependency); "
        "exercised on special and random float64 values, not proved",
        "limits: strings < maxStringBytes, names < maxNameBytes, arrays <= maxArrayLen (one transient element beyond the limit while a "
        "reference is being read, Wf.arr_fits), dictionaries <= maxDictLen written entries, nesting < maxScannerNestDepth "
        "(one level is used by the wrapper array of the hook VerifParseObjects); since F60-F62 the writer refuses what lies "
        "beyond them (Wf.fmt_ok, theorem format_accepts_iff_within_limits; the writer reads the same limit variables as "
        "the reader, so VerifSetLimits shrinks both - the depth limit is a constant)",
        "nums_fit: number tokens fit ReadNumber's buffer of maxNameBytes - every int64 and finite float64 does under the "
        "real constant (4096); under shrunk limits the writer accepts a number the reader refuses (artefact of shrinking, "
        "hypothesis of format_ok_roundtrip)",
        "OptDictTypes / OptTrimStandardFonts / OptTextStringUtf8 / OptContentStream do not act on native values; the "
        "harness checks all 32 combinations on the implementation",
    ],
    trusted=[
        "hand-written Gallina model coq/C01/{Lex,Obj,Num,Names,Strings,Format,Scan}.v of types.go Format*/scanner.go Read*, "
        "tied by correspondence in both directions; class[256] and the limits are translated (Gen_Consts.v, Gen_C01.v)",
        "OCaml's float_of_string and Go's strconv.ParseFloat as referees for the value of a real token",
        "hook /repo/verif_c01.go (build tag verif): VerifParseObjectsPos = newScanner + the real ReadArray; VerifSetLimits",
    ],
    partial=[
        "real_rt / real_value_rt: a real is its decimal token; float<->text is the external hypothesis H-float",
    ],
)
