"""C10 - encrypted files follow the standard algorithms and leak no plaintext."""
import os
import runpy
from vcommon import Check

here = os.path.dirname(os.path.abspath(__file__))
run_model_parallel = runpy.run_path(os.path.join(here, "c09.py"), run_name="c09_helpers")["run_model_parallel"]

c = Check("C10")
c.translate(needed=["Gen_Perm.v", "Gen_Consts.v"])
c.coq(["C09", "C10"], "C10", "Prop_C10.v")
drv = c.model("C10")
h = c.harness("c10")
if h:
    rc, out = c.run([h], timeout=3000)
    c.log.write(out)
    if rc != 0:
        c.tie_broken("harness c10 crashed", out[-2000:])
    c.absorb_harness()
    if drv and rc == 0:
        (rc, out), nheavy = run_model_parallel(c, drv)
        c.cov["r6_model_cases"] = nheavy
        if rc != 0:
            c.tie_broken("model driver C10 failed", out[-2000:])
        else:
            # phase 1: the model (independent implementation) on the Writer's files
            impl = os.path.join(c.work, "impl.obs")
            model = os.path.join(c.work, "model.obs")
            # observations of phase 2 (ids f...) have no implementation counterpart: they are inputs of phase 2
            m1 = os.path.join(c.work, "model.phase1.obs")
            with open(m1, "w") as o:
                for ln in open(model):
                    if not ln.startswith("f"):
                        o.write(ln)
            mism = c.compare_obs(impl, m1, "stdsec")
            if mism:
                # the model is the independent implementation of the property statement: a file of the real
                # Writer on which it cannot authenticate, or which it does not decrypt to the written values,
                # is a failing input of C10 (not only a broken tie)
                meta = {}
                mp = os.path.join(c.work, "ameta.txt")
                if os.path.exists(mp):
                    for ln in open(mp, errors="replace"):
                        k, _, v = ln.rstrip("\n").partition(" ")
                        meta[k] = v
                seen = set()
                for k, a, b in mism:
                    base = k.split(".")[0]
                    if not base.startswith("a") or base in seen:
                        continue
                    seen.add(base)
                    if "." not in k:
                        c.fail("independent-handler-authentication",
                               "the independent implementation of the standard security handler cannot authenticate on a file the Writer produced (Writer/Reader: %s, independent: %s)" % (a[:40], b[:40]),
                               {"file": meta.get(base, base)})
                    else:
                        c.fail("independent-handler-decryption",
                               "the independent implementation decrypts a stored string/stream of the Writer's file to something else than was written (item %s)" % k,
                               {"file": meta.get(base, base), "written": a[:80], "independent": b[:80]})
                kinds = sorted({k[0] for k, _, _ in mism})
                c.tie_broken(
                    "the independent implementation (Coq model of ISO 32000 7.6) and the Writer disagree on %d observations (case kinds %s: a=authenticate+decrypt every stored string/stream, d=/Encrypt entries, w=which objects are encrypted)"
                    % (len(mism), ",".join(kinds)),
                    [{"id": k, "writer": a[:160], "model": b[:160]} for k, a, b in mism[:10]],
                )
            # phase 2: files encrypted by the model, opened by the real Reader
            rc, out = c.run([h, "-phase", "2"], timeout=3000)
            c.log.write(out)
            if rc != 0:
                c.tie_broken("harness c10 phase 2 crashed", out[-2000:])
            dist1 = dict(c.cov.get("input_distribution", {}))
            c.absorb_harness(stats_name="stats2.json", fails_name="fails.jsonl")
            dist1.update(c.cov.get("input_distribution", {}))
            c.cov["input_distribution"] = dist1
c.finish(
    assumptions=[
        "randomness: crypto/rand never repeats a 16-byte IV within a file (iv_fresh is stated relative to an injective source)",
        "cryptographic strength of RC4/AES/MD5/SHA-2 is outside the claim",
        "sparse object numbers >= 65536 are exercised with cross-reference tables only (xref-stream output with such numbers is finding F18 of C02)",
    ],
    trusted=[
        "hand-written Gallina model coq/C09/StdSec.v written from ISO 32000-1/-2 section 7.6 (the independent implementation), tied to crypto.go by correspondence in both directions",
        "coq/C10/WriterModel.v (exemptions, IV draws, /Encrypt entries), tied by the w/d observations",
    ],
    partial=[
        "key_input_collides_refuted: injectivity of the 5-byte key input is false without the bounds n < 2^24, g <= 65535 (witness n = 1 and n = 1 + 2^24); the bounded statement key_input_inj is the one proved",
    ],
)
