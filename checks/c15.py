"""C15 - content streams: operators written are the operators read."""
import os
from vcommon import Check

c = Check("C15")
c.translate(needed=["Gen_Consts.v", "Gen_C01.v", "Gen_C15.v"])
c.coq(["C15"], "C15", "Prop_C15.v")
drv = c.model("C15")
h = c.harness("c15")


def compare(a, b, what, name):
    mism = c.compare_obs(os.path.join(c.work, a), os.path.join(c.work, b), what)
    if mism:
        c.tie_broken(
            "%s: %d of the compared observations differ" % (name, len(mism)),
            [{"id": k, "left(" + a + ")": x, "right(" + b + ")": y} for k, x, y in mism[:10]],
        )


if h:
    rc, out = c.run([h], timeout=3000)
    c.log.write(out)
    if rc != 0:
        c.tie_broken("harness c15 crashed", out[-2000:])
    c.absorb_harness()
    if drv and rc == 0:
        rc, out = c.run("%s < cases.txt > model.obs" % drv, timeout=3000)
        if rc != 0:
            c.tie_broken("model driver C15 failed", out[-2000:])
        else:
            compare(
                "impl.obs", "model.obs", "scan",
                "correspondence Content.cscan (model) vs the content scanner on the real writer's text and on "
                "arbitrary bytes, State.apply_op/closing_ops vs content.State on operator-name sequences, and "
                "State.op_table vs CheckOperatorAllowed/ApplyStateChanges",
            )
        rc, out = c.run("%s < cases_b.txt > model_b.obs" % drv, timeout=3000)
        if rc != 0:
            c.tie_broken("model driver C15 failed (writer cases)", out[-2000:])
        else:
            rc, out = c.run([h], timeout=3000, envx={"VERIF_PHASE": "2"})
            c.log.write(out)
            if rc != 0:
                c.tie_broken("harness c15 (phase 2) crashed", out[-2000:])
            else:
                compare(
                    "want_b.obs", "impl_b.obs", "format",
                    "correspondence Content.op_format (model) -> real content scanner: the text the model writer "
                    "produces must scan to the original operators",
                )
c.finish(
    assumptions=[
        "domain: operator names are non-empty runs of regular bytes that are not number tokens, true/false/null or BI; "
        "fewer than 64 operands (maxOperatorArgs: the scanner drops an operator that arrives with 64 or more); operands are "
        "null, booleans, integers, finite reals, names, strings, arrays and dictionaries (no references, no operators), "
        "nested less than 256 deep; %raw% operators are comment lines",
        "inline images inside the guard of inline_rt (ContentSpec.wf_image_full): /W,/H valid, keys are regular bytes "
        "without '#', no nil values, values nested at most 10 deep, data at most 4094 bytes, /L absent or equal to the data "
        "length, and (without /L) no EOL 'EI' delimiter inside the data (the remaining finding F9); with an ASCII filter "
        "the data must not start with white space (ContentSpec.ascii_data_ok; proof and harness use the same domain)",
        "ASCII-filter (ASCIIHexDecode/ASCII85Decode) inline-image data that itself starts with white space is outside the "
        "domain: ISO 32000 8.9.7 makes white space after ID non-data for these filters, the scanner skips it and the ASCII "
        "decoders ignore it",
        "values are compared as in C01 (nil entry absent, nil array = null, nil dict = empty dict); H-float as in C01",
        "State: only nesting and the Allowed/Transition table are modelled, not the graphics-state requirements",
        "Builder calls with caller-owned arguments (BuilderModel.v: DrawInlineImageRaw, TextShowRaw, TextShowNextLineRaw, "
        "TextShowKernedRaw, MarkedContentPoint/Start, argument-free calls): the operators are BuilderModel.build_ops of the "
        "values each call saw; aliasing schedules (shared maps/slices, changed between and after the calls) compare the real "
        "Builder with the model (case BA), with a Builder given private copies, and the arguments before/after every call; "
        "SetLineDash (floats) is compared with the private-copy Builder only",
    ],
    trusted=[
        "hand-written Gallina model coq/C15/{Content,State}.v of graphics/content/{writer,stream,state,operator}.go, tied "
        "by correspondence in both directions; class table and limits translated (Gen_C15.v); operand formatting is C01's model",
        "OCaml's float_of_string and Go's strconv.ParseFloat as referees for the value of a real token",
        "the harness's hand-written copy of the specification's allowed-context table (specTable/specRun, the same table as "
        "State.v op_table, not read from the implementation): every nesting case runs it against the Coq model (cases .S), "
        "and it judges whether a stream the Builder accepted is a valid sequence (failing input builder-accepts-invalid)",
    ],
    partial=[
        "inline_rt_refuted (F9): without /L, data containing EOL 'EI' delimiter is cut short - witness computed by vm_compute; "
        "Examples inline_empty_array_instance and inline_ascii_instance show the two former defects F36/F37 as fixed, on the model",
        "balanced: only nesting and the Allowed/Transition table are modelled (theorem table_ok ties the side condition "
        "to the table); the Builder's graphics-state requirements are outside the theorem",
    ],
)
