"""C17 - name and number trees are faithful, ordered dictionaries."""
import os
from vcommon import Check

c = Check("C17")
c.translate(needed=["Gen_C17.v"])
c.coq(["C17"], "C17", "Prop_C17.v")
drv = c.model("C17")
h = c.harness("c17")
if h:
    rc, out = c.run([h], timeout=3000)
    c.log.write(out)
    if rc != 0:
        c.tie_broken("harness c17 crashed", out[-2000:])
    c.absorb_harness()
    if drv and rc == 0:
        rc, out = c.run("%s < cases.txt > model.obs" % drv, timeout=3000)
        if rc != 0:
            c.tie_broken("model driver C17 failed", out[-2000:])
        else:
            mism = c.compare_obs(os.path.join(c.work, "impl.obs"), os.path.join(c.work, "model.obs"), "trees")
            if mism:
                raw = [m for m in mism if m[0].endswith(".raw")]
                c.tie_broken(
                    "correspondence KeyTree (model writer/readers/validator) vs internal/pdftree (implementation): "
                    "%d of the compared observations differ (%d of them on raw node dictionaries of the real writer)"
                    % (len(mism), len(raw)),
                    [{"id": k, "impl": a[:300], "model": b[:300]} for k, a, b in mism[:10]],
                )
c.finish(
    assumptions=[
        "keys are compared as Go compares them: names byte-wise lexicographically (string <), integers numerically",
        "the number of entries is below maxChildren^(maxDepth-2) = 64^254 (the readers' documented nesting cap of 256 levels)",
        "the writer model builds an inductive tree (no object numbers); the readers are modelled twice: on trees (KeyTree.v) and on heaps of node objects connected by references with the seen set (KeyGraph.v), related by graph_lookup_tree / graph_all_tree",
    ],
    trusted=[
        "hand-written Gallina model coq/C17/KeyTree.v of internal/pdftree/{write,streaming,memory}.go, tied by correspondence",
        "translator constants maxChildren, MaxNameTreeDepth, MaxNumberTreeDepth (coq/Gen/Gen_C17.v)",
    ],
    partial=[],
)
