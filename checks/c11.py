"""C11 - Copier reproduces the source object graph in the target file."""
import os
from vcommon import Check

PARTIAL = []

c = Check("C11")
c.translate(needed=["Gen_C11.v"])
c.coq(["C11"], "C11", "Prop_C11.v")
drv = c.model("C11")
h = c.harness("c11")
if h:
    rc, out = c.run([h], timeout=3000)
    c.log.write(out)
    if rc != 0:
        c.tie_broken("harness c11 crashed", out[-2000:])
    c.absorb_harness()
    if drv and rc == 0:
        rc, out = c.run("%s < cases.txt > model.obs" % drv, timeout=3000)
        if rc != 0:
            c.tie_broken("model driver C11 failed", out[-2000:])
        else:
            mism = c.compare_obs(os.path.join(c.work, "impl.obs"), os.path.join(c.work, "model.obs"), "copy")
            # <id>            target graph (canonical form) and number of Puts: model copier vs real Copier
            # <id>.k          certified checker iso_ok on the graphs read back from the two real files
            # <id>.k.cs/.ct   the harness's canonical form vs the extracted one, on the same graphs
            # <id>.k.y        per copied stream: ciphertext in the target file? model decision vs observation
            kinds = {"model": [], "checker": [], "canon": [], "crypt": []}
            for k, a, b in mism:
                if k.endswith(".k.y"):
                    kinds["crypt"].append((k, a, b))
                elif k.endswith(".k"):
                    kinds["checker"].append((k, a, b))
                elif k.endswith(".cs") or k.endswith(".ct"):
                    kinds["canon"].append((k, a, b))
                else:
                    kinds["model"].append((k, a, b))
            if kinds["model"]:
                c.tie_broken(
                    "correspondence Copier.copy_obj/run_calls (model) vs pdf.Copier (implementation): "
                    "%d of the compared call sequences give a different target graph or number of Puts" % len(kinds["model"]),
                    [{"id": k, "impl": a[:600], "model": b[:600]} for k, a, b in kinds["model"][:6]],
                )
            if kinds["checker"]:
                c.tie_broken(
                    "certified checker Checker.iso_ok rejects the target graph read back from the real files in %d cases "
                    "(theorem iso_ok_sound no longer applies to them)" % len(kinds["checker"]),
                    [{"id": k, "impl": a[:200], "model": b[:200]} for k, a, b in kinds["checker"][:6]],
                )
            if kinds["crypt"]:
                c.tie_broken(
                    "StreamCrypt.predict_cipher (model of streamCryptRecipe / Writer.OpenStream) vs the real target files: "
                    "in %d cases a copied stream's data is ciphertext where the model says plaintext or vice versa" % len(kinds["crypt"]),
                    [{"id": k, "impl": a[:300], "model": b[:300]} for k, a, b in kinds["crypt"][:6]],
                )
            if kinds["canon"]:
                c.tie_broken(
                    "the harness's canonical graph form and the extracted Checker.canon differ in %d cases" % len(kinds["canon"]),
                    [{"id": k, "impl": a[:600], "model": b[:600]} for k, a, b in kinds["canon"][:6]],
                )
c.finish(
    assumptions=[
        "Redirect is called for references that have no translation yet (a later Redirect replaces a translation copies may already have used: copy_again_refuted)",
        "source and call objects are file-shaped: a stream is never a part of another object (PDF 7.3.8; true of everything the Reader returns); needed for copy_total only",
        "target object numbers stay below maxXRefSize (Writer.Alloc panics there by design)",
        "stream data (copy_stream_bytes): the ciphers are any enc/dec with dec (enc x) = x, the remaining filters any function of the inlined /Filter and /DecodeParms that does not depend on object numbers; the source stream's filter chain is one GetFilters accepts; a /Crypt filter other than /Identity in an encrypted source is the copier's documented 'not yet supported' error",
        "target readability is judged by go-pdf's own Reader: a /Crypt /Identity stream copied from a V4/V5 source into an RC4 (V<4, PDF < 1.5) target keeps /Filter /Crypt with the body stored as it was in the source (exempt there too); go-pdf reads it back to the same bytes, so no C11 clause fails, although PDF < 1.5 has no Crypt filters and other readers may object",
        "a dictionary-declared /Crypt filter other than /Identity is refused by Writer.OpenStream (F64): copying such a stream is an error result, not a copy; such sources (undecodable by go-pdf itself) are not generated",
        "reading the source raises no I/O error (C19); Writer.Put/Reader round trip of the written objects is C02",
        "isomorphism is stated with alias references contracted and /Filter, /DecodeParms inlined, as CopyReference and copyStreamDict define it; a null dictionary entry equals an absent one (the Writer drops it)",
    ],
    trusted=[
        "hand-written Gallina model coq/C11/Copier.v of copier.go/resolve.go (resolvePath), tied by correspondence",
        "the harness's reading of both files into the checker's wire format (Reader.Get on every object, DecodeStream for stream data)",
    ],
    partial=PARTIAL,
)
