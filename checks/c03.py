"""C03 - written files are structurally valid ISO 32000 (independent strict validator)."""
import collections
import os
from vcommon import Check

c = Check("C03")
c.translate(needed=["Gen_Consts.v", "Gen_Limits.v", "Gen_C02.v"])
c.coq(["C02", "C03"], "C03", "Prop_C03.v")
drv = c.model("C03")
h = c.harness("c03")


def load(path):
    d = {}
    if not os.path.exists(path):
        return d
    for ln in open(path, errors="replace"):
        ln = ln.rstrip("\n")
        if not ln:
            continue
        k, _, v = ln.partition(" ")
        if "." not in k:
            k = k + " " + v.split(" ")[0]
        d[k] = v
    return d


def judge(expect_path, got_path, what, nometa=()):
    """Every difference is a file (or a reference in it) on which the validator and what was written disagree."""
    a, b = load(expect_path), load(got_path)
    b = {k: v for k, v in b.items() if not (k.endswith(" meta") and k.split(" ")[0] in nometa)}
    bad = [(k, a.get(k, "<missing>"), b.get(k, "<missing>")) for k in sorted(set(a) | set(b)) if a.get(k) != b.get(k)]
    c.cov["traces_validated_against_model"] = c.cov.get("traces_validated_against_model", 0) + len(a)
    return bad


if h:
    rc, out = c.run([h], timeout=3000)
    c.log.write(out)
    if rc != 0:
        c.tie_broken("harness c03 crashed", out[-2000:])
    c.absorb_harness()
    if drv and rc == 0:
        rc, out = c.run("ulimit -s unlimited 2>/dev/null; %s -notes notes.txt -files model_files.txt < cases.txt > model.obs" % drv, timeout=3000)
        if rc != 0:
            c.tie_broken("validator driver C03 failed", out[-2000:])
        else:
            nometa = set()
            p = os.path.join(c.work, "nometa.txt")
            if os.path.exists(p):
                nometa = set(x.strip() for x in open(p))
            bad = judge(os.path.join(c.work, "impl.obs"), os.path.join(c.work, "model.obs"), "real", nometa)
            rejected = set(k.split(" ")[0] for k, _, _ in bad if k.endswith(" verdict"))
            # the failing input itself: the bytes of the file (hex) and, if recorded, the program that wrote it
            wanted = set(k.split(".")[0].split(" ")[0] for k, _, _ in bad[:40])
            inputs = {}
            if wanted:
                for ln in open(os.path.join(c.work, "cases.txt"), errors="replace"):
                    f = ln.split(" ", 3)
                    if len(f) >= 3 and f[1] == "F" and f[0] in wanted:
                        inputs.setdefault(f[0], {})["file_hex"] = f[3].strip() if len(f[3]) < 4000000 else f[3][:4000000] + "...(truncated)"
                        inputs[f[0]]["encrypted"] = f[2]
                    elif len(f) >= 3 and f[1] == "P" and f[0].endswith("m") and f[0][:-1] in wanted:
                        inputs.setdefault(f[0][:-1], {})["program"] = ln.strip()[:200000]
            bad = [b for b in bad if b[0].endswith(" verdict") or b[0].split(".")[0].split(" ")[0] not in rejected]
            for k, want, got in bad[:40]:
                if k.endswith(" verdict"):
                    sig = "validator-rejects:" + (got.split(" ")[-1] if got != "<missing>" else "no-verdict")
                    c.fail(sig, "the strict validator rejects a file the Writer produced (%s)" % got, dict(inputs.get(k.split(" ")[0], {}), case=k.split(" ")[0]))
                else:
                    c.fail("validator-extracts-different-value",
                           "the validator extracts something else than was written: %s: written %s, extracted %s" % (k, want[:200], got[:200]),
                           dict(inputs.get(k.split(".")[0].split(" ")[0], {}), case=k.split(".")[0].split(" ")[0], reference=k))
            notes = collections.Counter()
            p = os.path.join(c.work, "notes.txt")
            if os.path.exists(p):
                for ln in open(p):
                    notes[" ".join(ln.split()[1:])] += 1
            for k, v in sorted(notes.items()):
                c.notes.append("validator note: %s in %d files (conforming to the property's clauses; reported, not failed)" % (k, v))
            # files of the model writer (the executed side of validate_model_writer)
            rc, out = c.run([h, "-oracle", "model_files.txt"], timeout=3000)
            c.log.write(out)
            if rc != 0:
                c.tie_broken("harness c03 -oracle crashed", out[-2000:])
            else:
                rc, out = c.run("ulimit -s unlimited 2>/dev/null; %s < cases2.txt > model2.obs" % drv, timeout=3000)
                if rc != 0:
                    c.tie_broken("validator driver C03 failed on the model writer's files", out[-2000:])
                else:
                    bad = judge(os.path.join(c.work, "impl2.obs"), os.path.join(c.work, "model2.obs"), "model")
                    if bad or not os.path.exists(os.path.join(c.work, "impl2.obs")):
                        c.tie_broken(
                            "validate_model_writer (executed): the validator on files of the model writer: %d observations differ" % len(bad),
                            [{"id": k, "written": a[:300], "validator": b[:300]} for k, a, b in bad[:10]],
                        )
c.finish(
    assumptions=[
        "inflate (and, in encrypted files, decryption) is an oracle table computed by the harness with Go's compress/zlib (go-pdf's decoders only for filter chains and ciphers); a body missing from the table is a rejection",
        "the cross-reference stream lists its own object number as free (type 0) and writes object 0's generation truncated to the width of field 3: both conform to the clauses of the property and are reported as notes",
        "strings of encrypted files are compared masked (the validator sees ciphertext)",
    ],
    trusted=[
        "hand-written Gallina validator coq/C03/Validate.v + PSyntax.v (from ISO 32000-2 §7.2-7.5; shares only the value datatype with the C02 models)",
    ],
    partial=[
        "validate_strict adds to validate the two boundary checks and, for every stream object, 7.3.8.2 Table 5: /Filter a name (with /DecodeParms absent or a dictionary) or an array of names (with /DecodeParms absent or an array of exactly the same length whose entries are dictionaries or null); sound_filter_parms states it, model_stream_dicts_aligned proves that every stream dictionary the model writer renders passes it (chains of any length and any pattern of parameters, also stacked on a chain the caller's dictionary declares); the check runs on every file, the generator writes every pattern of (parameters / none) over chains of 1..8 filters in every run.",
        "validate_model_writer_full (Definition): proved are validate_model_writer_partial (every structural fact validate checks holds of every output of the model writer) and parser_accepts_formatter / parser_accepts_object / parser_accepts_stream_dict (the validator's parser reads the canonical formatter's text of every well-formed value as its normal form); the composition into 'validate returns Ok' over whole files is executed on every case.",
        "strict_subset_lenient_full (Definition): stated, not proved; compared on every file of every run (go-pdf's Reader and the validator answer the same references of the same file).",
    ],
)
