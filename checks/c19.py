"""C19 - I/O failures surface as I/O failures, never swallowed or blamed on the file."""
import os
from vcommon import Check

c = Check("C19")
c.translate(needed=["Gen_C19.v"])
c.coq(["C19"], "C19", "Prop_C19.v")
drv = c.model("C19")
h = c.harness("c19")
if h:
    rc, out = c.run([h], timeout=3000)
    c.log.write(out)
    if rc != 0:
        c.tie_broken("harness c19 crashed", out[-2000:])
    c.absorb_harness()
    timeouts = int(c.cov.get("watchdog_timeouts", 0) or 0)
    if drv and rc == 0:
        if c.tier == "thorough":
            # the driver is single-threaded and quadratic in the length of a trace:
            # shard the case lines over several processes (each line is independent)
            shards = 8
            parts = [open(os.path.join(c.work, "cases.%d.txt" % i), "w") for i in range(shards)]
            for n, ln in enumerate(open(os.path.join(c.work, "cases.txt"))):
                parts[n % shards].write(ln)
            for f in parts:
                f.close()
            cmd = " & ".join("%s < cases.%d.txt > model.%d.obs" % (drv, i, i) for i in range(shards))
            rc, out = c.run("(" + cmd + " & wait) ; cat " + " ".join("model.%d.obs" % i for i in range(shards)) + " > model.obs ; "
                            "test $(wc -l < model.obs) -ge $(grep -c . cases.txt)", timeout=3000)
        else:
            rc, out = c.run("%s < cases.txt > model.obs" % drv, timeout=3000)
        if rc != 0:
            c.tie_broken("model driver C19 failed", out[-2000:])
        elif timeouts == 0:
            # One-shot faults that deliver data together with the error: the model
            # predicts a set ('*' = the fault-free result or the injected error, which
            # of the two depends on the bytes); the observation is projected onto it.
            # While the PeekN finding is open, the lines of mode `one` are judged by
            # the direct oracle only.
            import json
            kf = json.load(open(os.path.join(os.path.dirname(os.path.abspath(__file__)), "..", "findings", "C19.json")))["entries"]
            one_open = any(k.get("kind") == "finding" and "one-byte-read-with-error" in k.get("signature", "") for k in kf)
            c.cov["open_findings"] = [k["signature"] for k in kf if k.get("kind") == "finding"]
            impl_p, model_p = os.path.join(c.work, "impl.obs"), os.path.join(c.work, "model.obs")
            model = {}
            for ln in open(model_p):
                k, _, v = ln.rstrip("\n").partition(" ")
                model[k] = v
            proj_i, proj_m = os.path.join(c.work, "impl.proj.obs"), os.path.join(c.work, "model.proj.obs")
            with open(proj_i, "w") as oi, open(proj_m, "w") as om:
                for ln in open(impl_p):
                    k, _, v = ln.rstrip("\n").partition(" ")
                    m = model.pop(k, None)
                    if one_open and k.endswith(".one"):
                        continue
                    if m is not None and "*" in m:
                        vw, mw = v.split(" "), m.split(" ")
                        if len(vw[0]) == len(mw[0]):
                            vw[0] = "".join("*" if (b == "*" and a in "si") else a for a, b in zip(vw[0], mw[0]))
                            v = " ".join(vw)
                    oi.write(k + " " + v + "\n")
                    if m is not None:
                        om.write(k + " " + m + "\n")
                for k, m in model.items():
                    if not (one_open and k.endswith(".one")):
                        om.write(k + " " + m + "\n")
            mism = c.compare_obs(proj_i, proj_m, "outcome")
            if mism:
                c.tie_broken(
                    "correspondence ErrFlow/Sink programs (model) vs pdf.Reader / pdf.Writer (implementation): %d of the compared observation lines differ" % len(mism),
                    [{"id": k, "impl": a[:300], "model": b[:300]} for k, a, b in mism[:10]],
                )
        else:
            c.notes.append("enumeration abandoned after %d watchdog timeouts; model comparison skipped" % timeouts)
c.finish(
    assumptions=[
        "failing ReadAt calls return (0, err) [from k on / only k] or, one-shot, half / all / one of the bytes together with the error; failing Write / Seek calls return (0, err)",
        "the sink of the correspondence run for Sink.v is deterministic (unencrypted, fixed /ID); encrypted programs are judged by the direct oracle only",
        "object streams are not located by SequentialScan, so that open path is exercised on documents without them",
    ],
    trusted=[
        "hand-written Gallina programs coq/C19/ErrFlow.v (NewReader, Get, DecodeStream, typed decodes, MakeReader), Chain.v, Sink.v; tied by the all-k fault enumeration, not by translation (the ErrorHandling* constants are translated; the shouldExit closures are read from the source and evaluated symbolically by harness/c19/policy.go, their 18-row decision table is compared with ErrFlow.should_exit on every run)",
        "the labelling of ReadAt calls by runtime.Callers and by the text of the call-site line in NewReader/MakeReader",
        "bufio.Writer of the Go standard library behaves as Sink.v models it (checked by comparing sink call sequences)",
    ],
    partial=[],
)
