"""C19 - I/O failures surface as I/O failures, never swallowed or blamed on the file."""
import os
from vcommon import Check

c = Check("C19")
c.translate(needed=["Gen_C19.v"])
c.coq(["C19"], "C19", "Prop_C19.v")
drv = c.model("C19")
h = c.harness("c19")
if h:
    rc, out = c.run([h], timeout=3000)
    c.log.write(out)
    if rc != 0:
        c.tie_broken("harness c19 crashed", out[-2000:])
    c.absorb_harness()
    timeouts = int(c.cov.get("watchdog_timeouts", 0) or 0)
    if drv and rc == 0:
        rc, out = c.run("%s < cases.txt > model.obs" % drv, timeout=3000)
        if rc != 0:
            c.tie_broken("model driver C19 failed", out[-2000:])
        elif timeouts == 0:
            mism = c.compare_obs(os.path.join(c.work, "impl.obs"), os.path.join(c.work, "model.obs"), "outcome")
            if mism:
                c.tie_broken(
                    "correspondence ErrFlow/Sink programs (model) vs pdf.Reader / pdf.Writer (implementation): %d of the compared observation lines differ" % len(mism),
                    [{"id": k, "impl": a[:300], "model": b[:300]} for k, a, b in mism[:10]],
                )
        else:
            c.notes.append("enumeration abandoned after %d watchdog timeouts; model comparison skipped" % timeouts)
c.finish(
    assumptions=[
        "a failing ReadAt / Write / Seek returns (0, err); partial transfers together with an error are not injected",
        "the sink of the correspondence run for Sink.v is deterministic (unencrypted, fixed /ID); encrypted programs are judged by the direct oracle only",
        "object streams are not located by SequentialScan, so that open path is exercised on documents without them",
    ],
    trusted=[
        "hand-written Gallina programs coq/C19/ErrFlow.v (NewReader, Get, DecodeStream, typed decodes, MakeReader), Chain.v, Sink.v; tied by the all-k fault enumeration, not by translation (only the ErrorHandling* constants are translated)",
        "the labelling of ReadAt calls by runtime.Callers and by the text of the call-site line in NewReader/MakeReader",
        "bufio.Writer of the Go standard library behaves as Sink.v models it (checked by comparing sink call sequences)",
    ],
    partial=[],
)
