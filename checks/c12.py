"""C12 - character-code codec implements exactly its code space ranges."""
import os
from vcommon import Check

c = Check("C12")
c.translate(needed=["Gen_C12.v"])
c.coq(["C12"], "C12", "Prop_C12.v")
drv = c.model("C12")
h = c.harness("c12")
if h:
    rc, out = c.run([h], timeout=3000)
    c.log.write(out)
    if rc != 0:
        c.tie_broken("harness c12 crashed", out[-2000:])
    c.absorb_harness()
    if drv and rc == 0:
        rc, out = c.run("%s < cases.txt > model.obs" % drv, timeout=3000)
        if rc != 0:
            c.tie_broken("model driver C12 failed", out[-2000:])
        else:
            mism = c.compare_obs(os.path.join(c.work, "impl.obs"), os.path.join(c.work, "model.obs"), "decode")
            # a disagreement on a `.spec` line is a disagreement between the Go oracle and the Coq
            # specification; any other line is implementation vs model
            if mism:
                c.tie_broken(
                    "correspondence Codec.decode/append_code (model) vs charcode.Codec (implementation): %d of the compared observations differ" % len(mism),
                    [{"id": k, "impl": a, "model": b} for k, a, b in mism[:10]],
                )
c.finish(
    assumptions=[
        "range sets are the ones NewCodec accepts (valid ranges, no code a prefix of another)",
        "an input that ends inside a code is re-encoded as the consumed bytes followed by zero padding (DESIGN.md C12)",
        "bytes are < 256 (wfbs)",
        "a valid range set whose tree needs more nodes than a uint16 child index can address is rejected with an error "
        "(codec_total: NewCodec never panics; codec_accepts_small: never rejected below 65532 nodes counted without sharing)",
    ],
    trusted=["hand-written Gallina model coq/C12/Codec.v of font/charcode/codec.go, tied by correspondence"],
)
