"""C14 - text shown with any font reads back with the same codes, widths and text."""
import os
from vcommon import Check

c = Check("C14")
c.translate(needed=[])
c.coq(["C14"], "C14", "Prop_C14.v")
drv = c.model("C14")
h = c.harness("c14")


def split(name):
    """`<id>.soft` lines describe incidental structure (which codes /ToUnicode lists, how /W is cut
    into runs, FirstChar/LastChar): they are compared for information only."""
    hard = open(os.path.join(c.work, name + ".hard"), "w")
    soft = open(os.path.join(c.work, name + ".soft"), "w")
    for ln in open(os.path.join(c.work, name), errors="replace"):
        k = ln.split(" ", 1)[0]
        (soft if k.endswith(".soft") else hard).write(ln)
    hard.close()
    soft.close()


if h:
    rc, out = c.run([h], timeout=3000)
    c.log.write(out)
    if rc != 0:
        c.tie_broken("harness c14 crashed", out[-2000:])
    c.absorb_harness()
    if drv and rc == 0:
        rc, out = c.run("%s < cases.txt > model.obs" % drv, timeout=3000)
        if rc != 0:
            c.tie_broken("model driver C14 failed", out[-2000:])
        else:
            split("impl.obs")
            split("model.obs")
            mism = c.compare_obs(os.path.join(c.work, "impl.obs.hard"), os.path.join(c.work, "model.obs.hard"), "trace")
            if mism:
                cases = {}
                for ln in open(os.path.join(c.work, "cases.txt"), errors="replace"):
                    k, _, v = ln.partition(" ")
                    cases[k] = v.strip()[:300]
                ops = sorted(set(cases.get(k, "?").split(" ")[0] for k, _, _ in mism))
                c.tie_broken(
                    "trace refinement / correspondence of SimpleEnc, CidEnc, Widths (model) vs simpleenc, cidenc, "
                    "font/dict + graphics/extract (implementation): %d of the compared observations differ (ops %s)"
                    % (len(mism), ",".join(ops)),
                    [{"id": k, "case": cases.get(k, "?"), "impl": a[:300], "model": b[:300]} for k, a, b in mism[:10]],
                )
            n0 = c.cov.get("traces_validated_against_model", 0)
            soft = c.compare_obs(os.path.join(c.work, "impl.obs.soft"), os.path.join(c.work, "model.obs.soft"), "structure")
            n1 = c.cov.get("traces_validated_against_model", 0)
            c.cov["traces_validated_against_model"] = n0
            c.cov["structure_lines_compared"] = n1 - n0
            c.cov["structure_lines_differing"] = len(soft)
            if soft:
                c.notes.append(
                    "incidental structure differs between model and implementation in %d of %d lines "
                    "(ToUnicode code set / W runs / FirstChar-LastChar); the decoded observables agree" % (len(soft), n1 - n0)
                )
c.finish(
    assumptions=[
        "every shown glyph has non-empty text, or its glyph name implies no text (Layout of the test fonts never "
        "produces empty text; with empty text SimpleTextMap falls back to the glyph name: text_derivable_emptytext_refuted)",
        "glyph-name-to-text (names.ToUnicode), names.IsValid, the four base encoding tables and the glyph names chosen by "
        "makeGlyphName are arbitrary functions in the theorems (hypotheses: chosen names are valid; \"\" and \"@\" are not "
        "valid names; \"@\" implies no text)",
        "widths and vertical metrics are compared with == (the model uses integers; NaN is outside the model); the Type 3 "
        "scaling theorem is over the rationals, the float64 code agrees with it up to rounding (checked to 1e-9)",
        "utf16_roundtrip is about Unicode scalar values; Go's []rune(text) conversion of invalid UTF-8 is outside the model",
        "the CID list given to encodeCompositeWidths is strictly increasing with CIDs <= 65535 (slices.Sorted(maps.Keys))",
        "characters outside a font's repertoire (shown as .notdef; for fonts encoded through a predefined CMap also glyphs "
        "outside the character collection) are outside the property: only count, width and writer/reader agreement are checked",
        "NewFromCMap: fromcmap_sound_first_wins (the table the code builds since F50) holds for every CMap; "
        "fromcmap_first_wins / fromcmap_inverse_refuted describe the table before the fix",
    ],
    trusted=[
        "hand-written Gallina models coq/C14/{SimpleEnc,CidEnc,Widths,Encoding,VMetrics,Type3,Utf16}.v of font/encoding/simpleenc, font/encoding/cidenc, "
        "font/dict/metrics.go, graphics/extract/font-metrics.go, font/dict/encoding.go:SimpleTextMap, font/encoding/type1.go "
        "(AsPDFSimple/ExtractSimple/AsPDFType3/ExtractType3), tied by trace refinement / correspondence",
        "seehuhn.de/go/postscript/type1/names (glyph name <-> text, IsValid), golang.org/x/text NFC/NFD, seehuhn.de/go/sfnt (layout, subsetting), "
        "cmap.File.All / cmap.Predefined (the (code, CID) pairs are data for the model)",
    ],
    partial=[
        "under a theorem: code allocation (simple, UTF-8, identity, NewFromCMap over an arbitrary CMap table), the width tables "
        "(/Widths + MissingWidth from the encoder state, /W + /DW from an arbitrary CID->width map, /W2 + /DW2), Type 3 width scaling, "
        "the UTF-16 text values of ToUnicode, "
        "the /Encoding + /Differences round trip and the ToUnicode-omission / reader-side text derivation through the dictionary "
        "actually written (text_derivable_dict); font programs, subsetting, ToUnicode CMap embedding (C13), CMap parsing and "
        "lookup (C13), the charcode codec (C12), PDF name syntax (C01) and extraction are exercised end to end on the "
        "implementation, which is a test",
        "fixed_no_sharing_refuted: encoders with one code per CID (identity, NewFromCMap) give a glyph shown with two different "
        "texts a single code (finding identity-cid-encoder:same-glyph-different-text); identity_consistent is the guarded statement",
        "fromcmap_inverse_refuted describes NewFromCMap before fix F50 (a CID kept a code which a child CMap re-maps to another "
        "CID); the code now builds the table modelled by tbl_all_sound (fromcmap_sound_first_wins, every CMap); "
        "fromcmap_first_wins is the guarded statement about the old table",
        "the reader-side codec of fonts whose CMap uses another CMap (dict.makeCodec, fixed in F50) and the TJ arrays of "
        "Builder.TextShowGlyphs (fixed in F49) are not modelled: they are covered by the end-to-end oracle only",
        "text_derivable / text_derivable_dict carry the non-empty-text guard (text_derivable_emptytext_refuted shows it is needed)",
        "which free code Encode picks (base-encoding match, scoring), glyph naming (makeGlyphName) and the NFC single-rune code of "
        "the UTF-8 encoder are angelic / outside the model",
    ],
)
