"""C05 - opening and walking arbitrary bytes never crashes, hangs, leaks or explodes."""
import os
from vcommon import Check

c = Check("C05")
c.translate(needed=["Gen_C05.v", "Gen_Limits.v", "Gen_Consts.v"])
c.coq(["C05"], "C05", "Prop_C05.v")
drv = c.model("C05")
h = c.harness("c05")
if h:
    # the harness is its own orchestrator: worker processes, watchdogs, three fresh
    # confirmation runs per suspected hang / leak / slow / over-budget case
    rc, out = c.run([h, "-dir", c.work], timeout=3600 if c.tier == "thorough" else 1800)
    c.log.write(out)
    if rc != 0:
        c.tie_broken("harness c05 crashed", out[-2000:])
    c.absorb_harness()
    cases = os.path.join(c.work, "cases.txt")
    if drv and rc == 0 and os.path.exists(cases):
        rc, out = c.run("%s < cases.txt > model.obs" % drv, timeout=3000)
        if rc != 0:
            c.tie_broken("model driver C05 failed", out[-2000:])
        else:
            mism = c.compare_obs(os.path.join(c.work, "impl.obs"), os.path.join(c.work, "model.obs"), "walk")
            if mism:
                fam = {}
                for ln in open(cases, errors="replace"):
                    k, _, v = ln.partition(" ")
                    fam[k] = v[:1]
                names = {
                    "S": "Refill.run_ops (scanner buffer: refill/PeekN/ReadByte/ScanBytes/SkipWhiteSpace) vs pdf.scanner",
                    "P": "PrevChain.read_xref (the /Prev loop with its seen set) vs Reader.readXRef",
                    "R": "Resolve.resolve_in (cycle check and depth cap) vs pdf.Resolve",
                    "W": "Walk.iter_pages/find_pages vs pagetree.Iterator.All/FindPages",
                    "T": "Walk.tree_all vs nametree FromFile.All",
                    "O": "Walk.outline_items vs outline.Decode",
                    "X": "XRefCount.read_xref_stream vs checkXRefStreamDict+decodeXRefStream",
                    "J": "ObjStmIndex.objstm_find (/N, /First, offset table, member lookup) vs getObjStm/getFromObjStm",
                    "D": "DecodePath.decode_in (path, depth cap, cache) vs pdf.Decode with a recursive typed decoder",
                    "N": "Nest.read_object (nesting depth cap) vs scanner.ReadObject",
                    "G": "ObjStmGet.get_in (no re-entry of object streams) vs Reader.Get of compressed objects",
                }
                by = {}
                for k, a, b in mism:
                    by.setdefault(fam.get(k, "?"), []).append((k, a, b))
                for f, ms in sorted(by.items()):
                    c.tie_broken(
                        "correspondence %s: %d of the compared observations differ" % (names.get(f, f), len(ms)),
                        [{"id": k, "impl": a[:300], "model": b[:300]} for k, a, b in ms[:8]],
                    )
    elif rc == 0:
        c.tie_broken("harness c05 wrote no model cases", "cases.txt missing")
c.finish(
    assumptions=[
        "the byte source of a scanner is a byte string followed by one terminal event (EOF or an error) and honours the io.Reader contract (no endless (0, nil) reads); io.ReadFull is the Go standard library's",
        "an /Index array has at most maxArrayLen entries (the scanner's own cap), so the int64 sum of the subsection sizes cannot wrap",
        "object graphs for the page tree, outline walkers are finite association lists (the cross-reference table is finite); reference following and the name tree walker need no finiteness (depth caps)",
    ],
    trusted=[
        "hand-written Gallina models coq/C05/{Refill,PrevChain,Resolve,Walk,XRefCount,ObjStmGet,ObjStmIndex,Nest,DecodePath}.v of scanner.go, xref.go, resolve.go, reader.go (get/getFromObjStm), container.go (GetFilters), pagetree/read.go, internal/pdftree/streaming.go, outline/outline.go - tied by correspondence on generated cases, constants by translation (Gen_C05, Gen_Limits, Gen_Consts)",
        "/repo/verif_c05.go (build tag verif): calls the unexported scanner operations and checkXRefStreamDict/decodeXRefStream",
        "watchdog, runtime.MemStats and runtime.NumGoroutine readings of harness/c05",
    ],
    partial=[
        "MEASURED, not proved: no theorem speaks about goroutines, allocation or seconds. The harness measures the CPU time of the worker process per case (budget 3 s + 0.15 ms/byte; a case is given up after twice that + 3 s of CPU time; the wall clock is only a 90 s guard against a case that blocks without using the CPU, and the worker's 45 s budget only cuts the number of random mutants), TotalAlloc (budget 512 MiB + 16 KiB/byte) and the goroutines before/after every case (waiting on the condition for up to 20 s; a leak is a leftover goroutine that stays parked with none runnable) and re-runs a suspect three times in fresh processes, one after the other.",
        "objstm_reader_leak_refuted: on the code BEFORE F55 getObjStm leaves the decoded reader open on its error paths (proved on the variant close_on_error = false); the code as it is satisfies objstm_reader_ownership / objstm_get_closes_reader. The tie of the ownership component is the goroutine accounting: the J cases are also run with the object stream behind /DCTDecode (shaped JPEG that decodes exactly to the index text), where an unclosed reader is a leaked producer goroutine",
        "objstm_get_reentry_refuted: a variant of Reader.get that fetches the dictionary entries of an object stream with canObjStm = true re-enters without bound (proved on the variant model, depflag = true); the code as it is satisfies objstm_get_depth_bounded. The model abstracts /Length, /N, /First, /Extends resolution into the same dependency list as /Filter and /DecodeParms",
        "scan_bytes_spin_refuted: on the code BEFORE the F16 repair ScanBytes spins for every fuel once the source error is latched and the buffer consumed (proved on the variant model scan_bytes_prefix); the code as it is now satisfies scan_bytes_total",
        "the theorems cover the termination skeletons (buffer state machine, /Prev loop, reference following, the three walkers, xref-stream entry count); the object syntax (C01), xref table parsing, filters (C08), font programs, JBIG2, DCT, content-stream interpretation are exercised by the mutant walk only",
        "tree_walk_once proves at-most-once dereferencing of kid references (hence linear work) for the name tree walker; its termination is structural (depth cap); direct (non-reference) kid dictionaries are not modelled",
        "the name tree Lookup path (lookupInNode) and Cursor-based Decode caching are not modelled",
    ],
)
