"""C18 - concurrent reading equals sequential reading and shares decoded objects."""
import os
import re
from vcommon import Check

c = Check("C18")
c.translate(needed=[])
c.coq(["C18"], "C18", "Prop_C18.v")
drv = c.model("C18")

# 1. every schedule of the small programs on the real code, replayed in the extracted model
h = c.harness("c18")
if h:
    rc, out = c.run([h], timeout=3000)
    c.log.write(out)
    if rc != 0:
        c.tie_broken("harness c18 crashed", out[-3000:])
    c.absorb_harness()
    for k in ("input_distribution", "impl_failing_cases"):
        if k in c.cov:
            c.cov["schedules_" + k] = c.cov.pop(k)
    if drv and rc == 0:
        rc, out = c.run("%s < cases.txt > model.obs" % drv, timeout=3000)
        if rc != 0:
            c.tie_broken("model driver C18 failed", out[-2000:])
        else:
            mism = c.compare_obs(os.path.join(c.work, "impl.obs"), os.path.join(c.work, "model.obs"), "schedules")
            if mism:
                c.tie_broken(
                    "correspondence Cache.step (model) vs Decode/DecodeExclusive/StoreOrLoadPair (implementation): "
                    "%d of the replayed schedules differ in status vectors, decoder runs, outcomes or sharing" % len(mism),
                    [{"id": k, "impl": a, "model": b} for k, a, b in mism[:10]],
                )

# 2. random mixes under the Go scheduler in a -race build (a TEST, see `partial`)
hr = c.harness("c18", race=True)
if hr:
    rdir = os.path.join(c.work, "race")
    os.makedirs(rdir, exist_ok=True)
    rc, out = c.run([hr, "-dir", rdir], timeout=3000,
                    envx={"C18_MODE": "race", "GORACE": "halt_on_error=0 exitcode=0 history_size=2"})
    c.log.write(out)
    races = out.count("WARNING: DATA RACE")
    c.cov["race_detector_reports"] = races
    if races:
        i = out.index("WARNING: DATA RACE")
        block = out[i:i + 3000]
        funcs = re.findall(r"^\s+(seehuhn\.de/go/pdf[^\s(]*)\(", block, re.M)
        c.fail("data-race", "the race detector reports a data race in %s" % (", ".join(dict.fromkeys(funcs[:4])) or "the library"),
               {"reports": races, "first_report": block.split("\n")[:40]})
    elif "fatal error: concurrent map" in out:
        c.fail("data-race", "the Go runtime aborts: concurrent map access", {"output": out[-2500:].split("\n")})
    elif rc != 0:
        c.tie_broken("race harness c18 crashed", out[-3000:])
    c.absorb_harness(os.path.join("race", "stats.json"), os.path.join("race", "fails.jsonl"))
    for k in ("input_distribution", "impl_failing_cases"):
        if k in c.cov:
            c.cov["race_" + k] = c.cov.pop(k)

c.finish(
    assumptions=[
        "the decode functions passed to Decode/DecodeExclusive perform cache operations only through the cursor "
        "they are given or a fresh one, ignore errors of nested calls, and fail or return nil as a function of (object, type)",
        "StoreOrLoadPair is applied to references of real objects, not to alias objects (objects that are themselves a reference)",
        "no_deadlock_ranked: the relation 'the decode function of key k calls DecodeExclusive for key k'' (through nested "
        "plain Decodes) is well-founded, given as a rank on (reference, type) keys - the documented sink restriction is "
        "the special case; a cyclic dependency admits no rank and deadlocks (Examples)",
        "seq_equiv (exact characterisation of when the interleaved outcome differs from the run-alone outcome: a cache "
        "hit before a cycle/depth check, or a StoreOrLoadPair view of an object the decoder rejects): DecodeExclusive "
        "is called with a fresh cursor",
        "Reader.Get is a function of the reference (the file is immutable) and is modelled by `next`; I/O errors are out of scope (C19)",
    ],
    trusted=[
        "hand-written Gallina model coq/C18/Cache.v of resource.go/cursor.go; its atomic steps are the stretches between "
        "the verif scheduling hooks, tied by replaying every explored schedule",
        "the cooperative controller in harness/c18 (goroutines parked at pdf.VerifSchedHook; a goroutine about to "
        "receive from p.done counts as enabled only once the channel is closed)",
        "verifLocked (TryLock) reporting a critical section entered without Extractor.mu",
        "Go race detector (go1.26 -race, CGO) for data-race freedom",
    ],
    partial=[
        "data-race freedom and the package-level state (zlib pools, predefined CMaps, CID text mappings) are the race "
        "detector's verdict on randomly scheduled mixes: a TEST over sampled schedules, not a proof",
        "pool interference has in addition a deterministic oracle in the plain build (coverage.pool): every filter chain "
        "over {Flate,LZW,A85,AHx,RL} of length 1-3 is decoded and closed, then 3 Flate + 3 LZW streams of independent "
        "Readers are open at once and read interleaved and must equal their sequential contents - an enumeration of "
        "chains, still a TEST with respect to schedules",
        "per-call derived state (per-object decryption keys, object streams, xref streams, error-handling modes): 8 file "
        "configurations (RC4-40, RC4-128, AESV2, AESV3, with/without cross-reference and object streams, unencrypted) are "
        "read by 6 goroutines at once and every result is compared with the sequential one, in the plain and the -race "
        "build (coverage.concurrent_reads) - a TEST over the Go scheduler's interleavings; RC4 /Length 48..120 needs the "
        "proposed hook VerifC18RekeyRC4",
        "two windows without a scheduling point are exercised under real preemption (coverage.stress, plain and -race "
        "build; TESTS): first lookups of 30 fresh predefined CMap names by 16 goroutines behind a barrier (pointer identity, "
        "IsPredefined), and 30000 (race: 8000) rounds of 8 goroutines calling DecodeExclusive on a fresh Extractor with the "
        "garbage collector kept busy (the decode function must run once)",
        "error values as package-level state: a deterministic oracle (coverage.errors) runs a catalogue of 18 failing calls "
        "on Reader A alone, on Reader B alone and interleaved and compares err.Error() text, IsMalformed / errors.Is, the "
        "dynamic type chain and MalformedFileError.Loc with the run-alone result; the same calls run concurrently from "
        "independent Readers in the -race mix; a go/ast scan lists package-level *MalformedFileError variables as a diagnostic",
        "the model's atomic steps are sound only if every critical section really is protected by Extractor.mu; the "
        "enumeration exercises this (verifLocked fires on a missing Lock) but does not prove it",
        "two goroutines: ALL schedules (start steps in fixed order: they are thread-local); three goroutines and the "
        "programs listed under programs_sampled: a fixed budget of random schedules (sampling)",
        "Reader.Get / DecodeStream themselves (scanner, filters) are covered only by the race runs, not by the model",
    ],
)
