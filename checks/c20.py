"""C20 - a truncated or xref-damaged file still gives up every object completely written."""
import os
import re
from vcommon import Check

c = Check("C20")
c.translate(needed=["Gen_Consts.v", "Gen_Scan.v"])
c.coq(["C20"], "C20", "Prop_C20.v")
drv = c.model("C20")
h = c.harness("c20")
if h:
    rc, out = c.run([h], timeout=3000)
    c.log.write(out)
    if rc != 0:
        c.tie_broken("harness c20 crashed", out[-2000:])
    c.absorb_harness()
    if drv and rc == 0:
        # K model processes.  A file of which every prefix is a case (ids d...) goes to all of
        # them, each taking every K-th prefix; the other files go to one process each.
        K = 6 if c.tier == "quick" else 8
        shards = []
        for i in range(K):
            os.makedirs(os.path.join(c.work, "m%d" % i), exist_ok=True)
            shards.append(open(os.path.join(c.work, "m%d" % i, "cases.txt"), "w"))
        n, docs, cur = 0, 0, None
        for ln in open(os.path.join(c.work, "cases.txt"), errors="replace"):
            w = ln.split(" ", 2)
            if w[1:2] == ["F"]:
                if w[0].startswith("d"):
                    cur = None
                    for i, f in enumerate(shards):
                        f.write(ln if i == 0 else w[0] + " f " + w[2])
                else:
                    cur = shards[docs % K]
                    docs += 1
                    cur.write(ln)
            elif cur is not None:
                cur.write(ln)
            else:
                shards[n % K].write(ln)
                n += 1
        for f in shards:
            f.close()
        script = ["for i in %s; do ( cd m$i && '%s' < cases.txt > model.obs ) & done" % (" ".join(str(i) for i in range(K)), drv),
                  "fail=0; for j in $(jobs -p); do wait $j || fail=1; done; exit $fail"]
        rc, out = c.run(["bash", "-c", "\n".join(script)], timeout=3000, envx={"OCAMLRUNPARAM": "s=8M"})
        if rc != 0:
            c.tie_broken("model driver C20 failed", out[-2000:])
        else:
            differ, tame = 0, [0, 0]
            with open(os.path.join(c.work, "model.obs"), "w") as mo, open(os.path.join(c.work, "ideal.txt"), "w") as io_:
                for i in range(K):
                    d = os.path.join(c.work, "m%d" % i)
                    mo.write(open(os.path.join(d, "model.obs"), errors="replace").read())
                    lines = open(os.path.join(d, "ideal.txt"), errors="replace").read().strip().split("\n")
                    io_.write("\n".join(lines[:-1][:60]) + ("\n" if len(lines) > 1 else ""))
                    m = re.match(r"windowed and ideal search differ on (\d+) cases; (.*)$", lines[-1])
                    if m:
                        differ += int(m.group(1))
                        m2 = re.match(r"(\d+) of (\d+) files are tame", m.group(2))
                        if m2:
                            tame[0] += int(m2.group(1))
                            tame[1] += int(m2.group(2))
                    os.remove(os.path.join(d, "cases.txt"))
                    os.remove(os.path.join(d, "model.obs"))
                io_.write("windowed and ideal search differ on %d cases; %d of %d files are tame\n" % (differ, tame[0], tame[1]))
            mism = c.compare_obs(os.path.join(c.work, "impl.obs"), os.path.join(c.work, "model.obs"), "scan")
            if mism:
                c.tie_broken(
                    "correspondence SeqScan (model: win_scan / locate / check_objects / make_xref) vs pdf.SequentialScan (implementation): %d of the compared observations differ" % len(mism),
                    [{"id": k, "impl": a, "model": b} for k, a, b in mism[:10]])
            ip = os.path.join(c.work, "ideal.txt")
            if os.path.exists(ip):
                txt = open(ip).read()
                last = txt.strip().split("\n")[-1]
                c.cov["windowed_vs_ideal_and_tameness"] = last
                c.log.write(txt[:5000])
c.finish(
    assumptions=[
        "H-regexp: Go's regexp package implements markerRegexp / startRegexp as the hand-written matcher SeqScan.line_marker / start_here does",
        "H-parse (theorems): the object parser is suffix-stable on complete chunks, fails with Malformed or EOF on proper prefixes of a chunk and never returns another error class on in-memory data; exercised on the implementation for every cut. Instantiated for integer objects (`N G obj LF digits LF endobj`): IntObjects.parse_int satisfies the three hypotheses (Prop_C20.hparse_instance), prefix_complete_int_objects / trailing_broken_int_objects hold with no parser assumption, and parse_int is compared with scanner.ReadIndirectObject on integer objects, all their prefixes and with LF + arbitrary bytes appended. Not instantiated for the other kinds of value: suffix stability for dictionary/array/string/name/real/stream chunks is C01's object-syntax round trip (a second object-syntax model would be needed here), and for streams with an indirect /Length the outcome is not a function of the chunk alone (it depends on whether the length object lies in the file); the implementation accepts `endobj` only before a delimiter, so of the bytes that may follow a chunk only end-of-input and LF + anything are exercised (what the file shape of the theorems produces)",
        "theorems are about scanner.Find with its buffer windows (SeqScan.scan_windows) and hold for tame files whose header lies within the first 1024 bytes: at every line start no marker text followed by a word character, and no marker text longer than regexpOverlap = 64 bytes; tameness is evaluated for every generated file (windowed_vs_ideal_and_tameness)",
        "theorems: files of the shape header, chunks `N G obj ... endobj`, tail, chunk interiors free of an EOL followed by a marker; the objects inside an object stream are not indirect objects of the file text (SequentialScan lists their container and records it in ObjectStreams, which the harness checks)",
    ],
    trusted=[
        "hand-written Gallina model coq/C20/SeqScan.v of sequential.go / scanner.Find, tied by correspondence on every truncation offset of every all-cuts file (multi-window files of 3-5 KB with every kind of top-level value included); the driver executes scan_windows_fast, proved equal to scan_windows (scan_windows_fast_is_scan_windows)",
        "Gen_Scan.v (scannerBufSize, regexpOverlap), Gen_Consts.v (maxXRefSize, maxGeneration) regenerated from the Go source on every run",
        "the outcome of scanner.ReadIndirectObject at each located candidate, of reading each xref stream object and of readTrailer at each trailer position is taken from the implementation (verif hooks), not modelled; which trailer is chosen (getTrailer) is modelled and proved",
    ],
    partial=[
        "window_pre_F24_refuted documents the pre-fix variant of the model (scan_windows_pre_F24); no theorem about the current code is partial",
    ],
)
