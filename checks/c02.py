"""C02 - file round trip: what Writer wrote is what Reader returns."""
import os
from vcommon import Check

c = Check("C02")
c.translate(needed=["Gen_Consts.v", "Gen_Limits.v", "Gen_C02.v"])
c.coq(["C02"], "C02", "Prop_C02.v")
drv = c.model("C02")
h = c.harness("c02")


def load(path):
    d = {}
    for ln in open(path, errors="replace"):
        ln = ln.rstrip("\n")
        if not ln:
            continue
        k, _, v = ln.partition(" ")
        if "." not in k:  # per-program lines: "<id> <key> ..."
            k = k + " " + v.split(" ")[0]
        d[k] = v
    return d


def diff(a, b):
    return [(k, a.get(k, "<missing>"), b.get(k, "<missing>")) for k in sorted(set(a) | set(b)) if a.get(k) != b.get(k)]


if h:
    rc, out = c.run([h], timeout=3000)
    c.log.write(out)
    if rc != 0:
        c.tie_broken("harness c02 crashed", out[-2000:])
    c.absorb_harness()
    if drv and rc == 0:
        rc, out = c.run("ulimit -s unlimited 2>/dev/null; %s -files model_files.txt < cases.txt > model.obs" % drv, timeout=3000)
        if rc != 0:
            c.tie_broken("model driver C02 failed", out[-2000:])
        else:
            impl = load(os.path.join(c.work, "impl.obs"))
            model = load(os.path.join(c.work, "model.obs"))
            mism = diff(impl, model)
            c.cov["traces_validated_against_model"] = len(impl)
            if mism:
                c.tie_broken(
                    "correspondence Writer model vs pdf.Writer/pdf.Reader: %d of %d compared observations differ "
                    "(acceptance class per operation, per-reference value read back, model self-check)" % (len(mism), len(impl)),
                    [{"id": k, "impl": a[:300], "model": b[:300]} for k, a, b in mism[:10]],
                )
            # cross direction: the real Reader opens what the model writer wrote
            rc, out = c.run([h, "-cross", "model_files.txt"], timeout=3000)
            c.log.write(out)
            if rc != 0:
                c.tie_broken("harness c02 -cross crashed", out[-2000:])
            else:
                cross = load(os.path.join(c.work, "cross.obs"))
                ids = set(k.split(".")[0].split(" ")[0] for k in cross)
                want = {k: v for k, v in model.items()
                        if k.split(".")[0].split(" ")[0] in ids and ("." in k or k.endswith(" meta"))}
                mism = diff(cross, want)
                c.cov["cross_direction_observations"] = len(cross)
                if mism or not cross:
                    c.tie_broken(
                        "cross direction: the real Reader on files written by the model writer: %d of %d observations differ" % (len(mism), len(cross)),
                        [{"id": k, "real_reader": a[:300], "model_expected": b[:300]} for k, a, b in mism[:10]],
                    )
c.finish(
    assumptions=[
        "object syntax is abstract in the proofs: parse (fmt o ++ LF :: rest) = (norm o, LF :: rest) is C01's theorem; the instance that is run uses a canonical formatter",
        "ciphers, filter encoders and zlib are Section variables with dec(enc x) = x; random IVs are a fixed function per Section",
        "the moment a filter chain hands 1024 bytes to the stream writer is angelic input (observed from the sink), it only decides when the indirect /Length object is allocated",
        "values are compared after norm (nil array = null, null dictionary entries absent); for every stream /Filter and /DecodeParms as read back are compared with the model's stream_dict (names and parameters, index by index); a stream whose dictionary already declares /Filter (the caller pre-encodes) is compared on the data after the whole chain has been decoded, and - with the model - on the data after only the filters of OpenStream have been undone",
        "position-dependent behaviour of the reader (its 1024-byte buffer) is outside the model, which has no buffer: the boundary sweeps (objects whose padding grows byte by byte so that every token of a tail of escapes, strings, references, numbers, keywords and closing delimiters falls on the buffer end; direct objects, object-stream members, stream dictionaries; compact, human-readable, RC4) are judged by the direct oracle (written value = value read), a sample of them also runs through the model",
    ],
    trusted=[
        "hand-written Gallina models coq/C02/Writer.v, Reader.v of writer.go/xref.go/reader.go, tied by correspondence in both directions",
        "Gen_Consts.maxXRefSize/maxGeneration, Gen_Limits.MaxXRefEntries, Gen_C02.defaultOutputOptions are regenerated from the Go source on every run",
    ],
    partial=[
        "write_read_full (Definition) is proved in these parts: write_read_table_mode - complete for files with an xref table (Reader.open on the bytes, version, Get of every reference over the re-read map: null / normalised object / stream dictionary and raw data under the three /Length strategies); open_xref_stream_mode - Reader.open for xref-stream files (rows decoded back into the serialised map); write_read_partial + write_read_members - Get over the writer's map for direct objects, streams and members of object streams; filter_chain_read_back + stream_data_round_trip - the chain read from /Filter,/DecodeParms and the decoded data; declared_chain_read_back + declared_chain_is_callers + stream_data_declared_chain + stream_dict_filters_aligned - the same for OpenStream on a dictionary that declares a chain already (any shape of the declaration): the filters of OpenStream come first, the declared ones follow with their own parameters, the arrays stay aligned. Still only executed (on every case): for xref-stream files the transfer of Get from the writer's map to the re-read map (the stream's own number is free and exempt from decryption there), and trailer Root/Info/ID.",
        "the syntax hypotheses are restricted to the contexts that occur (a value before LF endobj / LF stream / LF startxref / the next object-stream member) and to well-formed values; C03's syntax_hypotheses_hold proves them for the canonical formatter and the validator's parser (an unrestricted version would be unsatisfiable: 5 LF 0 R reads as a reference).",
        "no_alias_write_inplace_refuted, put_twice_inplace_refuted, append_filter_direct_refuted: the unsafe variants (F1 in-place RC4; append on the caller's slice) are refuted, the variants the code uses now are proved safe.",
        "acceptance: the model refuses what the formatter refuses (accepts/caps_ok with the translated constants maxStringBytes, maxNameBytes, maxArrayLen, maxDictLen, maxScannerNestDepth, maxFilterChainLength, maxXRefSize, maxObjStmMembers) and distinguishes the three outcomes of a call: ok / refused with the writer unchanged / failed with part of an object written, after which Put, OpenStream, WriteCompressed and Close keep failing (dirty, run_lenient). Proved: lenient_run_is_run_of_accepted, failed_is_absorbing, close_ok_valid (a file that Close reports as written is the file of the accepted calls alone), refused_unchanged (the refusals decided before any effect), accepted_within_reader_caps (every value of an accepted history is within the limits) and reader_caps_force_writer_caps (for a parser that refuses beyond the limits, the syntax hypothesis of write_read is satisfiable only within them). The tie compares, per program, which calls were refused and whether the writer went on or failed (the calls behind a refused one are made as planned), on sweeps with every kind of value at the limit, one below and one above, in every position (Put, WriteCompressed member, stream dictionary, Put behind an open stream), with and without object streams, compact and human readable, encrypted; filter chains of 7/8/9/12 and declared+argument mixes; stale /DecodeParms shapes. Not in the model: the string limit under encryption (the instance that is run has identity ciphers), the last object numbers before 2^24 and the CCITT row bound (direct oracle only: written = read back, or the call fails and nothing is written); a stream dictionary beyond the limits is refused by the model at CloseStream (the code refuses at the Write that starts the stream when the data passes 1024 bytes - not generated).",
        "Info text: every code point U+0000-U+017F and the other characters of PDFDocEncoding (plus some it does not have and one outside the basic plane) is written alone, between ASCII letters and next to a non-encodable character into the seven text fields of the Info dictionary and read back exactly (direct oracle; no Gallina table of PDFDocEncoding exists in this development, so no textstring theorem). Wide objects (hundreds of empty or small containers side by side, also 200 levels down) go through Put, WriteCompressed, stream dictionaries and deferred Puts; WriteCompressed gets its references ascending, descending and shuffled.",
        "findings (fixed in /repo): a WriteCompressed batch of more than 10000 objects was unreadable; operations after Close were accepted; a refused call left an incomplete object or a registered number behind (F72, F76).",
    ],
)
