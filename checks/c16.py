"""C16 - page tree keeps page order, counts and effective attributes."""
import os
from vcommon import Check

c = Check("C16")
c.translate(needed=["Gen_C16.v"])
c.coq(["C16"], "C16", "Prop_C16.v")
drv = c.model("C16")
h = c.harness("c16")
if h:
    rc, out = c.run([h], timeout=3000)
    c.log.write(out)
    if rc != 0:
        c.tie_broken("harness c16 crashed", out[-2000:])
    c.absorb_harness()
    if drv and rc == 0:
        rc, out = c.run("%s < cases.txt > model.obs" % drv, timeout=3000)
        if rc != 0:
            c.tie_broken("model driver C16 failed", out[-2000:])
        else:
            mism = c.compare_obs(os.path.join(c.work, "impl.obs"), os.path.join(c.work, "model.obs"), "programs")
            if mism:
                spec = [m for m in mism if m[0].endswith(".spec")]
                raw = [m for m in mism if m[0].endswith(".raw")]
                c.tie_broken(
                    "correspondence PageTree (model) vs pagetree (implementation): %d of the compared observations differ "
                    "(%d between the Coq and the Go statement of the range semantics, %d on raw trees of the real writer, "
                    "%d model writer vs real writer)" % (len(mism), len(spec), len(raw), len(mism) - len(spec) - len(raw)),
                    [{"id": k, "impl": a[:300], "model": b[:300]} for k, a, b in mism[:10]],
                )
c.finish(
    assumptions=[
        "pages are added with AppendPageDict (AppendPage/AppendPageRef differ only in when the dictionary is encoded)",
        "which of several equally good values inheritKey/inheritRotate hoist depends on Go's map iteration order: the theorems hold for every choice",
        "the root writer is closed once, after all other operations",
    ],
    trusted=[
        "hand-written Gallina model coq/C16/PageTree.v of pagetree/{writer,subtree,future,read,simple}.go, tied by correspondence",
        "translator constant maxDegree (coq/Gen/Gen_C16.v)",
    ],
    partial=[
        "page_numbers_exact (any nesting of ranges): the callback log of the model is a permutation of spec_log - the ORDER of the invocations is not specified (a callback whose page number is not known yet is called later); same order is proved for programs on the root range only (page_numbers_partial). The harness compares the real callbacks with the specification as sorted lists and flags a callback that is called twice",
        "the theorems about the written tree are of the form `run prog = Ok out -> ...`: Ok is what every program gives unless it closes the root range itself (run_total): the Go panics the model represents as Err Panic are unreachable (fanout_full, for the code after fix F47; FALSE before it - fanout_refuted_before_F47 about the named pre-fix variant PageTreePre.merge_pre; the F47 witness and a sample of its family run in every tier) and running out of fuel is excluded by no_fuel_exhaustion",
    ],
)
