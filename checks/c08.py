"""C08 - stream decoders are total and resource-bounded on hostile data."""
import os
from vcommon import Check

c = Check("C08")
c.translate(needed=["Gen_C08.v", "Gen_C08dct.v", "Gen_Limits.v"])
c.coq(["C08"], "C08", "Prop_C08.v")
drv = c.model("C08")
h = c.harness("c08")
if h:
    rc, out = c.run([h], timeout=3000)
    c.log.write(out)
    if rc != 0:
        c.tie_broken("harness c08 crashed", out[-2000:])
    c.absorb_harness()
    if drv and rc == 0:
        # the model recurses along its input only in tail position, but the OCaml lists of a
        # 16 MiB output are deep for List.map-like library code: lift the stack limit anyway
        rc, out = c.run("ulimit -s unlimited 2>/dev/null; %s < cases.txt > model.obs" % drv, timeout=3000)
        if rc != 0:
            c.tie_broken("model driver C08 failed", out[-2000:])
        else:
            mism = c.compare_obs(os.path.join(c.work, "impl.obs"), os.path.join(c.work, "model.obs"), "decode")
            if mism:
                names = {
                    "d": "single decoder (ASCIIHex/ASCII85/RunLength/LZW/predictor: Simple.v, LZW.v, Predict.v)",
                    "m": "filter chain over the modelled decoders (Run.decode_stream)",
                    "p": "parameter parsing (Params.parse_flate/parse_lzw/parse_ccitt)",
                    "g": "CCITT row cap (Params.ccitt_geometry) vs the oracle's bound",
                    "c": "GetFilters (Chain.get_filters)",
                    "k": "classification wrappers (Classify.read_all/construct)",
                    "b": "translated limits.StreamBudget/MaxXRefEntries vs the compiled functions",
                    "a": "budget charge vs allocation at the real allocation sites (Charge.v: DCT pixelPlaneBytes/makeImg, predictor, CCITT, JBIG2 pool, LZW)",
                    "f": "DCT frame kinds x scan scripts (DCTFrames.decode_frame) vs the real decoder: accepted or refused, rows written",
                    "w": "progressive JPEG pass counter (Charge.run_scans) vs the real decoder's progVisits/totalProgBlocks on scan scripts",
                    "x": "validators of the real CCITT code tables (CCITT.main_table_ok/run_table_ok)",
                    "e": "CCITT 2-D cursor arithmetic on first rows (CCITT.row2d) vs the real reader",
                }
                kinds = sorted(set(k[0] for k, _, _ in mism))
                c.tie_broken(
                    "correspondence model vs implementation: %d of the compared observations differ: %s"
                    % (len(mism), "; ".join(names.get(k, k) for k in kinds)),
                    [{"id": k, "impl": a, "model": b} for k, a, b in mism[:10]],
                )
c.finish(
    assumptions=[
        "wall time, allocation (runtime.MemStats.TotalAlloc delta) and goroutine counts are MEASURED on the implementation for the generated cases, not proved; "
        "thresholds: 5 s + 50 us per input/output byte of CPU time (user+system of the decoding process: independent of the load on the machine; wall-clock serves only as a hang guard: 90 s without output and without CPU use); StreamBudget(rawLen) + 4*|out| + 1 MiB*(1+stages); goroutine count back to baseline within 2 s of Close; "
        "a suspected violation is re-run three times in fresh processes before it is reported",
        "for JBIG2 inputs with many large regions the LIVE heap is sampled during the decode (runtime.GC + HeapAlloc every 2 ms) against StreamBudget(rawLen) + 1 MiB: this ties the pool model's live <= peak <= taken invariant to the bytes really reachable, by measurement; for those cases the cumulative TotalAlloc is not judged",
        "progressive JPEGs built by the harness from scan scripts (DC/AC, first pass/refinement, EOB-run tokens, restart intervals; up to 10000 scans of 26 bytes over 131044 blocks in the quick tier) run in a process of their own under the general watchdog (5 s + 50 us per byte of CPU time): the decoder's own bound is maxProgPasses = 64 walks over at most StreamBudget(rawLen)/256 = 32768 + 4*rawLen blocks, about 0.3 s + 33 us per input byte, and the scripts need 0.3 s to 1.1 s on the unchanged tree (the tighter watchdog below does not apply to them: it was applied until a slower machine showed that the slowest script used 80% of it); "
        "bodies built to drive a decoder up to its documented WORK cap (these scan scripts: 64 walks over the frame's coefficient blocks; JBIG2 storms of large regions without payload: min(declared pixels, 64 Mi + 4096 per input byte, 512 Mi) pixel operations, whatever the output) get 500 ns of CPU time per admitted operation on top of the general allowance - the unchanged tree needs 35 to 130 ns per operation, and the caps' own constants (e.g. 64 Mi pixel operations for any JBIG2 input: 3 to 5.5 s) are not covered by 5 s + 50 us per byte; every other chain with a JBIG2Decode stage (mutated files, patched page and region sizes) gets the same term for what the cap admits for the bytes that stage can see (raw length if it is the first stage, else the hard cap of 512 Mi operations); "
        "the pass cap itself (blocks walked <= maxProgPasses x blocks allocated + 1, dct_pass_cap) is tied through the hook VerifProgVisits, which reads the real decoder's counter - a change that stops counting some visits is seen by the counter comparison and by the watchdog, not by the theorem",
        "DCT frame kinds: DCTFrames.v models only which SOS may follow which and when rows are written (not the entropy decoding); it is compared on every SOF marker C0..CF x nine scan scripts x 1/3/4 components, and every such body is held to the size of the image it declares (output-bound); rows already written when a file is refused can be lost in the decoder's output buffer, so only the verdict is compared then",
        "budget identity along the chain is measured, not proved for the implementation: JBIG2, DCT, CCITT and predictor stages behind Flate/LZW/RunLength/ASCIIHex stages with enormously expanding bodies are held to StreamBudget(RAW length) by the live-heap and TotalAlloc oracles (chain_memory_bound states the shared cell for the model)",
        "JBIG2 is not modelled: structurally valid but hostile symbol dictionaries (Huffman with refinement and aggregation, every reference ID, several symbols per height class, imported symbols; Huffman without refinement; the package's encoders for Huffman-refinement and arithmetic-aggregation dictionaries and for arithmetic/Huffman/refining text regions, mutated; refinement and text regions referring to missing, repeated or wrong segments, with and without a page) are judged by the oracle only (no panic, malformed classification, resource bounds)",
        "CCITT 2-D bodies packed by the harness from chosen codes (dense reference row, then VR/VL, pass or V0 storms, Columns up to 2^18 quick / 2^20 thorough) and JBIG2 region storms run under a tighter watchdog of 0.75 s + 5 us per byte (the unchanged tree needs < 0.1 s)",
        "output bounds of CCITTFax (rows <= min(MaxImageHeight, MaxImagePixels/Columns)), JBIG2 (<= StreamBudget(rawLen)) and DCT (<= MaxImageBytes) are measured on hostile headers, not proved (those decoders are not modelled)",
        "the models read each decoder with one Read loop over a buffer larger than the data; RunLength may report a clean end instead of Malformed when a consumer buffer boundary falls inside a truncated literal run (both outcomes satisfy C08); the harness compares RunLength stages only where no boundary can fall (note in coq/C08/Simple.v)",
        "zlib (FlateDecode), CCITTFax, JBIG2, DCT decoding are outside the models: for them only the oracle on the implementation applies",
        "DecodeStream over a byte source that fails (hook VerifNewStreamReaderAt) is judged by the oracle only (the source's own error must surface, identical); the classification model is compared on scripted inner readers through the hook VerifAsMalformedFilter",
        "model chains give every stage the full StreamBudget (exact for chains with at most one predictor stage with rows above 4 KiB; the harness compares only those)",
        "Go int is 64-bit (maxInt = 2^63-1) in Params.v; integer arithmetic of the predictor is unbounded in the model because Validate bounds all operands first (proved: validate_bounds)",
        "the budget discipline (Charge.v) is a model of the allocation sites: the size formulas are hand-written from pixelPlaneBytes/makeImg, initBuffers, BufferBytes/NewReaderRaw, bitmapPool "
        "(the translator has no field or index access, so they cannot be translated) and tied by running the real functions through pass-through hooks on all component counts 1,3,4 x all sampling factors 1..4; "
        "that every site charges BEFORE it allocates is read off the code, and measured by the TotalAlloc oracle",
        "the CCITT model (CCITT.v) covers where the reader writes (cursor, line length, row counter) for every sequence of table events; bits, code tables and reference lines are abstracted into those events. "
        "Ties: validators run on the real mainTable/run tables, first-row cursor arithmetic compared with the real reader, row lengths and row counts measured on hostile bodies. CCITT termination rests on 'every event consumes a bit' (table validator) and is otherwise measured (watchdog)",
        "JBIG2Decode reads the page data (bounded by min(budget.Available, 64 MiB+1)) before it charges it: the one site that allocates first; CCITT's changing-element index grows by append (capacity up to 2x its length)",
        "budget_props about MaxXRefEntries hold for 0 <= rawLen < 2^58 - 256 (the Go comment requires rawLen to be a file size); for all of int64 the statement is refuted (maxxref_overflow_refuted)",
    ],
    trusted=[
        "hand-written Gallina models coq/C08/{Simple,LZW,Predict,Params,Chain,Classify,Run}.v of filter.go, container.go, internal/filter/{asciihex,ascii85,runlength,lzw,predict}, tied by correspondence",
        "translated constants and functions coq/Gen/Gen_C08.v, Gen_Limits.v (StreamBudget, MaxXRefEntries, FlatePredictor.isValid, LZW and limit constants)",
        "hooks /repo/verif_c08.go (VerifAsMalformedFilter, VerifNewStreamReaderAt) and internal/filter/{dct/jpeg,predict,jbig2,ccittfax}/verif_c08.go "
        "(VerifPlaneBytes, VerifProgBlock, VerifProgVisits, VerifBufferLens, VerifPoolTrace, VerifWorkLimit, VerifHuffCode, VerifSymCodeLen, VerifMainTable, VerifRunTables, VerifStates): they call the real functions and report sizes; no logic",
        "translated constants and functions coq/Gen/Gen_C08dct.v (jpeg blockSize, bytesPerProgBlock, maxComponents, maxProgPasses; ccittfax decoder states; jbig2 workLimit and its constants)",
    ],
    partial=[
        "a85_out_bound_as_designed_refuted: the design's bound |a85_dec e| <= |e| is false ('z' expands 1 byte to 4); proved instead: a85_out_bound (<= 4*|e|)",
        "maxxref_overflow_refuted: MaxXRefEntries overflows int64 for rawLen >= 2^58-256; guarded version proved (budget_props_maxxref)",
        "classify_before_c59f855_refuted: about Classify.content_read_errors_is, the wrapper as it was before commit c59f855 (an inner error that wraps io.EOF left unclassified); for the current code classify holds in its strict form (io.EOF itself, malformed, or the source's own error)",
        "dct_charge_two_components_refuted: for nComp = 2 pixelPlaneBytes would not cover makeImg's chroma planes; unreachable (the SOF parser accepts 1, 3 or 4 components); dct_charge_covers_alloc is proved for 1, 3, 4",
        "ccitt_row_before_F41_F46_refuted: about CCITT.row2d_before_F41_F46, the decoder as it was before the repairs F41/F46 (a row could be one byte longer than ceil(Columns/8)); for the current code the documented bound is proved (ccitt_row_cap_as_documented)",
        "time/memory/goroutine/output-bound facts for Flate, CCITTFax, JBIG2, DCT: measured only",
    ],
)
