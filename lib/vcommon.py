"""Common machinery for the /verif checks (see DESIGN.md §1, §2).

Every check script (checks/cXX.py) builds a `Check`, calls the stages it needs
and ends with `finish()`, which decides VIOLATION / KNOWN-FINDING / ok, writes
the evidence file and exits.

Stages
  translate()          regenerate coq/Gen/*.v from /repo's current source
  coq(projects, prop)  bring the Coq projects up to date (full .vo build),
                       lint them, re-check the property file and collect
                       `Print Assumptions`
  model(project)       extract the executable model to OCaml and build its driver
  harness(pkg)         build the Go harness against /repo's working tree (-tags verif)
"""
import fcntl
import hashlib
import json
import os
import re
import shutil
import subprocess
import sys
import time

VERIF = os.path.dirname(os.path.dirname(os.path.abspath(__file__)))
REPO = os.environ.get("VERIF_REPO", "/repo")
BUILD = os.path.join(VERIF, "build")
# VERIF_REPO / VERIF_OUT: run a check against a scratch copy of the repository
# (e.g. a worktree with a seeded change) without touching /repo, /verif/evidence
# or /verif/replay.  The registered commands never set them.
OUT = os.environ.get("VERIF_OUT", VERIF)
COQ = os.path.join(VERIF, "coq")
if OUT != VERIF and REPO != "/repo":
    # scratch run: work on a private copy of the Coq tree so that a translator
    # output that differs (seeded change to a translated constant) never touches
    # the shared coq/Gen, and concurrent runs do not disturb each other
    COQ = os.path.join(OUT, "coq")
    os.makedirs(OUT, exist_ok=True)
    subprocess.run(["rsync", "-a", "--delete", os.path.join(VERIF, "coq") + "/", COQ + "/"], check=False)
GO = "go1.26"

GOENV = {
    "GOFLAGS": "-mod=mod",
    "GOPROXY": "off",
    "GOSUMDB": "off",
    "GOTOOLCHAIN": "local",
    "CGO_ENABLED": "0",
}

FORBIDDEN = re.compile(
    r"\b(Admitted|admit|Axiom|Axioms|Parameter|Parameters|Conjecture|Conjectures|"
    r"Admit Obligations|bypass_check|Unset Guard Checking|Unset Positivity Checking|"
    r"Unset Universe Checking|type-in-type|impredicative-set|native_compute)\b"
)
# `Variable`/`Hypothesis` are allowed inside Sections only; checked separately.

STD_AXIOMS_ALLOWED = {
    # standard-library axioms that may appear (each is named in DESIGN.md §3)
    "functional_extensionality_dep",
    "proof_irrelevance",
    "JMeq_eq",
    "Eqdep.Eq_rect_eq.eq_rect_eq",
    "classic",
    "propositional_extensionality",
}


def env():
    e = dict(os.environ)
    e.update(GOENV)
    return e


def sh(cmd, cwd=None, timeout=1200, input=None, check=False, envx=None):
    """Run a command (list or shell string); returns (rc, stdout+stderr)."""
    e = env()
    if envx:
        e.update(envx)
    try:
        p = subprocess.run(
            cmd,
            cwd=cwd,
            shell=isinstance(cmd, str),
            input=input,
            stdout=subprocess.PIPE,
            stderr=subprocess.STDOUT,
            timeout=timeout,
            env=e,
            text=True,
            errors="replace",
        )
        rc, out = p.returncode, p.stdout
    except subprocess.TimeoutExpired as ex:
        rc = 124
        o = ex.stdout
        if isinstance(o, bytes):
            o = o.decode("utf-8", "replace")
        out = (o or "") + "\n[timeout after %ss]" % timeout
    if check and rc != 0:
        raise RuntimeError("command failed (%s): %s\n%s" % (rc, cmd, out[-4000:]))
    return rc, out


class Lock:
    def __init__(self, name):
        os.makedirs(BUILD, exist_ok=True)
        self.path = os.path.join(BUILD, "." + name + ".lock")

    def __enter__(self):
        self.f = open(self.path, "w")
        fcntl.flock(self.f, fcntl.LOCK_EX)
        return self

    def __exit__(self, *a):
        fcntl.flock(self.f, fcntl.LOCK_UN)
        self.f.close()


# --------------------------------------------------------------------------
# Coq projects


def project_deps(proj):
    """Projects named by `-Q ../X GoPdf.X` lines of coq/<proj>/_CoqProject."""
    deps = []
    path = os.path.join(COQ, proj, "_CoqProject")
    for ln in open(path):
        m = re.match(r"\s*-Q\s+\.\./(\w+)\s+", ln)
        if m:
            deps.append(m.group(1))
    return deps


def project_closure(projects):
    order, seen = [], set()

    def visit(p):
        if p in seen:
            return
        seen.add(p)
        for d in project_deps(p):
            visit(d)
        order.append(p)

    for p in projects:
        visit(p)
    return order


def project_files(proj):
    res = []
    for ln in open(os.path.join(COQ, proj, "_CoqProject")):
        ln = ln.strip()
        if ln.endswith(".v") and not ln.startswith("-"):
            res.append(os.path.join(COQ, proj, ln))
    return res


def coq_make(proj, timeout=1500):
    d = os.path.join(COQ, proj)
    mk = os.path.join(d, "Makefile")
    cp = os.path.join(d, "_CoqProject")
    if not os.path.exists(mk) or os.path.getmtime(mk) < os.path.getmtime(cp):
        rc, out = sh(["coq_makefile", "-f", "_CoqProject", "-o", "Makefile"], cwd=d)
        if rc != 0:
            return rc, out
    return sh(["make", "-j16"], cwd=d, timeout=timeout)


def coq_lint(projects):
    """Forbidden vernacular in the development; returns list of 'file:line: text'."""
    bad = []
    for p in projects:
        files = project_files(p)
        ex = os.path.join(COQ, p, "Extract.v")
        if os.path.exists(ex):
            files.append(ex)
        for f in files:
            depth = 0
            in_comment = 0
            for i, ln in enumerate(open(f, errors="replace"), 1):
                # strip comments (nesting-aware, line-wise approximation)
                s = ""
                j = 0
                while j < len(ln):
                    if ln.startswith("(*", j):
                        in_comment += 1
                        j += 2
                    elif ln.startswith("*)", j) and in_comment:
                        in_comment -= 1
                        j += 2
                    else:
                        if not in_comment:
                            s += ln[j]
                        j += 1
                if re.match(r"\s*Section\b", s):
                    depth += 1
                if re.match(r"\s*End\b", s) and depth > 0:
                    depth -= 1
                if FORBIDDEN.search(s):
                    bad.append("%s:%d: %s" % (os.path.relpath(f, VERIF), i, s.strip()))
                if depth == 0 and re.match(
                    r"\s*(Variable|Variables|Hypothesis|Hypotheses|Context)\b", s
                ):
                    bad.append(
                        "%s:%d: %s (outside a Section)"
                        % (os.path.relpath(f, VERIF), i, s.strip())
                    )
    return bad


def parse_assumptions(out):
    """Split coqc output of a Prop file into per-`Print Assumptions` verdicts."""
    verdicts = []
    lines = out.split("\n")
    i = 0
    while i < len(lines):
        ln = lines[i]
        if ln.startswith("Closed under the global context"):
            verdicts.append([])
        elif ln.startswith("Axioms:"):
            ax = []
            i += 1
            while i < len(lines) and lines[i].strip() and not lines[i].startswith(
                ("Closed under", "Axioms:")
            ):
                m = re.match(r"^(\S+)\s*:", lines[i])
                if m and not lines[i].startswith(" "):
                    ax.append(m.group(1))
                i += 1
            verdicts.append(ax)
            continue
        i += 1
    return verdicts


# --------------------------------------------------------------------------


class Check:
    def __init__(self, pid, argv=None):
        import argparse

        ap = argparse.ArgumentParser()
        ap.add_argument("--tier", default=os.environ.get("VERIF_TIER", "quick"))
        ap.add_argument("--replay", default=None)
        a = ap.parse_args(argv)
        self.pid = pid
        self.tier = a.tier if a.tier in ("quick", "thorough") else "quick"
        self.replay = a.replay
        try:
            self.seed = int(os.environ.get("VERIF_SEED", "1"))
        except ValueError:
            self.seed = 1
        self.t0 = time.time()
        self.fails = []  # dicts: signature, what, case
        self.ties = []  # dicts: name, detail
        self.notes = []
        self.cov = {
            "obligations": 0,
            "discharged": 0,
            "checker_cmd": "",
            "trusted_base": [],
            "evaluations": 0,
            "distinct_nontrivial": 0,
            "rule": "",
            "samples": [],
        }
        self.assumptions = []
        self.work = os.path.join(BUILD if OUT == VERIF else OUT, "run", pid)
        shutil.rmtree(self.work, ignore_errors=True)
        os.makedirs(self.work, exist_ok=True)
        os.makedirs(os.path.join(OUT, "evidence"), exist_ok=True)
        os.makedirs(os.path.join(OUT, "replay"), exist_ok=True)
        self.log = open(os.path.join(self.work, "check.log"), "w")

    # -- reporting ---------------------------------------------------------
    def say(self, *a):
        msg = " ".join(str(x) for x in a)
        print(msg, flush=True)
        self.log.write(msg + "\n")
        self.log.flush()

    def fail(self, signature, what, case=None):
        """A concrete failing input of the property on the implementation."""
        self.fails.append({"signature": signature, "what": what, "case": case})

    def tie_broken(self, name, detail):
        """A proof obligation or the model/implementation correspondence no longer checks."""
        self.ties.append({"name": name, "detail": detail})

    # -- translator --------------------------------------------------------
    def translate(self, needed=None):
        """Regenerate coq/Gen/*.v; `needed` = the generated files this property uses
        (None: all).  A failure for a file that is not needed is only a note."""
        with Lock("coq-Gen"):
            return self._translate(needed)

    def _translate(self, needed):
        tdir = os.path.join(VERIF, "translate")
        exe = os.path.join(BUILD, "bin", "translate")
        os.makedirs(os.path.dirname(exe), exist_ok=True)
        rc, out = sh([GO, "build", "-o", exe, "."], cwd=tdir, envx={"GOFLAGS": ""})
        if rc != 0:
            self.tie_broken("translator:build", out[-2000:])
            return False
        tmp = os.path.join(BUILD, "gen.tmp")
        shutil.rmtree(tmp, ignore_errors=True)
        os.makedirs(tmp)
        rc, out = sh([exe, "-repo", REPO, "-out", tmp, "-spec", os.path.join(tdir, "spec.d")], timeout=120)
        self.log.write(out)
        ok = True
        if rc != 0:
            failed = re.findall(r"^translate: (Gen_\w+\.v): (.*)$", out, re.M)
            mine = [f for f in failed if needed is None or f[0] in needed]
            if mine or not failed:
                self.tie_broken(
                    "translator: the source no longer fits the translated Go subset (%s)"
                    % ", ".join(f[0] for f in mine),
                    out[-3000:],
                )
                ok = False
            else:
                self.notes.append("translator failed for files this property does not use: %s" % failed)
        gen = os.path.join(COQ, "Gen")
        changed = []
        for f in sorted(os.listdir(tmp)):
            new = open(os.path.join(tmp, f)).read()
            oldp = os.path.join(gen, f)
            old = open(oldp).read() if os.path.exists(oldp) else None
            if old != new:
                changed.append(f)
                with open(oldp, "w") as o:
                    o.write(new)
        gens = sorted(f for f in os.listdir(gen) if f.startswith("Gen_") and f.endswith(".v"))
        cp = "-Q . GoPdf.Gen\n" + "".join(f + "\n" for f in gens)
        cpp = os.path.join(gen, "_CoqProject")
        if not os.path.exists(cpp) or open(cpp).read() != cp:
            open(cpp, "w").write(cp)
        if changed:
            self.notes.append("translator output changed: " + ", ".join(changed))
            self.say("translator: regenerated", ", ".join(changed))
        self.gen_changed = changed
        return ok

    # -- coq ---------------------------------------------------------------
    def coq(self, projects, prop_project, prop_file, timeout=1500):
        """Build `projects` (+deps), lint, re-check prop_file, collect assumptions."""
        return self._coq(projects, prop_project, prop_file, timeout)

    def _coq(self, projects, prop_project, prop_file, timeout):
        order = project_closure(list(projects) + [prop_project])
        self.coq_projects = order
        ok = True
        for p in order:
            with Lock("coq-" + p):
                rc, out = coq_make(p, timeout)
            self.log.write(out)
            if rc != 0:
                ok = False
                m = re.findall(r'File "([^"]+)", line (\d+)', out)
                where = "%s:%s" % m[-1] if m else p
                self.tie_broken(
                    "coq build of project %s fails at %s" % (p, where), out[-3000:]
                )
                break
        bad = coq_lint(order)
        if bad:
            ok = False
            self.tie_broken("forbidden vernacular in the development", "\n".join(bad))
        d = os.path.join(COQ, prop_project)
        src = open(os.path.join(d, prop_file)).read()
        theorems = re.findall(r"^\s*(?:Theorem|Corollary)\s+(\w+)", src, re.M)
        prints = re.findall(r"^\s*Print Assumptions\s+(\w+)", src, re.M)
        self.cov["obligations"] = len(theorems)
        discharged = 0
        axioms_seen = {}
        if ok:
            # re-check the property file itself, now, against the current .vo files
            args = ["coqc"]
            for ln in open(os.path.join(d, "_CoqProject")):
                ln = ln.strip()
                if ln.startswith("-Q") or ln.startswith("-R"):
                    args += ln.split()
            rc, out = sh(args + ["-o", os.path.join(self.work, prop_file[:-2] + ".vo"), prop_file], cwd=d, timeout=timeout)
            self.log.write(out)
            if rc != 0:
                self.tie_broken("property file %s no longer checks" % prop_file, out[-3000:])
            else:
                verdicts = parse_assumptions(out)
                if len(verdicts) != len(prints) or set(prints) != set(theorems):
                    self.tie_broken(
                        "Print Assumptions missing for some theorem of %s" % prop_file,
                        "theorems=%s prints=%s verdicts=%d" % (theorems, prints, len(verdicts)),
                    )
                else:
                    for name, ax in zip(prints, verdicts):
                        extra = [a for a in ax if a.split(".")[-1] not in STD_AXIOMS_ALLOWED and a not in STD_AXIOMS_ALLOWED]
                        axioms_seen[name] = ax
                        if extra:
                            self.tie_broken(
                                "theorem %s depends on non-standard axioms" % name, ", ".join(extra)
                            )
                        else:
                            discharged += 1
        if ok and self.tier == "thorough" and os.environ.get("VERIF_NO_COQCHK") != "1":
            # independent re-check of the compiled property file and everything it depends on
            args = ["coqchk", "-silent", "-o"]
            for p in order:
                args += ["-Q", os.path.join(COQ, p), "GoPdf." + p]
            args.append("GoPdf.%s.%s" % (prop_project, prop_file[:-2]))
            rc, out = sh(args, cwd=COQ, timeout=3000)
            self.log.write(out)
            m = re.search(r"\* Axioms:(.*?)\n\s*\n\* Constants", out, re.S)
            chk_axioms = [a.strip() for a in (m.group(1) if m else "").split("\n") if a.strip() and a.strip() != "<none>"]
            self.cov["coqchk"] = {"rc": rc, "axioms": chk_axioms or "<none>",
                                  "type_in_type": "<none>" if "type-in-type: <none>" in out else "see log",
                                  "unsafe_fixpoints": "<none>" if "unsafe (co)fixpoints: <none>" in out else "see log",
                                  "assumed_positivity": "<none>" if "positivity is assumed: <none>" in out else "see log"}
            if rc != 0 or "type-in-type: <none>" not in out or "unsafe (co)fixpoints: <none>" not in out or "positivity is assumed: <none>" not in out:
                self.tie_broken("coqchk rejects %s or reports disabled kernel checks" % prop_file, out[-3000:])
                discharged = 0
        self.cov["discharged"] = discharged
        self.cov["theorems"] = theorems
        self.cov["axioms_per_theorem"] = {
            k: (v if v else "Closed under the global context") for k, v in axioms_seen.items()
        }
        self.cov["checker_cmd"] = (
            "make -j16 in coq/{%s} (full .vo build) ; coqc %s/%s (Print Assumptions per theorem)"
            % (",".join(order), prop_project, prop_file)
        )
        return ok and discharged == len(theorems)

    # -- extracted model ---------------------------------------------------
    def model(self, project, driver_dir=None):
        """Extract coq/<project>/Extract.v and build ocaml/<driver_dir>/driver.ml with it."""
        with Lock("ocaml-" + project):
            return self._model(project, driver_dir or project.lower())

    def _model(self, project, driver_dir):
        d = os.path.join(BUILD if OUT == VERIF else OUT, "ocaml", project)
        exe = os.path.join(d, "driver.exe")
        ex = os.path.join(COQ, project, "Extract.v")
        srcs = [ex, os.path.join(VERIF, "ocaml", "wire.ml")]
        ddir = os.path.join(VERIF, "ocaml", driver_dir)
        srcs += [os.path.join(ddir, f) for f in sorted(os.listdir(ddir)) if f.endswith(".ml")]
        deps = []
        for p in project_closure([project]):
            deps += [f[:-2] + ".vo" for f in project_files(p)]
        newest = max(os.path.getmtime(f) for f in srcs + [f for f in deps if os.path.exists(f)])
        if os.path.exists(exe) and os.path.getmtime(exe) >= newest:
            return exe
        shutil.rmtree(d, ignore_errors=True)
        os.makedirs(d)
        args = ["coqc"]
        for p in project_closure([project]):
            args += ["-Q", os.path.join(COQ, p), "GoPdf." + p]
        rc, out = sh(args + ["-o", os.path.join(d, "Extract.vo"), ex], cwd=d, timeout=600)
        self.log.write(out)
        if rc != 0:
            self.tie_broken("extraction of %s fails" % project, out[-3000:])
            return None
        for f in srcs[1:]:
            shutil.copy(f, d)
        # .mli files produced by extraction are kept; order by ocamldep
        rc, out = sh("ocamlfind ocamldep -sort *.ml *.mli", cwd=d)
        if rc != 0:
            self.tie_broken("ocamldep fails for %s" % project, out[-2000:])
            return None
        files = out.split()
        rc, out = sh(["ocamlfind", "ocamlopt", "-O3", "-w", "-a", "-o", "driver.exe"] + files, cwd=d, timeout=600)
        if rc != 0:
            rc, out = sh(["ocamlfind", "ocamlopt", "-w", "-a", "-o", "driver.exe"] + files, cwd=d, timeout=600)
        self.log.write(out)
        if rc != 0:
            self.tie_broken("OCaml build of the extracted model %s fails" % project, out[-3000:])
            return None
        return exe

    # -- harness -----------------------------------------------------------
    def harness(self, pkg, race=False):
        with Lock("go"):
            return self._harness(pkg, race)

    def _harness(self, pkg, race):
        hdir = os.path.join(VERIF, "harness")
        bindir = os.path.join(BUILD, "bin")
        if REPO != "/repo":
            # scratch repository: build from a copy of the harness whose go.mod points at it
            tag = hashlib.sha256(REPO.encode()).hexdigest()[:8]
            alt = os.path.join(BUILD, "harness-" + tag)
            shutil.rmtree(alt, ignore_errors=True)
            shutil.copytree(hdir, alt)
            gm = open(os.path.join(alt, "go.mod")).read().replace("=> /repo", "=> " + REPO)
            open(os.path.join(alt, "go.mod"), "w").write(gm)
            hdir = alt
            bindir = os.path.join(BUILD, "bin-" + tag)
        shutil.copy(os.path.join(REPO, "go.sum"), os.path.join(hdir, "go.sum"))
        exe = os.path.join(bindir, pkg + ("-race" if race else ""))
        os.makedirs(os.path.dirname(exe), exist_ok=True)
        # -trimpath: object files do not depend on the directory of the source tree, so scratch
        # worktrees share the build cache instead of filling the disk with one copy each
        cmd = [GO, "build", "-trimpath", "-tags", "verif", "-o", exe]
        envx = {}
        if race:
            cmd.append("-race")
            envx["CGO_ENABLED"] = "1"
        rc, out = sh(cmd + ["./" + pkg], cwd=hdir, timeout=900, envx=envx)
        self.log.write(out)
        if rc != 0:
            self.tie_broken(
                "harness %s no longer builds against /repo (an observed interface changed)" % pkg,
                out[-3000:],
            )
            return None
        return exe

    def run(self, cmd, timeout=1200, input=None, cwd=None, envx=None):
        ex = {"VERIF_SEED": str(self.seed), "VERIF_TIER": self.tier}
        if envx:
            ex.update(envx)
        rc, out = sh(cmd, cwd=cwd or self.work, timeout=timeout, input=input, envx=ex)
        return rc, out

    def read_jsonl(self, name):
        p = os.path.join(self.work, name)
        res = []
        if os.path.exists(p):
            for ln in open(p, errors="replace"):
                ln = ln.strip()
                if ln:
                    try:
                        res.append(json.loads(ln))
                    except ValueError:
                        res.append({"raw": ln})
        return res

    def absorb_harness(self, stats_name="stats.json", fails_name="fails.jsonl"):
        """Take over what the harness measured: stats.json and fails.jsonl."""
        p = os.path.join(self.work, stats_name)
        if os.path.exists(p):
            st = json.load(open(p))
            self.cov["evaluations"] += int(st.pop("evaluations", 0))
            self.cov["distinct_nontrivial"] += int(st.pop("distinct_nontrivial", 0))
            if st.get("rule"):
                self.cov["rule"] = (self.cov["rule"] + " " + st.pop("rule")).strip()
            self.cov["samples"] += st.pop("samples", [])[:6]
            for k, v in st.items():
                self.cov[k] = v
        else:
            self.tie_broken("harness produced no statistics", stats_name)
        for f in self.read_jsonl(fails_name):
            self.fail(f.get("signature", "unclassified"), f.get("what", ""), f.get("case"))

    def compare_obs(self, impl_path, model_path, what, max_report=5):
        """Line-wise comparison `<id> <observation>` of implementation vs model."""
        def load(p):
            d = {}
            for ln in open(p, errors="replace"):
                ln = ln.rstrip("\n")
                if not ln:
                    continue
                k, _, v = ln.partition(" ")
                d[k] = v
            return d

        a, b = load(impl_path), load(model_path)
        mism = []
        for k in a:
            if k not in b:
                mism.append((k, a[k], "<missing>"))
            elif a[k] != b[k]:
                mism.append((k, a[k], b[k]))
        for k in b:
            if k not in a:
                mism.append((k, "<missing>", b[k]))
        self.cov["traces_validated_against_model"] = self.cov.get("traces_validated_against_model", 0) + len(a)
        return mism

    # -- decision ----------------------------------------------------------
    def finish(self, level="proof", assumptions=None, trusted=None, partial=None):
        kf_path = os.path.join(VERIF, "findings", self.pid + ".json")
        known = []
        if os.path.exists(kf_path):
            known = [
                k
                for k in json.load(open(kf_path))["entries"]
                if k.get("kind") == "finding" and k.get("property") == self.pid
            ]
        ksig = {k["signature"]: k for k in known}
        seen_known = {}
        new_fails = []
        for f in self.fails:
            if f["signature"] in ksig:
                seen_known.setdefault(f["signature"], []).append(f)
            else:
                new_fails.append(f)
        for sig, fs in sorted(seen_known.items()):
            self.say(
                "KNOWN-FINDING: property=%s %s [%s; %d failing case(s) this run]"
                % (self.pid, ksig[sig]["what"], sig, len(fs))
            )
        violations = 0
        if new_fails:
            bysig = {}
            for f in new_fails:
                bysig.setdefault(f["signature"], []).append(f)
            for sig, fs in sorted(bysig.items()):
                violations += 1
                path = self._replay(
                    {
                        "property": self.pid,
                        "kind": "failing-input",
                        "signature": sig,
                        "what": fs[0]["what"],
                        "case": fs[0]["case"],
                        "more_cases": [x["case"] for x in fs[1:4]],
                        "count": len(fs),
                        "seed": self.seed,
                        "tier": self.tier,
                        "broken_ties": self.ties[:5],
                    },
                    sig,
                )
                self.say("  failing input (%s): %s" % (sig, fs[0]["what"]))
                self.say("VIOLATION property=%s replay=%s" % (self.pid, path))
        elif self.ties:
            violations += 1
            path = self._replay(
                {
                    "property": self.pid,
                    "kind": "tie-or-proof-broken",
                    "no_longer_checks": [t["name"] for t in self.ties],
                    "details": self.ties[:8],
                    "seed": self.seed,
                    "tier": self.tier,
                    "search": "the property oracle was run on the implementation for every case of this run "
                    "(%d evaluations) and found no failing input" % self.cov["evaluations"],
                },
                "tie",
            )
            for t in self.ties[:5]:
                self.say("  no longer checks: %s" % t["name"])
            self.say(
                "VIOLATION property=%s replay=%s no-failing-input-found" % (self.pid, path)
            )
        cov = self.cov
        cov["trusted_base"] = (trusted or []) + [
            "Coq 8.16.1 kernel + vm_compute (no native_compute)",
            "translator /verif/translate (Go subset -> Gallina)",
            "extraction (ExtrOcamlBasic only) + OCaml 4.13.1 + ocaml/wire.ml + driver",
            "Go harness and comparator (differential test of model vs implementation)",
        ]
        cov["known_findings_seen"] = sorted(seen_known)
        cov["partial"] = partial or []
        cov["notes"] = self.notes
        if not cov["rule"]:
            cov["rule"] = "see samples"
        if not cov["samples"]:
            cov["samples"] = ["(no case was run)"]
        ev = {
            "property_id": self.pid,
            "tier": self.tier,
            "seed": self.seed,
            "level": level,
            "coverage": cov,
            "assumptions": assumptions or [],
            "wall_s": round(time.time() - self.t0, 2),
            "violations": violations,
        }
        with open(os.path.join(OUT, "evidence", self.pid + ".json"), "w") as o:
            json.dump(ev, o, indent=1, sort_keys=True, default=str)
            o.write("\n")
        self.say(
            "%s %s: obligations=%d discharged=%d evaluations=%d nontrivial=%d known=%d violations=%d wall=%.1fs"
            % (
                self.pid,
                self.tier,
                cov["obligations"],
                cov["discharged"],
                cov["evaluations"],
                cov["distinct_nontrivial"],
                len(seen_known),
                violations,
                time.time() - self.t0,
            )
        )
        sys.exit(1 if violations else 0)

    def _replay(self, obj, tag):
        h = hashlib.sha256(json.dumps(obj, sort_keys=True, default=str).encode()).hexdigest()[:10]
        path = os.path.join(OUT, "replay", "%s-%s.json" % (self.pid, h))
        with open(path, "w") as o:
            json.dump(obj, o, indent=1, default=str)
            o.write("\n")
        return path
