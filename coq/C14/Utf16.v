(* C14 model, part 7: text values in a ToUnicode CMap (font/cmap/tounicode.go).

   hexString writes utf16.Encode([]rune(text)) as big-endian hex digits, toString
   reads the 16-bit units back with utf16.Decode.  Code points are [N].
   Definitions only. *)
From Coq Require Import List NArith Bool.
Import ListNotations.
Open Scope N_scope.

Definition replacement : N := 65533.                                  (* U+FFFD *)
Definition is_surrogate (r : N) : bool := (55296 <=? r) && (r <? 57344).      (* D800..DFFF *)
Definition valid_scalar (r : N) : bool := (r <=? 1114111) && negb (is_surrogate r).

(* utf16.Encode / utf16.AppendRune for one rune *)
Definition encode16_rune (r : N) : list N :=
  if negb (valid_scalar r) then [replacement]
  else if r <? 65536 then [r]
  else let x := r - 65536 in [55296 + x / 1024; 56320 + x mod 1024].

Definition encode16 (rs : list N) : list N := flat_map encode16_rune rs.

(* utf16.Decode *)
Fixpoint decode16 (us : list N) : list N :=
  match us with
  | [] => []
  | u :: r =>
    if (u <? 55296) || (57344 <=? u) then u :: decode16 r
    else if u <? 56320 then
      match r with
      | u2 :: r2 =>
        if (56320 <=? u2) && (u2 <? 57344)
        then ((u - 55296) * 1024 + (u2 - 56320) + 65536) :: decode16 r2
        else replacement :: decode16 r
      | [] => [replacement]
      end
    else replacement :: decode16 r
  end.
