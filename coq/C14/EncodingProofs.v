(* C14: the /Encoding entry round trip (model: Encoding.v). *)
From Coq Require Import List NArith ZArith Bool Lia.
From Coq Require Import ZifyN ZifyNat ZifyBool.
From GoPdf.Base Require Import Bytes.
From GoPdf.C14 Require Import SimpleEnc SimpleEncProofs Encoding.
Import ListNotations.
Open Scope N_scope.

Lemma is_empty_spec n : is_empty n = true <-> n = [].
Proof. destruct n; cbn; split; intros H; try reflexivity; discriminate. Qed.

Lemma is_at_spec n : is_at n = true <-> n = at_name.
Proof. unfold is_at. apply bytes_eqb_eq. Qed.

Lemma find_diff_in c d n : find_diff c d = Some n -> In (c, n) d.
Proof.
  induction d as [|[c' n'] r IH]; cbn; [discriminate|].
  destruct (c =? c') eqn:E.
  - intros H; inversion H; subst. apply N.eqb_eq in E; subst. left; reflexivity.
  - intros H; right; auto.
Qed.

Lemma in_find_diff c n d : NoDup (map fst d) -> In (c, n) d -> find_diff c d = Some n.
Proof.
  induction d as [|[c' n'] r IH]; cbn; [tauto|].
  intros ND [H|H]; apply NoDup_cons_iff in ND as [Hn ND].
  - inversion H; subst. rewrite N.eqb_refl. reflexivity.
  - destruct (c =? c') eqn:E.
    + apply N.eqb_eq in E; subst. exfalso. apply Hn. apply (in_map fst) in H. exact H.
    + auto.
Qed.

Lemma find_diff_none c d : ~ In c (map fst d) -> find_diff c d = None.
Proof.
  induction d as [|[c' n'] r IH]; cbn; [reflexivity|].
  intros H. destruct (c =? c') eqn:E; [apply N.eqb_eq in E; subst; tauto | apply IH; tauto].
Qed.

Section WalkProofs.
  Variable valid : gname -> bool.

  Notation walk := (walk valid).

  Definition vname (n : gname) : gname := if valid n then n else notdef_name.

  Definition entries (skip : N -> bool) (e : encoding) (codes : list N) : list (N * gname) :=
    map (fun c => (c, vname (e c))) (filter (fun c => negb (skip c)) codes).

  Lemma walk_diffs skip e codes : forall last cur acc,
    (forall c, In c codes -> c < 256) ->
    (forall c, In c codes -> c = last + 1 -> cur = Z.of_N c) ->
    walk (diffs_loop skip e codes last) cur acc = rev (entries skip e codes) ++ acc.
  Proof.
    induction codes as [|c r IH]; intros last cur acc Hlt Hcur; [reflexivity|].
    cbn [diffs_loop]. unfold entries. cbn [filter]. destruct (skip c) eqn:Es; cbn [negb].
    - apply IH; intros c' H'; [apply Hlt | apply Hcur]; right; exact H'.
    - cbn [map rev]. rewrite <- app_assoc. cbn [app].
      assert (Hc : c < 256) by (apply Hlt; left; reflexivity).
      assert (Hstep : forall cur', cur' = Z.of_N c ->
                walk (DName (e c) :: diffs_loop skip e r c) cur' acc =
                rev (map (fun c0 => (c0, vname (e c0))) (filter (fun c0 => negb (skip c0)) r)) ++ (c, vname (e c)) :: acc).
      { intros cur' ->. cbn [Encoding.walk].
        replace ((0 <=? Z.of_N c)%Z && (Z.of_N c <? 256)%Z) with true by lia.
        rewrite N2Z.id. fold (vname (e c)).
        apply (IH c (Z.of_N c + 1)%Z); [intros c' H'; apply Hlt; right; exact H' | intros c' _ ->; lia]. }
      destruct (c =? last + 1) eqn:E; cbn [app].
      + apply Hstep. apply Hcur; [left; reflexivity | apply N.eqb_eq in E; exact E].
      + cbn [Encoding.walk]. apply Hstep. reflexivity.
  Qed.

  Lemma entries_nodup skip e codes : NoDup codes -> NoDup (map fst (rev (entries skip e codes))).
  Proof.
    intros ND. rewrite map_rev. apply NoDup_rev. unfold entries. rewrite map_map. cbn [fst].
    rewrite map_id. apply NoDup_filter. exact ND.
  Qed.

  Lemma find_entries_gen codes skip e c :
    NoDup codes -> (forall x, In x codes <-> x < 256) ->
    find_diff c (walk (diffs_loop skip e codes 999) (-1)%Z []) =
    if (c <? 256) && negb (skip c) then Some (vname (e c)) else None.
  Proof.
    intros ND Hspec.
    rewrite walk_diffs.
    2:{ intros c' H. apply Hspec. exact H. }
    2:{ intros c' H E. apply Hspec in H. lia. }
    rewrite app_nil_r.
    destruct ((c <? 256) && negb (skip c)) eqn:E.
    - apply in_find_diff; [apply entries_nodup, ND|].
      rewrite <- in_rev. unfold entries.
      apply in_map_iff. exists c. split; [reflexivity|]. apply filter_In.
      apply andb_true_iff in E as [E1 E2]. split; [apply Hspec; lia | exact E2].
    - apply find_diff_none. rewrite map_rev. intros H. rewrite <- in_rev in H.
      unfold entries in H. rewrite map_map in H. cbn [fst] in H. rewrite map_id in H.
      apply filter_In in H as [H1 H2]. apply Hspec in H1.
      rewrite H2 in E. replace (c <? 256) with true in E by lia. discriminate.
  Qed.

  Lemma find_entries skip e c :
    find_diff c (walk (diffs_loop skip e all_bytes 999) (-1)%Z []) =
    if (c <? 256) && negb (skip c) then Some (vname (e c)) else None.
  Proof. exact (find_entries_gen all_bytes skip e c all_bytes_nodup all_bytes_spec). Qed.

  (* ---- Type 3 ---- *)
  Lemma walk3_eq_walk items : forall cur acc,
    (forall n, In (DName n) items -> n <> [] /\ valid n = true) ->
    walk3 items cur acc = walk items cur acc.
  Proof.
    induction items as [|[c|n] r IH]; intros cur acc H; cbn [walk3 Encoding.walk]; [reflexivity| |].
    - apply IH. intros n Hn. apply H. right; exact Hn.
    - destruct (H n (or_introl eq_refl)) as [Hne Hv]. rewrite Hv.
      replace (negb (is_empty n)) with true by (destruct n; [contradiction | reflexivity]).
      rewrite andb_true_r.
      destruct ((0 <=? cur)%Z && (cur <? 256)%Z); apply IH; intros n' Hn'; apply H; right; exact Hn'.
  Qed.

  Lemma diffs_loop_names skip e codes : forall last n,
    In (DName n) (diffs_loop skip e codes last) -> exists c, In c codes /\ skip c = false /\ n = e c.
  Proof.
    induction codes as [|c r IH]; intros last n H; cbn [diffs_loop] in H; [destruct H|].
    destruct (skip c) eqn:Es.
    - destruct (IH _ _ H) as [c' [H1 H2]]. exists c'. split; [right; exact H1 | exact H2].
    - apply in_app_or in H as [H|H].
      + destruct (c =? last + 1); [destruct H | destruct H as [H|[]]; discriminate].
      + destruct H as [H|H].
        * inversion H; subst. exists c. split; [left; reflexivity | split; [exact Es | reflexivity]].
        * destruct (IH _ _ H) as [c' [H1 H2]]. exists c'. split; [right; exact H1 | exact H2].
  Qed.

  Lemma type3_roundtrip_lemma e :
    (forall c, c < 256 -> e c <> [] -> valid (e c) = true) ->
    (exists c, c < 256 /\ e c <> []) ->
    exists f, extract_type3 (as_pdf_type3 e) = Some f /\ forall c, c < 256 -> f c = e c.
  Proof.
    intros Hvalid [c0 [Hc0 Hne0]]. unfold extract_type3, as_pdf_type3.
    set (skip := fun c => is_empty (e c)).
    rewrite walk3_eq_walk.
    2:{ intros n Hn. apply diffs_loop_names in Hn as [c [H1 [H2 ->]]]. apply all_bytes_spec in H1.
        assert (e c <> []) by (intros E; unfold skip in H2; rewrite E in H2; discriminate).
        split; [assumption | apply Hvalid; assumption]. }
    assert (Hfind : forall c, c < 256 ->
              match find_diff c (walk (diffs_loop skip e all_bytes 999) (-1)%Z []) with Some n => n | None => [] end = e c).
    { intros c Hc. rewrite find_entries. replace (c <? 256) with true by lia. cbn [andb]. unfold skip.
      destruct (is_empty (e c)) eqn:E; cbn [negb].
      - apply is_empty_spec in E. symmetry. exact E.
      - unfold vname. rewrite Hvalid; [reflexivity | exact Hc | intros K; rewrite K in E; discriminate]. }
    destruct (walk (diffs_loop skip e all_bytes 999) (-1)%Z []) as [|p d] eqn:Ew.
    - exfalso. specialize (Hfind c0 Hc0). cbn in Hfind. congruence.
    - eexists. split; [reflexivity|]. exact Hfind.
  Qed.
End WalkProofs.

Section EncProofs.
  Variable win mac expert std : N -> gname.
  Variable valid : gname -> bool.

  Notation walk := (walk valid).
  Notation vname := (vname valid).
  Notation find_entries := (find_entries valid).
  Notation extract_simple := (extract_simple win mac expert std valid).
  Notation as_pdf_simple := (as_pdf_simple win mac expert std).

  Local Opaque all_bytes.

  (* the candidate chosen by [best] is one of the candidates *)
  Lemma best_in cands : forall n cur r, best cands n cur = Some r -> In r cands \/ cur = Some r.
  Proof.
    induction cands as [|[nm d] rest IH]; intros n cur r H; cbn [best] in H; [right; exact H|].
    destruct (Nat.ltb (length d) n).
    - destruct (IH _ _ _ H) as [K|K]; [left; right; exact K | left; left; inversion K; reflexivity].
    - destruct (IH _ _ _ H) as [K|K]; [left; right; exact K | right; exact K].
  Qed.

  Hypothesis valid_empty : valid [] = false.
  Hypothesis valid_at : valid at_name = false.

  Lemma forallb_all_bytes f c : forallb f all_bytes = true -> c < 256 -> f c = true.
  Proof. intros H Hc. rewrite forallb_forall in H. apply H. apply all_bytes_spec. exact Hc. Qed.

  (* the decoding of a dictionary candidate built against the table [tab] *)
  Lemma dict_candidate e tab basef c :
    c < 256 -> e c <> [] -> valid (e c) = true ->
    (forall c', basef c' = tab c') ->
    match find_diff c (walk (fixup tab (diffs_loop (skip_tab e tab) e all_bytes 999)) (-1)%Z []) with
    | Some n => n
    | None => basef c
    end = e c.
  Proof.
    intros Hc Hne Hv Hbase.
    assert (Hskip : skip_tab e tab c = true -> tab c = e c).
    { unfold skip_tab. intros H. apply orb_true_iff in H as [H|H].
      - apply is_empty_spec in H. contradiction.
      - apply bytes_eqb_eq in H. symmetry. exact H. }
    destruct (diffs_loop (skip_tab e tab) e all_bytes 999) as [|it its] eqn:Ed.
    - (* no differences: [32 /name] is written *)
      pose proof (find_entries (skip_tab e tab) e c) as Hf. rewrite Ed in Hf. cbn [Encoding.walk find_diff] in Hf.
      replace (c <? 256) with true in Hf by lia. cbn [andb] in Hf.
      destruct (skip_tab e tab c) eqn:Es; [|discriminate].
      cbn [fixup Encoding.walk]. cbn. destruct (c =? 32) eqn:E32.
      + apply N.eqb_eq in E32; subst c. rewrite (Hskip eq_refl), Hv. reflexivity.
      + rewrite Hbase. apply Hskip. reflexivity.
    - cbn [fixup]. rewrite <- Ed, find_entries. replace (c <? 256) with true by lia. cbn [andb].
      destruct (skip_tab e tab c) eqn:Es; cbn [negb].
      + rewrite Hbase. apply Hskip. reflexivity.
      + unfold vname. rewrite Hv. reflexivity.
  Qed.

  Lemma enc_roundtrip_lemma e bis c :
    (forall c', c' < 256 -> e c' <> [] -> e c' <> at_name -> valid (e c') = true) ->
    as_pdf_simple e bis <> OError ->
    c < 256 -> e c <> [] ->
    extract_simple (as_pdf_simple e bis) bis c = e c.
  Proof.
    intros Hvalid Hok Hc Hne. unfold Encoding.as_pdf_simple in *.
    destruct (can_use_builtin e) eqn:Eb.
    { (* no /Encoding: all used codes are built-in *)
      pose proof (forallb_all_bytes _ c Eb Hc) as H. cbn beta in H.
      apply orb_true_iff in H as [H|H]; [apply is_empty_spec in H; contradiction|].
      apply is_at_spec in H. cbn. symmetry. exact H. }
    destruct (no_builtin e) eqn:En.
    - assert (Hnat : e c <> at_name).
      { pose proof (forallb_all_bytes _ c En Hc) as H. cbn beta in H. intros E. apply is_at_spec in E. rewrite E in H. discriminate. }
      assert (Hv : valid (e c) = true) by (apply Hvalid; assumption).
      assert (Hfit : forall tab, fits e tab = true -> tab c = e c).
      { intros tab H. pose proof (forallb_all_bytes _ c H Hc) as K. cbn beta in K.
        apply orb_true_iff in K as [K|K]; [apply is_empty_spec in K; contradiction|].
        apply bytes_eqb_eq in K. symmetry. exact K. }
      destruct (fits e win) eqn:F1; [cbn; apply Hfit; exact F1|].
      destruct (fits e mac) eqn:F2; [cbn; apply Hfit; exact F2|].
      destruct (fits e expert) eqn:F3; [cbn; apply Hfit; exact F3|].
      match goal with |- context [best ?cs 999 None] => destruct (best cs 999 None) as [[nm d]|] eqn:Ebest end;
        [|contradiction].
      apply best_in in Ebest as [Hin|Hin]; [|discriminate].
      cbn [Encoding.extract_simple].
      apply in_app_or in Hin as [Hin|Hin].
      + destruct Hin as [H|[H|[H|[]]]]; injection H as <- <-;
          apply dict_candidate; auto.
      + destruct bis; [|destruct Hin].
        destruct Hin as [H|[]]. injection H as <- <-. apply dict_candidate; auto.
    - destruct bis; [contradiction|].
      destruct (diffs_loop (skip_builtin e) e all_bytes 999) as [|it its] eqn:Ed; [contradiction|].
      cbn [Encoding.extract_simple]. rewrite <- Ed, find_entries. replace (c <? 256) with true by lia. cbn [andb].
      destruct (skip_builtin e c) eqn:Es; cbn [negb].
      + unfold skip_builtin in Es. apply orb_true_iff in Es as [Es|Es]; [apply is_empty_spec in Es; contradiction|].
        apply is_at_spec in Es. symmetry. exact Es.
      + unfold skip_builtin in Es. apply orb_false_iff in Es as [_ Es].
        assert (e c <> at_name) by (intros E; apply is_at_spec in E; congruence).
        unfold vname. rewrite (Hvalid c Hc Hne H). reflexivity.
  Qed.

End EncProofs.

Lemma best_cons nm d r n cur :
  best ((nm, d) :: r) n cur = if Nat.ltb (length d) n then best r (length d) (Some (nm, d)) else best r n cur.
Proof. reflexivity. Qed.

(* ---- the encoding the embedders pass: Simple.Encoding() ------------------------------ *)
Lemma simple_encoding_visible_lemma :
  forall (win mac expert std : N -> gname) (valid : gname -> bool) (glyph_name : gid -> gname),
    valid [] = false -> valid at_name = false ->
    (forall g, valid (glyph_name g) = true) ->
    forall nw ops bis c i, let s := final nw ops in
      find_info c (s_info s) = Some i ->
      let e := simple_encoding glyph_name s in
      as_pdf_simple win mac expert std e bis <> OError /\
      extract_simple win mac expert std valid (as_pdf_simple win mac expert std e bis) bis c = glyph_name (ci_gid i).
Proof.
  intros win mac expert std valid glyph_name Hv0 Hv1 Hvg nw ops bis c i s Hi e.
  assert (I : inv s) by (apply inv_run, inv_init).
  assert (Hc : c < 256) by (apply find_info_in in Hi; exact (proj2 (inv_back _ I _ _ Hi))).
  assert (Hec : e c = glyph_name (ci_gid i)) by (unfold e, simple_encoding; rewrite Hi; reflexivity).
  assert (Hne : forall g, glyph_name g <> []) by (intros g E; specialize (Hvg g); rewrite E in Hvg; congruence).
  assert (Hnat : forall g, glyph_name g <> at_name) by (intros g E; specialize (Hvg g); rewrite E in Hvg; congruence).
  assert (Hvalid : forall c', c' < 256 -> e c' <> [] -> e c' <> at_name -> valid (e c') = true).
  { intros c' _ H _. unfold e, simple_encoding in *. destruct (find_info c' (s_info s)); [apply Hvg | contradiction]. }
  assert (Hnb : no_builtin e = true).
  { unfold no_builtin. apply forallb_forall. intros c' _. unfold e, simple_encoding.
    destruct (find_info c' (s_info s)); [|reflexivity].
    destruct (is_at (glyph_name (ci_gid c0))) eqn:E; [apply is_at_spec in E; exfalso; exact (Hnat _ E) | reflexivity]. }
  assert (Hcb : can_use_builtin e = false).
  { destruct (can_use_builtin e) eqn:E; [|reflexivity]. exfalso.
    unfold can_use_builtin in E. rewrite forallb_forall in E.
    specialize (E c (proj2 (all_bytes_spec c) Hc)). cbn beta in E. rewrite Hec in E.
    apply orb_true_iff in E as [E|E]; [apply is_empty_spec in E; exact (Hne _ E) | apply is_at_spec in E; exact (Hnat _ E)]. }
  assert (Hok : as_pdf_simple win mac expert std e bis <> OError).
  { unfold as_pdf_simple. rewrite Hcb, Hnb.
    destruct (fits e win); [discriminate|]. destruct (fits e mac); [discriminate|]. destruct (fits e expert); [discriminate|].
    (* the WinAnsi candidate has at most 512 < 999 entries, so [best] picks something *)
    cbn [app].
    set (d1 := fixup win (diffs_loop (skip_tab e win) e all_bytes 999)).
    assert (Hlen : (length d1 < 999)%nat).
    { unfold d1. assert (H : forall skip codes last, (length (diffs_loop skip e codes last) <= 2 * length codes)%nat).
      { intros skip codes. induction codes as [|c' r IH]; intros last; cbn [diffs_loop length]; [lia|].
        destruct (skip c'); [specialize (IH last); lia|].
        rewrite app_length. cbn [length]. specialize (IH c'). destruct (c' =? last + 1); cbn [length]; lia. }
      specialize (H (skip_tab e win) all_bytes 999). pose proof all_bytes_length as HL. unfold byte in *.
      destruct (diffs_loop (skip_tab e win) e all_bytes 999); cbn [fixup length] in *; lia. }
    assert (Hsome : forall cs n r, best cs n (Some r) <> None).
    { induction cs as [|[nm d] rest IH]; intros n r; cbn [best]; [discriminate|].
      destruct (Nat.ltb (length d) n); apply IH. }
    match goal with |- match ?b with _ => _ end <> _ => destruct b as [[nm d]|] eqn:Eb end; [discriminate|].
    exfalso. revert Eb.
    rewrite best_cons.
    replace (Nat.ltb (length d1) 999) with true by (symmetry; apply Nat.ltb_lt; exact Hlen).
    apply Hsome. }
  split; [exact Hok|].
  rewrite <- Hec. apply enc_roundtrip_lemma; auto. rewrite Hec. apply Hne.
Qed.

(* ---- text derived through the dictionary that is actually written --------------------- *)
From GoPdf.C14 Require Import TextProofs.

Definition dict_encoding (glyph_name : gid -> gname) (sh : shape) (s : st) : encoding :=
  match sh with
  | WithEncoding => simple_encoding glyph_name s      (* Simple.Encoding() *)
  | BuiltinEnc => fun _ => at_name                    (* encoding.Builtin *)
  end.

(* dict.SimpleTextMap applied to the /Encoding object and the /ToUnicode map of the dictionary *)
Definition dict_reader_text (win mac expert std : N -> gname) (valid : gname -> bool)
           (name_text : gname -> text) (glyph_name : gid -> gname)
           (sh : shape) (s : st) (bis : bool) (c : byte) : text :=
  let o := as_pdf_simple win mac expert std (dict_encoding glyph_name sh s) bis in
  match find_tu c (writer_tu gname name_text glyph_name sh s) with
  | Some (x :: t) => x :: t
  | _ => name_text (extract_simple win mac expert std valid o bis c)
  end.

Lemma text_derivable_dict_lemma :
  forall (win mac expert std : N -> gname) (valid : gname -> bool)
         (name_text : gname -> text) (glyph_name : gid -> gname),
    valid [] = false -> valid at_name = false ->
    (forall g, valid (glyph_name g) = true) ->
    name_text at_name = [] ->
    forall nw ops sh bis c i, let s := final nw ops in
      find_info c (s_info s) = Some i ->
      (sh = WithEncoding -> ci_text i = [] -> name_text (glyph_name (ci_gid i)) = []) ->
      dict_reader_text win mac expert std valid name_text glyph_name sh s bis c = writer_text s c.
Proof.
  intros win mac expert std valid name_text glyph_name Hv0 Hv1 Hvg Hat nw ops sh bis c i s Hi Hguard.
  pose proof (text_derivable_closed gname name_text glyph_name nw ops sh c i Hi Hguard) as HT.
  fold s in HT. rewrite <- HT. unfold dict_reader_text, reader_text.
  assert (Hname : name_text (extract_simple win mac expert std valid
                               (as_pdf_simple win mac expert std (dict_encoding glyph_name sh s) bis) bis c) =
                  match visible_name gname glyph_name sh s c with Some n => name_text n | None => [] end).
  { destruct sh; cbn [dict_encoding visible_name].
    - destruct (simple_encoding_visible_lemma win mac expert std valid glyph_name Hv0 Hv1 Hvg nw ops bis c i Hi) as [_ H].
      fold s in H. rewrite H, Hi. reflexivity.
    - assert (Hb : can_use_builtin (fun _ : N => at_name) = true).
      { unfold can_use_builtin. apply forallb_forall. intros x _. reflexivity. }
      unfold as_pdf_simple. rewrite Hb. cbn [extract_simple]. exact Hat. }
  rewrite Hname. reflexivity.
Qed.

(* ExtractType3 does not validate names: instantiate the validity predicate with "non-empty" *)
Lemma type3_roundtrip_closed e :
  (exists c, c < 256 /\ e c <> []) ->
  exists f, extract_type3 (as_pdf_type3 e) = Some f /\ forall c, c < 256 -> f c = e c.
Proof.
  apply (type3_roundtrip_lemma (fun n => negb (is_empty n))).
  intros c _ H. destruct (e c); [contradiction | reflexivity].
Qed.
