(* C14: the width tables are lossless (model: Widths.v). *)
From Coq Require Import List NArith ZArith Bool Lia.
From Coq Require Import ZifyN ZifyNat ZifyBool.
From GoPdf.Base Require Import Bytes.
From GoPdf.C14 Require Import SimpleEnc Widths.
Import ListNotations.
Open Scope N_scope.

(* ---------------- simple fonts ------------------------------------------------- *)
Section SimpleWidthsProofs.
  Variable ww : N -> width.
  Variable used : N -> bool.
  Variable dw : width.

  Notation skippable := (skippable ww used dw).
  Notation last_char := (last_char ww used dw).
  Notation first_char := (first_char ww used dw).

  Lemma last_char_spec n :
    (last_char n <= n)%nat /\
    forall m, (last_char n < m <= n)%nat -> skippable (N.of_nat m) = true.
  Proof.
    induction n as [|n IH]; cbn [Widths.last_char]; [split; [lia | intros m H; lia]|].
    destruct (skippable (N.of_nat (S n))) eqn:E.
    - destruct IH as [IH1 IH2]. split; [lia|].
      intros m H. destruct (Nat.eq_dec m (S n)) as [->|Hne]; [exact E | apply IH2; lia].
    - split; [lia | intros m H; lia].
  Qed.

  Lemma first_char_spec k : forall f,
    f <= first_char f k <= f + N.of_nat k /\
    forall x, f <= x < first_char f k -> skippable x = true.
  Proof.
    induction k as [|k IH]; intros f; cbn [Widths.first_char]; [split; [lia | intros x H; lia]|].
    destruct (skippable f) eqn:E.
    - destruct (IH (f + 1)) as [IH1 IH2]. split; [lia|].
      intros x H. destruct (N.eq_dec x f) as [->|Hne]; [exact E | apply IH2; lia].
    - split; [lia | intros x H; lia].
  Qed.

  Lemma nth_map_seq (f : nat -> width) n i d : (i < n)%nat -> nth i (map f (seq 0 n)) d = f i.
  Proof.
    intros H. rewrite (nth_indep _ d (f 0%nat)) by (rewrite map_length, seq_length; exact H).
    rewrite map_nth, seq_nth by exact H. reflexivity.
  Qed.

  Lemma simple_widths_lemma c : c < 256 -> used c = true ->
    let '(first, last) := simple_first_last ww used dw in
    first <= last < 256 /\
    length (simple_widths ww used dw) = N.to_nat (last - first + 1) /\
    read_simple first (simple_widths ww used dw) dw c = ww c.
  Proof.
    intros Hc Hu. unfold simple_widths, simple_first_last.
    destruct (last_char_spec 255) as [L1 L2].
    destruct (first_char_spec (last_char 255) 0) as [F1 F2].
    set (L := last_char 255) in *. set (F := first_char 0 L) in *.
    assert (Hskip : forall x, skippable x = true -> used x = true -> ww x = dw).
    { intros x Hs Hx. unfold Widths.skippable in Hs. rewrite Hx in Hs. cbn in Hs. lia. }
    split; [lia|]. split; [rewrite map_length, seq_length; lia|].
    unfold read_simple. rewrite map_length, seq_length.
    destruct ((F <=? c) && (c <? F + N.of_nat (N.to_nat (N.of_nat L - F) + 1))) eqn:E.
    - rewrite nth_map_seq by lia. f_equal. lia.
    - symmetry. apply Hskip; [|exact Hu].
      destruct (N.ltb_spec c F) as [Hlt|Hge].
      + apply F2. lia.
      + replace c with (N.of_nat (N.to_nat c)) by lia. apply L2. lia.
  Qed.
End SimpleWidthsProofs.

(* ---------------- composite fonts ---------------------------------------------- *)
Fixpoint pairs_from (c : N) (ws : list width) : list (N * width) :=
  match ws with
  | [] => []
  | w :: r => (c, w) :: pairs_from (c + 1) r
  end.

Lemma pairs_from_app a : forall c b,
  pairs_from c (a ++ b) = pairs_from c a ++ pairs_from (c + N.of_nat (length a)) b.
Proof.
  induction a as [|x a IH]; intros c b; cbn [app pairs_from length].
  - f_equal. lia.
  - rewrite IH. f_equal. f_equal. f_equal. lia.
Qed.

Lemma pairs_from_length c ws : length (pairs_from c ws) = length ws.
Proof. revert c; induction ws as [|w r IH]; intros c; cbn; [reflexivity | rewrite IH; reflexivity]. Qed.

Definition cid_ok (p : N * width) : Prop := fst p <= 65535.

Lemma pairs_from_bound ws : forall c, Forall cid_ok (pairs_from c ws) -> ws <> [] ->
  c + N.of_nat (length ws) <= 65536.
Proof.
  induction ws as [|w r IH]; intros c H Hne; [contradiction|].
  cbn [pairs_from] in H. inversion H; subst. unfold cid_ok in H2. cbn in H2.
  destruct r as [|w' r'].
  - cbn. lia.
  - specialize (IH (c + 1) H3 ltac:(discriminate)). cbn [length] in *. lia.
Qed.

Lemma expand_list_ok ws : forall c, Forall cid_ok (pairs_from c ws) -> expand_list c ws = Some (pairs_from c ws).
Proof.
  induction ws as [|w r IH]; intros c H; cbn [expand_list pairs_from]; [reflexivity|].
  cbn [pairs_from] in H. inversion H; subst. unfold cid_ok in H2. cbn in H2.
  replace (65535 <? c) with false by lia. rewrite IH by assumption. reflexivity.
Qed.

Lemma expand_range_eq ws : forall c w, Forall (fun x => x = w) ws -> expand_range c (length ws) w = pairs_from c ws.
Proof.
  induction ws as [|x r IH]; intros c w H; cbn [expand_range pairs_from length]; [reflexivity|].
  inversion H; subst. rewrite IH by assumption. reflexivity.
Qed.

Lemma decode_items_app a : forall b,
  decode_w_items (a ++ b) =
  match decode_w_items a, decode_w_items b with
  | Some x, Some y => Some (x ++ y)
  | _, _ => None
  end.
Proof.
  induction a as [|it a IH]; intros b; cbn [app decode_w_items].
  - destruct (decode_w_items b); reflexivity.
  - rewrite IH. destruct (expand_item it); [|reflexivity].
    destruct (decode_w_items a); [|reflexivity].
    destruct (decode_w_items b); [|reflexivity]. rewrite app_assoc. reflexivity.
Qed.

Record J (s : wst) (done : list (N * width)) : Prop := {
  J_pre : exists pre, decode_w_items (w_res s) = Some pre /\ done = pre ++ pairs_from (w_start s) (w_run s);
  J_end : w_run s <> [] -> w_end s + 1 = w_start s + N.of_nat (length (w_run s));
  J_eq : w_alleq s = true -> Forall (fun x => x = run_head (w_run s) 0%Z) (w_run s);
  J_ok : Forall cid_ok done
}.

Lemma flush_ok s done : J s done -> w_run s <> [] -> decode_w_items (flush s) = Some done.
Proof.
  intros [[pre [Hpre Hdone]] Hend Heq Hok] Hne.
  assert (Hrun : Forall cid_ok (pairs_from (w_start s) (w_run s))).
  { subst done. apply Forall_app in Hok. tauto. }
  unfold flush. destruct (w_alleq s && (1 <? N.of_nat (length (w_run s)))) eqn:E.
  - apply andb_true_iff in E as [E1 E2]. specialize (Heq E1). specialize (Hend Hne).
    rewrite decode_items_app, Hpre. cbn [decode_w_items expand_item].
    assert (Hlast : w_end s <= 65535).
    { pose proof (pairs_from_bound _ _ Hrun Hne). lia. }
    replace ((w_end s <? w_start s) || (65535 <? w_end s)) with false by lia.
    replace (N.to_nat (w_end s - w_start s) + 1)%nat with (length (w_run s)) by lia.
    rewrite (expand_range_eq _ _ _ Heq). rewrite app_nil_r. subst done. reflexivity.
  - rewrite decode_items_app, Hpre. cbn [decode_w_items expand_item].
    rewrite (expand_list_ok _ _ Hrun). rewrite app_nil_r. subst done. reflexivity.
Qed.

Lemma J_fresh res done c w : decode_w_items res = Some done -> Forall cid_ok (done ++ [(c, w)]) ->
  J (mkw res c c [w] true) (done ++ [(c, w)]).
Proof.
  intros H Hok. constructor; cbn [w_res w_start w_end w_run w_alleq].
  - exists done. split; [exact H | reflexivity].
  - intros _. cbn. lia.
  - intros _. constructor; [reflexivity | constructor].
  - exact Hok.
Qed.

Lemma wstep_ok s done c w : J s done -> c <= 65535 -> J (wstep s (c, w)) (done ++ [(c, w)]).
Proof.
  intros HJ Hc.
  assert (Hok' : Forall cid_ok (done ++ [(c, w)])).
  { apply Forall_app. split; [exact (J_ok _ _ HJ) | constructor; [exact Hc | constructor]]. }
  unfold wstep.
  set (n := N.of_nat (length (w_run s))).
  destruct (((0 <? n) && negb (c =? w_end s + 1))
            || ((2 <? n) && w_alleq s && negb (Z.eqb w (run_head (w_run s) 0%Z)))) eqn:Eb.
  - (* the pending run is flushed, a new one starts *)
    assert (Hne : w_run s <> []).
    { intros E. subst n. rewrite E in Eb. cbn in Eb. discriminate. }
    cbn [w_run w_res]. apply J_fresh; [exact (flush_ok _ _ HJ Hne) | exact Hok'].
  - destruct (w_run s) as [|x r] eqn:Er.
    + destruct HJ as [[pre [Hpre Hdone]] _ _ _]. rewrite Er in Hdone. cbn in Hdone. rewrite app_nil_r in Hdone.
      subst done. apply J_fresh; [exact Hpre | exact Hok'].
    + destruct HJ as [[pre [Hpre Hdone]] Hend Heq Hok]. rewrite Er in *.
      specialize (Hend ltac:(discriminate)).
      assert (Hcc : c = w_end s + 1).
      { subst n. cbn [length] in Eb. apply orb_false_iff in Eb as [Eb _].
        destruct (c =? w_end s + 1) eqn:E; [lia|]. cbn in Eb. lia. }
      constructor; cbn [w_res w_start w_end w_run w_alleq].
      * exists pre. split; [exact Hpre|]. subst done. rewrite pairs_from_app, <- app_assoc.
        f_equal. f_equal. cbn [pairs_from]. f_equal. f_equal. lia.
      * intros _. rewrite app_length. cbn [length] in *. lia.
      * intros E. apply andb_true_iff in E as [E1 E2]. specialize (Heq E1).
        cbn [run_head] in *. apply Forall_app. split; [exact Heq|].
        constructor; [apply Z.eqb_eq in E2; exact E2 | constructor].
      * exact Hok'.
Qed.

Lemma fold_ok l : forall s done, J s done -> Forall cid_ok l -> J (fold_left wstep l s) (done ++ l).
Proof.
  induction l as [|[c w] r IH]; intros s done HJ Hl; cbn [fold_left].
  - rewrite app_nil_r. exact HJ.
  - inversion Hl; subst. replace (done ++ (c, w) :: r) with ((done ++ [(c, w)]) ++ r) by (rewrite <- app_assoc; reflexivity).
    apply IH; [|assumption]. apply wstep_ok; assumption.
Qed.

Lemma J_init : J (mkw [] 0 0 [] true) [].
Proof.
  constructor; cbn.
  - exists []. auto.
  - intros H; contradiction.
  - intros _. constructor.
  - constructor.
Qed.

Lemma encode_items_lossless l : Forall cid_ok l -> decode_w_items (encode_w l) = Some l.
Proof.
  intros Hl. unfold encode_w. pose proof (fold_ok l _ _ J_init Hl) as HJ. cbn [app] in HJ.
  set (s := fold_left wstep l _) in *.
  destruct (w_run s) eqn:Er.
  - destruct HJ as [[pre [Hpre Hdone]] _ _ _]. rewrite Er in Hdone. cbn in Hdone. rewrite app_nil_r in Hdone.
    subst pre. exact Hpre.
  - apply flush_ok; [exact HJ | rewrite Er; discriminate].
Qed.

(* the CID list is sorted and has no duplicates (slices.Sorted(maps.Keys(...))) *)
Fixpoint incr_from (lo : N) (l : list N) : Prop :=
  match l with
  | [] => True
  | x :: r => lo <= x /\ incr_from (x + 1) r
  end.

Definition strictly_increasing (l : list N) : Prop := incr_from 0 l.

Lemma incr_length l : forall lo, incr_from lo l -> Forall (fun x => x <= 65535) l ->
  l = [] \/ N.of_nat (length l) + lo <= 65536.
Proof.
  induction l as [|x r IH]; intros lo H HF; [left; reflexivity|].
  right. destruct H as [H1 H2]. inversion HF; subst.
  destruct (IH _ H2 H4) as [->|H]; cbn [length]; lia.
Qed.

Lemma width_compress_w_lemma l :
  strictly_increasing (map fst l) -> Forall (fun p => fst p <= 65535) l ->
  decode_w (encode_w l) = Some l.
Proof.
  intros Hs Hl. unfold decode_w. rewrite (encode_items_lossless l Hl).
  assert (HF : Forall (fun x => x <= 65535) (map fst l)).
  { rewrite Forall_forall in *. intros x Hx. apply in_map_iff in Hx as [p [<- Hp]]. exact (Hl _ Hp). }
  destruct (incr_length _ _ Hs HF) as [E|E].
  - destruct l; [reflexivity | discriminate].
  - rewrite map_length in E. replace (65536 <? N.of_nat (length l)) with false by lia. reflexivity.
Qed.
