(* C14: invariants of the composite-font encoders (model: CidEnc.v). *)
From Coq Require Import List NArith ZArith Bool Lia.
From Coq Require Import ZifyN ZifyNat ZifyBool.
From GoPdf.Base Require Import Bytes.
From GoPdf.C14 Require Import SimpleEnc SimpleEncProofs CidEnc.
Import ListNotations.
Open Scope N_scope.

Lemma bytes_eqb_false a b : bytes_eqb a b = false <-> a <> b.
Proof.
  split; intros H.
  - intros E. apply bytes_eqb_eq in E. congruence.
  - destruct (bytes_eqb a b) eqn:E; [apply bytes_eqb_eq in E; contradiction | reflexivity].
Qed.

Lemma ckey_eqb_eq a b : ckey_eqb a b = true <-> a = b.
Proof.
  destruct a as [g t], b as [g' t']; unfold ckey_eqb; cbn [fst snd].
  rewrite andb_true_iff, N.eqb_eq, bytes_eqb_eq.
  split; [intros [-> ->]; reflexivity | intros H; inversion H; auto].
Qed.

Lemma ckey_eqb_refl a : ckey_eqb a a = true.
Proof. apply ckey_eqb_eq; reflexivity. Qed.

(* ---- association lists ------------------------------------------------------ *)
Lemma ufind_code_in k l c : ufind_code k l = Some c -> In (k, c) l.
Proof.
  induction l as [|[k' c'] r IH]; cbn; [discriminate|].
  destruct (ckey_eqb k k') eqn:E.
  - intros H; inversion H; subst. apply ckey_eqb_eq in E; subst. left; reflexivity.
  - intros H; right; auto.
Qed.

Lemma ufind_code_none k l : ufind_code k l = None -> ~ In k (map fst l).
Proof.
  induction l as [|[k' c'] r IH]; cbn; [tauto|].
  destruct (ckey_eqb k k') eqn:E; [discriminate|].
  intros H [H1|H1]; [subst; rewrite ckey_eqb_refl in E; discriminate | exact (IH H H1)].
Qed.

Lemma in_ufind_code k c l : NoDup (map fst l) -> In (k, c) l -> ufind_code k l = Some c.
Proof.
  induction l as [|[k' c'] r IH]; cbn; [tauto|].
  intros ND [H|H]; apply NoDup_cons_iff in ND as [Hn ND].
  - inversion H; subst. rewrite ckey_eqb_refl. reflexivity.
  - destruct (ckey_eqb k k') eqn:E.
    + apply ckey_eqb_eq in E; subst. exfalso. apply Hn. apply (in_map fst) in H. exact H.
    + auto.
Qed.

Lemma ufind_info_in c l i : ufind_info c l = Some i -> In (c, i) l.
Proof.
  induction l as [|[c' i'] r IH]; cbn; [discriminate|].
  destruct (bytes_eqb c c') eqn:E.
  - intros H; inversion H; subst. apply bytes_eqb_eq in E; subst. left; reflexivity.
  - intros H; right; auto.
Qed.

Lemma ufind_info_none c l : ufind_info c l = None -> ~ In c (map fst l).
Proof.
  induction l as [|[c' i'] r IH]; cbn; [tauto|].
  destruct (bytes_eqb c c') eqn:E; [discriminate|].
  intros H [H1|H1]; [subst; rewrite bytes_eqb_refl in E; discriminate | exact (IH H H1)].
Qed.

Lemma in_ufind_info c i l : NoDup (map fst l) -> In (c, i) l -> ufind_info c l = Some i.
Proof.
  induction l as [|[c' i'] r IH]; cbn; [tauto|].
  intros ND [H|H]; apply NoDup_cons_iff in ND as [Hn ND].
  - inversion H; subst. rewrite bytes_eqb_refl. reflexivity.
  - destruct (bytes_eqb c c') eqn:E.
    + apply bytes_eqb_eq in E; subst. exfalso. apply Hn. apply (in_map fst) in H. exact H.
    + auto.
Qed.

(* ---- UTF-8 encoder ------------------------------------------------------------ *)
Record uinv (s : ust) : Prop := {
  uinv_ndk : NoDup (map fst (u_code s));
  uinv_ndi : NoDup (map fst (u_info s));
  uinv_fwd : forall c t code, In ((c, t), code) (u_code s) -> exists w, In (code, mkui c w t) (u_info s);
  uinv_back : forall code i, In (code, i) (u_info s) ->
                In ((ui_cid i, ui_text i), code) (u_code s) /\ valid_cs code = true;
  uinv_len : length (u_code s) = length (u_info s)
}.

Lemma uinv_init w0 : uinv (uinit w0).
Proof. constructor; cbn; try constructor; tauto. Qed.

Lemma uinv_encode s c t w ch : uinv s -> uinv (fst (uencode s c t w ch)).
Proof.
  intros I. unfold uencode.
  destruct (ufind_code (c, t) (u_code s)) eqn:Ek; [exact I|].
  destruct ch as [ch|].
  2:{ destruct (private_capacity <=? N.of_nat (length (u_info s))); exact I. }
  destruct (valid_cs ch) eqn:Ev; cbn [andb]; [|exact I].
  destruct (ufind_info ch (u_info s)) eqn:Ei; [exact I|].
  pose proof (ufind_code_none _ _ Ek) as Hk. pose proof (ufind_info_none _ _ Ei) as Hc.
  destruct I as [ndk ndi fwd back len].
  constructor; cbn [fst u_code u_info map].
  - constructor; auto.
  - constructor; auto.
  - intros c' t' code' [H|H].
    + inversion H; subst. exists w. left; reflexivity.
    + destruct (fwd _ _ _ H) as [w' H']. exists w'. right; exact H'.
  - intros code' i' [H|H].
    + inversion H; subst. cbn. split; [left; reflexivity | exact Ev].
    + destruct (back _ _ H) as [H1 H2]. split; [right; exact H1 | exact H2].
  - cbn. f_equal. exact len.
Qed.

Lemma urun_fst_cons s o r : fst (urun s (o :: r)) = fst (urun (fst (ustep s o)) r).
Proof. cbn [urun]. destruct (ustep s o) as [s1 b]. cbn [fst]. destruct (urun s1 r). reflexivity. Qed.

Lemma uinv_step s o : uinv s -> uinv (fst (ustep s o)).
Proof.
  destruct o as [c t w ch|c t]; cbn [ustep]; [|auto].
  intros I. pose proof (uinv_encode s c t w ch I) as H. destruct (uencode s c t w ch); exact H.
Qed.

Lemma uinv_run ops : forall s, uinv s -> uinv (fst (urun s ops)).
Proof.
  induction ops as [|o r IH]; intros s I; [exact I|].
  rewrite urun_fst_cons. apply IH. apply uinv_step. exact I.
Qed.

Definition uenc_inv_stmt : Prop :=
  forall w0 ops, let s := ufinal w0 ops in
    (forall k1 k2 code, uget_code s (fst k1) (snd k1) = Some code -> uget_code s (fst k2) (snd k2) = Some code -> k1 = k2) /\
    (forall c t code, uget_code s c t = Some code -> valid_cs code = true /\ exists w, uget s code = mkui c w t) /\
    (forall code i, ufind_info code (u_info s) = Some i -> uget_code s (ui_cid i) (ui_text i) = Some code) /\
    length (u_code s) = length (u_info s).

Lemma uenc_inv_lemma : uenc_inv_stmt.
Proof.
  intros w0 ops s. assert (I : uinv s) by (apply uinv_run, uinv_init).
  repeat split.
  - intros [c1 t1] [c2 t2] code H1 H2. cbn [fst snd] in *. unfold uget_code in *.
    apply ufind_code_in in H1, H2.
    destruct (uinv_fwd _ I _ _ _ H1) as [w1 F1]. destruct (uinv_fwd _ I _ _ _ H2) as [w2 F2].
    apply (in_ufind_info _ _ _ (uinv_ndi _ I)) in F1, F2. rewrite F1 in F2. inversion F2. reflexivity.
  - unfold uget_code in H. apply ufind_code_in in H. destruct (uinv_fwd _ I _ _ _ H) as [w F].
    exact (proj2 (uinv_back _ I _ _ F)).
  - unfold uget_code in H. apply ufind_code_in in H. destruct (uinv_fwd _ I _ _ _ H) as [w F].
    exists w. unfold uget. rewrite (in_ufind_info _ _ _ (uinv_ndi _ I) F). reflexivity.
  - intros code i H. apply ufind_info_in in H. destruct (uinv_back _ I _ _ H) as [H1 _].
    exact (in_ufind_code _ _ _ (uinv_ndk _ I) H1).
  - exact (uinv_len _ I).
Qed.

(* a valid code followed by anything is split off again *)
Lemma take_code_app c rest : valid_cs c = true -> take_code (c ++ rest) = Some (c, rest).
Proof.
  intros H.
  destruct c as [|b0 [|b1 [|b2 [|b3 [|b4 r]]]]]; cbn [valid_cs] in H; try discriminate;
    unfold take_code; cbn [app]; unfold cs_len;
    repeat rewrite andb_true_iff in H.
  - rewrite H. cbn [firstn skipn valid_cs]. rewrite H. reflexivity.
  - destruct H as [[H1 H2] H3].
    replace (b0 <? 128) with false by lia. rewrite H1, H2. cbn [andb firstn skipn valid_cs].
    rewrite H1, H2, H3. reflexivity.
  - destruct H as [[[H1 H2] H3] H4].
    replace (b0 <? 128) with false by lia.
    replace ((194 <=? b0) && (b0 <=? 223)) with false by lia.
    rewrite H1, H2. cbn [andb firstn skipn valid_cs]. rewrite H1, H2, H3, H4. reflexivity.
  - destruct H as [[[[H1 H2] H3] H4] H5].
    replace (b0 <? 128) with false by lia.
    replace ((194 <=? b0) && (b0 <=? 223)) with false by lia.
    replace ((224 <=? b0) && (b0 <=? 239)) with false by lia.
    rewrite H1, H2. cbn [andb firstn skipn valid_cs]. rewrite H1, H2, H3, H4, H5. reflexivity.
Qed.

Lemma ucodes_concat_lemma s cs : forall fuel,
  (length cs <= fuel)%nat -> Forall (fun c => valid_cs c = true) cs ->
  ucodes fuel s (concat cs) = Some (map (uget s) cs).
Proof.
  induction cs as [|c r IH]; intros fuel Hf Hv.
  - destruct fuel; reflexivity.
  - inversion Hv; subst. destruct fuel as [|f]; [cbn in Hf; lia|].
    cbn [concat map]. destruct c as [|b0 c']; [discriminate|].
    cbn [ucodes app]. change (b0 :: c' ++ concat r) with ((b0 :: c') ++ concat r).
    rewrite (take_code_app _ _ H1). rewrite IH; [reflexivity | cbn in Hf; lia | assumption].
Qed.

(* ---- fixed encoder ----------------------------------------------------------- *)
Section FixedProofs.
  Variable cm_all : cid -> option ccode.
  Variable cm_rev : ccode -> cid.
  Hypothesis Hrev : forall c code, cm_all c = Some code -> cm_rev code = c.

  Notation fencode := (fencode cm_all).
  Notation fget_code := (fget_code cm_all).
  Notation fshow := (fshow cm_all).
  Notation fshow_all := (fshow_all cm_all).
  Notation fget := (fget cm_rev).

  Lemma all_inj c1 c2 code : cm_all c1 = Some code -> cm_all c2 = Some code -> c1 = c2.
  Proof. intros H1 H2. apply Hrev in H1, H2. congruence. Qed.

  Fixpoint first_of (c : cid) (l : list (cid * text * width)) : option (text * width) :=
    match l with
    | [] => None
    | (c', t, w) :: r => if c =? c' then Some (t, w) else first_of c r
    end.

  Lemma fshow_all_cons s c t w r :
    fst (fshow_all s ((c, t, w) :: r)) = fst (fshow_all (fst (fshow s c t w)) r).
  Proof. cbn [CidEnc.fshow_all]. destruct (fshow s c t w) as [s1 o]. cbn [fst]. destruct (fshow_all s1 r). reflexivity. Qed.

  (* entries, once present, never change *)
  Lemma fshow_keeps s c t w c0 w0 :
    ffind_w c0 (f_width s) = Some w0 -> ffind_w c0 (f_width (fst (fshow s c t w))) = Some w0.
  Proof.
    intros H. unfold CidEnc.fshow. destruct (fget_code s c t); [exact H|].
    unfold CidEnc.fencode. destruct (cm_all c) as [code|]; [|exact H].
    destruct (ffind_w c (f_width s)) as [w'|] eqn:Ew.
    - destruct (Z.eqb w' w); [|exact H].
      destruct (ffind_t code (f_text s)) as [t'|]; [destruct (bytes_eqb t' t)|]; exact H.
    - assert (Hn : ffind_w c0 ((c, w) :: f_width s) = Some w0).
      { cbn. destruct (c0 =? c) eqn:E; [apply N.eqb_eq in E; subst; congruence | exact H]. }
      destruct (ffind_t code (f_text s)) as [t'|]; [destruct (bytes_eqb t' t)|]; exact Hn.
  Qed.

  Lemma fshow_keeps_t s c t w code0 t0 :
    ffind_t code0 (f_text s) = Some t0 -> ffind_t code0 (f_text (fst (fshow s c t w))) = Some t0.
  Proof.
    intros H. unfold CidEnc.fshow. destruct (fget_code s c t); [exact H|].
    unfold CidEnc.fencode. destruct (cm_all c) as [code|]; [|exact H].
    destruct (match ffind_w c (f_width s) with
              | Some w' => if Z.eqb w' w then Some (f_width s) else None
              | None => Some ((c, w) :: f_width s) end) as [ws|]; [|exact H].
    destruct (ffind_t code (f_text s)) as [t'|] eqn:Et.
    - destruct (bytes_eqb t' t); exact H.
    - cbn. destruct (bytes_eqb code0 code) eqn:E; [apply bytes_eqb_eq in E; subst; congruence | exact H].
  Qed.

  Lemma fshow_all_keeps l : forall s c0 w0 code0 t0,
    ffind_w c0 (f_width s) = Some w0 -> ffind_t code0 (f_text s) = Some t0 ->
    ffind_w c0 (f_width (fst (fshow_all s l))) = Some w0 /\
    ffind_t code0 (f_text (fst (fshow_all s l))) = Some t0.
  Proof.
    induction l as [|[[c t] w] r IH]; intros s c0 w0 code0 t0 H1 H2; [split; assumption|].
    rewrite fshow_all_cons. apply IH; [apply fshow_keeps | apply fshow_keeps_t]; assumption.
  Qed.

  (* showing another CID leaves the entries of c0 absent *)
  Lemma fshow_other s c t w c0 code0 : c <> c0 -> cm_all c0 = Some code0 ->
    ffind_w c0 (f_width s) = None -> ffind_t code0 (f_text s) = None ->
    ffind_w c0 (f_width (fst (fshow s c t w))) = None /\ ffind_t code0 (f_text (fst (fshow s c t w))) = None.
  Proof.
    intros Hne Hc0 H1 H2. unfold CidEnc.fshow. destruct (fget_code s c t); [split; assumption|].
    unfold CidEnc.fencode. destruct (cm_all c) as [code|] eqn:Ec; [|split; assumption].
    assert (Hcode : bytes_eqb code0 code = false).
    { apply bytes_eqb_false. intros E; subst. apply Hne. exact (all_inj _ _ _ Ec Hc0). }
    assert (Hcc : (c0 =? c) = false) by (apply N.eqb_neq; congruence).
    destruct (ffind_w c (f_width s)) as [w'|] eqn:Ew.
    - destruct (Z.eqb w' w); [|split; assumption].
      destruct (ffind_t code (f_text s)) as [t'|]; [destruct (bytes_eqb t' t)|]; cbn; rewrite ?Hcode; split; assumption.
    - destruct (ffind_t code (f_text s)) as [t'|]; [destruct (bytes_eqb t' t)|]; cbn; rewrite ?Hcode, Hcc; split; assumption.
  Qed.

  (* showing c0 for the first time records its width and text *)
  Lemma fshow_first s t w c0 code0 : cm_all c0 = Some code0 ->
    ffind_w c0 (f_width s) = None -> ffind_t code0 (f_text s) = None ->
    ffind_w c0 (f_width (fst (fshow s c0 t w))) = Some w /\ ffind_t code0 (f_text (fst (fshow s c0 t w))) = Some t /\
    snd (fshow s c0 t w) = Some code0.
  Proof.
    intros Hc0 H1 H2. unfold CidEnc.fshow, CidEnc.fget_code. rewrite H1.
    unfold CidEnc.fencode. rewrite Hc0, H1, H2. cbn. rewrite N.eqb_refl, bytes_eqb_refl. auto.
  Qed.

  Lemma fixed_first_wins_gen l : forall s c0 code0, cm_all c0 = Some code0 ->
    ffind_w c0 (f_width s) = None -> ffind_t code0 (f_text s) = None ->
    let s' := fst (fshow_all s l) in
    match first_of c0 l with
    | Some (t, w) => ffind_w c0 (f_width s') = Some w /\ ffind_t code0 (f_text s') = Some t
    | None => ffind_w c0 (f_width s') = None /\ ffind_t code0 (f_text s') = None
    end.
  Proof.
    induction l as [|[[c t] w] r IH]; intros s c0 code0 Hc0 H1 H2; [cbn; auto|].
    cbn zeta. rewrite fshow_all_cons. cbn [first_of]. destruct (c0 =? c) eqn:E.
    - apply N.eqb_eq in E; subst c.
      destruct (fshow_first s t w c0 code0 Hc0 H1 H2) as [K1 [K2 _]].
      exact (fshow_all_keeps r _ _ _ _ _ K1 K2).
    - apply N.eqb_neq in E.
      destruct (fshow_other s c t w c0 code0 (fun e => E (eq_sym e)) Hc0 H1 H2) as [K1 K2].
      exact (IH _ _ _ Hc0 K1 K2).
  Qed.

  (* the first text and width shown for a CID (other than 0) are the ones every later lookup sees *)
  Lemma fixed_first_wins_lemma w0 l c code t w : c <> 0 -> cm_all c = Some code ->
    first_of c l = Some (t, w) ->
    fget (fst (fshow_all (finit w0) l)) code = mkui c w t.
  Proof.
    intros Hne Hc Hf.
    assert (H1 : ffind_w c (f_width (finit w0)) = None).
    { cbn. destruct (c =? 0) eqn:E; [apply N.eqb_eq in E; contradiction | reflexivity]. }
    pose proof (fixed_first_wins_gen l (finit w0) c code Hc H1 eq_refl) as H.
    cbn zeta in H. rewrite Hf in H. destruct H as [K1 K2].
    unfold CidEnc.fget. rewrite (Hrev _ _ Hc), K1, K2. reflexivity.
  Qed.

  Lemma first_of_in c l : (exists t w, In (c, t, w) l) -> exists t w, first_of c l = Some (t, w) /\ In (c, t, w) l.
  Proof.
    induction l as [|[[c' t'] w'] r IH]; intros [t [w H]]; [destruct H|].
    cbn [first_of]. destruct (c =? c') eqn:E.
    - apply N.eqb_eq in E; subst. exists t', w'. split; [reflexivity | left; reflexivity].
    - destruct H as [H|H]; [inversion H; subst; rewrite N.eqb_refl in E; discriminate|].
      destruct (IH (ex_intro _ t (ex_intro _ w H))) as [t1 [w1 [H1 H2]]].
      exists t1, w1. split; [exact H1 | right; exact H2].
  Qed.

  (* guarded statement: a CID that is always shown with the same text and width reads back with them *)
  Lemma fixed_consistent_lemma w0 l c code t w : c <> 0 -> cm_all c = Some code ->
    In (c, t, w) l ->
    (forall t' w', In (c, t', w') l -> t' = t /\ w' = w) ->
    fget (fst (fshow_all (finit w0) l)) code = mkui c w t.
  Proof.
    intros Hne Hc Hin Hsame.
    destruct (first_of_in c l (ex_intro _ t (ex_intro _ w Hin))) as [t1 [w1 [H1 H2]]].
    destruct (Hsame _ _ H2) as [-> ->].
    exact (fixed_first_wins_lemma w0 l c code t w Hne Hc H1).
  Qed.

  (* ---- text ---- *)
  Variable ros_text : cid -> text.
  Notation f_tounicode := (f_tounicode cm_rev ros_text).
  Notation f_reader_text := (f_reader_text cm_rev ros_text).

  Definition fsel (ct : ccode * text) : list (ccode * text) :=
    match snd ct with
    | [] => []
    | _ => if bytes_eqb (snd ct) (ros_text (cm_rev (fst ct))) then [] else [ct]
    end.

  Lemma ffind_t_absent l code : ~ In code (map fst l) -> ffind_t code (flat_map fsel l) = None.
  Proof.
    induction l as [|[c' t'] r IH]; cbn [flat_map map In fst]; [reflexivity|].
    intros H. unfold fsel at 1. cbn [fst snd].
    assert (Hr : ffind_t code (flat_map fsel r) = None) by (apply IH; tauto).
    destruct t'; [exact Hr|].
    destruct (bytes_eqb _ _); [exact Hr|]. cbn [app CidEnc.ffind_t].
    destruct (bytes_eqb code c') eqn:E; [apply bytes_eqb_eq in E; subst; tauto | exact Hr].
  Qed.

  Lemma ffind_t_present l code t : NoDup (map fst l) -> In (code, t) l ->
    ffind_t code (flat_map fsel l) =
    match t with [] => None | _ => if bytes_eqb t (ros_text (cm_rev code)) then None else Some t end.
  Proof.
    induction l as [|[c' t'] r IH]; cbn [flat_map map In fst]; [tauto|].
    intros ND [H|H]; apply NoDup_cons_iff in ND as [Hn ND].
    - inversion H; subst. unfold fsel at 1. cbn [fst snd].
      pose proof (ffind_t_absent r code Hn) as Hr.
      destruct t as [|x t]; [exact Hr|]. destruct (bytes_eqb (x :: t) (ros_text (cm_rev code))); [exact Hr|].
      cbn [app CidEnc.ffind_t]. rewrite bytes_eqb_refl. reflexivity.
    - assert (Hne : bytes_eqb code c' = false).
      { apply bytes_eqb_false. intros E; subst. apply Hn. apply (in_map fst) in H. exact H. }
      unfold fsel at 1. cbn [fst snd]. destruct t' as [|y t']; [apply IH; assumption|].
      destruct (bytes_eqb (y :: t') (ros_text (cm_rev c'))); [apply IH; assumption|].
      cbn [app CidEnc.ffind_t]. rewrite Hne. apply IH; assumption.
  Qed.

  Lemma fshow_nodup s c t w : NoDup (map fst (f_text s)) -> NoDup (map fst (f_text (fst (fshow s c t w)))).
  Proof.
    intros H. unfold CidEnc.fshow. destruct (fget_code s c t); [exact H|].
    unfold CidEnc.fencode. destruct (cm_all c) as [code|]; [|exact H].
    destruct (match ffind_w c (f_width s) with
              | Some w' => if Z.eqb w' w then Some (f_width s) else None
              | None => Some ((c, w) :: f_width s) end) as [ws|]; [|exact H].
    destruct (ffind_t code (f_text s)) as [t'|] eqn:Et.
    - destruct (bytes_eqb t' t); exact H.
    - cbn. constructor; [|exact H].
      clear -Et. induction (f_text s) as [|[c' t'] r IH]; cbn in *; [tauto|].
      destruct (bytes_eqb code c') eqn:E; [discriminate|].
      intros [K|K]; [subst; rewrite bytes_eqb_refl in E; discriminate | exact (IH Et K)].
  Qed.

  Lemma fshow_all_nodup l : forall s, NoDup (map fst (f_text s)) -> NoDup (map fst (f_text (fst (fshow_all s l)))).
  Proof.
    induction l as [|[[c t] w] r IH]; intros s H; [exact H|].
    rewrite fshow_all_cons. apply IH. apply fshow_nodup. exact H.
  Qed.

  Lemma ffind_t_in code l t : ffind_t code l = Some t -> In (code, t) l.
  Proof.
    induction l as [|[c' t'] r IH]; cbn; [discriminate|].
    destruct (bytes_eqb code c') eqn:E.
    - intros H; inversion H; subst. apply bytes_eqb_eq in E; subst. left; reflexivity.
    - intros H; right; auto.
  Qed.

  Lemma cid_text_derivable_lemma w0 l code t :
    let s := fst (fshow_all (finit w0) l) in
    ffind_t code (f_text s) = Some t ->
    (t = [] -> ros_text (cm_rev code) = []) ->
    f_reader_text (f_tounicode s) code = t.
  Proof.
    intros s Ht Hempty.
    assert (ND : NoDup (map fst (f_text s))) by (apply fshow_all_nodup; cbn; constructor).
    unfold CidEnc.f_reader_text, CidEnc.f_tounicode.
    change (ffind_t code (flat_map fsel (f_text s))) with (ffind_t code (flat_map fsel (f_text s))).
    replace (flat_map _ (f_text s)) with (flat_map fsel (f_text s)) by reflexivity.
    rewrite (ffind_t_present _ _ _ ND (ffind_t_in _ _ _ Ht)).
    destruct t as [|x t]; [apply Hempty; reflexivity|].
    destruct (bytes_eqb (x :: t) (ros_text (cm_rev code))) eqn:E; [|reflexivity].
    apply bytes_eqb_eq in E. symmetry. exact E.
  Qed.
End FixedProofs.

(* ---- Identity-H / Identity-V ---------------------------------------------------- *)
Lemma id_all_rev c code : id_all c = Some code -> id_rev code = c.
Proof.
  unfold id_all. destruct (c <? 65536); [|discriminate].
  intros H; inversion H; subst. unfold id_rev.
  pose proof (N.div_mod c 256). lia.
Qed.

Lemma id_split_concat cs : Forall (fun c => length c = 2%nat) cs -> id_split (concat cs) = Some cs.
Proof.
  induction cs as [|c r IH]; intros H; [reflexivity|].
  inversion H; subst. destruct c as [|hi [|lo [|x y]]]; try discriminate.
  cbn [concat app id_split]. rewrite IH; [reflexivity | assumption].
Qed.

(* the identity encoder gives one code per CID: a glyph shown with two texts shares it *)
Definition id_share_example : list (cid * text * width) := [(1, [102; 105], 500%Z); (1, [239; 172; 129], 500%Z)].

Lemma id_share_lemma :
  let r := fshow_all id_all (finit 0%Z) id_share_example in
  snd r = [Some [0; 1]; Some [0; 1]] /\
  ui_text (fget id_rev (fst r) [0; 1]) = [102; 105].
Proof. vm_compute. auto. Qed.

Definition fixed_no_sharing_full : Prop :=
  forall l, let r := fshow_all id_all (finit 0%Z) l in
    forall i j ci ti wi cj tj wj code,
      nth_error l i = Some (ci, ti, wi) -> nth_error l j = Some (cj, tj, wj) ->
      nth_error (snd r) i = Some (Some code) -> nth_error (snd r) j = Some (Some code) ->
      (ci, ti) = (cj, tj).

Lemma fixed_no_sharing_refuted_lemma : ~ fixed_no_sharing_full.
Proof.
  intros H. specialize (H id_share_example 0%nat 1%nat 1 [102; 105] 500%Z 1 [239; 172; 129] 500%Z [0; 1]
                          eq_refl eq_refl eq_refl eq_refl). discriminate H.
Qed.

Lemma identity_consistent_lemma :
  (forall w0 l c code t w, c <> 0 -> id_all c = Some code -> In (c, t, w) l ->
     (forall t' w', In (c, t', w') l -> t' = t /\ w' = w) ->
     fget id_rev (fst (fshow_all id_all (finit w0) l)) code = mkui c w t) /\
  (forall c1 c2 code, id_all c1 = Some code -> id_all c2 = Some code -> c1 = c2) /\
  (forall cs, Forall (fun c => length c = 2%nat) cs -> id_split (concat cs) = Some cs).
Proof.
  split; [exact (fixed_consistent_lemma id_all id_rev id_all_rev)|].
  split; [exact (all_inj id_all id_rev id_all_rev) | exact id_split_concat].
Qed.

(* ---- NewFromCMap with an arbitrary CMap ------------------------------------------- *)
Lemma tbl_all_in l c code : tbl_all l c = Some code -> In (code, c) l.
Proof.
  induction l as [|[code' c'] r IH]; cbn [tbl_all]; [discriminate|].
  destruct (tbl_all r c) eqn:E.
  - intros H; inversion H; subst. right. apply IH. reflexivity.
  - destruct (c =? c') eqn:Ec; [|discriminate].
    intros H; inversion H; subst. apply N.eqb_eq in Ec; subst. left; reflexivity.
Qed.

Lemma tbl_rev_opt_in l code : forall x, tbl_rev_opt l code = Some x -> In code (map fst l).
Proof.
  induction l as [|[c1 x1] r IH]; intros x; cbn [tbl_rev_opt map fst In]; [discriminate|].
  destruct (tbl_rev_opt r code) eqn:E1; [intros _; right; exact (IH _ eq_refl)|].
  destruct (bytes_eqb code c1) eqn:Eb; [|discriminate]. apply bytes_eqb_eq in Eb. intros _. left; auto.
Qed.

Lemma tbl_rev_nodup l code c : NoDup (map fst l) -> In (code, c) l -> tbl_rev_opt l code = Some c.
Proof.
  induction l as [|[code' c'] r IH]; cbn [tbl_rev_opt map In fst]; [tauto|].
  intros ND H. apply NoDup_cons_iff in ND as [Hn ND]. destruct H as [H|H].
  - inversion H; subst.
    destruct (tbl_rev_opt r code) eqn:E.
    + exfalso. apply Hn. exact (tbl_rev_opt_in _ _ _ E).
    + rewrite bytes_eqb_refl. reflexivity.
  - rewrite (IH ND H). reflexivity.
Qed.

(* if no code occurs twice in cmap.All, the code -> CID table inverts the CID -> code table *)
Lemma fromcmap_inverse_lemma l : NoDup (map fst l) ->
  forall c code, tbl_all l c = Some code -> tbl_rev l code = c.
Proof.
  intros ND c code H. apply tbl_all_in in H. unfold tbl_rev. rewrite (tbl_rev_nodup _ _ _ ND H). reflexivity.
Qed.

(* the repaired table inverts for every CMap *)
Lemma tbl_all_sound_aux_inv whole l c code : tbl_all_sound_aux whole l c = Some code -> tbl_rev whole code = c.
Proof.
  induction l as [|[code' c'] r IH]; cbn [tbl_all_sound_aux]; [discriminate|].
  destruct (tbl_all_sound_aux whole r c) eqn:E.
  - intros H; inversion H; subst. apply IH. reflexivity.
  - destruct (c =? c'); [|discriminate].
    destruct (tbl_rev whole code' =? c) eqn:Ec; [|discriminate].
    intros H; inversion H; subst. apply N.eqb_eq in Ec. exact Ec.
Qed.

Lemma fromcmap_sound_inverse_lemma l c code : tbl_all_sound l c = Some code -> tbl_rev l code = c.
Proof. apply tbl_all_sound_aux_inv. Qed.

(* a child CMap that re-maps a code of its parent: the pair of the parent stays in all[] *)
Definition recoded_example : list (ccode * cid) := [([36; 103], 912); ([36; 103], 7926)].

Lemma fromcmap_inverse_refuted_lemma :
  exists l c code, tbl_all l c = Some code /\ tbl_rev l code <> c /\
    (* consequence: the width stored for the CID is not the width its code reads back with *)
    (let '(s, r) := fshow (tbl_all l) (finit 1000%Z) c [227; 130; 135] 500%Z in
     r = Some code /\ ui_cid (fget (tbl_rev l) s code) <> c /\ ui_w (fget (tbl_rev l) s code) = 0%Z).
Proof.
  exists recoded_example, 912, [36; 103]. vm_compute. repeat split; discriminate.
Qed.

(* the guarded statement: first text and width win, for every CMap without re-coded entries *)
Lemma fromcmap_first_wins_lemma l : NoDup (map fst l) ->
  forall w0 shown c code t w, c <> 0 -> tbl_all l c = Some code ->
    first_of c shown = Some (t, w) ->
    fget (tbl_rev l) (fst (fshow_all (tbl_all l) (finit w0) shown)) code = mkui c w t.
Proof.
  intros ND. exact (fixed_first_wins_lemma (tbl_all l) (tbl_rev l) (fromcmap_inverse_lemma l ND)).
Qed.

(* and for the repaired table, for every CMap *)
Lemma fromcmap_sound_first_wins_lemma l :
  forall w0 shown c code t w, c <> 0 -> tbl_all_sound l c = Some code ->
    first_of c shown = Some (t, w) ->
    fget (tbl_rev l) (fst (fshow_all (tbl_all_sound l) (finit w0) shown)) code = mkui c w t.
Proof.
  exact (fixed_first_wins_lemma (tbl_all_sound l) (tbl_rev l) (fromcmap_sound_inverse_lemma l)).
Qed.
