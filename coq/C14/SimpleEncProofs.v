(* C14: invariants of the simple-font code allocator (model: SimpleEnc.v). *)
From Coq Require Import List NArith ZArith Bool Lia FinFun.
From Coq Require Import ZifyN ZifyNat ZifyBool.
From GoPdf.Base Require Import Bytes.
From GoPdf.C14 Require Import SimpleEnc.
Import ListNotations.
Open Scope N_scope.

Lemma key_eqb_eq a b : key_eqb a b = true <-> a = b.
Proof.
  destruct a as [g t], b as [g' t']; unfold key_eqb; cbn [fst snd].
  rewrite andb_true_iff, N.eqb_eq, bytes_eqb_eq.
  split; [intros [-> ->]; reflexivity | intros H; inversion H; auto].
Qed.

Lemma key_eqb_refl a : key_eqb a a = true.
Proof. apply key_eqb_eq; reflexivity. Qed.

Lemma key_eqb_false a b : key_eqb a b = false <-> a <> b.
Proof.
  split; intros H.
  - intros E. apply key_eqb_eq in E. congruence.
  - destruct (key_eqb a b) eqn:E; [apply key_eqb_eq in E; contradiction | reflexivity].
Qed.

(* ---- association lists ---------------------------------------------------- *)
Lemma find_code_in k l c : find_code k l = Some c -> In (k, c) l.
Proof.
  induction l as [|[k' c'] r IH]; cbn; [discriminate|].
  destruct (key_eqb k k') eqn:E.
  - intros H; inversion H; subst. apply key_eqb_eq in E; subst. left; reflexivity.
  - intros H; right; auto.
Qed.

Lemma find_code_none k l : find_code k l = None -> ~ In k (map fst l).
Proof.
  induction l as [|[k' c'] r IH]; cbn; [tauto|].
  destruct (key_eqb k k') eqn:E; [discriminate|].
  intros H [H1|H1]; [subst; rewrite key_eqb_refl in E; discriminate | exact (IH H H1)].
Qed.

Lemma in_find_code k c l : NoDup (map fst l) -> In (k, c) l -> find_code k l = Some c.
Proof.
  induction l as [|[k' c'] r IH]; cbn; [tauto|].
  intros ND [H|H].
  - inversion H; subst. rewrite key_eqb_refl. reflexivity.
  - inversion ND; subst. destruct (key_eqb k k') eqn:E.
    + apply key_eqb_eq in E; subst. exfalso. apply H2. apply (in_map fst) in H. exact H.
    + auto.
Qed.

Lemma find_info_in c l i : find_info c l = Some i -> In (c, i) l.
Proof.
  induction l as [|[c' i'] r IH]; cbn; [discriminate|].
  destruct (c =? c') eqn:E.
  - intros H; inversion H; subst. apply N.eqb_eq in E; subst. left; reflexivity.
  - intros H; right; auto.
Qed.

Lemma find_info_none c l : find_info c l = None -> ~ In c (map fst l).
Proof.
  induction l as [|[c' i'] r IH]; cbn; [tauto|].
  destruct (c =? c') eqn:E; [discriminate|].
  intros H [H1|H1]; [subst; rewrite N.eqb_refl in E; discriminate | exact (IH H H1)].
Qed.

Lemma in_find_info c i l : NoDup (map fst l) -> In (c, i) l -> find_info c l = Some i.
Proof.
  induction l as [|[c' i'] r IH]; cbn; [tauto|].
  intros ND [H|H].
  - inversion H; subst. rewrite N.eqb_refl. reflexivity.
  - inversion ND; subst. destruct (c =? c') eqn:E.
    + apply N.eqb_eq in E; subst. exfalso. apply H2. apply (in_map fst) in H. exact H.
    + auto.
Qed.

(* ---- the invariant --------------------------------------------------------- *)
Record inv (s : st) : Prop := {
  inv_ndk : NoDup (map fst (s_code s));
  inv_ndc : NoDup (map snd (s_code s));
  inv_ndi : NoDup (map fst (s_info s));
  inv_fwd : forall g t c, In ((g, t), c) (s_code s) -> exists w, In (c, mkci g w t) (s_info s);
  inv_back : forall c i, In (c, i) (s_info s) -> In ((ci_gid i, ci_text i), c) (s_code s) /\ c < 256;
  inv_size : nused s <= 256;
  inv_len : length (s_code s) = length (s_info s)
}.

Lemma inv_init nw : inv (init nw).
Proof.
  constructor; cbn; try constructor; try tauto; unfold nused; cbn; lia.
Qed.

Lemma is_free_spec s c : is_free s c = true <-> c < 256 /\ find_info c (s_info s) = None.
Proof.
  unfold is_free. rewrite andb_true_iff, N.ltb_lt.
  destruct (find_info c (s_info s)); split; intros [H1 H2]; split; auto; discriminate.
Qed.

Lemma inv_encode s g t w ch : inv s -> inv (fst (encode s g t w ch)).
Proof.
  intros I. unfold encode.
  destruct (find_code (g, t) (s_code s)) eqn:Ek; [exact I|].
  destruct (256 <=? nused s) eqn:Es.
  { destruct I; constructor; cbn; auto. }
  destruct (is_free s ch) eqn:Ef; [|exact I].
  apply is_free_spec in Ef as [Hlt Hnone].
  apply N.leb_gt in Es.
  pose proof (find_code_none _ _ Ek) as Hk.
  pose proof (find_info_none _ _ Hnone) as Hc.
  destruct I as [ndk ndc ndi fwd back size len].
  assert (Hcc : ~ In ch (map snd (s_code s))).
  { intros H. apply in_map_iff in H as [[[g' t'] c'] [E H]]. cbn in E; subst c'.
    destruct (fwd _ _ _ H) as [w' H']. apply Hc. apply (in_map fst) in H'. exact H'. }
  constructor; cbn [fst s_code s_info map snd].
  - constructor; auto.
  - constructor; auto.
  - constructor; auto.
  - intros g' t' c' [H|H].
    + inversion H; subst. exists w. left; reflexivity.
    + destruct (fwd _ _ _ H) as [w' H']. exists w'. right; exact H'.
  - intros c' i' [H|H].
    + inversion H; subst. cbn. split; [left; reflexivity | exact Hlt].
    + destruct (back _ _ H) as [H1 H2]. split; [right; exact H1 | exact H2].
  - unfold nused in *. cbn [s_info length]. lia.
  - cbn. f_equal. exact len.
Qed.

Lemma inv_step s o : inv s -> inv (fst (step s o)).
Proof.
  destruct o as [g t w ch|g t]; cbn [step].
  - intros I. pose proof (inv_encode s g t w ch I) as H. destruct (encode s g t w ch); exact H.
  - auto.
Qed.

Lemma run_fst_cons s o r : fst (run s (o :: r)) = fst (run (fst (step s o)) r).
Proof. cbn [run]. destruct (step s o) as [s1 b]. cbn [fst]. destruct (run s1 r). reflexivity. Qed.

Lemma inv_run ops : forall s, inv s -> inv (fst (run s ops)).
Proof.
  induction ops as [|o r IH]; intros s I; [exact I|].
  rewrite run_fst_cons. apply IH. apply inv_step. exact I.
Qed.

Lemma run_app a : forall s b, fst (run s (a ++ b)) = fst (run (fst (run s a)) b).
Proof.
  induction a as [|o r IH]; intros s b; [reflexivity|].
  cbn [app]. rewrite !run_fst_cons. apply IH.
Qed.

(* ---- consequences in terms of the lookups the Go code performs ------------- *)
Lemma inv_injective s : inv s ->
  forall k1 k2 c, find_code k1 (s_code s) = Some c -> find_code k2 (s_code s) = Some c -> k1 = k2.
Proof.
  intros I [g1 t1] [g2 t2] c H1 H2.
  apply find_code_in in H1, H2.
  destruct (inv_fwd _ I _ _ _ H1) as [w1 F1]. destruct (inv_fwd _ I _ _ _ H2) as [w2 F2].
  apply (in_find_info _ _ _ (inv_ndi _ I)) in F1, F2. rewrite F1 in F2. inversion F2. reflexivity.
Qed.

Lemma inv_info s : inv s ->
  forall g t c, get_code s g t = Some c -> c < 256 /\ exists w, get s c = mkci g w t.
Proof.
  intros I g t c H. unfold get_code in H. apply find_code_in in H.
  destruct (inv_fwd _ I _ _ _ H) as [w F]. split.
  - exact (proj2 (inv_back _ I _ _ F)).
  - exists w. unfold get. rewrite (in_find_info _ _ _ (inv_ndi _ I) F). reflexivity.
Qed.

Lemma inv_onto s : inv s ->
  forall c i, find_info c (s_info s) = Some i -> get_code s (ci_gid i) (ci_text i) = Some c.
Proof.
  intros I c i H. apply find_info_in in H. destruct (inv_back _ I _ _ H) as [H1 _].
  exact (in_find_code _ _ _ (inv_ndk _ I) H1).
Qed.

Lemma encode_overflow_iff s g t w ch : inv s -> get_code s g t = None ->
  (snd (encode s g t w ch) = EOverflow <-> nused s = 256).
Proof.
  intros I H. unfold get_code in H. unfold encode. rewrite H.
  pose proof (inv_size _ I) as Hs.
  destruct (256 <=? nused s) eqn:E.
  - apply N.leb_le in E. cbn. split; [lia | reflexivity].
  - apply N.leb_gt in E. destruct (is_free s ch); cbn; split; try discriminate; lia.
Qed.

Lemma encode_accepts_free s g t w ch : get_code s g t = None -> nused s < 256 -> is_free s ch = true ->
  snd (encode s g t w ch) = EOk ch.
Proof.
  intros H Hs Hf. unfold get_code in H. unfold encode. rewrite H.
  destruct (256 <=? nused s) eqn:E; [apply N.leb_le in E; lia|]. rewrite Hf. reflexivity.
Qed.

Lemma encode_ok_free s g t w ch c : snd (encode s g t w ch) = EOk c -> c = ch /\ is_free s ch = true.
Proof.
  unfold encode. destruct (find_code (g, t) (s_code s)); [discriminate|].
  destruct (256 <=? nused s); [discriminate|].
  destruct (is_free s ch) eqn:E; [|discriminate]. cbn. intros H; inversion H. auto.
Qed.

(* a free code exists as long as fewer than 256 are used *)
Lemma all_bytes_spec c : In c all_bytes <-> c < 256.
Proof.
  unfold all_bytes. rewrite in_map_iff. split.
  - intros [n [E H]]. apply in_seq in H. lia.
  - intros H. exists (N.to_nat c). split; [lia | apply in_seq; lia].
Qed.

Lemma all_bytes_nodup : NoDup all_bytes.
Proof.
  unfold all_bytes. apply Injective_map_NoDup; [|apply seq_NoDup].
  intros a b H. lia.
Qed.

Lemma all_bytes_length : length all_bytes = 256%nat.
Proof. unfold all_bytes. rewrite map_length, seq_length. reflexivity. Qed.

Lemma first_free_exists s : inv s -> nused s < 256 -> exists c, first_free s = Some c /\ is_free s c = true.
Proof.
  intros I Hs. unfold first_free. destruct (find (is_free s) all_bytes) eqn:E.
  - exists b. split; [reflexivity | exact (proj2 (find_some _ _ E))].
  - exfalso.
    assert (Hincl : incl all_bytes (map fst (s_info s))).
    { intros c Hc. pose proof (find_none _ _ E c Hc) as Hf.
      destruct (find_info c (s_info s)) eqn:Ei.
      - apply find_info_in in Ei. apply (in_map fst) in Ei. exact Ei.
      - apply all_bytes_spec in Hc. assert (is_free s c = true) by (apply is_free_spec; auto). congruence. }
    pose proof (NoDup_incl_length all_bytes_nodup Hincl) as HL.
    rewrite all_bytes_length, map_length in HL. unfold nused in Hs. lia.
Qed.

(* ---- allocations are permanent --------------------------------------------- *)
Lemma step_keeps_code s o k c : find_code k (s_code s) = Some c -> find_code k (s_code (fst (step s o))) = Some c.
Proof.
  intros H. destruct o as [g t w ch|g t]; cbn [step]; [|exact H].
  unfold encode. destruct (find_code (g, t) (s_code s)) eqn:Ek; [exact H|].
  destruct (256 <=? nused s); [exact H|]. destruct (is_free s ch); [|exact H].
  cbn. destruct (key_eqb k (g, t)) eqn:E; [|exact H].
  apply key_eqb_eq in E; subst. congruence.
Qed.

Lemma step_keeps_info s o c i : find_info c (s_info s) = Some i -> find_info c (s_info (fst (step s o))) = Some i.
Proof.
  intros H. destruct o as [g t w ch|g t]; cbn [step]; [|exact H].
  unfold encode. destruct (find_code (g, t) (s_code s)) eqn:Ek; [exact H|].
  destruct (256 <=? nused s); [exact H|]. destruct (is_free s ch) eqn:Ef; [|exact H].
  cbn. destruct (c =? ch) eqn:E; [|exact H].
  apply N.eqb_eq in E; subst. apply is_free_spec in Ef as [_ Ef]. congruence.
Qed.

Lemma run_keeps ops : forall s k c ci i,
  find_code k (s_code s) = Some c -> find_info ci (s_info s) = Some i ->
  find_code k (s_code (fst (run s ops))) = Some c /\ find_info ci (s_info (fst (run s ops))) = Some i.
Proof.
  induction ops as [|o r IH]; intros s k c ci i H1 H2; [split; assumption|].
  rewrite run_fst_cons. apply IH; [apply step_keeps_code | apply step_keeps_info]; assumption.
Qed.

Lemma encode_ok_state s g t w ch c : snd (encode s g t w ch) = EOk c ->
  find_code (g, t) (s_code (fst (encode s g t w ch))) = Some c /\
  find_info c (s_info (fst (encode s g t w ch))) = Some (mkci g w t).
Proof.
  unfold encode. destruct (find_code (g, t) (s_code s)); [discriminate|].
  destruct (256 <=? nused s); [discriminate|].
  destruct (is_free s ch); [|discriminate]. cbn. intros H; inversion H; subst.
  rewrite key_eqb_refl, N.eqb_refl. auto.
Qed.

Lemma enc_stable_lemma nw pre post g t w ch c :
  snd (encode (final nw pre) g t w ch) = EOk c ->
  let s := final nw (pre ++ OEncode g t w ch :: post) in
  get_code s g t = Some c /\ get s c = mkci g w t.
Proof.
  intros H s. subst s. unfold final. rewrite run_app, run_fst_cons. cbn [step].
  fold (final nw pre). destruct (encode_ok_state _ _ _ _ _ _ H) as [H1 H2].
  destruct (encode (final nw pre) g t w ch) as [s1 r] eqn:E. cbn [fst snd] in *.
  destruct (run_keeps post s1 _ _ _ _ H1 H2) as [K1 K2].
  unfold get_code, get. rewrite K1, K2. auto.
Qed.

(* ---- the sticky error flag --------------------------------------------------- *)
Definition is_overflow (b : obs) : bool := match b with BEnc EOverflow => true | _ => false end.

Lemma run_snd_cons s o r :
  snd (run s (o :: r)) = snd (step s o) :: snd (run (fst (step s o)) r).
Proof. cbn [run]. destruct (step s o) as [s1 b]. cbn [fst snd]. destruct (run s1 r). reflexivity. Qed.

Lemma step_err s o : s_err (fst (step s o)) = s_err s || is_overflow (snd (step s o)).
Proof.
  destruct o as [g t w ch|g t]; cbn [step]; [|cbn; rewrite orb_false_r; reflexivity].
  unfold encode. destruct (find_code (g, t) (s_code s)); [cbn; rewrite orb_false_r; reflexivity|].
  destruct (256 <=? nused s); [cbn; rewrite orb_true_r; reflexivity|].
  destruct (is_free s ch); cbn; rewrite orb_false_r; reflexivity.
Qed.

Lemma run_err ops : forall s, s_err (fst (run s ops)) = s_err s || existsb is_overflow (snd (run s ops)).
Proof.
  induction ops as [|o r IH]; intros s; [cbn; rewrite orb_false_r; reflexivity|].
  rewrite run_fst_cons, run_snd_cons, IH, step_err. cbn [existsb]. rewrite orb_assoc. reflexivity.
Qed.

(* ---- codes ------------------------------------------------------------------ *)
Lemma codes_len_lemma s str :
  length (codes s str) = length str /\
  forall n b, nth_error str n = Some b -> nth_error (codes s str) n = Some (get s b).
Proof.
  unfold codes. split; [apply map_length|].
  intros n b H. rewrite nth_error_map, H. reflexivity.
Qed.

(* ---- the main invariant, packaged -------------------------------------------- *)
Definition enc_inv_stmt : Prop :=
  forall nw ops, let s := final nw ops in
    (* distinct (glyph, text) pairs never share a code *)
    (forall k1 k2 c, get_code s (fst k1) (snd k1) = Some c -> get_code s (fst k2) (snd k2) = Some c -> k1 = k2) /\
    (* info (code k) = (gid k, w, text k) *)
    (forall g t c, get_code s g t = Some c -> c < 256 /\ exists w, get s c = mkci g w t) /\
    (* every used code belongs to exactly the pair stored with it *)
    (forall c i, find_info c (s_info s) = Some i -> get_code s (ci_gid i) (ci_text i) = Some c) /\
    (* at most 256 codes, one per pair *)
    (nused s <= 256 /\ length (s_code s) = length (s_info s)) /\
    (* overflow is reported exactly when all 256 codes are used; otherwise every free code is accepted
       and a free code exists *)
    (forall g t w ch, get_code s g t = None ->
        (snd (encode s g t w ch) = EOverflow <-> nused s = 256) /\
        (nused s < 256 -> is_free s ch = true -> snd (encode s g t w ch) = EOk ch) /\
        (nused s < 256 -> exists c, first_free s = Some c /\ is_free s c = true)) /\
    (* Simple.Error() is set iff some Encode reported overflow *)
    (s_err s = existsb is_overflow (snd (run (init nw) ops))).

Lemma enc_inv_lemma : enc_inv_stmt.
Proof.
  intros nw ops s.
  assert (I : inv s) by (apply inv_run, inv_init).
  repeat split.
  - intros [g1 t1] [g2 t2] c H1 H2. exact (inv_injective s I _ _ c H1 H2).
  - exact (proj1 (inv_info s I g t c H)).
  - exact (proj2 (inv_info s I g t c H)).
  - exact (inv_onto s I).
  - exact (inv_size s I).
  - exact (inv_len s I).
  - apply (encode_overflow_iff s g t w ch I H).
  - apply (encode_overflow_iff s g t w ch I H).
  - intros Hs Hf. exact (encode_accepts_free s g t w ch H Hs Hf).
  - intros Hs. exact (first_free_exists s I Hs).
  - subst s. unfold final. rewrite run_err. reflexivity.
Qed.
