(* C14 model, part 6: widths of Type 3 fonts (font/type3/font.go, font/dict/type3.go).

   A Type 3 font keeps its widths in glyph space; FontMatrix[0] scales them to
   text space.  The encoder stores math.Round(rawWidth) (glyph space units).
     writer side  instance.Codes:   Simple.Codes yields width/1000, multiplied by 1000*FontMatrix[0]
     reader side  t3Font.Codes:     Width[code] * FontMatrix[0]
     layout       Geometry.Widths:  rawWidth * FontMatrix[0]
   The model works over the rationals (the Go code over float64: the two sides
   then agree up to rounding errors of a few ulp).  Definitions only. *)
From Coq Require Import QArith.
Open Scope Q_scope.

Definition t3_writer_width (w m : Q) : Q := (w / 1000) * (1000 * m).
Definition t3_reader_width (w m : Q) : Q := w * m.
Definition t3_geometry_width (raw m : Q) : Q := raw * m.
