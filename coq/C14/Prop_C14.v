(* C14: property theorems only; each closed by [exact] and followed by Print Assumptions.
   Models: SimpleEnc.v (simple-font code allocation, ToUnicode omission, reader-side text),
   CidEnc.v (UTF-8 and fixed/identity CID encoders), Widths.v (width tables). *)
From Coq Require Import List NArith ZArith Bool QArith Qabs.
From GoPdf.Base Require Import Bytes.
From GoPdf.C14 Require Import SimpleEnc CidEnc Widths Encoding VMetrics Type3 Utf16.
From GoPdf.C14 Require Import SimpleEncProofs TextProofs CidEncProofs WidthsProofs EncodingProofs VMetricsProofs RoundTripProofs.
Import ListNotations.
Open Scope N_scope.

(* ------------------------------------------------------------------------------------------
   Simple fonts: for every history of Encode/GetCode calls, with ANY allowed code choices *)
Theorem enc_inv :
  forall nw ops, let s := final nw ops in
    (* distinct (glyph, text) pairs never share a code *)
    (forall k1 k2 c, get_code s (fst k1) (snd k1) = Some c -> get_code s (fst k2) (snd k2) = Some c -> k1 = k2) /\
    (* info (code k) = (gid k, w, text k), and codes are bytes *)
    (forall g t c, get_code s g t = Some c -> c < 256 /\ exists w, get s c = mkci g w t) /\
    (* every used code belongs to the pair stored with it *)
    (forall c i, find_info c (s_info s) = Some i -> get_code s (ci_gid i) (ci_text i) = Some c) /\
    (* |info| <= 256, one code per pair *)
    (nused s <= 256 /\ length (s_code s) = length (s_info s)) /\
    (* overflow is reported exactly when 256 codes are used; below that every free code is an
       accepted choice and a free code exists *)
    (forall g t w ch, get_code s g t = None ->
        (snd (encode s g t w ch) = EOverflow <-> nused s = 256) /\
        (nused s < 256 -> is_free s ch = true -> snd (encode s g t w ch) = EOk ch) /\
        (nused s < 256 -> exists c, first_free s = Some c /\ is_free s c = true)) /\
    (* Simple.Error() is set iff some Encode reported overflow *)
    (s_err s = existsb is_overflow (snd (run (init nw) ops))).
Proof. exact enc_inv_lemma. Qed.
Print Assumptions enc_inv.

(* an allocation is permanent: whatever happens later, the code keeps glyph, width and text *)
Theorem enc_stable :
  forall nw pre post g t w ch c,
    snd (encode (final nw pre) g t w ch) = EOk c ->
    let s := final nw (pre ++ OEncode g t w ch :: post) in
    get_code s g t = Some c /\ get s c = mkci g w t.
Proof. exact enc_stable_lemma. Qed.
Print Assumptions enc_stable.

Theorem codes_len :
  forall s str,
    length (codes s str) = length str /\
    forall n b, nth_error str n = Some b -> nth_error (codes s str) n = Some (get s b).
Proof. exact codes_len_lemma. Qed.
Print Assumptions codes_len.

(* ------------------------------------------------------------------------------------------
   Width tables.
   (a) simple fonts: /FirstChar /LastChar /Widths + /MissingWidth give back the width of every used
       code, for EVERY value of MissingWidth (in particular the one DefaultWidth() computes);
   (b) composite fonts: the /W array decodes to exactly the (CID, width) pairs it was built from,
       so explicit width or /DW gives every CID's width. *)
Theorem width_compress :
  (forall (ww : N -> width) (used : N -> bool) (dw : width) c, c < 256 -> used c = true ->
     let '(first, last) := simple_first_last ww used dw in
     first <= last < 256 /\
     length (simple_widths ww used dw) = N.to_nat (last - first + 1) /\
     read_simple first (simple_widths ww used dw) dw c = ww c) /\
  (forall l, strictly_increasing (map fst l) -> Forall (fun p => fst p <= 65535) l ->
     decode_w (encode_w l) = Some l).
Proof. exact (conj simple_widths_lemma width_compress_w_lemma). Qed.
Print Assumptions width_compress.

Example width_compress_hyp :
  let l := [(1, 500%Z); (2, 500%Z); (3, 500%Z); (4, 600%Z); (7, 250%Z); (8, 250%Z)] in
  strictly_increasing (map fst l) /\ Forall (fun p => fst p <= 65535) l /\
  encode_w l = [WRange 1 3 500%Z; WList 4 [600%Z]; WRange 7 8 250%Z] /\
  cid_width l 1000%Z 8 = 250%Z /\ cid_width l 1000%Z 5 = 1000%Z.
Proof.
  cbn zeta. split; [cbn; repeat split; discriminate|].
  split; [repeat constructor; cbn; discriminate|]. vm_compute. auto.
Qed.

Example simple_widths_example :
  let ww := fun c => if c =? 65 then 700%Z else if c =? 66 then 600%Z else if c =? 200 then 500%Z else 0%Z in
  let used := fun c => (c =? 65) || (c =? 66) || (c =? 200) in
  simple_first_last ww used 500%Z = (65, 66) /\ simple_widths ww used 500%Z = [700%Z; 600%Z] /\
  read_simple 65 [700%Z; 600%Z] 500%Z 200 = 500%Z.
Proof. vm_compute. auto. Qed.

(* ------------------------------------------------------------------------------------------
   Text.  Glyph-name-to-text (names.ToUnicode) and the glyph names chosen by the encoder are
   arbitrary functions. *)

(* The unguarded statement: reader text = writer text for every used code and both shapes. *)
Definition text_derivable_full : Prop :=
  forall (gname : Type) (name_text : gname -> text) (glyph_name : gid -> gname) nw ops sh c i,
    let s := final nw ops in
    find_info c (s_info s) = Some i ->
    reader_text gname name_text glyph_name sh (writer_tu gname name_text glyph_name sh s) s c = writer_text s c.

(* It fails for a glyph shown with EMPTY text whose glyph name implies text: SimpleTextMap ignores
   empty /ToUnicode entries and falls back to the glyph name. *)
Theorem text_derivable_emptytext_refuted :
  forall (gname : Type) (name_text : gname -> text) (glyph_name : gid -> gname) g,
    name_text (glyph_name g) <> [] ->
    exists nw ops c i, let s := final nw ops in
      find_info c (s_info s) = Some i /\
      reader_text gname name_text glyph_name WithEncoding (writer_tu gname name_text glyph_name WithEncoding s) s c
        <> writer_text s c.
Proof. exact emptytext_refuted_lemma. Qed.
Print Assumptions text_derivable_emptytext_refuted.

(* Guarded version: every shown text is non-empty (or the glyph's name implies nothing).  Holds for
   every reachable encoder state and both dictionary shapes the embedders emit: the shape with
   /Encoding gets ToUnicode(), the symbolic/builtin shape gets ToUnicodeBuiltin(). *)
Theorem text_derivable :
  forall (gname : Type) (name_text : gname -> text) (glyph_name : gid -> gname) nw ops sh c i,
    let s := final nw ops in
    find_info c (s_info s) = Some i ->
    (sh = WithEncoding -> ci_text i = [] -> name_text (glyph_name (ci_gid i)) = []) ->
    reader_text gname name_text glyph_name sh (writer_tu gname name_text glyph_name sh s) s c = writer_text s c.
Proof. exact text_derivable_closed. Qed.
Print Assumptions text_derivable.

Example text_derivable_hyp :
  let name_text := fun n : N => if n =? 1 then [65] else [] in
  let glyph_name := fun g : gid => if g =? 36 then 1 else 2 in
  let s := final 0%Z [OEncode 36 [65] 667%Z 65; OEncode 448 [208; 145] 656%Z 17] in
  find_info 17 (s_info s) = Some (mkci 448 656%Z [208; 145]) /\
  writer_tu N name_text glyph_name WithEncoding s = [(17, [208; 145])] /\
  writer_tu N name_text glyph_name BuiltinEnc s = [(17, [208; 145]); (65, [65])] /\
  reader_text N name_text glyph_name WithEncoding (writer_tu N name_text glyph_name WithEncoding s) s 65 = [65].
Proof. vm_compute. auto. Qed.

(* The variant before fix F17: the builtin shape written with the omitting ToUnicode.  Every code
   whose text is implied by its glyph name reads back empty. *)
Theorem text_derivable_prefix_refuted :
  forall (gname : Type) (name_text : gname -> text) (glyph_name : gid -> gname) g,
    name_text (glyph_name g) <> [] ->
    exists nw ops c i, let s := final nw ops in
      find_info c (s_info s) = Some i /\ ci_text i <> [] /\
      reader_text gname name_text glyph_name BuiltinEnc (writer_tu_prefix gname name_text glyph_name BuiltinEnc s) s c
        <> writer_text s c.
Proof. exact prefix_refuted_lemma. Qed.
Print Assumptions text_derivable_prefix_refuted.

(* ------------------------------------------------------------------------------------------
   Composite fonts, UTF-8 encoder: for every history with any allowed code choices *)
Theorem uenc_inv :
  forall w0 ops, let s := ufinal w0 ops in
    (forall k1 k2 code, uget_code s (fst k1) (snd k1) = Some code -> uget_code s (fst k2) (snd k2) = Some code -> k1 = k2) /\
    (forall c t code, uget_code s c t = Some code -> valid_cs code = true /\ exists w, uget s code = mkui c w t) /\
    (forall code i, ufind_info code (u_info s) = Some i -> uget_code s (ui_cid i) (ui_text i) = Some code) /\
    length (u_code s) = length (u_info s).
Proof. exact uenc_inv_lemma. Qed.
Print Assumptions uenc_inv.

(* a PDF string made of n codes of the code space decodes into exactly those n codes *)
Theorem ucodes_concat :
  forall s cs fuel, (length cs <= fuel)%nat -> Forall (fun c => valid_cs c = true) cs ->
    ucodes fuel s (concat cs) = Some (map (uget s) cs).
Proof. exact (fun s cs fuel => ucodes_concat_lemma s cs fuel). Qed.
Print Assumptions ucodes_concat.

Example ucodes_concat_hyp :
  let s := ufinal 500%Z [UEncode 5 [65] 600%Z (Some [65]); UEncode 9 [208; 145] 700%Z (Some [208; 145])] in
  Forall (fun c => valid_cs c = true) [[208; 145]; [65]] /\
  ucodes 2 s [208; 145; 65] = Some [mkui 9 700%Z [208; 145]; mkui 5 600%Z [65]].
Proof. split; [repeat constructor | reflexivity]. Qed.

(* ------------------------------------------------------------------------------------------
   Composite fonts, fixed encoder (NewFromCMap; Identity-H/V is the instance below).
   The unguarded statement "distinct (CID, text) pairs never share a code" is FALSE for this
   encoder: one code per CID, GetCode ignores the text. *)
(* fixed_no_sharing_full (CidEncProofs.v):
     forall l, let r := fshow_all id_all (finit 0) l in
     forall i j ..., nth_error l i = Some (ci, ti, wi) -> nth_error l j = Some (cj, tj, wj) ->
       nth_error (snd r) i = Some (Some code) -> nth_error (snd r) j = Some (Some code) -> (ci, ti) = (cj, tj) *)
Theorem fixed_no_sharing_refuted : ~ fixed_no_sharing_full.
Proof. exact fixed_no_sharing_refuted_lemma. Qed.
Print Assumptions fixed_no_sharing_refuted.

(* what does hold, for every CMap whose code -> CID table inverts its CID -> code table:
   the first text and width shown for a CID (other than 0) are what every lookup sees *)
Theorem fixed_first_wins :
  forall (cm_all : cid -> option ccode) (cm_rev : ccode -> cid),
    (forall c code, cm_all c = Some code -> cm_rev code = c) ->
    forall w0 l c code t w, c <> 0 -> cm_all c = Some code ->
      first_of c l = Some (t, w) ->
      fget cm_rev (fst (fshow_all cm_all (finit w0) l)) code = mkui c w t.
Proof. exact fixed_first_wins_lemma. Qed.
Print Assumptions fixed_first_wins.

(* guarded version for Identity-H/V: a CID always shown with the same text and width reads back
   with them, distinct CIDs have distinct codes, and a string of two-byte codes splits back *)
Theorem identity_consistent :
  (forall w0 l c code t w, c <> 0 -> id_all c = Some code -> In (c, t, w) l ->
     (forall t' w', In (c, t', w') l -> t' = t /\ w' = w) ->
     fget id_rev (fst (fshow_all id_all (finit w0) l)) code = mkui c w t) /\
  (forall c1 c2 code, id_all c1 = Some code -> id_all c2 = Some code -> c1 = c2) /\
  (forall cs, Forall (fun c => length c = 2%nat) cs -> id_split (concat cs) = Some cs).
Proof. exact identity_consistent_lemma. Qed.
Print Assumptions identity_consistent.

Example identity_consistent_hyp :
  let l := [(3, [65], 600%Z); (7, [66], 650%Z); (3, [65], 600%Z)] in
  id_all 3 = Some [0; 3] /\ (forall t' w', In (3, t', w') l -> t' = [65] /\ w' = 600%Z) /\
  snd (fshow_all id_all (finit 500%Z) l) = [Some [0; 3]; Some [0; 7]; Some [0; 3]].
Proof.
  cbn zeta. split; [reflexivity|]. split; [|reflexivity].
  intros t' w' [H|[H|[H|[]]]]; inversion H; auto.
Qed.

(* text of composite fonts: /ToUnicode entries with text win, else the character collection's text *)
Theorem cid_text_derivable :
  forall (cm_all : cid -> option ccode) (cm_rev : ccode -> cid) (ros_text : cid -> text) w0 l code t,
    let s := fst (fshow_all cm_all (finit w0) l) in
    ffind_t code (f_text s) = Some t ->
    (t = [] -> ros_text (cm_rev code) = []) ->
    f_reader_text cm_rev ros_text (f_tounicode cm_rev ros_text s) code = t.
Proof. exact cid_text_derivable_lemma. Qed.
Print Assumptions cid_text_derivable.

(* ------------------------------------------------------------------------------------------
   NewFromCMap with an arbitrary (predefined or embedded) CMap.  [l] is the sequence of
   (code, CID) pairs cmap.All yields; both tables keep the LAST pair.
   The unguarded statement "the code -> CID table inverts the CID -> code table" is FALSE when a
   child CMap re-maps a code of its parent (every predefined -V CMap, UniJIS-UCS2-HW-H): Encode
   returns a code which the CMap maps to another CID, and the width recorded for the CID is not
   the width the code reads back with. *)
Theorem fromcmap_inverse_refuted :
  exists l c code, tbl_all l c = Some code /\ tbl_rev l code <> c /\
    (let '(s, r) := fshow (tbl_all l) (finit 1000%Z) c [227; 130; 135] 500%Z in
     r = Some code /\ ui_cid (fget (tbl_rev l) s code) <> c /\ ui_w (fget (tbl_rev l) s code) = 0%Z).
Proof. exact fromcmap_inverse_refuted_lemma. Qed.
Print Assumptions fromcmap_inverse_refuted.

(* guarded: no code occurs twice in cmap.All (every CMap without a re-mapping child) *)
Theorem fromcmap_first_wins :
  forall l, NoDup (map fst l) ->
    (forall c code, tbl_all l c = Some code -> tbl_rev l code = c) /\
    (forall w0 shown c code t w, c <> 0 -> tbl_all l c = Some code ->
       first_of c shown = Some (t, w) ->
       fget (tbl_rev l) (fst (fshow_all (tbl_all l) (finit w0) shown)) code = mkui c w t).
Proof. exact (fun l ND => conj (fromcmap_inverse_lemma l ND) (fromcmap_first_wins_lemma l ND)). Qed.
Print Assumptions fromcmap_first_wins.

Example fromcmap_first_wins_hyp :
  let l := [([0; 65], 34); ([0; 66], 35); ([129; 64], 633)] in
  NoDup (map fst l) /\ tbl_all l 35 = Some [0; 66] /\ tbl_rev l [129; 64] = 633.
Proof. cbn zeta. split; [|split; reflexivity]. repeat constructor; cbn; intuition discriminate. Qed.

(* the repaired CID -> code table (only codes the CMap really maps to the CID): every CMap *)
Theorem fromcmap_sound_first_wins :
  forall l,
    (forall c code, tbl_all_sound l c = Some code -> tbl_rev l code = c) /\
    (forall w0 shown c code t w, c <> 0 -> tbl_all_sound l c = Some code ->
       first_of c shown = Some (t, w) ->
       fget (tbl_rev l) (fst (fshow_all (tbl_all_sound l) (finit w0) shown)) code = mkui c w t).
Proof. exact (fun l => conj (fromcmap_sound_inverse_lemma l) (fromcmap_sound_first_wins_lemma l)). Qed.
Print Assumptions fromcmap_sound_first_wins.

(* ------------------------------------------------------------------------------------------
   /Encoding and /Differences.  The four base tables and names.IsValid are arbitrary. *)

(* AsPDFSimple then ExtractSimple gives back the glyph name (or "@") of every mapped code, for
   every encoding whose names are valid, unless the writer reports errInvalidEncoding *)
Theorem enc_roundtrip :
  forall (win mac expert std : N -> gname) (valid : gname -> bool),
    valid [] = false -> valid at_name = false ->
    forall e bis c,
      (forall c', c' < 256 -> e c' <> [] -> e c' <> at_name -> valid (e c') = true) ->
      as_pdf_simple win mac expert std e bis <> OError ->
      c < 256 -> e c <> [] ->
      extract_simple win mac expert std valid (as_pdf_simple win mac expert std e bis) bis c = e c.
Proof. exact enc_roundtrip_lemma. Qed.
Print Assumptions enc_roundtrip.

(* Type 3: AsPDFType3 then ExtractType3 gives back the whole encoding *)
Theorem type3_enc_roundtrip :
  forall e, (exists c, c < 256 /\ e c <> []) ->
    exists f, extract_type3 (as_pdf_type3 e) = Some f /\ forall c, c < 256 -> f c = e c.
Proof. exact type3_roundtrip_closed. Qed.
Print Assumptions type3_enc_roundtrip.

(* for every reachable encoder state: the /Encoding object built from Simple.Encoding() is never
   an error, and the reader reconstructs the writer's glyph name for every used code *)
Theorem encoding_visible :
  forall (win mac expert std : N -> gname) (valid : gname -> bool) (glyph_name : gid -> gname),
    valid [] = false -> valid at_name = false ->
    (forall g, valid (glyph_name g) = true) ->
    forall nw ops bis c i, let s := final nw ops in
      find_info c (s_info s) = Some i ->
      let e := simple_encoding glyph_name s in
      as_pdf_simple win mac expert std e bis <> OError /\
      extract_simple win mac expert std valid (as_pdf_simple win mac expert std e bis) bis c = glyph_name (ci_gid i).
Proof. exact simple_encoding_visible_lemma. Qed.
Print Assumptions encoding_visible.

Example encoding_visible_hyp :
  let win := fun c : N => if c =? 65 then [65] else if c =? 66 then [66] else notdef_name in
  let valid := fun n : gname => match n with [] => false | x :: _ => negb (x =? 64) end in
  let glyph_name := fun g : gid => if g =? 36 then [65] else [117; 110; 105] in
  let s := final 0%Z [OEncode 36 [65] 667%Z 65; OEncode 448 [208; 145] 656%Z 17] in
  let e := simple_encoding glyph_name s in
  as_pdf_simple win win win win e false = ODict (Some BWin) [DCode 17; DName [117; 110; 105]] /\
  extract_simple win win win win valid (as_pdf_simple win win win win e false) false 17 = [117; 110; 105] /\
  extract_simple win win win win valid (as_pdf_simple win win win win e false) false 65 = [65].
Proof. vm_compute. auto. Qed.

(* text_derivable through the dictionary that is actually written: the reader's glyph names come
   from the decoded /Encoding object, not from the writer's table *)
Theorem text_derivable_dict :
  forall (win mac expert std : N -> gname) (valid : gname -> bool)
         (name_text : gname -> text) (glyph_name : gid -> gname),
    valid [] = false -> valid at_name = false ->
    (forall g, valid (glyph_name g) = true) ->
    name_text at_name = [] ->
    forall nw ops sh bis c i, let s := final nw ops in
      find_info c (s_info s) = Some i ->
      (sh = WithEncoding -> ci_text i = [] -> name_text (glyph_name (ci_gid i)) = []) ->
      dict_reader_text win mac expert std valid name_text glyph_name sh s bis c = writer_text s c.
Proof. exact text_derivable_dict_lemma. Qed.
Print Assumptions text_derivable_dict.

(* ------------------------------------------------------------------------------------------
   Width round trips over arbitrary maps and over encoder states. *)

(* composite fonts: for EVERY finite CID -> width map (entries in any order, CIDs <= 65535) and
   EVERY value of /DW, the /W array built from the sorted keys reads back with the width of every
   CID in the map and /DW for every other CID *)
Theorem widths_rt :
  forall (m : list (N * width)) (dw : width) (c : N),
    NoDup (map fst m) -> Forall (fun p => fst p <= 65535) m ->
    read_cid_width (w_of_map m) dw c = Some (match assoc_w c m with Some w => w | None => dw end).
Proof. exact widths_rt_lemma. Qed.
Print Assumptions widths_rt.

Example widths_rt_hyp :
  let m := [(7, 250%Z); (2, 500%Z); (1, 500%Z); (3, 500%Z); (8, 250%Z); (4, 600%Z)] in
  NoDup (map fst m) /\ Forall (fun p => fst p <= 65535) m /\
  w_of_map m = [WRange 1 3 500%Z; WList 4 [600%Z]; WRange 7 8 250%Z] /\
  read_cid_width (w_of_map m) 1000%Z 8 = Some 250%Z /\ read_cid_width (w_of_map m) 1000%Z 5 = Some 1000%Z.
Proof.
  cbn zeta. split; [repeat constructor; cbn; intuition discriminate|].
  split; [repeat constructor; cbn; discriminate|]. vm_compute. auto.
Qed.

(* simple fonts: for every reachable encoder state and EVERY value of /MissingWidth (in particular
   DefaultWidth()), /FirstChar /Widths + /MissingWidth read back with the width recorded for every used code *)
Theorem simple_widths_rt :
  forall nw ops dw c i, let s := final nw ops in
    find_info c (s_info s) = Some i ->
    let '(first, last) := simple_first_last (dict_width s) (code_used s) dw in
    read_simple first (simple_widths (dict_width s) (code_used s) dw) dw c = ci_w i.
Proof. exact simple_widths_rt_lemma. Qed.
Print Assumptions simple_widths_rt.

(* vertical metrics: the /W2 array of a strictly increasing CID list decodes to exactly the entries
   it was built from (the encoder's loop terminates within length + 1 rounds); /DW2 round trips *)
Theorem w2_compress :
  (forall l, strictly_increasing (map fst l) -> Forall (fun p => fst p <= 65535) l ->
     exists its, encode_v l = Some its /\ decode_v its = Some l) /\
  (forall m, decode_dw2 (encode_dw2 m) = m).
Proof. exact (conj w2_compress_lemma dw2_roundtrip_lemma). Qed.
Print Assumptions w2_compress.

Example w2_compress_hyp :
  let v := (-1000, 500, 880)%Z in let v' := (-900, 400, 800)%Z in
  let l := [(1, v); (2, v'); (3, v); (4, v); (5, v); (9, v')] in
  strictly_increasing (map fst l) /\
  encode_v l = Some [VList 1 [v; v']; VRange 3 5 v; VList 9 [v']] /\
  encode_dw2 (880, -1000)%Z = None /\ decode_dw2 (Some [700%Z]) = (700, -1000)%Z.
Proof. cbn zeta. split; [cbn; repeat split; discriminate|]. vm_compute. auto. Qed.

(* Type 3 fonts: writer-side and reader-side scaling of a glyph-space width by FontMatrix[0] agree,
   and differ from the laid-out advance by at most half a glyph-space unit times |FontMatrix[0]| *)
Theorem type3_width_scaling :
  (forall w m : Q, (t3_writer_width w m == t3_reader_width w m)%Q) /\
  (forall raw w m : Q, (Qabs (w - raw) <= 1 # 2)%Q ->
     (Qabs (t3_reader_width w m - t3_geometry_width raw m) <= (1 # 2) * Qabs m)%Q).
Proof. exact (conj t3_scaling_lemma t3_precision_lemma). Qed.
Print Assumptions type3_width_scaling.

Example type3_width_scaling_hyp :
  (Qabs (1139 - (2277 # 2)) <= 1 # 2)%Q /\ (t3_reader_width 1139 (1 # 2048) == 1139 # 2048)%Q.
Proof. split; [vm_compute; discriminate | vm_compute; reflexivity]. Qed.

(* text values of a ToUnicode CMap: utf16.Encode then utf16.Decode is the identity on every
   sequence of Unicode scalar values (multi-rune text, characters outside the BMP) *)
Theorem utf16_roundtrip :
  forall rs, Forall (fun r => valid_scalar r = true) rs -> decode16 (encode16 rs) = rs.
Proof. exact utf16_roundtrip_lemma. Qed.
Print Assumptions utf16_roundtrip.

Example utf16_roundtrip_hyp :
  Forall (fun r => valid_scalar r = true) [102%N; 128512%N; 769%N] /\
  encode16 [102%N; 128512%N; 769%N] = [102%N; 55357%N; 56832%N; 769%N] /\
  decode16 [55357%N; 65%N] = [65533%N; 65%N].
Proof. split; [repeat constructor|]. vm_compute. auto. Qed.
