(* C14: round trips that combine the models: width tables over arbitrary maps and over
   encoder states, Type 3 scaling, UTF-16 text values. *)
From Coq Require Import List NArith ZArith Bool Lia QArith Qabs.
From Coq Require Import ZifyN ZifyNat ZifyBool.
From GoPdf.Base Require Import Bytes.
From GoPdf.C14 Require Import SimpleEnc SimpleEncProofs Widths WidthsProofs Type3 Utf16.
Import ListNotations.
Open Scope N_scope.

(* ---- sorting the entries of a width map ------------------------------------------- *)
Lemma insert_in p l x : In x (insert_pair p l) <-> x = p \/ In x l.
Proof.
  induction l as [|q r IH]; cbn [insert_pair]; [cbn; intuition congruence|].
  destruct (fst p <? fst q); cbn [In]; [intuition congruence|]. rewrite IH. intuition congruence.
Qed.

Lemma sort_in m x : In x (sort_pairs m) <-> In x m.
Proof.
  induction m as [|p r IH]; cbn [sort_pairs]; [tauto|]. rewrite insert_in, IH. cbn. intuition congruence.
Qed.

Lemma insert_incr p l : forall lo, incr_from lo (map fst l) -> lo <= fst p -> ~ In (fst p) (map fst l) ->
  incr_from lo (map fst (insert_pair p l)).
Proof.
  induction l as [|q r IH]; intros lo H Hlo Hn; cbn [insert_pair map incr_from] in *; [split; [exact Hlo | exact I]|].
  destruct H as [H1 H2]. cbn [In] in Hn. destruct (fst p <? fst q) eqn:E; cbn [map incr_from].
  - split; [exact Hlo|]. split; [lia | exact H2].
  - split; [exact H1|]. apply IH; [exact H2 | | tauto].
    assert (fst p <> fst q) by (intros E'; apply Hn; left; symmetry; exact E'). lia.
Qed.

Lemma sort_incr m : NoDup (map fst m) -> strictly_increasing (map fst (sort_pairs m)).
Proof.
  unfold strictly_increasing. induction m as [|p r IH]; intros ND; cbn [sort_pairs map] in *; [exact I|].
  apply NoDup_cons_iff in ND as [Hn ND]. apply insert_incr; [apply IH; exact ND | lia|].
  intros H. apply Hn. apply in_map_iff in H as [x [E Hx]]. rewrite sort_in in Hx.
  rewrite <- E. apply in_map. exact Hx.
Qed.

Lemma incr_nodup l : forall lo, incr_from lo l -> NoDup l /\ Forall (fun x => lo <= x) l.
Proof.
  induction l as [|x r IH]; intros lo H; [split; constructor|].
  destruct H as [H1 H2]. destruct (IH _ H2) as [ND HF]. split.
  - constructor; [|exact ND]. intros Hin. rewrite Forall_forall in HF. specialize (HF _ Hin). lia.
  - constructor; [exact H1|]. rewrite Forall_forall in *. intros y Hy. specialize (HF _ Hy). lia.
Qed.

Lemma last_assign_some c l : forall w, last_assign c l = Some w -> In c (map fst l).
Proof.
  induction l as [|[c1 w1] r IH]; intros w; cbn [last_assign map fst In]; [discriminate|].
  destruct (last_assign c r) eqn:E; [intros _; right; exact (IH _ eq_refl)|].
  destruct (c =? c1) eqn:E1; [intros _; left; lia | discriminate].
Qed.

Lemma last_assign_in c w l : NoDup (map fst l) -> In (c, w) l -> last_assign c l = Some w.
Proof.
  induction l as [|[c' w'] r IH]; intros ND H; [destruct H|].
  cbn [map fst] in ND. apply NoDup_cons_iff in ND as [Hn ND]. cbn [last_assign]. destruct H as [H|H].
  - inversion H; subst. destruct (last_assign c r) eqn:E.
    + exfalso. apply Hn. exact (last_assign_some _ _ _ E).
    + rewrite N.eqb_refl. reflexivity.
  - rewrite (IH ND H). reflexivity.
Qed.

Lemma last_assign_none c l : ~ In c (map fst l) -> last_assign c l = None.
Proof.
  induction l as [|[c' w'] r IH]; intros H; [reflexivity|]. cbn [last_assign map fst In] in *.
  rewrite IH by tauto. destruct (c =? c') eqn:E; [apply N.eqb_eq in E; subst; tauto | reflexivity].
Qed.

Lemma assoc_in c w m : NoDup (map fst m) -> In (c, w) m -> assoc_w c m = Some w.
Proof.
  induction m as [|[c' w'] r IH]; intros ND H; [destruct H|].
  cbn [map fst] in ND. apply NoDup_cons_iff in ND as [Hn ND]. cbn [assoc_w]. destruct H as [H|H].
  - inversion H; subst. rewrite N.eqb_refl. reflexivity.
  - destruct (c =? c') eqn:E; [|exact (IH ND H)].
    apply N.eqb_eq in E; subst. exfalso. apply Hn. apply (in_map fst) in H. exact H.
Qed.

Lemma assoc_none c m : ~ In c (map fst m) -> assoc_w c m = None.
Proof.
  induction m as [|[c' w'] r IH]; intros H; [reflexivity|]. cbn [assoc_w map fst In] in *.
  destruct (c =? c') eqn:E; [apply N.eqb_eq in E; subst; tauto | apply IH; tauto].
Qed.

(* the /W array of an arbitrary map gives back every width, and DW for the CIDs not in the map *)
Lemma widths_rt_lemma m dw c :
  NoDup (map fst m) -> Forall (fun p => fst p <= 65535) m ->
  read_cid_width (w_of_map m) dw c = Some (match assoc_w c m with Some w => w | None => dw end).
Proof.
  intros ND Hok. unfold read_cid_width, w_of_map.
  pose proof (sort_incr m ND) as Hs.
  assert (Hok' : Forall (fun p => fst p <= 65535) (sort_pairs m)).
  { rewrite Forall_forall in *. intros p Hp. apply Hok. apply sort_in. exact Hp. }
  rewrite (width_compress_w_lemma _ Hs Hok'). f_equal. unfold cid_width.
  destruct (incr_nodup _ _ Hs) as [ND' _].
  destruct (in_dec N.eq_dec c (map fst m)) as [Hin|Hout].
  - apply in_map_iff in Hin as [[c' w] [E Hp]]. cbn in E; subst c'.
    rewrite (assoc_in _ _ _ ND Hp). rewrite (last_assign_in c w); [reflexivity | exact ND' | apply sort_in; exact Hp].
  - rewrite (assoc_none _ _ Hout). rewrite last_assign_none; [reflexivity|].
    intros H. apply Hout. apply in_map_iff in H as [x [E Hx]]. rewrite sort_in in Hx. rewrite <- E. apply in_map. exact Hx.
Qed.

(* ---- the /Widths table of a simple font, from the encoder state ---------------------- *)
Lemma simple_widths_rt_lemma nw ops dw c i :
  let s := final nw ops in
  find_info c (s_info s) = Some i ->
  let '(first, last) := simple_first_last (dict_width s) (code_used s) dw in
  read_simple first (simple_widths (dict_width s) (code_used s) dw) dw c = ci_w i.
Proof.
  intros s Hi.
  assert (I : inv s) by (apply inv_run, inv_init).
  assert (Hc : c < 256) by (apply find_info_in in Hi; exact (proj2 (inv_back _ I _ _ Hi))).
  assert (Hu : code_used s c = true) by (unfold code_used; rewrite Hi; reflexivity).
  pose proof (simple_widths_lemma (dict_width s) (code_used s) dw c Hc Hu) as H.
  destruct (simple_first_last (dict_width s) (code_used s) dw) as [first last].
  destruct H as [_ [_ H]]. rewrite H. unfold dict_width. rewrite Hi. reflexivity.
Qed.

(* ---- Type 3 ---------------------------------------------------------------------------- *)
Lemma t3_scaling_lemma (w m : Q) : (t3_writer_width w m == t3_reader_width w m)%Q.
Proof. unfold t3_writer_width, t3_reader_width. field. Qed.

Lemma t3_precision_lemma (raw w m : Q) :
  (Qabs (w - raw) <= 1 # 2)%Q ->
  (Qabs (t3_reader_width w m - t3_geometry_width raw m) <= (1 # 2) * Qabs m)%Q.
Proof.
  intros H. unfold t3_reader_width, t3_geometry_width.
  setoid_replace (w * m - raw * m)%Q with ((w - raw) * m)%Q by ring.
  rewrite Qabs_Qmult. apply Qmult_le_compat_r; [exact H | apply Qabs_nonneg].
Qed.

(* ---- UTF-16 ------------------------------------------------------------------------------ *)
Lemma utf16_roundtrip_lemma rs : Forall (fun r => valid_scalar r = true) rs -> decode16 (encode16 rs) = rs.
Proof.
  induction rs as [|r rest IH]; intros H; [reflexivity|].
  inversion H as [|? ? Hr Hrest]; subst. specialize (IH Hrest).
  cbn [encode16 flat_map]. fold (encode16 rest). unfold encode16_rune. rewrite Hr. cbn [negb].
  unfold valid_scalar, is_surrogate in Hr.
  destruct (r <? 65536) eqn:E.
  - cbn [app decode16].
    replace ((r <? 55296) || (57344 <=? r)) with true by lia. rewrite IH. reflexivity.
  - set (x := r - 65536).
    assert (Hx : x < 1048576) by (unfold x; lia).
    pose proof (N.div_mod x 1024 ltac:(lia)) as Hdm.
    pose proof (N.mod_lt x 1024 ltac:(lia)) as Hm.
    assert (Hq : x / 1024 < 1024) by (apply N.div_lt_upper_bound; lia).
    cbn [app decode16].
    replace ((55296 + x / 1024 <? 55296) || (57344 <=? 55296 + x / 1024)) with false by lia.
    replace (55296 + x / 1024 <? 56320) with true by lia.
    replace ((56320 <=? 56320 + x mod 1024) && (56320 + x mod 1024 <? 57344)) with true by lia.
    rewrite IH. f_equal. unfold x in *. lia.
Qed.
