(* C14 model, part 3: width tables.

   Simple fonts (font/dict/metrics.go:setSimpleWidths, graphics/extract/
   font-metrics.go:getSimpleWidths): /FirstChar /LastChar /Widths plus
   /MissingWidth of the font descriptor.

   Composite fonts (metrics.go:encodeCompositeWidths, font-metrics.go:
   decodeCompositeWidths, type0.go:cidWidth): the /W array plus /DW.

   Definitions only. *)
From Coq Require Import List NArith ZArith Bool.
From GoPdf.Base Require Import Bytes.
From GoPdf.C14 Require Import SimpleEnc.
Import ListNotations.
Open Scope N_scope.

(* ---------------- simple fonts --------------------------------------------- *)
Section SimpleWidths.
  Variable ww : N -> width.      (* the 256-element width array (dict.Width) *)
  Variable used : N -> bool.     (* enc(code) != "" *)
  Variable dw : width.           (* MissingWidth *)

  Definition skippable (c : N) : bool := negb (used c) || Z.eqb (ww c) dw.

  (* for lastChar > 0 && skippable(lastChar) { lastChar-- } *)
  Fixpoint last_char (n : nat) : nat :=
    match n with
    | O => O
    | S m => if skippable (N.of_nat n) then last_char m else n
    end.

  (* for firstChar < lastChar && skippable(firstChar) { firstChar++ };
     [k] counts the remaining distance lastChar - firstChar *)
  Fixpoint first_char (first : N) (k : nat) : N :=
    match k with
    | O => first
    | S m => if skippable first then first_char (first + 1) m else first
    end.

  Definition simple_first_last : N * N :=
    let last := N.of_nat (last_char 255) in
    (first_char 0 (last_char 255), last).

  Definition simple_widths : list width :=
    let '(first, last) := simple_first_last in
    map (fun i => ww (first + N.of_nat i)) (seq 0 (N.to_nat (last - first) + 1)).
End SimpleWidths.

(* getSimpleWidths: the default everywhere, then the /Widths array from /FirstChar *)
Definition read_simple (first : N) (widths : list width) (dw : width) (c : N) : width :=
  if (first <=? c) && (c <? first + N.of_nat (length widths))
  then nth (N.to_nat (c - first)) widths dw
  else dw.

(* ---------------- composite fonts ------------------------------------------ *)
Inductive witem :=
| WRange (c0 c1 : N) (w : width)       (* c0 c1 w *)
| WList (c0 : N) (ws : list width).    (* c0 [w ...] *)

(* state of the loop in encodeCompositeWidths *)
Record wst := mkw {
  w_res : list witem;     (* res, in output order *)
  w_start : N;            (* runStart *)
  w_end : N;              (* runEnd *)
  w_run : list width;     (* run *)
  w_alleq : bool          (* allEqual *)
}.

Definition run_head (run : list width) (d : width) : width := match run with x :: _ => x | [] => d end.

Definition flush (s : wst) : list witem :=
  if w_alleq s && (1 <? N.of_nat (length (w_run s)))
  then w_res s ++ [WRange (w_start s) (w_end s) (run_head (w_run s) 0%Z)]
  else w_res s ++ [WList (w_start s) (w_run s)].

Definition wstep (s : wst) (cw : N * width) : wst :=
  let '(c, w) := cw in
  let n := N.of_nat (length (w_run s)) in
  let brk := ((0 <? n) && negb (c =? w_end s + 1))
             || ((2 <? n) && w_alleq s && negb (Z.eqb w (run_head (w_run s) 0%Z))) in
  let s1 := if brk then mkw (flush s) (w_start s) (w_end s) [] (w_alleq s) else s in
  match w_run s1 with
  | [] => mkw (w_res s1) c c [w] true
  | x :: _ => mkw (w_res s1) (w_start s1) c (w_run s1 ++ [w]) (w_alleq s1 && Z.eqb w x)
  end.

(* encodeCompositeWidths over the (CID, width) pairs in the order of the sorted CID list *)
Definition encode_w (l : list (N * width)) : list witem :=
  let s := fold_left wstep l (mkw [] 0 0 [] true) in
  match w_run s with
  | [] => w_res s
  | _ => flush s
  end.

(* decodeCompositeWidths: the assignments res[cid] = w in the order they are made;
   None = the array is rejected *)
Fixpoint expand_range (c : N) (n : nat) (w : width) : list (N * width) :=
  match n with
  | O => []
  | S m => (c, w) :: expand_range (c + 1) m w
  end.

Fixpoint expand_list (c : N) (ws : list width) : option (list (N * width)) :=
  match ws with
  | [] => Some []
  | w :: r =>
    if 65535 <? c then None
    else match expand_list (c + 1) r with Some l => Some ((c, w) :: l) | None => None end
  end.

Definition expand_item (it : witem) : option (list (N * width)) :=
  match it with
  | WRange c0 c1 w => if (c1 <? c0) || (65535 <? c1) then None
                      else Some (expand_range c0 (N.to_nat (c1 - c0) + 1) w)
  | WList c0 ws => expand_list c0 ws
  end.

Fixpoint decode_w_items (its : list witem) : option (list (N * width)) :=
  match its with
  | [] => Some []
  | it :: r =>
    match expand_item it, decode_w_items r with
    | Some a, Some b => Some (a ++ b)
    | _, _ => None
    end
  end.

(* at most 65536 assignments are accepted *)
Definition decode_w (its : list witem) : option (list (N * width)) :=
  match decode_w_items its with
  | Some l => if 65536 <? N.of_nat (length l) then None else Some l
  | None => None
  end.

(* the Go map after the assignments: the last one for a CID wins *)
Fixpoint last_assign (c : N) (l : list (N * width)) : option width :=
  match l with
  | [] => None
  | (c', w) :: r => match last_assign c r with
                    | Some w' => Some w'
                    | None => if c =? c' then Some w else None
                    end
  end.

(* type0.go:cidWidth and t0Font.Codes: explicit width, else DW *)
Definition cid_width (l : list (N * width)) (dw : width) (c : N) : width :=
  match last_assign c l with Some w => w | None => dw end.

(* ---------------- from an arbitrary CID -> width map to the /W array -----------------
   The embedders collect the widths in a Go map and encodeCompositeWidths iterates over
   slices.Sorted(maps.Keys(widthMap)).  [m] lists the entries of the map in any order. *)
Fixpoint insert_pair (p : N * width) (l : list (N * width)) : list (N * width) :=
  match l with
  | [] => [p]
  | q :: r => if fst p <? fst q then p :: l else q :: insert_pair p r
  end.

Fixpoint sort_pairs (m : list (N * width)) : list (N * width) :=
  match m with
  | [] => []
  | p :: r => insert_pair p (sort_pairs r)
  end.

Fixpoint assoc_w (c : N) (m : list (N * width)) : option width :=
  match m with
  | [] => None
  | (c', w) :: r => if c =? c' then Some w else assoc_w c r
  end.

(* the /W array written for the map, and the width a reader obtains for a CID *)
Definition w_of_map (m : list (N * width)) : list witem := encode_w (sort_pairs m).

Definition read_cid_width (its : list witem) (dw : width) (c : N) : option width :=
  match decode_w its with
  | Some l => Some (cid_width l dw c)
  | None => None
  end.

(* ---------------- the /Widths table of a simple font, from the encoder state ---------- *)
(* dict.Width: the width of every used code, 0 elsewhere; enc(code) != "" for the used codes *)
Definition dict_width (s : st) (c : N) : width :=
  match find_info c (s_info s) with Some i => ci_w i | None => 0%Z end.

Definition code_used (s : st) (c : N) : bool :=
  match find_info c (s_info s) with Some _ => true | None => false end.

