(* C14: the text a reader derives from a simple font dictionary equals the text
   the writer recorded (model: SimpleEnc.v, Section Text). *)
From Coq Require Import List NArith ZArith Bool Lia.
From GoPdf.Base Require Import Bytes.
From GoPdf.C14 Require Import SimpleEnc SimpleEncProofs.
Import ListNotations.
Open Scope N_scope.

Section TextProofs.
  Variable gname : Type.
  Variable name_text : gname -> text.
  Variable glyph_name : gid -> gname.

  Notation find_tu := (find_tu).
  Notation implied := (implied gname name_text glyph_name).
  Notation tounicode_omit := (tounicode_omit gname name_text glyph_name).
  Notation reader_text := (reader_text gname name_text glyph_name).
  Notation writer_tu := (writer_tu gname name_text glyph_name).
  Notation writer_tu_prefix := (writer_tu_prefix gname name_text glyph_name).

  Definition sel (f : key * byte -> bool) (kc : key * byte) : tu_map :=
    if f kc then [] else [(snd kc, snd (fst kc))].

  Lemma find_tu_absent f l c : ~ In c (map snd l) -> find_tu c (flat_map (sel f) l) = None.
  Proof.
    induction l as [|kc r IH]; cbn [flat_map map In]; [reflexivity|].
    intros H. unfold sel at 1. destruct (f kc); cbn [app SimpleEnc.find_tu].
    - apply IH. tauto.
    - destruct (c =? snd kc) eqn:E; [apply N.eqb_eq in E; subst; tauto | apply IH; tauto].
  Qed.

  Lemma find_tu_present f l k c : NoDup (map snd l) -> In (k, c) l ->
    find_tu c (flat_map (sel f) l) = if f (k, c) then None else Some (snd k).
  Proof.
    induction l as [|kc r IH]; cbn [flat_map map In]; [tauto|].
    intros ND [H|H]; cbn [map] in ND; apply NoDup_cons_iff in ND as [Hnin ND'].
    - subst kc. cbn [snd] in Hnin. unfold sel at 1. destruct (f (k, c)) eqn:Ef; cbn [app SimpleEnc.find_tu fst snd].
      + apply find_tu_absent. exact Hnin.
      + rewrite N.eqb_refl. reflexivity.
    - assert (Hne : c <> snd kc).
      { intros E. apply Hnin. rewrite <- E. apply (in_map snd) in H. exact H. }
      unfold sel at 1. destruct (f kc); cbn [app SimpleEnc.find_tu].
      + apply IH; assumption.
      + apply N.eqb_neq in Hne. rewrite Hne. apply IH; assumption.
  Qed.

  Definition f_omit (kc : key * byte) : bool := bytes_eqb (snd (fst kc)) (implied (fst (fst kc))).
  Definition f_all (kc : key * byte) : bool := match snd (fst kc) with [] => true | _ => false end.

  Lemma omit_sel s : tounicode_omit s = flat_map (sel f_omit) (s_code s).
  Proof. reflexivity. Qed.

  Lemma all_sel s : tounicode_all s = flat_map (sel f_all) (s_code s).
  Proof.
    unfold tounicode_all. apply flat_map_ext. intros [[g t] c]. unfold sel, f_all. cbn [fst snd].
    destruct t; reflexivity.
  Qed.

  Lemma text_derivable_lemma s sh c i :
    inv s -> find_info c (s_info s) = Some i ->
    (sh = WithEncoding -> ci_text i = [] -> implied (ci_gid i) = []) ->
    reader_text sh (writer_tu sh s) s c = writer_text s c.
  Proof.
    intros I Hi Hempty.
    assert (Hw : writer_text s c = ci_text i) by (unfold writer_text, get; rewrite Hi; reflexivity).
    rewrite Hw. pose proof (find_info_in _ _ _ Hi) as Hin.
    destruct (inv_back _ I _ _ Hin) as [Hcode _].
    unfold SimpleEnc.reader_text. destruct sh; cbn [SimpleEnc.writer_tu SimpleEnc.visible_name].
    - rewrite omit_sel, (find_tu_present f_omit _ _ _ (inv_ndc _ I) Hcode).
      unfold f_omit. cbn [fst snd]. rewrite Hi. cbn [option_map].
      destruct (bytes_eqb (ci_text i) (implied (ci_gid i))) eqn:E.
      + apply bytes_eqb_eq in E. symmetry. exact E.
      + destruct (ci_text i) eqn:Et; [|reflexivity].
        apply Hempty; reflexivity.
    - rewrite all_sel, (find_tu_present f_all _ _ _ (inv_ndc _ I) Hcode).
      unfold f_all. cbn [fst snd]. destruct (ci_text i); reflexivity.
  Qed.

  (* the state after one Encode of glyph g with text t at code 65 *)
  Definition one_glyph (g : gid) (t : text) : st := final 0%Z [OEncode g t 0%Z 65].

  Lemma one_glyph_eq g t : one_glyph g t = mkst [((g, t), 65)] [(65, mkci g 0%Z t)] false 0%Z.
  Proof. reflexivity. Qed.

  (* F17: with the omitting ToUnicode and no visible glyph names, text implied by the name is lost *)
  Lemma builtin_omit_loses_text g t : implied g = t -> t <> [] ->
    reader_text BuiltinEnc (writer_tu_prefix BuiltinEnc (one_glyph g t)) (one_glyph g t) 65 = [] /\
    writer_text (one_glyph g t) 65 = t.
  Proof.
    intros E Hne. rewrite one_glyph_eq. unfold SimpleEnc.reader_text, SimpleEnc.writer_tu_prefix,
      SimpleEnc.tounicode_omit, writer_text, get.
    cbn [s_code s_info flat_map fst snd app SimpleEnc.find_tu SimpleEnc.visible_name find_info ci_text].
    rewrite E, bytes_eqb_refl. cbn [app SimpleEnc.find_tu]. rewrite N.eqb_refl. auto.
  Qed.

  (* a glyph shown with empty text whose name implies text reads back with the implied text *)
  Lemma empty_text_reads_implied g : implied g <> [] ->
    reader_text WithEncoding (writer_tu WithEncoding (one_glyph g [])) (one_glyph g []) 65 = implied g /\
    writer_text (one_glyph g []) 65 = [].
  Proof.
    intros Hne. rewrite one_glyph_eq. unfold SimpleEnc.reader_text, SimpleEnc.writer_tu,
      SimpleEnc.tounicode_omit, writer_text, get.
    cbn [s_code s_info flat_map fst snd app SimpleEnc.find_tu SimpleEnc.visible_name find_info ci_text].
    rewrite N.eqb_refl. cbn [option_map ci_gid].
    destruct (bytes_eqb [] (implied g)) eqn:E.
    - apply bytes_eqb_eq in E. congruence.
    - cbn [app SimpleEnc.find_tu]. rewrite N.eqb_refl. auto.
  Qed.
End TextProofs.

(* ---- closed forms (quantified over the glyph-name functions) -------------------------- *)
Lemma text_derivable_closed :
  forall (gname : Type) (name_text : gname -> text) (glyph_name : gid -> gname) nw ops sh c i,
    let s := final nw ops in
    find_info c (s_info s) = Some i ->
    (sh = WithEncoding -> ci_text i = [] -> name_text (glyph_name (ci_gid i)) = []) ->
    reader_text gname name_text glyph_name sh (writer_tu gname name_text glyph_name sh s) s c = writer_text s c.
Proof.
  intros gname name_text glyph_name nw ops sh c i s H1 H2.
  exact (text_derivable_lemma gname name_text glyph_name s sh c i (inv_run ops _ (inv_init nw)) H1 H2).
Qed.

Lemma emptytext_refuted_lemma :
  forall (gname : Type) (name_text : gname -> text) (glyph_name : gid -> gname) g,
    name_text (glyph_name g) <> [] ->
    exists nw ops c i, let s := final nw ops in
      find_info c (s_info s) = Some i /\
      reader_text gname name_text glyph_name WithEncoding (writer_tu gname name_text glyph_name WithEncoding s) s c
        <> writer_text s c.
Proof.
  intros gname name_text glyph_name g H.
  exists 0%Z, [OEncode g [] 0%Z 65], 65, (mkci g 0%Z []). cbn zeta. split; [reflexivity|].
  destruct (empty_text_reads_implied gname name_text glyph_name g H) as [H1 H2].
  unfold one_glyph, implied in *. rewrite H1, H2. exact H.
Qed.

Lemma prefix_refuted_lemma :
  forall (gname : Type) (name_text : gname -> text) (glyph_name : gid -> gname) g,
    name_text (glyph_name g) <> [] ->
    exists nw ops c i, let s := final nw ops in
      find_info c (s_info s) = Some i /\ ci_text i <> [] /\
      reader_text gname name_text glyph_name BuiltinEnc (writer_tu_prefix gname name_text glyph_name BuiltinEnc s) s c
        <> writer_text s c.
Proof.
  intros gname name_text glyph_name g H.
  exists 0%Z, [OEncode g (name_text (glyph_name g)) 0%Z 65], 65, (mkci g 0%Z (name_text (glyph_name g))).
  cbn zeta. split; [reflexivity|]. split; [exact H|].
  destruct (builtin_omit_loses_text gname name_text glyph_name g _ eq_refl H) as [H1 H2].
  unfold one_glyph, implied in *. rewrite H1, H2. intros E. apply H. symmetry. exact E.
Qed.
