(* C14 model, part 5: vertical metrics of composite fonts.

   font/dict/metrics.go: encodeVMetrics builds the /W2 array from the map
   CID -> (DeltaY, OffsX, OffsY); encodeVDefault builds /DW2.
   graphics/extract/font-metrics.go: decodeVMetrics, decodeVDefault.

   Definitions only.  The three numbers of an entry are float64 in Go and are
   only compared with ==; the model uses integers. *)
From Coq Require Import List NArith ZArith Bool.
From GoPdf.Base Require Import Bytes.
Import ListNotations.
Open Scope N_scope.

Definition vm := (Z * Z * Z)%type.     (* DeltaY, OffsX, OffsY *)

Definition vm_eqb (a b : vm) : bool :=
  let '(a1, a2, a3) := a in let '(b1, b2, b3) := b in
  Z.eqb a1 b1 && Z.eqb a2 b2 && Z.eqb a3 b3.

Inductive vitem :=
| VList (c0 : N) (vs : list vm)        (* c0 [dy ox oy ...] *)
| VRange (c0 c1 : N) (v : vm).         (* c0 c1 dy ox oy *)

(* first inner loop of encodeVMetrics: the longest prefix of consecutive CIDs in
   which no two neighbours have equal metrics; [prev] is cids[end-1] *)
Fixpoint phase1 (prev : option N) (l : list (N * vm)) : list (N * vm) * list (N * vm) :=
  match l with
  | [] => ([], [])
  | (c, v) :: r =>
    let not_consecutive := match prev with Some p => negb (p + 1 =? c) | None => false end in
    let splits_equal := match r with (c', v') :: _ => (c + 1 =? c') && vm_eqb v v' | [] => false end in
    if not_consecutive || splits_equal then ([], l)
    else let '(a, b) := phase1 (Some c) r in ((c, v) :: a, b)
  end.

(* second inner loop: after the first element, the consecutive CIDs with the same metrics *)
Fixpoint same_run (p : N) (v : vm) (l : list (N * vm)) : list (N * vm) * list (N * vm) :=
  match l with
  | (c, v') :: r =>
    if (p + 1 =? c) && vm_eqb v v' then let '(a, b) := same_run c v r in ((c, v') :: a, b)
    else ([], l)
  | [] => ([], [])
  end.

Definition phase2 (l : list (N * vm)) : list (N * vm) * list (N * vm) :=
  match l with
  | [] => ([], [])
  | (c, v) :: r => let '(a, b) := same_run c v r in ((c, v) :: a, b)
  end.

Definition list_item (a : list (N * vm)) : list vitem :=
  match a with
  | [] => []
  | (c, _) :: _ => [VList c (map snd a)]
  end.

(* the outer loop; None = out of fuel (length l + 1 suffices: encode_v_total) *)
Fixpoint encode_v_fuel (fuel : nat) (l : list (N * vm)) : option (list vitem) :=
  match fuel with
  | O => None
  | S f =>
    match l with
    | [] => Some []
    | _ =>
      let '(a, l1) := phase1 None l in
      let '(b, l2) := phase2 l1 in
      match b with
      | (c0, v) :: _ :: _ =>
        match encode_v_fuel f l2 with
        | Some r => Some (list_item a ++ VRange c0 (fst (last b (c0, v))) v :: r)
        | None => None
        end
      | _ =>
        match encode_v_fuel f l1 with
        | Some r => Some (list_item a ++ r)
        | None => None
        end
      end
    end
  end.

Definition encode_v (l : list (N * vm)) : option (list vitem) := encode_v_fuel (S (length l)) l.

(* decodeVMetrics: the assignments res[cid] = metrics in order; None = rejected *)
Fixpoint vexpand_range (c : N) (n : nat) (v : vm) : list (N * vm) :=
  match n with
  | O => []
  | S m => (c, v) :: vexpand_range (c + 1) m v
  end.

Fixpoint vexpand_list (c : N) (vs : list vm) : option (list (N * vm)) :=
  match vs with
  | [] => Some []
  | v :: r =>
    if 65535 <? c then None
    else match vexpand_list (c + 1) r with Some l => Some ((c, v) :: l) | None => None end
  end.

Definition vexpand_item (it : vitem) : option (list (N * vm)) :=
  match it with
  | VList c0 vs => if 65535 <? c0 then None else vexpand_list c0 vs
  | VRange c0 c1 v =>
    if (65535 <? c0) || (65535 <? c1) then None
    else if c1 <? c0 then Some []           (* the loop body never runs; no error *)
    else Some (vexpand_range c0 (N.to_nat (c1 - c0) + 1) v)
  end.

Fixpoint decode_v_items (its : list vitem) : option (list (N * vm)) :=
  match its with
  | [] => Some []
  | it :: r =>
    match vexpand_item it, decode_v_items r with
    | Some a, Some b => Some (a ++ b)
    | _, _ => None
    end
  end.

Definition decode_v (its : list vitem) : option (list (N * vm)) :=
  match decode_v_items its with
  | Some l => if 65536 <? N.of_nat (length l) then None else Some l
  | None => None
  end.

(* the Go map after the assignments *)
Fixpoint vlast_assign (c : N) (l : list (N * vm)) : option vm :=
  match l with
  | [] => None
  | (c', v) :: r => match vlast_assign c r with
                    | Some v' => Some v'
                    | None => if c =? c' then Some v else None
                    end
  end.

(* ---- /DW2 ---- *)
Definition dw2_default : Z * Z := (880, -1000)%Z.      (* OffsY, DeltaY *)

(* encodeVDefault: nothing is written for the default *)
Definition encode_dw2 (m : Z * Z) : option (list Z) :=
  let '(oy, dy) := m in
  if Z.eqb oy 880 && Z.eqb dy (-1000) then None else Some [oy; dy].

(* decodeVDefault: the default, overridden by the elements present *)
Definition decode_dw2 (a : option (list Z)) : Z * Z :=
  match a with
  | None | Some [] => dw2_default
  | Some [oy] => (oy, snd dw2_default)
  | Some (oy :: dy :: _) => (oy, dy)
  end.
