(* C14 model, part 1: code allocation for simple fonts
   (font/encoding/simpleenc/simple.go, text.go) and the text a reader can
   derive from the font dictionary (font/dict/encoding.go:SimpleTextMap).

   Definitions only.  Glyph IDs are [N], text is the UTF-8 byte string, widths
   (float64 glyph space units in Go, compared with == only) are [Z].

   Angelic input: simple.go:Encode scores the free codes and picks one; which
   one is left open by the property.  The model's [encode] takes the code the
   implementation chose and accepts it iff it is an allowed choice, i.e. a byte
   that is not yet in [info] (the base-encoding match of the Go loop is one of
   the free codes: used codes are skipped before the comparison). *)
From Coq Require Import List NArith ZArith Bool.
From GoPdf.Base Require Import Bytes.
Import ListNotations.
Open Scope N_scope.

Definition gid := N.
Definition text := bytes.
Definition width := Z.
Definition key := (gid * text)%type.

Definition key_eqb (a b : key) : bool := (fst a =? fst b) && bytes_eqb (snd a) (snd b).

(* codeInfo *)
Record cinfo := mkci { ci_gid : gid; ci_w : width; ci_text : text }.

(* Simple: code map, info map, sticky error, width of .notdef *)
Record st := mkst {
  s_code : list (key * byte);
  s_info : list (byte * cinfo);
  s_err : bool;
  s_notdef : width
}.

Definition init (nw : width) : st := mkst [] [] false nw.

Fixpoint find_code (k : key) (l : list (key * byte)) : option byte :=
  match l with
  | [] => None
  | (k', c) :: r => if key_eqb k k' then Some c else find_code k r
  end.

Fixpoint find_info (c : byte) (l : list (byte * cinfo)) : option cinfo :=
  match l with
  | [] => None
  | (c', i) :: r => if c =? c' then Some i else find_info c r
  end.

Definition nused (s : st) : N := N.of_nat (length (s_info s)).

Definition is_free (s : st) (c : byte) : bool :=
  (c <? 256) && match find_info c (s_info s) with None => true | Some _ => false end.

Inductive eres := EOk (c : byte) | EDup | EOverflow | EReject.

(* Simple.Encode; [choice] is the implementation's bestCode *)
Definition encode (s : st) (g : gid) (t : text) (w : width) (choice : byte) : st * eres :=
  match find_code (g, t) (s_code s) with
  | Some _ => (s, EDup)
  | None =>
    if 256 <=? nused s then (mkst (s_code s) (s_info s) true (s_notdef s), EOverflow)
    else if is_free s choice
    then (mkst (((g, t), choice) :: s_code s) ((choice, mkci g w t) :: s_info s) (s_err s) (s_notdef s),
          EOk choice)
    else (s, EReject)
  end.

(* Simple.GetCode *)
Definition get_code (s : st) (g : gid) (t : text) : option byte := find_code (g, t) (s_code s).

(* Simple.get: unused codes give the notdef entry *)
Definition get (s : st) (c : byte) : cinfo :=
  match find_info c (s_info s) with
  | Some i => i
  | None => mkci 0 (s_notdef s) []
  end.

(* Simple.Codes: one element per byte of the PDF string *)
Definition codes (s : st) (str : bytes) : list cinfo := map (get s) str.

(* the font.Code view of an entry: CID = code+1 unless the glyph is .notdef *)
Definition cid_of (c : byte) (i : cinfo) : N := if ci_gid i =? 0 then 0 else c + 1.

(* Simple.CodesRemaining *)
Definition codes_remaining (s : st) : N := 256 - nused s.

(* histories *)
Inductive op :=
| OEncode (g : gid) (t : text) (w : width) (choice : byte)
| OGet (g : gid) (t : text).

Inductive obs :=
| BEnc (r : eres)
| BGet (r : option byte).

Definition step (s : st) (o : op) : st * obs :=
  match o with
  | OEncode g t w ch => let '(s', r) := encode s g t w ch in (s', BEnc r)
  | OGet g t => (s, BGet (get_code s g t))
  end.

Fixpoint run (s : st) (ops : list op) : st * list obs :=
  match ops with
  | [] => (s, [])
  | o :: r => let '(s1, b) := step s o in let '(s2, bs) := run s1 r in (s2, b :: bs)
  end.

Definition final (nw : width) (ops : list op) : st := fst (run (init nw) ops).

(* all 256 bytes, and the first free one (used to show that an allowed choice exists) *)
Definition all_bytes : list byte := map N.of_nat (seq 0 256).
Definition first_free (s : st) : option byte := find (is_free s) all_bytes.

(* ---- DefaultWidth (simple.go): the value written as /MissingWidth ---------- *)
Fixpoint run_len (s : st) (w : width) (cs : list byte) : nat :=
  match cs with
  | [] => O
  | c :: r => if Z.eqb (ci_w (get s c)) w then S (run_len s w r) else O
  end.

Definition default_width (s : st) : width :=
  let w1 := ci_w (get s 0) in
  let n1 := S (run_len s w1 (tl all_bytes)) in
  let w2 := ci_w (get s 255) in
  let n2 := S (run_len s w2 (tl (rev all_bytes))) in
  if (Nat.eqb (Nat.max n1 n2) 1) && negb (Z.eqb w1 w2) then 0%Z
  else if Nat.leb n2 n1 then w1 else w2.

(* ---- text: what the writer puts into /ToUnicode, what the reader derives ---- *)
Section Text.
  Variable gname : Type.                  (* glyph names *)
  Variable name_text : gname -> text.     (* names.ToUnicode(name, fontName) *)
  Variable glyph_name : gid -> gname.     (* Simple.glyphName: fixed once a glyph has been encoded *)

  Definition tu_map := list (byte * text).

  Fixpoint find_tu (c : byte) (m : tu_map) : option text :=
    match m with
    | [] => None
    | (c', t) :: r => if c =? c' then Some t else find_tu c r
    end.

  Definition implied (g : gid) : text := name_text (glyph_name g).

  (* Simple.ToUnicode: a code is left out iff its text is what the glyph name implies *)
  Definition tounicode_omit (s : st) : tu_map :=
    flat_map (fun kc : key * byte =>
                if bytes_eqb (snd (fst kc)) (implied (fst (fst kc))) then [] else [(snd kc, snd (fst kc))])
             (s_code s).

  (* Simple.ToUnicodeBuiltin (fix F17): every code with text is listed *)
  Definition tounicode_all (s : st) : tu_map :=
    flat_map (fun kc : key * byte =>
                match snd (fst kc) with [] => [] | _ => [(snd kc, snd (fst kc))] end)
             (s_code s).

  (* the two dictionary shapes the simple embedders write *)
  Inductive shape :=
  | WithEncoding   (* /Encoding (with /Differences) or the font program names the glyph of every used code *)
  | BuiltinEnc.    (* symbolic glyf-based font: no /Encoding, the reader sees no glyph names *)

  Definition visible_name (sh : shape) (s : st) (c : byte) : option gname :=
    match sh with
    | WithEncoding => option_map (fun i => glyph_name (ci_gid i)) (find_info c (s_info s))
    | BuiltinEnc => None
    end.

  (* dict.SimpleTextMap: /ToUnicode entries with non-empty text win, else the glyph name *)
  Definition reader_text (sh : shape) (m : tu_map) (s : st) (c : byte) : text :=
    match find_tu c m with
    | Some (x :: t) => x :: t
    | _ => match visible_name sh s c with Some n => name_text n | None => [] end
    end.

  (* what the embedders pass as ToUnicode for each shape (after fix F17) *)
  Definition writer_tu (sh : shape) (s : st) : tu_map :=
    match sh with WithEncoding => tounicode_omit s | BuiltinEnc => tounicode_all s end.

  (* before fix F17 both shapes used the omitting variant *)
  Definition writer_tu_prefix (sh : shape) (s : st) : tu_map := tounicode_omit s.

  Definition writer_text (s : st) (c : byte) : text := ci_text (get s c).
End Text.
