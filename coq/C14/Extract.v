Require Extraction.
Require Import ExtrOcamlBasic.
From GoPdf.Base Require Import WireAnchor.
From GoPdf.C14 Require Import SimpleEnc CidEnc Widths Encoding VMetrics Utf16.
Separate Extraction wire_anchor
  init encode get_code get codes cid_of nused default_width s_err
  tounicode_omit tounicode_all reader_text writer_tu writer_tu_prefix writer_text
  uinit uencode uget_code uget ucodes u_info valid_cs
  finit fencode fget_code fget id_all id_rev id_split tbl_all tbl_rev tbl_all_sound
  as_pdf_simple extract_simple as_pdf_type3 extract_type3 simple_encoding
  simple_first_last simple_widths read_simple
  encode_w decode_w last_assign cid_width w_of_map read_cid_width dict_width code_used
  encode_v decode_v vlast_assign encode_dw2 decode_dw2 encode16 decode16.
