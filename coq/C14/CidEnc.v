(* C14 model, part 2: the encoders of composite fonts
   (font/encoding/cidenc/utf8.go, fixed.go, identity.go).

   Definitions only.  A character code is modelled as the byte string that
   Codec.AppendCode writes for it (the packing into a uint32 is a
   representation detail that the correspondence run exercises).

   UTF-8 encoder: Encode allocates, per (CID, text) pair, the UTF-8 code of the
   single rune of NFC(text) if that is free, else the next free private-use
   code.  NFC and the private-use walk are left open: the model takes the
   implementation's code as angelic input and accepts it iff it lies in the
   code space charcode.UTF8 and is free.

   Fixed encoder (NewFromCMap; NewCompositeIdentity = Identity-H/V): the code of
   a CID is given by the CMap, no choice is involved.  Width is recorded per
   CID, text per code, and GetCode does not look at the text. *)
From Coq Require Import List NArith ZArith Bool.
From GoPdf.Base Require Import Bytes.
From GoPdf.C14 Require Import SimpleEnc.
Import ListNotations.
Open Scope N_scope.

Definition cid := N.
Definition ccode := bytes.
Definition ckey := (cid * text)%type.

Definition ckey_eqb (a b : ckey) : bool := (fst a =? fst b) && bytes_eqb (snd a) (snd b).

Record uinfo := mkui { ui_cid : cid; ui_w : width; ui_text : text }.

(* ---------------- code space charcode.UTF8 ----------------------------------
   <00>-<7F>, <C280>-<DFBF>, <E08080>-<EFBFBF>, <F0808080>-<F4BFBFBF> *)
Definition cont (b : byte) : bool := (128 <=? b) && (b <=? 191).

Definition cs_len (b0 : byte) : nat :=
  if b0 <? 128 then 1
  else if (194 <=? b0) && (b0 <=? 223) then 2
  else if (224 <=? b0) && (b0 <=? 239) then 3
  else if (240 <=? b0) && (b0 <=? 244) then 4
  else 0.

(* is [c] exactly one code of the code space *)
Definition valid_cs (c : ccode) : bool :=
  match c with
  | [b0] => b0 <? 128
  | [b0; b1] => (194 <=? b0) && (b0 <=? 223) && cont b1
  | [b0; b1; b2] => (224 <=? b0) && (b0 <=? 239) && cont b1 && cont b2
  | [b0; b1; b2; b3] => (240 <=? b0) && (b0 <=? 244) && cont b1 && cont b2 && cont b3
  | _ => false
  end.

(* first code of a string: Some (code, rest), None if the string does not start with a valid code *)
Definition take_code (s : bytes) : option (ccode * bytes) :=
  match s with
  | [] => None
  | b0 :: _ =>
    let n := cs_len b0 in
    let c := firstn n s in
    if valid_cs c then Some (c, skipn n s) else None
  end.

(* ---------------- compositeUTF8 -------------------------------------------- *)
Record ust := mkust {
  u_code : list (ckey * ccode);
  u_info : list (ccode * uinfo);
  u_cid0w : width
}.

Definition uinit (w0 : width) : ust := mkust [] [] w0.

Fixpoint ufind_code (k : ckey) (l : list (ckey * ccode)) : option ccode :=
  match l with
  | [] => None
  | (k', c) :: r => if ckey_eqb k k' then Some c else ufind_code k r
  end.

Fixpoint ufind_info (c : ccode) (l : list (ccode * uinfo)) : option uinfo :=
  match l with
  | [] => None
  | (c', i) :: r => if bytes_eqb c c' then Some i else ufind_info c r
  end.

(* private-use code points makeCode walks through before it reports overflow:
   E000..F8FF, F0000..FFFFD, 100000..10FFFD *)
Definition private_capacity : N := 6400 + 65534 + 65534.

Inductive ures := UOk (c : ccode) | UDup | UOverflow | UReject.

(* compositeUTF8.Encode; [choice] = Some code the implementation allocated, None = it reported ErrOverflow *)
Definition uencode (s : ust) (c : cid) (t : text) (w : width) (choice : option ccode) : ust * ures :=
  match ufind_code (c, t) (u_code s) with
  | Some _ => (s, UDup)
  | None =>
    match choice with
    | None => if private_capacity <=? N.of_nat (length (u_info s)) then (s, UOverflow) else (s, UReject)
    | Some ch =>
      if valid_cs ch && match ufind_info ch (u_info s) with None => true | Some _ => false end
      then (mkust (((c, t), ch) :: u_code s) ((ch, mkui c w t) :: u_info s) (u_cid0w s), UOk ch)
      else (s, UReject)
    end
  end.

Definition uget_code (s : ust) (c : cid) (t : text) : option ccode := ufind_code (c, t) (u_code s).

Definition uget (s : ust) (c : ccode) : uinfo :=
  match ufind_info c (u_info s) with
  | Some i => i
  | None => mkui 0 (u_cid0w s) []
  end.

(* compositeUTF8.Codes on strings that consist of codes of the code space;
   None: the string leaves the code space (invalid codes are C12's subject) *)
Fixpoint ucodes (fuel : nat) (s : ust) (str : bytes) : option (list uinfo) :=
  match str with
  | [] => Some []
  | _ =>
    match fuel with
    | O => None
    | S f =>
      match take_code str with
      | None => None
      | Some (c, rest) =>
        match ucodes f s rest with
        | None => None
        | Some l => Some (uget s c :: l)
        end
      end
    end
  end.

Inductive uop :=
| UEncode (c : cid) (t : text) (w : width) (choice : option ccode)
| UGet (c : cid) (t : text).

Inductive uobs :=
| UBEnc (r : ures)
| UBGet (r : option ccode).

Definition ustep (s : ust) (o : uop) : ust * uobs :=
  match o with
  | UEncode c t w ch => let '(s', r) := uencode s c t w ch in (s', UBEnc r)
  | UGet c t => (s, UBGet (uget_code s c t))
  end.

Fixpoint urun (s : ust) (ops : list uop) : ust * list uobs :=
  match ops with
  | [] => (s, [])
  | o :: r => let '(s1, b) := ustep s o in let '(s2, bs) := urun s1 r in (s2, b :: bs)
  end.

Definition ufinal (w0 : width) (ops : list uop) : ust := fst (urun (uinit w0) ops).

(* compositeUTF8.ToUnicode lists every code *)
Definition u_tounicode (s : ust) : list (ccode * text) := map (fun ci => (fst ci, ui_text (snd ci))) (u_info s).

(* ---------------- fixed (NewFromCMap) -------------------------------------- *)
Section Fixed.
  (* the CMap: f.all (CID -> code) and f.rev (code -> CID, 0 for unmapped codes) *)
  Variable cm_all : cid -> option ccode.
  Variable cm_rev : ccode -> cid.

  Record fst_ := mkfst {
    f_width : list (cid * width);   (* f.width *)
    f_text : list (ccode * text)    (* f.text  *)
  }.

  Fixpoint ffind_w (c : cid) (l : list (cid * width)) : option width :=
    match l with
    | [] => None
    | (c', w) :: r => if c =? c' then Some w else ffind_w c r
    end.

  Fixpoint ffind_t (c : ccode) (l : list (ccode * text)) : option text :=
    match l with
    | [] => None
    | (c', t) :: r => if bytes_eqb c c' then Some t else ffind_t c r
    end.

  Definition finit (w0 : width) : fst_ := mkfst [(0, w0)] [].

  Inductive fres := FOk (c : ccode) | FNotFound | FWidthConflict | FTextConflict.

  (* fixed.Encode: note that the width is stored before the text is compared *)
  Definition fencode (s : fst_) (c : cid) (t : text) (w : width) : fst_ * fres :=
    match cm_all c with
    | None => (s, FNotFound)
    | Some code =>
      match
        match ffind_w c (f_width s) with
        | Some w' => if Z.eqb w' w then Some (f_width s) else None
        | None => Some ((c, w) :: f_width s)
        end
      with
      | None => (s, FWidthConflict)
      | Some ws =>
        match ffind_t code (f_text s) with
        | Some t' => if bytes_eqb t' t then (mkfst ws (f_text s), FOk code)
                     else (mkfst ws (f_text s), FTextConflict)
        | None => (mkfst ws ((code, t) :: f_text s), FOk code)
        end
      end
    end.

  (* fixed.GetCode: the text argument is ignored *)
  Definition fget_code (s : fst_) (c : cid) (t : text) : option ccode :=
    match ffind_w c (f_width s) with
    | None => None
    | Some _ => Some (match cm_all c with Some code => code | None => [] end)
    end.

  (* what the embedders do for every shown glyph: GetCode, and Encode only if that fails *)
  Definition fshow (s : fst_) (c : cid) (t : text) (w : width) : fst_ * option ccode :=
    match fget_code s c t with
    | Some code => (s, Some code)
    | None => match fencode s c t w with
              | (s', FOk code) => (s', Some code)
              | (s', _) => (s', None)
              end
    end.

  Fixpoint fshow_all (s : fst_) (l : list (cid * text * width)) : fst_ * list (option ccode) :=
    match l with
    | [] => (s, [])
    | (c, t, w) :: r =>
      let '(s1, o) := fshow s c t w in
      let '(s2, os) := fshow_all s1 r in (s2, o :: os)
    end.

  (* fixed.Codes for one valid code *)
  Definition fget (s : fst_) (code : ccode) : uinfo :=
    let c := cm_rev code in
    mkui c (match ffind_w c (f_width s) with Some w => w | None => 0%Z end)
         (match ffind_t code (f_text s) with Some t => t | None => [] end).

  (* text: fixed.ToUnicode omits empty text and text implied by the character collection *)
  Variable ros_text : cid -> text.   (* mapping.GetCIDTextMapping(registry, ordering) *)

  Definition f_tounicode (s : fst_) : list (ccode * text) :=
    flat_map (fun ct : ccode * text =>
                match snd ct with
                | [] => []
                | _ => if bytes_eqb (snd ct) (ros_text (cm_rev (fst ct))) then [] else [ct]
                end) (f_text s).

  (* dict.CIDFontType0/2.lookupText *)
  Definition f_reader_text (m : list (ccode * text)) (code : ccode) : text :=
    match ffind_t code m with
    | Some (x :: t) => x :: t
    | _ => ros_text (cm_rev code)
    end.
End Fixed.

(* Identity-H / Identity-V: two-byte big-endian code = CID *)
Definition id_all (c : cid) : option ccode :=
  if c <? 65536 then Some [c / 256; c mod 256] else None.

Definition id_rev (code : ccode) : cid :=
  match code with
  | [hi; lo] => hi * 256 + lo
  | _ => 0
  end.

(* Identity code space <0000>-<FFFF>: codes of a string *)
Fixpoint id_split (str : bytes) : option (list ccode) :=
  match str with
  | [] => Some []
  | hi :: lo :: r => match id_split r with Some l => Some ([hi; lo] :: l) | None => None end
  | _ => None
  end.

(* ---------------- NewFromCMap: the tables of an arbitrary CMap ---------------------
   NewFromCMap iterates cmap.All(codec) - the ranges and singles of the parent chain,
   root first - and stores  all[cid] = code  and  rev[code] = cid  for every pair, so
   in both tables the LAST pair wins.  [l] is that sequence of pairs. *)
Fixpoint tbl_all (l : list (ccode * cid)) (c : cid) : option ccode :=
  match l with
  | [] => None
  | (code, c') :: r =>
    match tbl_all r c with
    | Some x => Some x
    | None => if c =? c' then Some code else None
    end
  end.

Fixpoint tbl_rev_opt (l : list (ccode * cid)) (code : ccode) : option cid :=
  match l with
  | [] => None
  | (code', c) :: r =>
    match tbl_rev_opt r code with
    | Some x => Some x
    | None => if bytes_eqb code code' then Some c else None
    end
  end.

Definition tbl_rev (l : list (ccode * cid)) (code : ccode) : cid :=
  match tbl_rev_opt l code with Some c => c | None => 0 end.

(* a construction of the CID -> code table that only keeps codes which the CMap really
   maps to the CID (what a repaired NewFromCMap would store): the last pair (code, c)
   whose code is not re-mapped by a later pair *)
Fixpoint tbl_all_sound_aux (whole l : list (ccode * cid)) (c : cid) : option ccode :=
  match l with
  | [] => None
  | (code, c') :: r =>
    match tbl_all_sound_aux whole r c with
    | Some x => Some x
    | None => if c =? c' then (if tbl_rev whole code =? c then Some code else None) else None
    end
  end.

Definition tbl_all_sound (l : list (ccode * cid)) (c : cid) : option ccode := tbl_all_sound_aux l l c.
