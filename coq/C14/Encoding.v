(* C14 model, part 4: the /Encoding entry of a simple font dictionary
   (font/encoding/type1.go): Simple.AsPDFSimple / ExtractSimple for Type 1 and
   TrueType dictionaries, Simple.AsPDFType3 / ExtractType3 for Type 3.

   An encoding (Go: encoding.Simple) maps a code to a glyph name; the empty
   string marks an unused code, "@" (UseBuiltin) the font's built-in encoding.
   Names are byte strings, compared as Go compares strings.

   Definitions only. *)
From Coq Require Import List NArith ZArith Bool.
From GoPdf.Base Require Import Bytes.
From GoPdf.C14 Require Import SimpleEnc.
Import ListNotations.
Open Scope N_scope.

Definition gname := bytes.
Definition encoding := N -> gname.

Definition at_name : gname := [64].                               (* "@" *)
Definition notdef_name : gname := [46; 110; 111; 116; 100; 101; 102].   (* ".notdef" *)

Definition is_empty (n : gname) : bool := match n with [] => true | _ => false end.
Definition is_at (n : gname) : bool := bytes_eqb n at_name.

Inductive basename := BWin | BMac | BExpert.

Inductive ditem :=
| DCode (c : Z)          (* an integer in /Differences *)
| DName (n : gname).     (* a name in /Differences *)

(* the PDF object written as /Encoding *)
Inductive encobj :=
| ONil                                               (* no /Encoding entry *)
| ONamed (b : basename)                              (* /WinAnsiEncoding ... *)
| ODict (base : option basename) (diffs : list ditem)   (* << /BaseEncoding ... /Differences [...] >> *)
| OError.                                            (* errInvalidEncoding *)

(* the loop which builds a /Differences array: codes not skipped, an integer
   whenever the code does not follow the previous entry *)
Fixpoint diffs_loop (skip : N -> bool) (e : encoding) (codes : list N) (last : N) : list ditem :=
  match codes with
  | [] => []
  | c :: r =>
    if skip c then diffs_loop skip e r last
    else (if c =? last + 1 then [] else [DCode (Z.of_N c)]) ++ DName (e c) :: diffs_loop skip e r c
  end.

Section Enc.
  (* pdfenc.WinAnsi / MacRoman / MacExpert / Standard: the 256 glyph names *)
  Variable win mac expert std : N -> gname.
  (* names.IsValid *)
  Variable valid : gname -> bool.

  Definition table (b : basename) : N -> gname :=
    match b with BWin => win | BMac => mac | BExpert => expert end.

  Definition can_use_builtin (e : encoding) : bool :=
    forallb (fun c => is_empty (e c) || is_at (e c)) all_bytes.

  Definition no_builtin (e : encoding) : bool :=
    forallb (fun c => negb (is_at (e c))) all_bytes.

  Definition fits (e : encoding) (tab : N -> gname) : bool :=
    forallb (fun c => is_empty (e c) || bytes_eqb (e c) (tab c)) all_bytes.

  Definition skip_tab (e : encoding) (tab : N -> gname) (c : N) : bool :=
    is_empty (e c) || bytes_eqb (e c) (tab c).

  Definition skip_builtin (e : encoding) (c : N) : bool :=
    is_empty (e c) || is_at (e c).

  (* Adobe Reader compatibility: an empty array becomes [32 /<name of the base at 32>] *)
  Definition fixup (tab : N -> gname) (d : list ditem) : list ditem :=
    match d with [] => [DCode 32; DName (tab 32)] | _ => d end.

  (* the candidate with the shortest /Differences array; the first one among equals *)
  Fixpoint best (cands : list (option basename * list ditem)) (bestlen : nat)
           (cur : option (option basename * list ditem)) : option (option basename * list ditem) :=
    match cands with
    | [] => cur
    | (nm, d) :: r =>
      if Nat.ltb (length d) bestlen then best r (length d) (Some (nm, d)) else best r bestlen cur
    end.

  (* Simple.AsPDFSimple *)
  Definition as_pdf_simple (e : encoding) (base_is_std : bool) : encobj :=
    if can_use_builtin e then ONil
    else if no_builtin e then
      if fits e win then ONamed BWin
      else if fits e mac then ONamed BMac
      else if fits e expert then ONamed BExpert
      else
        let cand (nm : option basename) (tab : N -> gname) :=
            (nm, fixup tab (diffs_loop (skip_tab e tab) e all_bytes 999)) in
        let cands := [cand (Some BWin) win; cand (Some BMac) mac; cand (Some BExpert) expert]
                     ++ (if base_is_std then [cand None std] else []) in
        match best cands 999 None with
        | Some (nm, d) => ODict nm d
        | None => OError
        end
    else if base_is_std then OError
    else
      match diffs_loop (skip_builtin e) e all_bytes 999 with
      | [] => OError   (* cand.enc[32] of a nil table: unreachable, see as_pdf_simple_total *)
      | d => ODict None d
      end.

  (* the walk over /Differences: assignments differences[code] = name, newest first *)
  Fixpoint walk (items : list ditem) (cur : Z) (acc : list (N * gname)) : list (N * gname) :=
    match items with
    | [] => acc
    | DCode c :: r => walk r c acc
    | DName n :: r =>
      if (0 <=? cur)%Z && (cur <? 256)%Z
      then walk r (cur + 1)%Z ((Z.to_N cur, if valid n then n else notdef_name) :: acc)
      else walk r cur acc
    end.

  Fixpoint find_diff (c : N) (d : list (N * gname)) : option gname :=
    match d with
    | [] => None
    | (c', n) :: r => if c =? c' then Some n else find_diff c r
    end.

  (* ExtractSimple *)
  Definition extract_simple (o : encobj) (non_symbolic_ext : bool) : encoding :=
    match o with
    | ONamed b => table b
    | ODict base diffs =>
      let basef := match base with
                   | Some b => table b
                   | None => if non_symbolic_ext then std else (fun _ => at_name)
                   end in
      let d := walk diffs (-1)%Z [] in
      fun c => match find_diff c d with Some n => n | None => basef c end
    | _ => fun _ => at_name
    end.

  (* ---- Type 3 ---- *)
  Definition as_pdf_type3 (e : encoding) : list ditem :=
    diffs_loop (fun c => is_empty (e c)) e all_bytes 999.

  Fixpoint walk3 (items : list ditem) (cur : Z) (acc : list (N * gname)) : list (N * gname) :=
    match items with
    | [] => acc
    | DCode c :: r => walk3 r c acc
    | DName n :: r =>
      if (0 <=? cur)%Z && (cur <? 256)%Z && negb (is_empty n)
      then walk3 r (cur + 1)%Z ((Z.to_N cur, n) :: acc)
      else walk3 r cur acc
    end.

  (* ExtractType3: None = "missing /Differences array" *)
  Definition extract_type3 (diffs : list ditem) : option encoding :=
    match walk3 diffs (-1)%Z [] with
    | [] => None
    | d => Some (fun c => match find_diff c d with Some n => n | None => [] end)
    end.
End Enc.

(* Simple.Encoding(): the glyph name of the glyph each used code shows *)
Definition simple_encoding (glyph_name : gid -> gname) (s : st) : encoding :=
  fun c => match find_info c (s_info s) with
           | Some i => glyph_name (ci_gid i)
           | None => []
           end.
