(* C14: the /W2 and /DW2 tables are lossless (model: VMetrics.v). *)
From Coq Require Import List NArith ZArith Bool Lia.
From Coq Require Import ZifyN ZifyNat ZifyBool.
From GoPdf.Base Require Import Bytes.
From GoPdf.C14 Require Import VMetrics WidthsProofs.
Import ListNotations.
Open Scope N_scope.

Lemma vm_eqb_eq a b : vm_eqb a b = true <-> a = b.
Proof.
  destruct a as [[a1 a2] a3], b as [[b1 b2] b3]. unfold vm_eqb.
  rewrite !andb_true_iff, !Z.eqb_eq. split; [intros [[-> ->] ->]; reflexivity | intros H; inversion H; auto].
Qed.

Fixpoint vpairs_from (c : N) (vs : list vm) : list (N * vm) :=
  match vs with
  | [] => []
  | v :: r => (c, v) :: vpairs_from (c + 1) r
  end.

Definition vcid_ok (p : N * vm) : Prop := fst p <= 65535.

Definition head_is (a : list (N * vm)) (c0 : N) : Prop :=
  match a with (c, _) :: _ => c = c0 | [] => True end.

Lemma phase1_spec l : forall prev a b, phase1 prev l = (a, b) ->
  l = a ++ b /\
  (forall p, prev = Some p -> head_is a (p + 1)) /\
  (forall c0, head_is a c0 -> a = vpairs_from c0 (map snd a)).
Proof.
  induction l as [|[c v] r IH]; intros prev a b H; cbn [phase1] in H.
  - inversion H; subst. repeat split; intros; reflexivity.
  - match type of H with (if ?cond then _ else _) = _ => destruct cond eqn:Ec end.
    + inversion H; subst. repeat split; intros; reflexivity.
    + destruct (phase1 (Some c) r) as [a' b'] eqn:E. inversion H; subst.
      destruct (IH _ _ _ E) as [H1 [H2 H3]]. apply orb_false_iff in Ec as [Ec1 _].
      split; [cbn; f_equal; exact H1|]. split.
      * intros p ->. cbn. destruct (p + 1 =? c) eqn:E1; [lia | discriminate].
      * intros c0 Hc0. cbn in Hc0. subst c0. cbn [map snd vpairs_from]. f_equal.
        apply H3. apply H2. reflexivity.
Qed.

Lemma same_run_spec l : forall p v a b, same_run p v l = (a, b) ->
  l = a ++ b /\ a = vpairs_from (p + 1) (map snd a) /\ Forall (fun x => snd x = v) a.
Proof.
  induction l as [|[c v'] r IH]; intros p v a b H; cbn [same_run] in H.
  - inversion H; subst. repeat split; constructor.
  - destruct ((p + 1 =? c) && vm_eqb v v') eqn:Ec.
    + destruct (same_run c v r) as [a' b'] eqn:E. inversion H; subst.
      destruct (IH _ _ _ _ E) as [H1 [H2 H3]]. apply andb_true_iff in Ec as [E1 E2].
      apply vm_eqb_eq in E2. subst v'.
      split; [cbn; f_equal; exact H1|]. split.
      * cbn [map snd vpairs_from]. replace (p + 1) with c by lia. f_equal. exact H2.
      * constructor; [reflexivity | exact H3].
    + inversion H; subst. repeat split; constructor.
Qed.

Lemma vpairs_from_length c vs : length (vpairs_from c vs) = length vs.
Proof. revert c; induction vs as [|v r IH]; intros c; cbn; [reflexivity | rewrite IH; reflexivity]. Qed.

Lemma vexpand_list_ok vs : forall c, Forall vcid_ok (vpairs_from c vs) -> vexpand_list c vs = Some (vpairs_from c vs).
Proof.
  induction vs as [|v r IH]; intros c H; cbn [vexpand_list vpairs_from]; [reflexivity|].
  cbn [vpairs_from] in H. inversion H; subst. unfold vcid_ok in H2. cbn in H2.
  replace (65535 <? c) with false by lia. rewrite IH by assumption. reflexivity.
Qed.

Lemma vexpand_range_eq vs : forall c v, Forall (fun x => x = v) vs -> vexpand_range c (length vs) v = vpairs_from c vs.
Proof.
  induction vs as [|x r IH]; intros c v H; cbn [vexpand_range vpairs_from length]; [reflexivity|].
  inversion H; subst. rewrite IH by assumption. reflexivity.
Qed.

Lemma vpairs_last c vs d : vs <> [] ->
  fst (last (vpairs_from c vs) d) = c + N.of_nat (length vs) - 1.
Proof.
  revert c; induction vs as [|v r IH]; intros c H; [contradiction|].
  destruct r as [|v' r'].
  - cbn. lia.
  - cbn [vpairs_from]. cbn [vpairs_from] in IH.
    change (last ((c, v) :: (c + 1, v') :: vpairs_from (c + 1 + 1) r') d) with (last ((c + 1, v') :: vpairs_from (c + 1 + 1) r') d).
    rewrite (IH (c + 1)) by discriminate. cbn [length]. lia.
Qed.

Lemma vpairs_bound vs : forall c, Forall vcid_ok (vpairs_from c vs) -> vs <> [] -> c + N.of_nat (length vs) <= 65536.
Proof.
  induction vs as [|v r IH]; intros c H Hne; [contradiction|].
  cbn [vpairs_from] in H. inversion H; subst. unfold vcid_ok in H2. cbn in H2.
  destruct r as [|v' r'].
  - cbn. lia.
  - specialize (IH (c + 1) H3 ltac:(discriminate)). cbn [length] in *. lia.
Qed.

Lemma decode_v_items_app a : forall b,
  decode_v_items (a ++ b) =
  match decode_v_items a, decode_v_items b with
  | Some x, Some y => Some (x ++ y)
  | _, _ => None
  end.
Proof.
  induction a as [|it a IH]; intros b; cbn [app decode_v_items].
  - destruct (decode_v_items b); reflexivity.
  - rewrite IH. destruct (vexpand_item it); [|reflexivity].
    destruct (decode_v_items a); [|reflexivity].
    destruct (decode_v_items b); [|reflexivity]. rewrite app_assoc. reflexivity.
Qed.

Lemma list_item_ok a : Forall vcid_ok a -> (forall c0, head_is a c0 -> a = vpairs_from c0 (map snd a)) ->
  decode_v_items (list_item a) = Some a.
Proof.
  intros Hok Hc. destruct a as [|[c v] r]; [reflexivity|].
  specialize (Hc c eq_refl). cbn [list_item decode_v_items vexpand_item].
  assert (c <= 65535) by (inversion Hok; subst; assumption).
  replace (65535 <? c) with false by lia.
  rewrite vexpand_list_ok by (rewrite <- Hc; exact Hok). rewrite <- Hc, app_nil_r. reflexivity.
Qed.

Lemma range_item_ok c v r : Forall vcid_ok ((c, v) :: r) ->
  r = vpairs_from (c + 1) (map snd r) -> Forall (fun x => snd x = v) r -> r <> [] ->
  vexpand_item (VRange c (fst (last ((c, v) :: r) (c, v))) v) = Some ((c, v) :: r).
Proof.
  intros Hok Hr Hv Hne.
  assert (Hb : (c, v) :: r = vpairs_from c (v :: map snd r)) by (cbn; f_equal; exact Hr).
  assert (Hlast : fst (last ((c, v) :: r) (c, v)) = c + N.of_nat (length r)).
  { rewrite Hb at 1. rewrite vpairs_last by discriminate. cbn [length]. rewrite map_length. lia. }
  pose proof (vpairs_bound (v :: map snd r) c) as HB. rewrite <- Hb in HB.
  specialize (HB Hok ltac:(discriminate)). cbn [length] in HB. rewrite map_length in HB.
  cbn [vexpand_item]. rewrite Hlast.
  replace ((65535 <? c) || (65535 <? c + N.of_nat (length r))) with false by lia.
  replace (c + N.of_nat (length r) <? c) with false by lia.
  replace (N.to_nat (c + N.of_nat (length r) - c) + 1)%nat with (length (v :: map snd r)) by (cbn [length]; rewrite map_length; lia).
  rewrite vexpand_range_eq.
  - rewrite <- Hb. reflexivity.
  - constructor; [reflexivity|]. rewrite Forall_forall in *. intros x Hx. apply in_map_iff in Hx as [p [<- Hp]]. exact (Hv _ Hp).
Qed.

(* if the first loop takes nothing, the second takes at least two elements *)
Lemma phase_progress c v r b l2 : phase1 None ((c, v) :: r) = ([], (c, v) :: r) ->
  phase2 ((c, v) :: r) = (b, l2) -> (2 <= length b)%nat.
Proof.
  cbn [phase1 phase2 orb]. destruct r as [|[c' v'] r'].
  - destruct (phase1 (Some c) []) eqn:E. discriminate.
  - destruct ((c + 1 =? c') && vm_eqb v v') eqn:E.
    + intros _. cbn [same_run]. rewrite E. destruct (same_run c' v r') as [a' b']. intros H; inversion H; subst. cbn. lia.
    + destruct (phase1 (Some c) ((c', v') :: r')). discriminate.
Qed.

Lemma encode_v_fuel_ok fuel : forall l, (length l < fuel)%nat -> Forall vcid_ok l ->
  exists its, encode_v_fuel fuel l = Some its /\ decode_v_items its = Some l.
Proof.
  induction fuel as [|f IH]; intros l Hlen Hok; [lia|].
  destruct l as [|[c v] r]; [exists []; split; reflexivity|].
  cbn [encode_v_fuel].
  destruct (phase1 None ((c, v) :: r)) as [a l1] eqn:E1.
  destruct (phase2 l1) as [b l2] eqn:E2.
  destruct (phase1_spec _ _ _ _ E1) as [Hl [_ Ha]].
  assert (Hoka : Forall vcid_ok a /\ Forall vcid_ok l1) by (rewrite Hl in Hok; apply Forall_app in Hok; exact Hok).
  destruct Hoka as [Hoka Hok1].
  assert (Hb : l1 = b ++ l2 /\ (forall c0 v0 r0, b = (c0, v0) :: r0 ->
                r0 = vpairs_from (c0 + 1) (map snd r0) /\ Forall (fun x => snd x = v0) r0)).
  { unfold phase2 in E2. destruct l1 as [|[c1 v1] r1]; [inversion E2; subst; split; [reflexivity | intros; discriminate]|].
    destruct (same_run c1 v1 r1) as [a' b'] eqn:E. inversion E2; subst.
    destruct (same_run_spec _ _ _ _ _ E) as [H1 [H2 H3]].
    split; [cbn; f_equal; exact H1|]. intros c0 v0 r0 H. inversion H; subst. split; assumption. }
  destruct Hb as [Hl1 Hb].
  assert (Hokb : Forall vcid_ok b /\ Forall vcid_ok l2) by (rewrite Hl1 in Hok1; apply Forall_app in Hok1; exact Hok1).
  destruct Hokb as [Hokb Hok2].
  pose proof (list_item_ok a Hoka Ha) as Hda.
  assert (Hlens : length ((c, v) :: r) = (length a + length b + length l2)%nat).
  { rewrite Hl, Hl1, !app_length. lia. }
  destruct b as [|[c0 v0] [|p2 b']].
  - (* no range *)
    assert (Hane : a <> []).
    { intros ->. cbn in Hl. subst l1.
      pose proof (phase_progress _ _ _ _ _ E1 E2). cbn in H. lia. }
    destruct (IH l1) as [its [Hi Hd]]; [|exact Hok1|].
    { cbn [length] in Hlens. rewrite Hl1 in *. cbn [app length] in *. destruct a; [contradiction|]. cbn [length] in Hlens. lia. }
    rewrite Hi. eexists. split; [reflexivity|]. rewrite decode_v_items_app, Hda, Hd, Hl. reflexivity.
  - destruct (IH l1) as [its [Hi Hd]]; [|exact Hok1|].
    { assert (Hane : a <> []).
      { intros ->. cbn in Hl. subst l1.
        pose proof (phase_progress _ _ _ _ _ E1 E2). cbn in H. lia. }
      rewrite Hl1. cbn [app length] in *. destruct a; [contradiction|]. cbn [length] in Hlens. lia. }
    rewrite Hi. eexists. split; [reflexivity|]. rewrite decode_v_items_app, Hda, Hd, Hl. reflexivity.
  - destruct (Hb c0 v0 (p2 :: b') eq_refl) as [Hr Hv].
    destruct (IH l2) as [its [Hi Hd]]; [|exact Hok2|].
    { cbn [length] in *. lia. }
    rewrite Hi. eexists. split; [reflexivity|].
    rewrite decode_v_items_app, Hda. cbn [decode_v_items].
    rewrite (range_item_ok c0 v0 (p2 :: b') Hokb Hr Hv ltac:(discriminate)), Hd.
    rewrite Hl, Hl1. reflexivity.
Qed.

Lemma w2_compress_lemma l :
  strictly_increasing (map fst l) -> Forall (fun p => fst p <= 65535) l ->
  exists its, encode_v l = Some its /\ decode_v its = Some l.
Proof.
  intros Hs Hl. destruct (encode_v_fuel_ok (S (length l)) l ltac:(lia) Hl) as [its [H1 H2]].
  exists its. split; [exact H1|]. unfold decode_v. rewrite H2.
  assert (HF : Forall (fun x => x <= 65535) (map fst l)).
  { rewrite Forall_forall in *. intros x Hx. apply in_map_iff in Hx as [p [<- Hp]]. exact (Hl _ Hp). }
  destruct (incr_length _ _ Hs HF) as [E|E].
  - destruct l; [reflexivity | discriminate].
  - rewrite map_length in E. replace (65536 <? N.of_nat (length l)) with false by lia. reflexivity.
Qed.

Lemma dw2_roundtrip_lemma m : decode_dw2 (encode_dw2 m) = m.
Proof.
  destruct m as [oy dy]. unfold encode_dw2.
  destruct (Z.eqb oy 880 && Z.eqb dy (-1000)) eqn:E; cbn; [|reflexivity].
  apply andb_true_iff in E as [E1 E2]. apply Z.eqb_eq in E1, E2. subst. reflexivity.
Qed.
