(* C20 - H-parse instantiated: a concrete reader of indirect objects whose value is an
   unsigned integer (`N G obj LF digits LF endobj`, the shape the Writer gives them) satisfies
   the three hypotheses the theorems make about the object parser - a complete chunk reads to
   its value whatever follows, no proper prefix of a chunk reads, no error class other than
   Malformed / EOF.  The hypotheses are therefore jointly satisfiable, and for files of such
   objects the theorems hold without any assumption about the parser.  The harness compares
   this reader with scanner.ReadIndirectObject on every integer object it generates, on all
   their prefixes and with arbitrary bytes appended. *)
From Coq Require Import List NArith Bool Arith Lia.
From GoPdf.Base Require Import Bytes Res.
From GoPdf.C20 Require Import SeqScan SeqScanProofs MarkerFacts.
Import ListNotations.
Open Scope N_scope.

Definition lit (p s : bytes) : option bytes := if has_prefix p s then Some (skipn (length p) s) else None.
Definition digits1 (s : bytes) : option (bytes * bytes) :=
  match span is_digit s with ([], _) => None | (d, r) => Some (d, r) end.

Definition sp_obj_lf : bytes := [32; 111; 98; 106; 10].                  (* " obj" LF *)
Definition lf_endobj : bytes := [10; 101; 110; 100; 111; 98; 106].       (* LF "endobj" *)

(* (digits of the number, of the generation, of the value, the input after endobj) *)
Definition read_int_obj (s : bytes) : option (bytes * bytes * bytes * bytes) :=
  match digits1 s with None => None | Some (d1, r1) =>
  match lit [32] r1 with None => None | Some r2 =>
  match digits1 r2 with None => None | Some (d2, r3) =>
  match lit sp_obj_lf r3 with None => None | Some r4 =>
  match digits1 r4 with None => None | Some (v, r5) =>
  match lit lf_endobj r5 with None => None | Some r6 => Some (d1, d2, v, r6)
  end end end end end end.

Definition parse_int (s : bytes) : pres bytes :=
  match read_int_obj s with Some (_, _, v, _) => POk v | None => PMalformed end.

Definition int_text (d1 d2 v : bytes) : bytes := d1 ++ [32] ++ d2 ++ sp_obj_lf ++ v ++ lf_endobj.

Definition digit_str (d : bytes) : Prop := d <> [] /\ forallb is_digit d = true.

(* ---------- the primitives ---------- *)
Lemma has_prefix_app p : forall t, has_prefix p (p ++ t) = true.
Proof. induction p as [|x p IH]; intros t; cbn; [reflexivity|]. rewrite N.eqb_refl. apply IH. Qed.

Lemma lit_app p t : lit p (p ++ t) = Some t.
Proof.
  unfold lit. rewrite has_prefix_app. f_equal.
  induction p as [|x p IH]; [reflexivity|exact IH].
Qed.

Lemma has_prefix_split : forall p s, has_prefix p s = true -> s = p ++ skipn (length p) s.
Proof.
  induction p as [|x p IH]; intros s H; [reflexivity|].
  destruct s as [|y s]; [discriminate|]. cbn in H. apply andb_true_iff in H as [E H]. apply N.eqb_eq in E. subst y.
  cbn [length skipn app]. f_equal. apply IH. exact H.
Qed.

Lemma lit_inv p s r : lit p s = Some r -> s = p ++ r.
Proof.
  unfold lit. destruct (has_prefix p s) eqn:E; [|discriminate]. intros H. injection H as <-.
  apply has_prefix_split. exact E.
Qed.

Lemma span_digits_stop : forall d x t, forallb is_digit d = true -> is_digit x = false ->
  span is_digit (d ++ x :: t) = (d, x :: t).
Proof.
  induction d as [|b d IH]; intros x t Hd Hx; cbn [app span].
  - rewrite Hx. reflexivity.
  - cbn [forallb] in Hd. apply andb_true_iff in Hd as [Hb Hd]. rewrite Hb, IH by assumption. reflexivity.
Qed.

Lemma digits1_stop d x t : digit_str d -> is_digit x = false -> digits1 (d ++ x :: t) = Some (d, x :: t).
Proof.
  intros [Hne Hd] Hx. unfold digits1. rewrite span_digits_stop by assumption. destruct d; [congruence|reflexivity].
Qed.

Lemma digits1_inv s d r : digits1 s = Some (d, r) -> s = d ++ r /\ digit_str d.
Proof.
  unfold digits1. destruct (span is_digit s) as [a b] eqn:E. destruct (span_spec _ _ _ _ E) as [-> Hd].
  destruct a as [|x a]; [discriminate|]. intros H. injection H as <- <-. split; [reflexivity|]. split; [discriminate|exact Hd].
Qed.

(* ---------- the reader on the text of an integer object ---------- *)
Lemma read_int_text d1 d2 v t :
  digit_str d1 -> digit_str d2 -> digit_str v ->
  read_int_obj (int_text d1 d2 v ++ t) = Some (d1, d2, v, t).
Proof.
  intros H1 H2 H3. unfold read_int_obj, int_text.
  rewrite <- !app_assoc. cbn [app].
  rewrite (digits1_stop d1 32) by (auto; reflexivity).
  change (32 :: d2 ++ sp_obj_lf ++ v ++ lf_endobj ++ t) with ([32] ++ d2 ++ sp_obj_lf ++ v ++ lf_endobj ++ t).
  rewrite lit_app.
  change (sp_obj_lf ++ v ++ lf_endobj ++ t) with (32 :: [111; 98; 106; 10] ++ v ++ lf_endobj ++ t).
  rewrite (digits1_stop d2 32) by (auto; reflexivity).
  change (32 :: [111; 98; 106; 10] ++ v ++ lf_endobj ++ t) with (sp_obj_lf ++ v ++ lf_endobj ++ t).
  rewrite lit_app.
  change (lf_endobj ++ t) with (10 :: [101; 110; 100; 111; 98; 106] ++ t).
  rewrite (digits1_stop v 10) by (auto; reflexivity).
  change (10 :: [101; 110; 100; 111; 98; 106] ++ t) with (lf_endobj ++ t).
  rewrite lit_app. reflexivity.
Qed.

(* what the reader accepts is the text of an integer object, and the rest *)
Lemma read_int_inv s d1 d2 v r :
  read_int_obj s = Some (d1, d2, v, r) ->
  s = int_text d1 d2 v ++ r /\ digit_str d1 /\ digit_str d2 /\ digit_str v.
Proof.
  unfold read_int_obj.
  destruct (digits1 s) as [[a1 r1]|] eqn:E1; [|discriminate].
  destruct (lit [32] r1) as [r2|] eqn:E2; [|discriminate].
  destruct (digits1 r2) as [[a2 r3]|] eqn:E3; [|discriminate].
  destruct (lit sp_obj_lf r3) as [r4|] eqn:E4; [|discriminate].
  destruct (digits1 r4) as [[a3 r5]|] eqn:E5; [|discriminate].
  destruct (lit lf_endobj r5) as [r6|] eqn:E6; [|discriminate].
  intros H. injection H as <- <- <- <-.
  apply digits1_inv in E1 as [-> D1]. apply lit_inv in E2 as ->.
  apply digits1_inv in E3 as [-> D2]. apply lit_inv in E4 as ->.
  apply digits1_inv in E5 as [-> D3]. apply lit_inv in E6 as ->.
  split; [|auto]. unfold int_text. rewrite <- !app_assoc. reflexivity.
Qed.

(* appending bytes does not change what was read *)
Lemma read_int_app s d1 d2 v r u :
  read_int_obj s = Some (d1, d2, v, r) -> read_int_obj (s ++ u) = Some (d1, d2, v, r ++ u).
Proof.
  intros H. apply read_int_inv in H as (-> & H1 & H2 & H3).
  rewrite <- app_assoc. apply read_int_text; assumption.
Qed.

(* ---------- H-parse ---------- *)
Section Instance.
  Definition int_chunk (c : chunk bytes) : Prop :=
    exists d1 d2, digit_str d1 /\ digit_str d2 /\ digit_str (ck_val bytes c)
                  /\ ck_bytes bytes c = int_text d1 d2 (ck_val bytes c).

  Lemma int_chunk_stable c : int_chunk c -> chunk_parse_stable bytes parse_int c.
  Proof.
    intros (d1 & d2 & H1 & H2 & H3 & E) t. unfold parse_int. rewrite E, read_int_text by assumption. reflexivity.
  Qed.

  Lemma int_chunk_prefix_fails c : int_chunk c -> chunk_prefix_fails bytes parse_int c.
  Proof.
    intros (d1 & d2 & H1 & H2 & H3 & E) k v Hk Hp. unfold parse_int in Hp.
    destruct (read_int_obj (firstn k (ck_bytes bytes c))) as [[[[a1 a2] a3] r]|] eqn:R; [|discriminate].
    pose proof (read_int_app _ _ _ _ _ (skipn k (ck_bytes bytes c)) R) as R2.
    rewrite firstn_skipn in R2.
    pose proof (read_int_text d1 d2 (ck_val bytes c) [] H1 H2 H3) as R3.
    rewrite app_nil_r, <- E in R3. rewrite R3 in R2. injection R2 as _ _ _ R2.
    symmetry in R2. apply app_eq_nil in R2 as [_ R2].
    apply (f_equal (@length _)) in R2. rewrite skipn_length in R2. cbn in R2. lia.
  Qed.

  Lemma parse_int_class s : parse_int s <> POther.
  Proof. unfold parse_int. destruct (read_int_obj s) as [[[[a b] c] d]|]; discriminate. Qed.
End Instance.

(* ---------- the theorems for files of integer objects, without assumption about the parser ---------- *)
From GoPdf.C20 Require Import WindowProofs WindowTheorems.

Lemma prefix_complete_int pre h cs tail i c n :
  pre_ok pre h -> (h <= buf_size)%nat ->
  tame (pre ++ flat bytes cs ++ tail) ->
  (forall c', In c' cs -> chunk_scan_ok bytes c') ->
  int_chunk c ->
  nth_error cs i = Some c ->
  (length pre + length (flat bytes (firstn i cs)) + length (ck_bytes bytes c) <= n)%nat ->
  let data := firstn n (pre ++ flat bytes cs ++ tail) in
  exists objs,
    seq_scan (scan_windows data) (pc_of bytes parse_int data) = Ok objs
    /\ In {| co_obj := chunk_marker_obj bytes (length pre + length (flat bytes (firstn i cs))) c;
             co_broken := false; co_val := Some (ck_val bytes c) |} objs.
Proof.
  intros Hpre Hh Ht Hcs Hc Hn Hlen.
  apply (prefix_complete_w bytes parse_int pre h cs tail i c n Hpre Hh Ht Hcs (int_chunk_stable c Hc) parse_int_class Hn Hlen).
Qed.

Lemma trailing_broken_int pre h cs1 c k objs o :
  pre_ok pre h -> (h <= buf_size)%nat ->
  int_chunk c -> (k < length (ck_bytes bytes c))%nat ->
  let data := pre ++ flat bytes cs1 ++ firstn k (ck_bytes bytes c) in
  tame data ->
  seq_scan (scan_windows data) (pc_of bytes parse_int data) = Ok objs ->
  In o objs -> fo_start (co_obj o) = (length pre + length (flat bytes cs1))%nat ->
  co_broken o = true.
Proof.
  intros Hpre Hh Hc Hk data Ht Hs Ho Hst.
  apply (trailing_broken_w bytes parse_int pre h cs1 c k objs o Hpre Hh (int_chunk_prefix_fails c Hc) Hk Ht Hs Ho Hst).
Qed.
