(* C20: property theorems only; each closed by [exact] and followed by Print Assumptions.

   Reading guide.  data = pre ++ flat cs ++ ...: pre is the header region, every chunk of
   cs is the text of one indirect object (`N G obj` ... `endobj`), followed by LF.
   chunk_scan_ok: the chunk begins with its header and contains no other marker at the
   beginning of a line.  parse is scanner.ReadIndirectObject (a parameter): H-parse =
   chunk_parse_stable (a complete chunk reads to its value whatever follows),
   chunk_prefix_fails (a cut-off chunk does not read), and "no error class other than
   Malformed / EOF on in-memory data".  seq_scan is SequentialScan: locateObjects,
   checkObjects (Malformed or EOF => Broken, since the fix of F5).

   scan_windows is scanner.Find as it is: a 1024-byte buffer, 64 bytes of overlap, every
   search on the slice buf[pos:used].  The theorems are about scan_windows.  They hold for
   TAME files whose header lies within the first buffer (h <= 1024, which NewReader requires
   of every file): at every position that follows a CR or LF
     (stable) the line does not begin with marker text that a word character follows
              (`12 0 objx`, `xrefs`): only there could a cut - the end of a search window or
              of a truncated file - turn a non-marker into a marker;
     (short)  a marker text is at most regexpOverlap = 64 bytes long (an object header with
              more than ~50 bytes of digits and blanks could straddle two windows unseen).
   tame is decidable (tameb) and is inherited by every prefix.  These two conditions are the
   whole residual gap between scanner.Find and the search without windows (windows_eq_ideal). *)
From Coq Require Import List NArith ZArith Bool.
From GoPdf.Base Require Import Bytes Res.
From GoPdf.C20 Require Import SeqScan SeqScanProofs MarkerFacts WindowProofs WindowTheorems FastScan IntObjects.
Import ListNotations.

(* Documentation: BEFORE fix F24 scanner.Find's `^` alternative matched at the beginning of
   every search slice: the text "2 0 obj (x) endobj" in the middle of a line of a string, at
   file offset 960, was located as an object (scan_windows_pre_F24, a named variant of the
   model).  The search as it is now does not locate it. *)
Theorem window_pre_F24_refuted :
  exists data,
    length data = 1188%nat
    /\ nth 959 data 0%N = 97%N
    /\ scan_ideal data = Some [(9%nat, MObj [49%N] [48%N])]
    /\ scan_windows_pre_F24 data = Some [(9%nat, MObj [49%N] [48%N]); (960%nat, MObj [50%N] [48%N])]
    /\ scan_windows data = Some [(9%nat, MObj [49%N] [48%N])].
Proof. exists window_witness. exact window_witness_facts. Qed.
Print Assumptions window_pre_F24_refuted.

(* scanner.Find with its buffer windows finds exactly the markers of the search without
   windows *)
Theorem windows_eq_ideal :
  forall data hs h v,
    find_start data = Some (hs, h, v) -> (h <= buf_size)%nat -> tame data ->
    scan_windows data = scan_ideal data.
Proof. exact windows_eq_ideal_lemma. Qed.
Print Assumptions windows_eq_ideal.

(* The model the driver executes on every prefix of every generated file is
   scan_windows_fast (FastScan.v): the same search with the current slice and the offset of
   the read position carried along instead of recomputed from the beginning of the file after
   every match.  It is the search of the theorems. *)
Theorem scan_windows_fast_is_scan_windows :
  forall data, scan_windows_fast data = scan_windows data.
Proof. exact scan_windows_fast_eq. Qed.
Print Assumptions scan_windows_fast_is_scan_windows.

Theorem tame_prefix : forall data n, tame data -> tame (firstn n data).
Proof. exact tame_firstn. Qed.
Print Assumptions tame_prefix.

(* every prefix (a crash at any byte n) that contains the end of chunk i lists object i at its
   true offset, not broken, with its value *)
Theorem prefix_complete :
  forall (V : Type) (parse : bytes -> pres V) pre h cs tail i c n,
    pre_ok pre h -> (h <= buf_size)%nat ->
    tame (pre ++ flat V cs ++ tail) ->
    (forall c', In c' cs -> chunk_scan_ok V c') ->
    chunk_parse_stable V parse c ->
    (forall s, parse s <> POther) ->
    nth_error cs i = Some c ->
    (length pre + length (flat V (firstn i cs)) + length (ck_bytes V c) <= n)%nat ->
    let data := firstn n (pre ++ flat V cs ++ tail) in
    exists objs,
      seq_scan (scan_windows data) (pc_of V parse data) = Ok objs
      /\ In {| co_obj := chunk_marker_obj V (length pre + length (flat V (firstn i cs))) c;
               co_broken := false; co_val := Some (ck_val V c) |} objs.
Proof. exact prefix_complete_w. Qed.
Print Assumptions prefix_complete.

(* the general form: whatever follows a complete chunk - nothing, or LF and arbitrary bytes *)
Theorem complete_chunk_listed :
  forall (V : Type) (parse : bytes -> pres V) pre h cs1 c t,
    pre_ok pre h -> (h <= buf_size)%nat ->
    (forall c', In c' cs1 -> chunk_scan_ok V c') -> chunk_scan_ok V c ->
    chunk_parse_stable V parse c ->
    (forall s, parse s <> POther) ->
    follows t ->
    let data := pre ++ flat V cs1 ++ ck_bytes V c ++ t in
    tame data ->
    let off := (length pre + length (flat V cs1))%nat in
    exists objs,
      seq_scan (scan_windows data) (pc_of V parse data) = Ok objs
      /\ In {| co_obj := chunk_marker_obj V off c; co_broken := false; co_val := Some (ck_val V c) |} objs.
Proof. exact complete_chunk_listed_w. Qed.
Print Assumptions complete_chunk_listed.

(* if one complete object is present the scan does not fail outright ... *)
Theorem no_abort :
  forall (V : Type) (parse : bytes -> pres V) pre h cs1 c t,
    pre_ok pre h -> (h <= buf_size)%nat ->
    (forall c', In c' cs1 -> chunk_scan_ok V c') -> chunk_scan_ok V c ->
    chunk_parse_stable V parse c ->
    (forall s, parse s <> POther) ->
    follows t ->
    tame (pre ++ flat V cs1 ++ ck_bytes V c ++ t) ->
    exists objs, seq_scan (scan_windows (pre ++ flat V cs1 ++ ck_bytes V c ++ t))
                          (pc_of V parse (pre ++ flat V cs1 ++ ck_bytes V c ++ t)) = Ok objs.
Proof. exact no_abort_w. Qed.
Print Assumptions no_abort.

(* ... and an incomplete trailing object is reported as broken *)
Theorem trailing_broken :
  forall (V : Type) (parse : bytes -> pres V) pre h cs1 c k objs o,
    pre_ok pre h -> (h <= buf_size)%nat ->
    chunk_prefix_fails V parse c -> (k < length (ck_bytes V c))%nat ->
    let data := pre ++ flat V cs1 ++ firstn k (ck_bytes V c) in
    tame data ->
    seq_scan (scan_windows data) (pc_of V parse data) = Ok objs ->
    In o objs -> fo_start (co_obj o) = (length pre + length (flat V cs1))%nat ->
    co_broken o = true.
Proof. exact trailing_broken_w. Qed.
Print Assumptions trailing_broken.

(* H-parse instantiated.  parse_int (IntObjects.v) is a concrete reader of indirect objects
   whose value is an unsigned integer, `N G obj LF digits LF endobj` (int_chunk).  It satisfies
   the three hypotheses the theorems make about the object parser, so these are jointly
   satisfiable; the harness compares parse_int with scanner.ReadIndirectObject on integer
   objects, on all their prefixes and with an end-of-line and arbitrary bytes appended. *)
Theorem hparse_instance :
  forall c, int_chunk c ->
    chunk_parse_stable bytes parse_int c /\ chunk_prefix_fails bytes parse_int c
    /\ forall s, parse_int s <> POther.
Proof. exact (fun c H => conj (int_chunk_stable c H) (conj (int_chunk_prefix_fails c H) parse_int_class)). Qed.
Print Assumptions hparse_instance.

(* ... and for such objects prefix_complete and trailing_broken hold with no assumption about
   the parser left *)
Theorem prefix_complete_int_objects :
  forall pre h cs tail i c n,
    pre_ok pre h -> (h <= buf_size)%nat ->
    tame (pre ++ flat bytes cs ++ tail) ->
    (forall c', In c' cs -> chunk_scan_ok bytes c') ->
    int_chunk c ->
    nth_error cs i = Some c ->
    (length pre + length (flat bytes (firstn i cs)) + length (ck_bytes bytes c) <= n)%nat ->
    let data := firstn n (pre ++ flat bytes cs ++ tail) in
    exists objs,
      seq_scan (scan_windows data) (pc_of bytes parse_int data) = Ok objs
      /\ In {| co_obj := chunk_marker_obj bytes (length pre + length (flat bytes (firstn i cs))) c;
               co_broken := false; co_val := Some (ck_val bytes c) |} objs.
Proof. exact prefix_complete_int. Qed.
Print Assumptions prefix_complete_int_objects.

Theorem trailing_broken_int_objects :
  forall pre h cs1 c k objs o,
    pre_ok pre h -> (h <= buf_size)%nat ->
    int_chunk c -> (k < length (ck_bytes bytes c))%nat ->
    let data := pre ++ flat bytes cs1 ++ firstn k (ck_bytes bytes c) in
    tame data ->
    seq_scan (scan_windows data) (pc_of bytes parse_int data) = Ok objs ->
    In o objs -> fo_start (co_obj o) = (length pre + length (flat bytes cs1))%nat ->
    co_broken o = true.
Proof. exact trailing_broken_int. Qed.
Print Assumptions trailing_broken_int_objects.

(* checkObjects: Broken exactly when the parse did not succeed; it aborts only on other errors *)
Theorem broken_iff_parse_failed :
  forall (V : Type) (pc : nat -> pres V) objs l o,
    check_objects pc objs = Ok l -> In o l ->
    co_broken o = match pc (fo_start (co_obj o)) with POk _ => false | _ => true end.
Proof. exact @check_objects_broken. Qed.
Print Assumptions broken_iff_parse_failed.

(* overwriting the cross-reference data / startxref with bytes that contain no object header
   at the beginning of a line changes neither the located objects nor their values *)
Theorem xref_damage :
  forall (V : Type) (parse : bytes -> pres V) pre h cs tail tail',
    pre_ok pre h -> (h <= buf_size)%nat ->
    (forall c, In c cs -> chunk_scan_ok V c) ->
    (forall c, In c cs -> chunk_parse_stable V parse c) ->
    (forall s, parse s <> POther) ->
    cs <> [] -> object_free tail -> object_free tail' ->
    tame (pre ++ flat V cs ++ tail) -> tame (pre ++ flat V cs ++ tail') ->
    seq_scan (scan_windows (pre ++ flat V cs ++ tail')) (pc_of V parse (pre ++ flat V cs ++ tail'))
    = seq_scan (scan_windows (pre ++ flat V cs ++ tail)) (pc_of V parse (pre ++ flat V cs ++ tail))
    /\ seq_scan (scan_windows (pre ++ flat V cs ++ tail)) (pc_of V parse (pre ++ flat V cs ++ tail))
       = Ok (chunk_cobjs V (length pre) cs).
Proof. exact xref_damage_w. Qed.
Print Assumptions xref_damage.

(* locateObjects loses no candidate and keeps the scan order, whatever the markers *)
Theorem locate_keeps_objects :
  forall ms, all_objs (locate ms) = objs_of ms.
Proof. exact all_objs_locate. Qed.
Print Assumptions locate_keeps_objects.

(* getTrailer (MakeReader): with no failure of the byte source, the trailer chosen for a
   truncated or damaged file is the one of the NEWEST section that offers a complete one - its
   last cross-reference stream if that reads and has /Root, else its trailer dictionary - and
   every newer section offers none; if no section offers one, "no trailer found" *)
Theorem trailer_newest_complete :
  forall (T : Type) (secs : list (tsec T)),
    (forall s, In s secs -> no_source s) ->
    get_trailer secs = match first_offer secs with Some d => Ok d | None => Err Other end.
Proof. exact @get_trailer_newest_lemma. Qed.
Print Assumptions trailer_newest_complete.

Theorem trailer_newest_complete_split :
  forall (T : Type) (secs : list (tsec T)) d,
    (forall s, In s secs -> no_source s) ->
    get_trailer secs = Ok d ->
    exists newer s older, secs = newer ++ s :: older /\ offers s = Some d /\ forall s', In s' newer -> offers s' = None.
Proof. exact @get_trailer_split. Qed.
Print Assumptions trailer_newest_complete_split.

(* ---------- the hypotheses are satisfiable ---------- *)
(* the Writer's header: %PDF-1.4 LF %<80><80><80><80> LF LF *)
Definition ex_pre : bytes := [37; 80; 68; 70; 45; 49; 46; 52; 10; 37; 128; 128; 128; 128; 10; 10]%N.
Example pre_ok_ex : pre_ok ex_pre 9.
Proof.
  split; [cbn; split; repeat constructor|]. split.
  - intros t. eexists _, _. reflexivity.
  - intros t. reflexivity.
Qed.

(* "12 0 obj\n<< /K (a\nb) >>\nendobj" *)
Definition ex_chunk_bytes : bytes :=
  [49; 50; 32; 48; 32; 111; 98; 106; 10; 60; 60; 32; 47; 75; 32; 40; 97; 10; 98; 41; 32; 62; 62; 10; 101; 110; 100; 111; 98; 106]%N.
Definition ex_chunk : chunk unit := {| ck_num := 12; ck_gen := 0; ck_bytes := ex_chunk_bytes; ck_val := tt |}.
Definition toy_parse (s : bytes) : pres unit := if has_prefix ex_chunk_bytes s then POk tt else PMalformed.

Example chunk_ok_ex :
  chunk_scan_ok unit ex_chunk /\ chunk_parse_stable unit toy_parse ex_chunk
  /\ chunk_prefix_fails unit toy_parse ex_chunk /\ (forall s, toy_parse s <> POther).
Proof.
  split; [exists [49; 50]%N, [48]%N; split; vm_compute; reflexivity|].
  split; [intros t; reflexivity|].
  split.
  - intros k v Hk. unfold toy_parse.
    assert (H : forallb (fun k => negb (has_prefix ex_chunk_bytes (firstn k ex_chunk_bytes))) (seq 0 30) = true)
      by (vm_compute; reflexivity).
    rewrite forallb_forall in H. specialize (H k). rewrite in_seq in H.
    change (length (ck_bytes unit ex_chunk)) with 30%nat in Hk.
    change (ck_bytes unit ex_chunk) with ex_chunk_bytes.
    destruct (has_prefix ex_chunk_bytes (firstn k ex_chunk_bytes)) eqn:Hp; [|intros E; discriminate E].
    exfalso. assert (E : negb true = true) by (apply H; split; [apply Nat.le_0_l|exact Hk]). discriminate E.
  - intros s. unfold toy_parse. destruct (has_prefix ex_chunk_bytes s); discriminate.
Qed.

(* an xref table, trailer and startxref contain no object header; neither does a run of x *)
Example object_free_ex : object_free [120; 114; 101; 102; 10; 48; 32; 51; 10; 116; 114; 97; 105; 108; 101; 114; 10]%N
                         /\ object_free (repeat 120%N 40).
Proof.
  split; intros off; rewrite ideal_scan_shift; vm_compute; reflexivity.
Qed.

(* a whole file: header, the chunk, an xref table, trailer, startxref; it is tame *)
Definition ex_file : bytes :=
  ex_pre ++ ex_chunk_bytes ++ [10]%N
  ++ [120; 114; 101; 102; 10; 48; 32; 49; 10; 116; 114; 97; 105; 108; 101; 114; 10; 60; 60; 62; 62; 10;
      115; 116; 97; 114; 116; 120; 114; 101; 102; 10; 52; 55; 10; 37; 37; 69; 79; 70; 10]%N.
Example tame_ex : tame ex_file /\ (9 <= buf_size)%nat.
Proof. split; [apply tameb_tame; vm_compute; reflexivity|vm_compute; repeat constructor]. Qed.
(* and a line that begins with `xrefs` is what tameness excludes *)
Example not_tame_ex : tameb ([10; 120; 114; 101; 102; 115; 10]%N) = false.
Proof. vm_compute. reflexivity. Qed.

Example trailer_ex :
  get_trailer [ {| ts_xstm := None; ts_trailerpos := 900; ts_trailer := TBad |};            (* newest: cut off *)
                {| ts_xstm := Some (TOk None); ts_trailerpos := 0; ts_trailer := TBad |};    (* an xref stream without /Root *)
                {| ts_xstm := None; ts_trailerpos := 300; ts_trailer := TOk 1%N |};
                {| ts_xstm := None; ts_trailerpos := 100; ts_trailer := TOk 0%N |} ] = Ok 1%N.
Proof. reflexivity. Qed.

(* "12 0 obj LF 345 LF endobj" is an integer chunk, and the reader reads it *)
Example int_chunk_ex :
  let c := {| ck_num := 12%N; ck_gen := 0%N;
              ck_bytes := [49; 50; 32; 48; 32; 111; 98; 106; 10; 51; 52; 53; 10; 101; 110; 100; 111; 98; 106]%N;
              ck_val := [51; 52; 53]%N |} in
  int_chunk c /\ parse_int (ck_bytes bytes c ++ [10; 120]%N) = POk [51; 52; 53]%N
  /\ parse_int (firstn 18 (ck_bytes bytes c)) = PMalformed.
Proof.
  split; [|split; reflexivity].
  exists [49; 50]%N, [48]%N. repeat split; try discriminate; reflexivity.
Qed.
