Require Extraction.
Require Import ExtrOcamlBasic.
From GoPdf.Base Require Import WireAnchor.
From GoPdf.C20 Require Import SeqScan WindowTheorems FastScan IntObjects.
Separate Extraction wire_anchor seq_scan scan_windows scan_ideal locate all_objs check_objects
  index_lookup xref_lookup find_start tameb scan_windows_pre_F24 scan_trailer scan_windows_fast parse_int.
