(* C20 - scan_windows_fast: the window search of SeqScan.v with the current slice and the
   file offset of the read position carried along instead of recomputed from the beginning
   of the file after every match.  Proved equal to scan_windows; the driver runs this one, so
   that every prefix of a multi-window file can be evaluated. *)
From Coq Require Import List NArith Bool Arith Lia.
From GoPdf.Base Require Import Bytes.
From GoPdf.C20 Require Import SeqScan.
Import ListNotations.

(* abs = st_base st + st_pos st, sl = slice file st *)
Fixpoint win_find_f (caret : bool) (fuel : nat) (file : bytes) (st : sstate) (abs : nat) (sl : bytes)
  : option (nat * marker * (sstate * nat * bytes)) :=
  match fuel with
  | O => None
  | S fuel' =>
    match first_marker 0 caret sl with
    | Some (t, m, l) =>
      Some ((t + abs)%nat, m,
            ({| st_base := st_base st; st_pos := ((t + l) + st_pos st)%nat; st_used := st_used st |},
             ((t + l) + abs)%nat, skipn (t + l) sl))
    | None =>
      let st1 := if Nat.ltb (st_pos st + overlap) (st_used st)
                 then {| st_base := st_base st; st_pos := (st_used st - overlap)%nat; st_used := st_used st |}
                 else st in
      let before := st_used st1 in
      let st2 := refill file st1 in
      if Nat.ltb before buf_size && Nat.eqb before (st_used st2) then None
      else win_find_f caret fuel' file st2 (st_base st2 + st_pos st2)%nat (slice file st2)
    end
  end.

Fixpoint win_scan_f (caret : bool) (fuel ffuel : nat) (file : bytes) (st : sstate) (abs : nat) (sl : bytes)
  : list (nat * marker) :=
  match fuel with
  | O => []
  | S fuel' =>
    match win_find_f caret ffuel file st abs sl with
    | Some (p, m, (st', abs', sl')) => (p, m) :: win_scan_f caret fuel' ffuel file st' abs' sl'
    | None => []
    end
  end.

Definition scan_windows_fast (data : bytes) : option (list (nat * marker)) :=
  match start_state 1 (S (S (length data))) data {| st_base := 0; st_pos := 0; st_used := 0 |} with
  | Some (_, _, st) =>
    Some (win_scan_f false (S (length data)) (4 * length data + 4) data st (st_base st + st_pos st)%nat (slice data st))
  | None => None
  end.

(* ---------- equality ---------- *)
Lemma skipn_skipn' {A} : forall (x y : nat) (l : list A), skipn x (skipn y l) = skipn (y + x) l.
Proof.
  intros x y. revert x. induction y as [|y IH]; intros x l; [reflexivity|].
  destruct l as [|a l]; [now rewrite !skipn_nil|]. cbn [skipn Nat.add]. apply IH.
Qed.

Lemma slice_advance file st n :
  skipn n (slice file st)
  = slice file {| st_base := st_base st; st_pos := (n + st_pos st)%nat; st_used := st_used st |}.
Proof.
  unfold slice. cbn [st_base st_pos st_used].
  rewrite skipn_firstn_comm, skipn_skipn'. f_equal; [lia|f_equal; lia].
Qed.

Definition inv (file : bytes) (st : sstate) (abs : nat) (sl : bytes) : Prop :=
  abs = (st_base st + st_pos st)%nat /\ sl = slice file st.

Lemma win_find_f_eq caret file : forall fuel st abs sl,
  inv file st abs sl ->
  match win_find_f caret fuel file st abs sl with
  | Some (p, m, (st', abs', sl')) => win_find caret fuel file st = Some (p, m, st') /\ inv file st' abs' sl'
  | None => win_find caret fuel file st = None
  end.
Proof.
  induction fuel as [|fuel IH]; intros st abs sl [Ha Hs]; [reflexivity|].
  cbn [win_find_f win_find]. rewrite <- Hs.
  destruct (first_marker 0 caret sl) as [[[t m] l]|].
  - split.
    + f_equal. f_equal; [f_equal; lia|]. f_equal. lia.
    + split; cbn [st_base st_pos st_used]; [lia|]. rewrite Hs. apply slice_advance.
  - cbv zeta.
    destruct (_ && _); [reflexivity|]. apply IH. split; reflexivity.
Qed.

Lemma win_scan_f_eq caret ffuel file : forall fuel st abs sl,
  inv file st abs sl -> win_scan_f caret fuel ffuel file st abs sl = win_scan caret fuel ffuel file st.
Proof.
  induction fuel as [|fuel IH]; intros st abs sl H; [reflexivity|].
  cbn [win_scan_f win_scan]. pose proof (win_find_f_eq caret file ffuel st abs sl H) as E.
  destruct (win_find_f caret ffuel file st abs sl) as [[[p m] [[st' abs'] sl']]|].
  - destruct E as [E I]. rewrite E. f_equal. apply IH. exact I.
  - rewrite E. reflexivity.
Qed.

Lemma scan_windows_fast_eq data : scan_windows_fast data = scan_windows data.
Proof.
  unfold scan_windows_fast, scan_windows.
  destruct (start_state _ _ _ _) as [[[a b] st]|]; [|reflexivity].
  f_equal. apply win_scan_f_eq. split; reflexivity.
Qed.
