(* C20 - scanner.Find with its 1024-byte buffer and 64 bytes of overlap finds exactly the
   markers of the search without windows, for "tame" files:
     (short)   no marker text is longer than the overlap, and
     (stable)  a marker text found in a cut-off copy of the file is a marker of the file
               (no line begins with marker text that is followed by a word character).
   Since fix F24 (no `^` alternative) these are the only conditions. *)
From Coq Require Import List NArith ZArith Bool Lia ZifyN ZifyNat ZifyBool.
From GoPdf.Base Require Import Bytes Res.
From GoPdf.Gen Require Import Gen_Scan.
From GoPdf.C20 Require Import SeqScan MarkerFacts.
Import ListNotations.

Lemma skipn_skipn {A} : forall (x y : nat) (l : list A), skipn x (skipn y l) = skipn (x + y) l.
Proof.
  intros x y. revert x. induction y as [|y IH]; intros x l; [rewrite Nat.add_0_r; reflexivity|].
  destruct l as [|a l]; [rewrite !skipn_nil; reflexivity|].
  rewrite Nat.add_succ_r. cbn [skipn]. apply IH.
Qed.

(* ---------- first_marker ---------- *)
Lemma first_marker_ge : forall s p bol t m l, first_marker p bol s = Some (t, m, l) -> (p <= t)%nat.
Proof.
  induction s as [|b s IH]; intros p bol t m l H; cbn [first_marker] in H; [discriminate|].
  destruct (if bol then marker_at (b :: s) else None) as [[m' l']|].
  - inversion H; subst. lia.
  - apply IH in H. lia.
Qed.

Lemma first_marker_false_gt s p t m l : first_marker p false s = Some (t, m, l) -> (p < t)%nat.
Proof.
  destruct s as [|b s]; cbn [first_marker]; [discriminate|]. intros H. apply first_marker_ge in H. lia.
Qed.

Lemma first_marker_shift : forall s p bol,
  first_marker p bol s =
  match first_marker 0 bol s with Some (t, m, l) => Some ((p + t)%nat, m, l) | None => None end.
Proof.
  induction s as [|b s IH]; intros p bol; cbn [first_marker]; [reflexivity|].
  destruct (if bol then marker_at (b :: s) else None) as [[m l]|]; [rewrite Nat.add_0_r; reflexivity|].
  rewrite (IH (S p)), (IH 1%nat).
  destruct (first_marker 0 (is_eol b) s) as [[[t m] l]|]; [|reflexivity].
  f_equal. f_equal. f_equal. lia.
Qed.

Lemma first_marker_noeol : forall x p, forallb noeol x = true -> first_marker p false x = None.
Proof.
  induction x as [|b x IH]; intros p H; cbn [first_marker]; [reflexivity|].
  cbn [forallb] in H. apply andb_true_iff in H as [Hb Hx].
  unfold noeol in Hb. apply negb_true_iff in Hb. rewrite Hb. apply IH. exact Hx.
Qed.

Lemma first_marker_len : forall s p bol t m l,
  first_marker p bol s = Some (t, m, l) -> (t - p + l <= length s)%nat /\ marker_at (skipn (t - p) s) = Some (m, l).
Proof.
  induction s as [|b s IH]; intros p bol t m l H; cbn [first_marker] in H; [discriminate|].
  destruct (if bol then marker_at (b :: s) else None) as [[m' l']|] eqn:E.
  - inversion H; subst. destruct bol; [|discriminate]. rewrite Nat.sub_diag. cbn [skipn].
    split; [|exact E]. apply marker_at_text in E. lia.
  - pose proof (first_marker_ge _ _ _ _ _ _ H) as Hge.
    destruct (IH _ _ _ _ _ H) as [H1 H2]. cbn [length].
    replace (t - p)%nat with (S (t - S p)) by lia. cbn [skipn]. split; [lia|exact H2].
Qed.

(* Tameness.  At every position where a marker may begin (the previous byte is CR or LF):
   (stable) a marker text found in a cut-off copy of the input is a marker of the input -
            i.e. the line does not begin with marker text followed by a word character -
   (short)  and a marker text is not longer than the overlap of two search windows. *)
Definition head_tame (s : bytes) : Prop :=
  (forall n r, marker_at (firstn n s) = Some r -> marker_at s = Some r)
  /\ (forall m l, marker_at s = Some (m, l) -> (l <= overlap)%nat).

Fixpoint ltame (bol : bool) (s : bytes) : Prop :=
  match s with
  | [] => True
  | b :: s' => (bol = true -> head_tame s) /\ ltame (is_eol b) s'
  end.

Lemma ltame_weaken s : ltame true s -> ltame false s.
Proof. destruct s as [|b s]; [trivial|]. intros [_ H]. split; [discriminate|exact H]. Qed.

Lemma ltame_skipn : forall d s bol, ltame bol s -> ltame false (skipn d s).
Proof.
  induction d as [|d IH]; intros s bol H.
  - cbn [skipn]. destruct bol; [apply ltame_weaken; exact H|exact H].
  - destruct s as [|b s]; [exact I|]. cbn [skipn]. destruct H as [_ H]. eapply IH; eauto.
Qed.

Lemma first_marker_tame : forall s p bol t m l,
  ltame bol s -> first_marker p bol s = Some (t, m, l) -> (l <= overlap)%nat.
Proof.
  induction s as [|b s IH]; intros p bol t m l Ht H; cbn [first_marker] in H; [discriminate|].
  destruct Ht as [Hh Ht].
  destruct bol.
  - destruct (marker_at (b :: s)) as [[m' l']|] eqn:E.
    + inversion H; subst. destruct (Hh eq_refl) as [_ Hs]. eapply Hs; eauto.
    + eapply IH; eauto.
  - eapply IH; eauto.
Qed.

(* the search in the first L bytes finds the first marker of the whole iff it fits *)
Lemma first_marker_trunc : forall s L p bol,
  ltame bol s ->
  first_marker p bol (firstn L s) =
  match first_marker p bol s with
  | Some (t, m, l) => if Nat.leb (t - p + l) L then Some (t, m, l) else None
  | None => None
  end.
Proof.
  induction s as [|b s IH]; intros L p bol Hst.
  - rewrite firstn_nil. reflexivity.
  - destruct L as [|L].
    + change (firstn 0 (b :: s)) with (@nil byte). change (first_marker p bol []) with (@None (nat * marker * nat)).
      destruct (first_marker p bol (b :: s)) as [[[t m] l]|] eqn:E; [|reflexivity].
      destruct (first_marker_len _ _ _ _ _ _ E) as [_ Hm]. apply marker_at_text in Hm.
      destruct (Nat.leb_spec (t - p + l) 0); [lia|reflexivity].
    + cbn [firstn first_marker].
      change (b :: firstn L s) with (firstn (S L) (b :: s)).
      destruct bol.
      * destruct (marker_at (b :: s)) as [[m l]|] eqn:Em.
        -- (* a marker of the whole input begins here *)
           destruct (Nat.leb_spec (p - p + l) (S L)) as [Hfit|Hno].
           ++ rewrite (marker_at_firstn _ _ _ _ Em) by lia. reflexivity.
           ++ destruct (marker_at (firstn (S L) (b :: s))) as [[m' l']|] eqn:Et.
              { exfalso. destruct Hst as [Hh _]. destruct (Hh eq_refl) as [Hs _].
                pose proof (Hs _ _ Et) as Eg. rewrite Em in Eg. inversion Eg; subst.
                apply marker_at_text in Et as [[_ Hlen] _]. rewrite firstn_length in Hlen. lia. }
              (* the rest of the cut-off input lies inside the marker text: no end-of-line *)
              destruct (marker_at_text _ _ _ Em) as [[Hl1 Hl2] Hne].
              assert (Hpre : firstn (S L) (b :: s) = firstn (S L) (firstn l (b :: s))).
              { rewrite firstn_firstn. f_equal. lia. }
              assert (Hn2 : forallb noeol (firstn (S L) (b :: s)) = true).
              { rewrite Hpre. apply forallb_firstn. exact Hne. }
              cbn [firstn forallb] in Hn2. apply andb_true_iff in Hn2 as [Hb Hrest].
              unfold noeol in Hb. apply negb_true_iff in Hb. rewrite Hb.
              apply first_marker_noeol. exact Hrest.
        -- destruct (marker_at (firstn (S L) (b :: s))) as [[m' l']|] eqn:Et.
           { destruct Hst as [Hh _]. destruct (Hh eq_refl) as [Hs _]. pose proof (Hs _ _ Et) as Eg. congruence. }
           rewrite IH by (apply Hst).
           destruct (first_marker (S p) (is_eol b) s) as [[[t m] l]|] eqn:E; [|reflexivity].
           apply first_marker_ge in E.
           destruct (Nat.leb_spec (t - S p + l) L), (Nat.leb_spec (t - p + l) (S L)); try reflexivity; lia.
      * rewrite IH by (apply Hst).
        destruct (first_marker (S p) (is_eol b) s) as [[[t m] l]|] eqn:E; [|reflexivity].
        apply first_marker_ge in E.
        destruct (Nat.leb_spec (t - S p + l) L), (Nat.leb_spec (t - p + l) (S L)); try reflexivity; lia.
Qed.

(* restarting the search d bytes further on (with no end-of-line remembered) finds the same
   marker as long as the marker lies strictly behind the new start *)
Lemma first_marker_skip : forall d s p bol,
  (match first_marker p bol s with Some (t, _, _) => (p + d < t)%nat | None => True end) ->
  first_marker (p + d) false (skipn d s) = first_marker p bol s.
Proof.
  induction d as [|d IH]; intros s p bol H.
  - rewrite Nat.add_0_r. cbn [skipn]. destruct s as [|b s]; [reflexivity|].
    cbn [first_marker] in *. destruct bol; [|reflexivity].
    destruct (marker_at (b :: s)) as [[m l]|]; [lia|reflexivity].
  - destruct s as [|b s]; [reflexivity|]. cbn [skipn first_marker] in *.
    destruct (if bol then marker_at (b :: s) else None) as [[m l]|]; [lia|].
    replace (p + S d)%nat with (S p + d)%nat by lia. apply IH.
    destruct (first_marker (S p) (is_eol b) s) as [[[t m] l]|]; [lia|exact I].
Qed.

(* ---------- the search without windows, in terms of first_marker ---------- *)
Lemma ideal_scan_noeol : forall x o t, forallb noeol x = true -> ideal_scan o false (x ++ t) = ideal_scan (o + length x) false t.
Proof.
  induction x as [|b x IH]; intros o t H; cbn [app length]; [rewrite Nat.add_0_r; reflexivity|].
  cbn [forallb] in H. apply andb_true_iff in H as [Hb Hx]. unfold noeol in Hb. apply negb_true_iff in Hb.
  cbn [ideal_scan]. rewrite Hb, IH by exact Hx. f_equal. lia.
Qed.

Lemma ideal_scan_next : forall s off bol,
  ideal_scan off bol s =
  match first_marker 0 bol s with
  | None => []
  | Some (t, m, l) => ((off + t)%nat, m) :: ideal_scan (off + t + l) false (skipn (t + l) s)
  end.
Proof.
  induction s as [|b s IH]; intros off bol; cbn [ideal_scan first_marker]; [reflexivity|].
  destruct bol.
  - destruct (marker_at (b :: s)) as [[m l]|] eqn:Em.
    + rewrite !Nat.add_0_r. cbn [Nat.add]. f_equal.
      destruct (marker_at_text _ _ _ Em) as [[Hl1 Hl2] Hne].
      destruct l as [|l]; [lia|]. cbn [firstn skipn forallb length] in *.
      apply andb_true_iff in Hne as [Hb Hx]. unfold noeol in Hb. apply negb_true_iff in Hb. rewrite Hb.
      rewrite <- (firstn_skipn l s) at 1. rewrite ideal_scan_noeol by exact Hx.
      rewrite firstn_length_le by lia. f_equal. lia.
    + rewrite IH, (first_marker_shift s 1).
      destruct (first_marker 0 (is_eol b) s) as [[[t m] l]|]; [|reflexivity].
      cbn [Nat.add skipn]. f_equal; [f_equal; lia|f_equal; lia].
  - rewrite IH, (first_marker_shift s 1).
    destruct (first_marker 0 (is_eol b) s) as [[[t m] l]|]; [|reflexivity].
    cbn [Nat.add skipn]. f_equal; [f_equal; lia|f_equal; lia].
Qed.

(* ---------- scanner.Find ---------- *)
(* the arithmetic of one unsuccessful turn of Find's loop: the measure decreases *)
Lemma mu_decrease (L base pos used pos1 used2 fuel : nat) :
  (pos <= used)%nat -> (used <= 1024)%nat -> (base + used <= L)%nat ->
  (used = 1024 \/ base + used = L \/ used = 0)%nat ->
  ((pos1 = pos /\ used <= pos + 64) \/ (pos1 = used - 64 /\ pos + 64 < used))%nat ->
  used2 = (used - pos1 + Nat.min (1024 - (used - pos1)) (L - (base + used)))%nat ->
  (1024 <= used \/ used <> used2)%nat ->
  (4 * (L - (base + pos)) + (if Nat.eqb pos 0 then 0 else 2) + (if Nat.eqb used 0 then 1 else 0) + 1 <= S fuel)%nat ->
  (4 * (L - (base + pos1)) + 0 + (if Nat.eqb used2 0 then 1 else 0) + 1 <= fuel)%nat.
Proof.
  intros. destruct (Nat.eqb_spec pos 0), (Nat.eqb_spec used 0), (Nat.eqb_spec used2 0); lia.
Qed.

Section Windows.
  Variable file : bytes.
  (* no marker text is longer than the overlap of two search windows *)
  Hypothesis Htame : ltame false file.

  Definition q (st : sstate) : nat := (st_base st + st_pos st)%nat.
  Definition gnext (p : nat) := first_marker 0 false (skipn p file).

  Definition inv (st : sstate) : Prop :=
    (st_pos st <= st_used st)%nat /\ (st_used st <= buf_size)%nat
    /\ (st_base st + st_used st <= length file)%nat
    /\ (st_used st = buf_size \/ (st_base st + st_used st)%nat = length file \/ st_used st = 0%nat).

  Definition mu (st : sstate) : nat :=
    (4 * (length file - q st) + (if Nat.eqb (st_pos st) 0 then 0 else 2) + (if Nat.eqb (st_used st) 0 then 1 else 0) + 1)%nat.

  Lemma buf_size_val : buf_size = 1024%nat. Proof. reflexivity. Qed.
  Lemma overlap_val : overlap = 64%nat. Proof. reflexivity. Qed.

  Lemma slice_eq st : slice file st = firstn (st_used st - st_pos st) (skipn (q st) file).
  Proof. reflexivity. Qed.

  Lemma gnext_short p t m l : gnext p = Some (t, m, l) -> (l <= overlap)%nat.
  Proof.
    unfold gnext. intros H. eapply first_marker_tame; [|exact H]. eapply ltame_skipn; exact Htame.
  Qed.

  Lemma gnext_skip p d :
    (match gnext p with Some (t, _, _) => (d < t)%nat | None => True end) ->
    gnext (p + d) = match gnext p with Some (t, m, l) => Some ((t - d)%nat, m, l) | None => None end.
  Proof.
    unfold gnext. intros H.
    pose proof (first_marker_skip d (skipn p file) 0 false) as K. cbn [Nat.add] in K.
    rewrite skipn_skipn in K. rewrite (Nat.add_comm p d).
    rewrite (first_marker_shift _ d) in K.
    destruct (first_marker 0 false (skipn p file)) as [[[t m] l]|] eqn:E.
    - specialize (K H). destruct (first_marker 0 false (skipn (d + p) file)) as [[[t' m'] l']|]; [|discriminate].
      inversion K; subst. f_equal. f_equal. f_equal. lia.
    - specialize (K I). destruct (first_marker 0 false (skipn (d + p) file)) as [[[t' m'] l']|]; [discriminate|reflexivity].
  Qed.

  (* Find(markerRegexp) returns the next marker of the search without windows *)
  Lemma win_find_spec : forall fuel st,
    inv st -> (mu st <= fuel)%nat ->
    match gnext (q st) with
    | None => win_find false fuel file st = None
    | Some (t, m, l) =>
      exists st', win_find false fuel file st = Some ((q st + t)%nat, m, st')
                  /\ q st' = (q st + t + l)%nat /\ inv st'
    end.
  Proof.
    induction fuel as [|fuel IH]; intros st (Hpu & Hub & Hbl & Hdisj) Hfuel; [unfold mu in Hfuel; lia|].
    cbn [win_find]. rewrite slice_eq.
    rewrite first_marker_trunc by (eapply ltame_skipn; exact Htame).
    fold (gnext (q st)).
    pose proof buf_size_val as HB. pose proof overlap_val as HO.
    destruct (gnext (q st)) as [[[t m] l]|] eqn:G.
    - rewrite Nat.sub_0_r.
      destruct (Nat.leb_spec (t + l) (st_used st - st_pos st)) as [Hfit|Hno].
      + (* the marker lies inside the buffer *)
        eexists. split; [reflexivity|]. unfold q, inv. cbn [st_base st_pos st_used].
        repeat split; try lia; exact Hdisj.
      + (* it does not: move on *)
        pose proof (gnext_short _ _ _ _ G) as Hl.
        pose proof G as G0. unfold gnext in G0. apply first_marker_false_gt in G0.
        set (st1 := if Nat.ltb (st_pos st + overlap) (st_used st)
                    then {| st_base := st_base st; st_pos := (st_used st - overlap)%nat; st_used := st_used st |} else st).
        set (st2 := refill file st1).
        assert (H1 : st_base st1 = st_base st /\ st_used st1 = st_used st /\ (st_pos st <= st_pos st1 <= st_used st)%nat
                     /\ ((st_pos st1 = st_pos st /\ st_used st <= st_pos st + overlap)%nat
                         \/ (st_pos st1 = st_used st - overlap /\ st_pos st + overlap < st_used st)%nat)).
        { unfold st1. destruct (Nat.ltb_spec (st_pos st + overlap) (st_used st)); cbn [st_base st_pos st_used]; repeat split; lia. }
        destruct H1 as (Hb1 & Hu1 & Hp1 & Hp1').
        assert (Hq2 : q st2 = (st_base st + st_pos st1)%nat).
        { unfold st2, refill, q. cbn [st_base st_pos]. lia. }
        assert (Hd : (st_pos st1 - st_pos st < t)%nat).
        { lia. }
        assert (Hg2 : gnext (q st2) = Some ((t - (st_pos st1 - st_pos st))%nat, m, l)).
        { rewrite Hq2. replace (st_base st + st_pos st1)%nat with (q st + (st_pos st1 - st_pos st))%nat by (unfold q; lia).
          rewrite gnext_skip; rewrite G; [reflexivity|exact Hd]. }
        assert (Hinv2 : inv st2).
        { unfold st2, refill, inv. cbn [st_base st_pos st_used]. rewrite Hb1, Hu1. repeat split; lia. }
        assert (Hused2 : st_used st2 = (st_used st - st_pos st1 + Nat.min (buf_size - (st_used st - st_pos st1)) (length file - (st_base st + st_used st)))%nat).
        { unfold st2, refill. cbn [st_used]. rewrite Hb1, Hu1. f_equal. f_equal. lia. }
        (* the end-of-input test of Find *)
        destruct (Nat.ltb (st_used st1) buf_size && Nat.eqb (st_used st1) (st_used st2)) eqn:Ht.
        { (* it cannot fire: the marker would have fitted *)
          exfalso. apply andb_true_iff in Ht as [Hlt Heq]. apply Nat.ltb_lt in Hlt. apply Nat.eqb_eq in Heq.
          rewrite Hu1 in *. rewrite Hused2 in Heq.
          assert (Hp0 : st_pos st1 = 0%nat) by lia.
          assert (Heof : (st_base st + st_used st)%nat = length file \/ st_used st = 0%nat) by lia.
          unfold gnext in G. apply first_marker_len in G as [G1 _]. rewrite skipn_length in G1. unfold q in *. lia. }
        assert (Hmu : (mu st2 <= fuel)%nat).
        { (* the measure decreases *)
          apply andb_false_iff in Ht. rewrite Hu1 in Ht.
          assert (Ht' : (buf_size <= st_used st \/ st_used st <> st_used st2)%nat).
          { destruct Ht as [Ht|Ht]; [left; apply Nat.ltb_ge; exact Ht|right; apply Nat.eqb_neq; exact Ht]. }
          unfold mu in *. rewrite Hq2. unfold q in *. change (st_pos st2) with 0%nat. cbn [Nat.eqb].
          rewrite HB, HO in *.
          eapply (mu_decrease (length file) (st_base st) (st_pos st) (st_used st) (st_pos st1) (st_used st2) fuel); eauto. }
        pose proof (IH st2 Hinv2 Hmu) as Hst'.
        rewrite Hg2 in Hst'. destruct Hst' as (st' & Hw & Hq' & Hi').
        exists st'. split; [|split; [|exact Hi']].
        * rewrite Hw. f_equal. f_equal. f_equal. rewrite Hq2. unfold q. lia.
        * rewrite Hq', Hq2. unfold q. lia.
    - (* no marker behind the position *)
      set (st1 := if Nat.ltb (st_pos st + overlap) (st_used st)
                  then {| st_base := st_base st; st_pos := (st_used st - overlap)%nat; st_used := st_used st |} else st).
      set (st2 := refill file st1).
      fold st1 st2.
      destruct (Nat.ltb (st_used st1) buf_size && Nat.eqb (st_used st1) (st_used st2)) eqn:Ht; [reflexivity|].
      assert (H1 : st_base st1 = st_base st /\ st_used st1 = st_used st /\ (st_pos st <= st_pos st1 <= st_used st)%nat
                   /\ ((st_pos st1 = st_pos st /\ st_used st <= st_pos st + overlap)%nat
                       \/ (st_pos st1 = st_used st - overlap /\ st_pos st + overlap < st_used st)%nat)).
      { unfold st1. destruct (Nat.ltb_spec (st_pos st + overlap) (st_used st)); cbn [st_base st_pos st_used]; repeat split; lia. }
      destruct H1 as (Hb1 & Hu1 & Hp1 & Hp1').
      assert (Hq2 : q st2 = (st_base st + st_pos st1)%nat).
      { unfold st2, refill, q. cbn [st_base st_pos]. lia. }
      assert (Hg2 : gnext (q st2) = None).
      { rewrite Hq2. replace (st_base st + st_pos st1)%nat with (q st + (st_pos st1 - st_pos st))%nat by (unfold q; lia).
        rewrite gnext_skip; rewrite G; [reflexivity|exact I]. }
      assert (Hinv2 : inv st2).
      { unfold st2, refill, inv. cbn [st_base st_pos st_used]. rewrite Hb1, Hu1. repeat split; lia. }
      assert (Hused2 : st_used st2 = (st_used st - st_pos st1 + Nat.min (buf_size - (st_used st - st_pos st1)) (length file - (st_base st + st_used st)))%nat).
      { unfold st2, refill. cbn [st_used]. rewrite Hb1, Hu1. f_equal. f_equal. lia. }
      specialize (IH st2 Hinv2). rewrite Hg2 in IH. apply IH.
      apply andb_false_iff in Ht. rewrite Hu1 in Ht.
      assert (Ht' : (buf_size <= st_used st \/ st_used st <> st_used st2)%nat).
      { destruct Ht as [Ht|Ht]; [left; apply Nat.ltb_ge; exact Ht|right; apply Nat.eqb_neq; exact Ht]. }
      unfold mu in *. rewrite Hq2. unfold q in *. change (st_pos st2) with 0%nat. cbn [Nat.eqb].
      rewrite HB, HO in *.
      eapply (mu_decrease (length file) (st_base st) (st_pos st) (st_used st) (st_pos st1) (st_used st2) fuel); eauto.
  Qed.

  Lemma mu_bound st : (mu st <= 4 * length file + 4)%nat.
  Proof. unfold mu. destruct (Nat.eqb _ 0), (Nat.eqb (st_used st) 0); lia. Qed.

  (* the whole scan loop *)
  Lemma win_scan_spec ffuel : (4 * length file + 4 <= ffuel)%nat -> forall fuel st,
    inv st -> (length file - q st < fuel)%nat ->
    win_scan false fuel ffuel file st = ideal_scan (q st) false (skipn (q st) file).
  Proof.
    intros Hff. induction fuel as [|fuel IH]; intros st Hinv Hfuel; [lia|].
    cbn [win_scan]. rewrite ideal_scan_next. fold (gnext (q st)).
    assert (Hmu : (mu st <= ffuel)%nat) by (pose proof (mu_bound st); lia).
    pose proof (win_find_spec ffuel st Hinv Hmu) as W.
    destruct (gnext (q st)) as [[[t m] l]|] eqn:G.
    - destruct W as (st' & -> & Hq' & Hi'). f_equal.
      rewrite IH; [rewrite Hq', skipn_skipn; f_equal; f_equal; lia|exact Hi'|].
      unfold gnext in G. pose proof (first_marker_false_gt _ _ _ _ _ G).
      apply first_marker_len in G as [G1 _]. rewrite skipn_length in G1. lia.
    - rewrite W. reflexivity.
  Qed.
End Windows.

(* ---------- Find(startRegexp) ---------- *)
Lemma start_here_firstn9 s : start_here s = start_here (firstn 9 s).
Proof.
  do 9 (destruct s as [|? s]; [reflexivity|]). reflexivity.
Qed.

Lemma start_here_len s v : start_here s = Some v -> (9 <= length s)%nat.
Proof.
  do 9 (destruct s as [|? s]; [unfold start_here; cbn; repeat (match goal with |- context [if ?c then _ else _] => destruct c end; try discriminate); discriminate|]).
  intros _. cbn [length]. lia.
Qed.

Lemma start_here_trunc s n : (9 <= n)%nat -> start_here (firstn n s) = start_here s.
Proof.
  intros H. rewrite (start_here_firstn9 (firstn n s)), firstn_firstn.
  replace (Nat.min 9 n) with 9%nat by lia. symmetry. apply start_here_firstn9.
Qed.

Lemma start_here_short s n : (n < 9)%nat -> start_here (firstn n s) = None.
Proof.
  intros H. destruct (start_here (firstn n s)) eqn:E; [|reflexivity].
  apply start_here_len in E. rewrite firstn_length in E. lia.
Qed.

Lemma find_start_from_bound : forall s p hs h v,
  find_start_from p s = Some (hs, h, v) -> (p <= hs /\ h = hs + 9 /\ h <= p + length s)%nat.
Proof.
  induction s as [|b s IH]; intros p hs h v H; cbn [find_start_from] in H; [discriminate|].
  destruct (start_here (b :: s)) eqn:E.
  - inversion H; subst. apply start_here_len in E. lia.
  - apply IH in H. cbn [length]. lia.
Qed.

Lemma find_start_from_trunc : forall s p n hs h v,
  find_start_from p s = Some (hs, h, v) -> (h - p <= n)%nat ->
  find_start_from p (firstn n s) = Some (hs, h, v).
Proof.
  induction s as [|b s IH]; intros p n hs h v H Hn; cbn [find_start_from] in H; [discriminate|].
  pose proof (find_start_from_bound (b :: s) p hs h v) as Hb. cbn [find_start_from] in Hb. specialize (Hb H).
  destruct n as [|n]; [lia|].
  change (firstn (S n) (b :: s)) with (b :: firstn n s). cbn [find_start_from].
  change (b :: firstn n s) with (firstn (S n) (b :: s)).
  destruct (start_here (b :: s)) eqn:E.
  - inversion H; subst. rewrite start_here_trunc by lia. rewrite E. reflexivity.
  - assert (En : start_here (firstn (S n) (b :: s)) = None).
    { destruct (Nat.le_gt_cases 9 (S n)); [rewrite start_here_trunc by lia; exact E|apply start_here_short; lia]. }
    rewrite En. apply IH; [exact H|].
    apply find_start_from_bound in H. lia.
Qed.

Definition st0 : sstate := {| st_base := 0; st_pos := 0; st_used := 0 |}.

Definition adv (st : sstate) : sstate :=
  if Nat.ltb (st_pos st + overlap) (st_used st)
  then {| st_base := st_base st; st_pos := (st_used st - overlap)%nat; st_used := st_used st |}
  else st.

Lemma start_state_unfold back fuel file st :
  start_state back (S fuel) file st =
  match find_start (slice file st) with
  | Some (ms, me, _) =>
    Some ((st_base st + st_pos st + ms)%nat, (st_base st + st_pos st + me)%nat,
          {| st_base := st_base st; st_pos := (st_pos st + me - back)%nat; st_used := st_used st |})
  | None =>
    if Nat.ltb (st_used (adv st)) buf_size && Nat.eqb (st_used (adv st)) (st_used (refill file (adv st))) then None
    else start_state back fuel file (refill file (adv st))
  end.
Proof. reflexivity. Qed.

Lemma start_state_spec data hs h v :
  find_start data = Some (hs, h, v) -> (h <= buf_size)%nat ->
  exists st, start_state 1 (S (S (length data))) data st0 = Some (hs, h, st)
             /\ q st = (h - 1)%nat /\ inv data st.
Proof.
  intros Hf Hh. unfold find_start in Hf.
  pose proof (find_start_from_bound _ _ _ _ _ Hf) as (Hhs & Hh9 & Hlen).
  pose proof (buf_size_val) as HB. pose proof overlap_val as HO.
  rewrite start_state_unfold.
  assert (S0 : slice data st0 = []) by reflexivity.
  rewrite S0. change (find_start []) with (@None (nat * nat * (byte * byte))).
  assert (A0 : adv st0 = st0) by reflexivity. rewrite A0.
  set (st2 := refill data st0).
  assert (Hu2 : st_used st2 = Nat.min buf_size (length data)).
  { unfold st2, refill, st0. cbn [st_base st_pos st_used]. lia. }
  assert (Hb2 : st_base st2 = 0%nat /\ st_pos st2 = 0%nat) by (split; reflexivity).
  destruct Hb2 as [Hb2 Hp2].
  assert (Ht : (Nat.ltb (st_used st0) buf_size && Nat.eqb (st_used st0) (st_used st2)) = false).
  { apply andb_false_iff. right. apply Nat.eqb_neq. cbn [st0 st_used]. lia. }
  rewrite Ht. rewrite start_state_unfold.
  assert (S2 : slice data st2 = firstn (st_used st2) data).
  { unfold slice. rewrite Hb2, Hp2. cbn [Nat.add skipn]. rewrite Nat.sub_0_r. reflexivity. }
  rewrite S2. unfold find_start.
  rewrite (find_start_from_trunc _ _ _ _ _ _ Hf) by lia.
  eexists. split; [rewrite Hb2, Hp2; reflexivity|].
  unfold q, inv. cbn [st_base st_pos st_used]. rewrite ?Hb2, ?Hp2, ?Hu2. repeat split; lia.
Qed.

(* ---------- the theorem ---------- *)
(* a file is tame when it is tame at every position that follows an end-of-line *)
Definition tame (data : bytes) : Prop := ltame false data.

Theorem windows_eq_ideal_lemma data hs h v :
  find_start data = Some (hs, h, v) -> (h <= buf_size)%nat -> tame data ->
  scan_windows data = scan_ideal data.
Proof.
  intros Hf Hh Ht. unfold scan_windows, scan_ideal. rewrite Hf.
  change {| st_base := 0; st_pos := 0; st_used := 0 |} with st0.
  destruct (start_state_spec data hs h v Hf Hh) as (st & E & Hq & Hinv). rewrite E.
  f_equal. rewrite (win_scan_spec data Ht _ (le_n _)) by (try exact Hinv; lia).
  rewrite Hq. reflexivity.
Qed.

(* every prefix of a tame file is tame *)
Lemma ltame_firstn : forall s n bol, ltame bol s -> ltame bol (firstn n s).
Proof.
  induction s as [|b s IH]; intros n bol H; [rewrite firstn_nil; exact I|].
  destruct n as [|n]; [exact I|]. destruct H as [Hh Ht].
  change (firstn (S n) (b :: s)) with (b :: firstn n s). split; [|apply IH; exact Ht].
  intros Hb. destruct (Hh Hb) as [Hs Hl]. change (b :: firstn n s) with (firstn (S n) (b :: s)).
  split.
  - intros k [m l] E. rewrite firstn_firstn in E. pose proof (Hs _ _ E) as G.
    apply marker_at_firstn; [exact G|].
    apply marker_at_text in E as [[_ E] _]. rewrite firstn_length in E. lia.
  - intros m l E. apply Hs in E. eapply Hl; eauto.
Qed.

Lemma tame_firstn data n : tame data -> tame (firstn n data).
Proof. apply ltame_firstn. Qed.
