(* C20 - the theorems of SeqScanProofs for the search AS IT IS (scanner.Find with its buffer
   windows): by windows_eq_ideal_lemma they carry over to every tame file whose header lies
   within the first buffer. *)
From Coq Require Import List NArith ZArith Bool Lia.
From GoPdf.Base Require Import Bytes Res.
From GoPdf.C20 Require Import SeqScan SeqScanProofs MarkerFacts WindowProofs.
Import ListNotations.

Section ChunksW.
  Variable V : Type.
  Variable parse : bytes -> pres V.

  Lemma pre_ok_start pre h t : pre_ok pre h -> exists hs v, find_start (pre ++ t) = Some (hs, h, v).
  Proof. intros (_ & H & _). apply H. Qed.

  Lemma complete_chunk_listed_w pre h cs1 c t :
    pre_ok pre h -> (h <= buf_size)%nat ->
    (forall c', In c' cs1 -> chunk_scan_ok V c') -> chunk_scan_ok V c ->
    chunk_parse_stable V parse c ->
    (forall s, parse s <> POther) ->
    follows t ->
    let data := pre ++ flat V cs1 ++ ck_bytes V c ++ t in
    tame data ->
    let off := (length pre + length (flat V cs1))%nat in
    exists objs,
      seq_scan (scan_windows data) (pc_of V parse data) = Ok objs
      /\ In {| co_obj := chunk_marker_obj V off c; co_broken := false; co_val := Some (ck_val V c) |} objs.
  Proof.
    intros Hpre Hh Hcs Hc Hp Hno Hf data Htame off.
    destruct (pre_ok_start pre h (flat V cs1 ++ ck_bytes V c ++ t) Hpre) as (hs & v & Hfs).
    unfold data. rewrite (windows_eq_ideal_lemma _ hs h v Hfs Hh Htame).
    apply (complete_chunk_listed V parse pre h cs1 c t); assumption.
  Qed.

  Lemma prefix_complete_w pre h cs tail i c n :
    pre_ok pre h -> (h <= buf_size)%nat ->
    tame (pre ++ flat V cs ++ tail) ->
    (forall c', In c' cs -> chunk_scan_ok V c') ->
    chunk_parse_stable V parse c ->
    (forall s, parse s <> POther) ->
    nth_error cs i = Some c ->
    (length pre + length (flat V (firstn i cs)) + length (ck_bytes V c) <= n)%nat ->
    let data := firstn n (pre ++ flat V cs ++ tail) in
    exists objs,
      seq_scan (scan_windows data) (pc_of V parse data) = Ok objs
      /\ In {| co_obj := chunk_marker_obj V (length pre + length (flat V (firstn i cs))) c;
               co_broken := false; co_val := Some (ck_val V c) |} objs.
  Proof.
    intros Hpre Hh Htame Hcs Hp Hno Hnth Hn data.
    pose proof (tame_firstn _ n Htame) as Ht. fold data in Ht.
    destruct (prefix_form V pre cs tail i c n Hnth Hn) as (t & Hf & E).
    unfold data in *. rewrite E in *.
    apply (complete_chunk_listed_w pre h (firstn i cs) c t); auto.
    - intros c' Hc'. apply Hcs. eapply in_firstn; eauto.
    - apply Hcs. eapply nth_error_In; eauto.
  Qed.

  Lemma no_abort_w pre h cs1 c t :
    pre_ok pre h -> (h <= buf_size)%nat ->
    (forall c', In c' cs1 -> chunk_scan_ok V c') -> chunk_scan_ok V c ->
    chunk_parse_stable V parse c ->
    (forall s, parse s <> POther) ->
    follows t ->
    tame (pre ++ flat V cs1 ++ ck_bytes V c ++ t) ->
    exists objs, seq_scan (scan_windows (pre ++ flat V cs1 ++ ck_bytes V c ++ t))
                          (pc_of V parse (pre ++ flat V cs1 ++ ck_bytes V c ++ t)) = Ok objs.
  Proof.
    intros. destruct (complete_chunk_listed_w pre h cs1 c t) as (objs & E & _); auto. eauto.
  Qed.

  Lemma trailing_broken_w pre h cs1 c k objs o :
    pre_ok pre h -> (h <= buf_size)%nat ->
    chunk_prefix_fails V parse c -> (k < length (ck_bytes V c))%nat ->
    let data := pre ++ flat V cs1 ++ firstn k (ck_bytes V c) in
    tame data ->
    seq_scan (scan_windows data) (pc_of V parse data) = Ok objs ->
    In o objs -> fo_start (co_obj o) = (length pre + length (flat V cs1))%nat ->
    co_broken o = true.
  Proof.
    intros Hpre Hh Hpf Hk data Htame Hs Hin Hst.
    destruct (pre_ok_start pre h (flat V cs1 ++ firstn k (ck_bytes V c)) Hpre) as (hs & v & Hfs).
    unfold data in *. rewrite (windows_eq_ideal_lemma _ hs h v Hfs Hh Htame) in Hs.
    eapply (trailing_broken_lemma V parse pre cs1 c k); eauto.
  Qed.

  Lemma xref_damage_w pre h cs tail tail' :
    pre_ok pre h -> (h <= buf_size)%nat ->
    (forall c, In c cs -> chunk_scan_ok V c) ->
    (forall c, In c cs -> chunk_parse_stable V parse c) ->
    (forall s, parse s <> POther) ->
    cs <> [] -> object_free tail -> object_free tail' ->
    tame (pre ++ flat V cs ++ tail) -> tame (pre ++ flat V cs ++ tail') ->
    seq_scan (scan_windows (pre ++ flat V cs ++ tail')) (pc_of V parse (pre ++ flat V cs ++ tail'))
    = seq_scan (scan_windows (pre ++ flat V cs ++ tail)) (pc_of V parse (pre ++ flat V cs ++ tail))
    /\ seq_scan (scan_windows (pre ++ flat V cs ++ tail)) (pc_of V parse (pre ++ flat V cs ++ tail))
       = Ok (chunk_cobjs V (length pre) cs).
  Proof.
    intros Hpre Hh Hcs Hps Hno Hne Hf Hf' Ht Ht'.
    destruct (pre_ok_start pre h (flat V cs ++ tail) Hpre) as (hs & v & Hfs).
    destruct (pre_ok_start pre h (flat V cs ++ tail') Hpre) as (hs' & v' & Hfs').
    rewrite (windows_eq_ideal_lemma _ hs h v Hfs Hh Ht), (windows_eq_ideal_lemma _ hs' h v' Hfs' Hh Ht').
    apply (xref_damage_same V parse pre h cs tail tail'); assumption.
  Qed.
End ChunksW.

(* tameness is decidable: a file is tame when every cut of every suffix agrees with the suffix *)
Definition marker_eqb (a b : option (marker * nat)) : bool :=
  match a, b with
  | None, None => true
  | Some (m1, l1), Some (m2, l2) =>
    Nat.eqb l1 l2 &&
    match m1, m2 with
    | MObj a1 b1, MObj a2 b2 => bytes_eqb a1 a2 && bytes_eqb b1 b2
    | MXref, MXref | MTrailer, MTrailer | MStartxref, MStartxref | MEOF, MEOF => true
    | _, _ => false
    end
  | _, _ => false
  end.

Lemma marker_eqb_eq a b : marker_eqb a b = true -> a = b.
Proof.
  destruct a as [[m1 l1]|], b as [[m2 l2]|]; cbn [marker_eqb]; try discriminate; [|reflexivity].
  intros H. apply andb_true_iff in H as [Hl Hm]. apply Nat.eqb_eq in Hl. subst l2.
  destruct m1, m2; try discriminate; try reflexivity.
  apply andb_true_iff in Hm as [H1 H2]. apply bytes_eqb_eq in H1, H2. subst. reflexivity.
Qed.

Definition head_tameb (s : bytes) : bool :=
  forallb (fun n =>
    match marker_at (firstn n s) with
    | Some r => marker_eqb (Some r) (marker_at s)
    | None => true
    end) (seq 0 (S (length (take_line s))))      (* a cut behind the line changes nothing *)
  && match marker_at s with Some (_, l) => Nat.leb l overlap | None => true end.

Fixpoint ltameb (bol : bool) (s : bytes) : bool :=
  match s with
  | [] => true
  | b :: s' => (if bol then head_tameb s else true) && ltameb (is_eol b) s'
  end.
Definition tameb (data : bytes) : bool := ltameb false data.

Lemma head_tameb_ok s : head_tameb s = true -> head_tame s.
Proof.
  unfold head_tameb. intros H. apply andb_true_iff in H as [H1 H2]. rewrite forallb_forall in H1. split.
  - intros n r E. destruct (Nat.le_gt_cases n (length (take_line s))) as [Hn|Hn].
    + specialize (H1 n). rewrite in_seq in H1. assert (Hi : (0 <= n < 0 + S (length (take_line s)))%nat) by lia.
      apply H1 in Hi. rewrite E in Hi. apply marker_eqb_eq in Hi. congruence.
    + unfold marker_at in *. rewrite take_line_firstn, firstn_all2 in E by lia. exact E.
  - intros m l E. rewrite E in H2. apply Nat.leb_le. exact H2.
Qed.

Lemma ltameb_ok : forall s bol, ltameb bol s = true -> ltame bol s.
Proof.
  induction s as [|b s IH]; intros bol H; [exact I|].
  cbn [ltameb] in H. apply andb_true_iff in H as [H1 H2]. split; [|apply IH; exact H2].
  intros ->. apply head_tameb_ok. exact H1.
Qed.

Lemma tameb_tame data : tameb data = true -> tame data.
Proof. apply ltameb_ok. Qed.
