(* C20 - proofs about SeqScan.v.

   The theorems are about the marker search WITHOUT buffer windows (ideal_scan /
   scan_ideal).  The faithful search (win_scan / scan_windows) is executable and
   tied to the code by correspondence; it differs from the ideal one exactly where
   marker text lies at the beginning of a search window (window_witness below).

   File model: data = pre ++ flat cs ++ ... where every chunk is the text of one
   indirect object (`N G obj` ... `endobj`) followed by LF.  The object parser
   (scanner.ReadIndirectObject) is a Section variable with named hypotheses. *)
From Coq Require Import List NArith ZArith Bool Lia.
From GoPdf.Base Require Import Bytes Res.
From GoPdf.C20 Require Import SeqScan.
Import ListNotations.

Definition LF : byte := 10%N.

(* ---------- lines ---------- *)
Lemma take_line_app_lf : forall y t, take_line (y ++ LF :: t) = take_line (y ++ [LF]).
Proof.
  induction y as [|b y IH]; intros t; cbn [app take_line]; [reflexivity|].
  destruct (is_eol b); [reflexivity|]. f_equal. apply IH.
Qed.
Lemma take_line_snoc_lf : forall y, take_line (y ++ [LF]) = take_line y.
Proof.
  induction y as [|b y IH]; cbn [app take_line]; [reflexivity|].
  destruct (is_eol b); [reflexivity|]. f_equal. apply IH.
Qed.

Lemma marker_at_app_lf y t : marker_at (y ++ LF :: t) = marker_at (y ++ [LF]).
Proof. unfold marker_at. rewrite take_line_app_lf. reflexivity. Qed.
Lemma marker_at_snoc_lf y : marker_at (y ++ [LF]) = marker_at y.
Proof. unfold marker_at. rewrite take_line_snoc_lf. reflexivity. Qed.

Lemma line_marker_nil : line_marker [] = None.
Proof. reflexivity. Qed.
Lemma marker_at_lf t : marker_at (LF :: t) = None.
Proof. reflexivity. Qed.

(* ---------- the search without windows is local ---------- *)
Definition shift (off : nat) (pm : nat * marker) : nat * marker := ((off + fst pm)%nat, snd pm).

Lemma ideal_scan_shift : forall s off bol, ideal_scan off bol s = map (shift off) (ideal_scan 0 bol s).
Proof.
  induction s as [|b s IH]; intros off bol; cbn [ideal_scan map]; [reflexivity|].
  rewrite (IH (S off)), (IH 1%nat).
  assert (E : map (shift off) (map (shift 1) (ideal_scan 0 (is_eol b) s)) = map (shift (S off)) (ideal_scan 0 (is_eol b) s)).
  { rewrite map_map. apply map_ext. intros [p m]. unfold shift. cbn. f_equal. lia. }
  destruct bol; [|rewrite <- E; reflexivity].
  destruct (marker_at (b :: s)) as [[m l]|]; cbn [map]; [|rewrite <- E; reflexivity].
  f_equal; [|symmetry; exact E].
  unfold shift. cbn [fst snd]. f_equal. lia.
Qed.

Lemma ideal_scan_lf_only off bol : ideal_scan off bol [LF] = [].
Proof. cbn [ideal_scan]. destruct bol; reflexivity. Qed.

Lemma ideal_scan_app_lf : forall x off bol t,
  ideal_scan off bol (x ++ LF :: t) = ideal_scan off bol (x ++ [LF]) ++ ideal_scan (off + length x + 1) true t.
Proof.
  induction x as [|b x IH]; intros off bol t.
  - cbn [app length]. rewrite ideal_scan_lf_only. cbn [ideal_scan app].
    rewrite marker_at_lf. replace (off + 0 + 1)%nat with (S off) by lia.
    destruct bol; reflexivity.
  - cbn [app ideal_scan length]. rewrite IH.
    replace (S off + length x + 1)%nat with (off + S (length x) + 1)%nat by lia.
    change (b :: x ++ LF :: t) with ((b :: x) ++ LF :: t).
    change (b :: x ++ [LF]) with ((b :: x) ++ [LF]).
    rewrite marker_at_app_lf.
    destruct bol; [|reflexivity].
    destruct (marker_at ((b :: x) ++ [LF])) as [[m l]|]; reflexivity.
Qed.

Lemma ideal_scan_snoc_lf : forall x off bol, ideal_scan off bol (x ++ [LF]) = ideal_scan off bol x.
Proof.
  induction x as [|b x IH]; intros off bol.
  - cbn [app]. rewrite ideal_scan_lf_only. reflexivity.
  - cbn [app ideal_scan]. rewrite IH.
    change (b :: x ++ [LF]) with ((b :: x) ++ [LF]). rewrite marker_at_snoc_lf. reflexivity.
Qed.

(* what follows a complete chunk: nothing, or a line feed and anything *)
Definition follows (t : bytes) : Prop := t = [] \/ exists t', t = LF :: t'.

Definition after (off : nat) (x t : bytes) : list (nat * marker) :=
  match t with [] => [] | _ :: t' => ideal_scan (off + length x + 1) true t' end.

Lemma ideal_scan_follows x off bol t :
  follows t -> ideal_scan off bol (x ++ t) = ideal_scan off bol (x ++ [LF]) ++ after off x t.
Proof.
  intros [->|[t' ->]]; cbn [after].
  - rewrite app_nil_r, ideal_scan_snoc_lf, app_nil_r. reflexivity.
  - apply ideal_scan_app_lf.
Qed.

(* ---------- locateObjects keeps every object candidate, in order ---------- *)
Definition objs_of1 (pm : nat * marker) : list fobj :=
  match snd pm with
  | MObj d1 d2 =>
    match obj_ref d1 d2 with
    | Some (n, g) => [{| fo_num := n; fo_gen := g; fo_start := fst pm |}]
    | None => []
    end
  | _ => []
  end.
Definition objs_of (ms : list (nat * marker)) : list fobj := flat_map objs_of1 ms.

Definition st_objs (st : lstate) : list fobj := flat_map fs_objs (rev (ls_done st)) ++ fs_objs (ls_cur st).
Definition st_inv (st : lstate) : Prop := ls_used st = false -> fs_objs (ls_cur st) = [].

Lemma finish_objs st : st_inv st -> st_objs (finish st) = st_objs st /\ st_inv (finish st).
Proof.
  intros Hi. unfold finish, st_objs, st_inv. cbn [ls_done ls_cur ls_used fs_objs empty_sec].
  split; [|reflexivity].
  destruct (ls_used st) eqn:E.
  - cbn [rev]. rewrite flat_map_app. cbn [flat_map]. rewrite !app_nil_r. reflexivity.
  - rewrite (Hi E), !app_nil_r. reflexivity.
Qed.

Lemma lstep_objs st pm : st_inv st -> st_objs (lstep st pm) = st_objs st ++ objs_of1 pm /\ st_inv (lstep st pm).
Proof.
  intros Hi. destruct pm as [pos m]. unfold objs_of1. cbn [fst snd].
  destruct m as [d1 d2| | | |]; cbn [lstep].
  - destruct (obj_ref d1 d2) as [[n g]|]; [|rewrite app_nil_r; auto].
    destruct (ls_intr st).
    + destruct (finish_objs st Hi) as [E _].
      unfold st_objs, st_inv in *. cbn [ls_done ls_cur ls_used fs_objs].
      split; [|discriminate].
      rewrite app_assoc, E. reflexivity.
    + unfold st_objs, st_inv. cbn [ls_done ls_cur ls_used fs_objs]. split; [|discriminate].
      rewrite app_assoc. reflexivity.
  - unfold st_objs, st_inv. cbn [ls_done ls_cur ls_used fs_objs]. rewrite app_nil_r. split; [reflexivity|discriminate].
  - unfold st_objs, st_inv. cbn [ls_done ls_cur ls_used fs_objs]. rewrite app_nil_r. split; [reflexivity|discriminate].
  - unfold st_objs, st_inv. cbn [ls_done ls_cur ls_used fs_objs]. rewrite app_nil_r. split; [reflexivity|discriminate].
  - rewrite app_nil_r.
    set (st' := {| ls_done := ls_done st;
                   ls_cur := {| fs_xref := fs_xref (ls_cur st); fs_trailer := fs_trailer (ls_cur st);
                                fs_startxref := fs_startxref (ls_cur st); fs_eof := pos; fs_objs := fs_objs (ls_cur st) |};
                   ls_used := ls_used st; ls_intr := ls_intr st |}).
    assert (Hi' : st_inv st') by exact Hi.
    destruct (finish_objs st' Hi') as [E I]. split; [|exact I]. rewrite E. reflexivity.
Qed.

Lemma fold_lstep_objs : forall ms st, st_inv st ->
  st_objs (fold_left lstep ms st) = st_objs st ++ objs_of ms /\ st_inv (fold_left lstep ms st).
Proof.
  induction ms as [|pm ms IH]; intros st Hi; cbn [fold_left objs_of flat_map].
  - rewrite app_nil_r. auto.
  - destruct (lstep_objs st pm Hi) as [E I]. destruct (IH _ I) as [E' I'].
    split; [|exact I']. rewrite E', E, <- app_assoc. reflexivity.
Qed.

Lemma all_objs_locate ms : all_objs (locate ms) = objs_of ms.
Proof.
  unfold locate, all_objs.
  set (st0 := {| ls_done := []; ls_cur := empty_sec; ls_used := false; ls_intr := false |}).
  assert (Hi0 : st_inv st0) by (intros _; reflexivity).
  destruct (fold_lstep_objs ms st0 Hi0) as [E I].
  destruct (finish_objs _ I) as [E' _].
  unfold st_objs at 1 in E'. cbn [finish ls_cur fs_objs empty_sec] in E'. rewrite app_nil_r in E'.
  cbn [finish ls_done] in *. rewrite E', E. reflexivity.
Qed.

(* ---------- checkObjects ---------- *)
Definition mk_cobj {V} (pc : nat -> pres V) (o : fobj) : cobj V :=
  {| co_obj := o;
     co_broken := match pc (fo_start o) with POk _ => false | _ => true end;
     co_val := match pc (fo_start o) with POk v => Some v | _ => None end |}.

Lemma check_objects_ok {V} (pc : nat -> pres V) : forall objs,
  (forall o, In o objs -> pc (fo_start o) <> POther) ->
  check_objects pc objs = Ok (map (mk_cobj pc) objs).
Proof.
  induction objs as [|o objs IH]; intros H; cbn [check_objects map]; [reflexivity|].
  rewrite IH by (intros o' Ho'; apply H; right; exact Ho').
  assert (Ho : pc (fo_start o) <> POther) by (apply H; left; reflexivity).
  unfold mk_cobj. destruct (pc (fo_start o)); try reflexivity. congruence.
Qed.

(* an object marked broken is exactly one whose parse did not succeed *)
Lemma check_objects_broken {V} (pc : nat -> pres V) objs l o :
  check_objects pc objs = Ok l -> In o l ->
  co_broken o = match pc (fo_start (co_obj o)) with POk _ => false | _ => true end.
Proof.
  revert l. induction objs as [|x objs IH]; intros l; cbn [check_objects].
  - intros E; inversion E; subst. intros [].
  - destruct (pc (fo_start x)) eqn:Ep; try discriminate;
      destruct (check_objects pc objs) as [l'|]; try discriminate;
      intros E; inversion E; subst; intros [<-|Hin]; cbn [co_broken co_obj]; try (rewrite Ep; reflexivity);
      eapply IH; eauto.
Qed.

(* ---------- files made of chunks ---------- *)
Section Chunks.
  Variable V : Type.
  (* scanner.ReadIndirectObject on the data that begin at a candidate *)
  Variable parse : bytes -> pres V.

  Record chunk := { ck_num : N; ck_gen : N; ck_bytes : bytes; ck_val : V }.

  Definition flat (cs : list chunk) : bytes := flat_map (fun c => ck_bytes c ++ [LF]) cs.

  Definition pc_of (data : bytes) : nat -> pres V := fun off => parse (skipn off data).

  (* the chunk begins with the header of its object and contains no other line-initial marker *)
  Definition chunk_scan_ok (c : chunk) : Prop :=
    exists d1 d2, ideal_scan 0 true (ck_bytes c ++ [LF]) = [(0%nat, MObj d1 d2)]
                  /\ obj_ref d1 d2 = Some (ck_num c, ck_gen c).
  (* H-parse, first half: a complete chunk parses to its value whatever follows it *)
  Definition chunk_parse_stable (c : chunk) : Prop :=
    forall t, parse (ck_bytes c ++ t) = POk (ck_val c).
  (* H-parse, second half: a proper prefix of a chunk does not parse *)
  Definition chunk_prefix_fails (c : chunk) : Prop :=
    forall k v, (k < length (ck_bytes c))%nat -> parse (firstn k (ck_bytes c)) <> POk v.

  (* the part before the first object: the header is found, the marker search starts at h,
     there is no marker in the rest of pre, and pre ends with an end-of-line *)
  Definition pre_ok (pre : bytes) (h : nat) : Prop :=
    (1 <= h <= length pre)%nat
    /\ (forall t, exists hs v, find_start (pre ++ t) = Some (hs, h, v))
    /\ (forall t, ideal_scan (h - 1) false (skipn (h - 1) pre ++ t) = ideal_scan (length pre) true t).

  Definition chunk_marker_obj (off : nat) (c : chunk) : fobj :=
    {| fo_num := ck_num c; fo_gen := ck_gen c; fo_start := off |}.

  Fixpoint chunk_objs (off : nat) (cs : list chunk) : list fobj :=
    match cs with
    | [] => []
    | c :: cs' => chunk_marker_obj off c :: chunk_objs (off + length (ck_bytes c) + 1) cs'
    end.

  Lemma objs_of_app a b : objs_of (a ++ b) = objs_of a ++ objs_of b.
  Proof. unfold objs_of. apply flat_map_app. Qed.

  Lemma chunk_scan off c t :
    chunk_scan_ok c -> follows t ->
    objs_of (ideal_scan off true (ck_bytes c ++ t)) = chunk_marker_obj off c :: objs_of (after off (ck_bytes c) t).
  Proof.
    intros (d1 & d2 & Hs & Hr) Hf.
    rewrite ideal_scan_follows by exact Hf. rewrite objs_of_app.
    rewrite ideal_scan_shift, Hs. cbn [map objs_of flat_map]. unfold shift, objs_of1. cbn [fst snd].
    rewrite Hr, Nat.add_0_r. reflexivity.
  Qed.

  Lemma flat_scan : forall cs off t,
    (forall c, In c cs -> chunk_scan_ok c) ->
    objs_of (ideal_scan off true (flat cs ++ t)) = chunk_objs off cs ++ objs_of (ideal_scan (off + length (flat cs)) true t).
  Proof.
    induction cs as [|c cs IH]; intros off t Hok.
    - cbn [flat flat_map app chunk_objs length]. rewrite Nat.add_0_r. reflexivity.
    - cbn [flat flat_map chunk_objs]. fold (flat cs). rewrite <- !app_assoc. cbn [app].
      rewrite chunk_scan; [|apply Hok; left; reflexivity|right; eexists; reflexivity].
      cbn [after]. rewrite IH by (intros c' Hc'; apply Hok; right; exact Hc').
      rewrite !app_length. cbn [length].
      cbn [app]. f_equal. f_equal. f_equal. f_equal. lia.
  Qed.

  Lemma skipn_app_length {A} (a b : list A) : skipn (length a) (a ++ b) = b.
  Proof. rewrite skipn_app, skipn_all, Nat.sub_diag. reflexivity. Qed.

  (* The general form: whatever follows a complete chunk (further chunks, a chunk
     that is cut off, intact or overwritten cross-reference data, nothing), the
     scan succeeds, lists the chunk's object at its true offset, not broken, and
     reading it gives the value. *)
  Lemma complete_chunk_listed pre h cs1 c t :
    pre_ok pre h ->
    (forall c', In c' cs1 -> chunk_scan_ok c') -> chunk_scan_ok c ->
    chunk_parse_stable c ->
    (forall s, parse s <> POther) ->
    follows t ->
    let data := pre ++ flat cs1 ++ ck_bytes c ++ t in
    let off := (length pre + length (flat cs1))%nat in
    exists objs,
      seq_scan (scan_ideal data) (pc_of data) = Ok objs
      /\ In {| co_obj := chunk_marker_obj off c; co_broken := false; co_val := Some (ck_val c) |} objs.
  Proof.
    intros (Hh & Hst & Hq) Hcs Hc Hp Hno Hf data off.
    destruct (Hst (flat cs1 ++ ck_bytes c ++ t)) as (hs & v & Hfs).
    unfold seq_scan, scan_ideal. fold data in Hfs. rewrite Hfs.
    assert (Hsk : skipn (h - 1) data = skipn (h - 1) pre ++ flat cs1 ++ ck_bytes c ++ t).
    { unfold data. rewrite skipn_app. replace (h - 1 - length pre)%nat with 0%nat by lia. reflexivity. }
    rewrite Hsk, Hq.
    set (ms := ideal_scan (length pre) true (flat cs1 ++ ck_bytes c ++ t)).
    assert (Hobjs : objs_of ms = chunk_objs (length pre) cs1 ++ chunk_marker_obj off c :: objs_of (after off (ck_bytes c) t)).
    { unfold ms. rewrite flat_scan by exact Hcs. rewrite chunk_scan by assumption. reflexivity. }
    pose proof (all_objs_locate ms) as Hall.
    destruct (locate ms) as [|s0 secs] eqn:El.
    - exfalso. cbn in Hall. rewrite Hobjs in Hall. destruct (chunk_objs (length pre) cs1); discriminate.
    - rewrite check_objects_ok by (intros o _; apply Hno).
      eexists. split; [reflexivity|].
      rewrite Hall, Hobjs, map_app. apply in_or_app. right. left.
      unfold mk_cobj, pc_of. cbn [chunk_marker_obj fo_start].
      assert (Hd : skipn off data = ck_bytes c ++ t).
      { unfold data, off. rewrite app_assoc, <- app_length. apply skipn_app_length. }
      rewrite Hd, Hp. reflexivity.
  Qed.

  (* every prefix that contains the end of chunk i has that form *)
  Lemma prefix_form pre cs tail i c n :
    nth_error cs i = Some c ->
    (length pre + length (flat (firstn i cs)) + length (ck_bytes c) <= n)%nat ->
    exists t, follows t /\
      firstn n (pre ++ flat cs ++ tail) = pre ++ flat (firstn i cs) ++ ck_bytes c ++ t.
  Proof.
    intros Hnth Hn.
    assert (Hsplit : cs = firstn i cs ++ c :: skipn (S i) cs).
    { clear Hn. revert i Hnth. induction cs as [|x cs IH]; intros [|i] H; cbn in *; try discriminate.
      - inversion H; reflexivity.
      - f_equal. apply IH. exact H. }
    set (A := pre ++ flat (firstn i cs) ++ ck_bytes c).
    set (B := LF :: flat (skipn (S i) cs) ++ tail).
    assert (Hfile : pre ++ flat cs ++ tail = A ++ B).
    { unfold A, B. rewrite Hsplit at 1. unfold flat. rewrite flat_map_app. cbn [flat_map].
      rewrite <- !app_assoc. cbn [app]. reflexivity. }
    rewrite Hfile, firstn_app.
    assert (HA : (length A <= n)%nat) by (unfold A; rewrite !app_length; lia).
    rewrite firstn_all2 by exact HA.
    exists (firstn (n - length A) B). split.
    - unfold B. destruct (n - length A)%nat; [left; reflexivity|right; eexists; reflexivity].
    - unfold A. rewrite <- !app_assoc. reflexivity.
  Qed.

  Lemma in_firstn {A} : forall (l : list A) i x, In x (firstn i l) -> In x l.
  Proof.
    induction l as [|y l IH]; intros [|i] x H; cbn in *; try contradiction.
    destruct H as [->|H]; [left; reflexivity|right; eapply IH; eauto].
  Qed.

  Lemma prefix_complete_lemma pre h cs tail i c n :
    pre_ok pre h ->
    (forall c', In c' cs -> chunk_scan_ok c') ->
    chunk_parse_stable c ->
    (forall s, parse s <> POther) ->
    nth_error cs i = Some c ->
    (length pre + length (flat (firstn i cs)) + length (ck_bytes c) <= n)%nat ->
    let data := firstn n (pre ++ flat cs ++ tail) in
    exists objs,
      seq_scan (scan_ideal data) (pc_of data) = Ok objs
      /\ In {| co_obj := chunk_marker_obj (length pre + length (flat (firstn i cs))) c;
               co_broken := false; co_val := Some (ck_val c) |} objs.
  Proof.
    intros Hpre Hcs Hp Hno Hnth Hn data.
    destruct (prefix_form pre cs tail i c n Hnth Hn) as (t & Hf & E).
    unfold data. rewrite E.
    apply (complete_chunk_listed pre h (firstn i cs) c t); auto.
    - intros c' Hc'. apply Hcs. eapply in_firstn; eauto.
    - apply Hcs. eapply nth_error_In; eauto.
  Qed.

  (* an incomplete trailing object is reported as broken *)
  Lemma trailing_broken_lemma pre cs1 c k objs o :
    chunk_prefix_fails c -> (k < length (ck_bytes c))%nat ->
    let data := pre ++ flat cs1 ++ firstn k (ck_bytes c) in
    seq_scan (scan_ideal data) (pc_of data) = Ok objs ->
    In o objs -> fo_start (co_obj o) = (length pre + length (flat cs1))%nat ->
    co_broken o = true.
  Proof.
    intros Hpf Hk data Hs Hin Hst.
    unfold seq_scan in Hs. destruct (scan_ideal data) as [ms|]; [|discriminate].
    destruct (locate ms) as [|s0 secs] eqn:El; [discriminate|].
    rewrite (check_objects_broken _ _ _ _ Hs Hin), Hst.
    unfold pc_of, data. rewrite app_assoc, <- app_length, skipn_app_length.
    destruct (parse (firstn k (ck_bytes c))) eqn:Ep; try reflexivity.
    exfalso. eapply Hpf; eauto.
  Qed.

  (* the cross-reference data: whatever follows the last chunk, as long as it
     contains no object header at the beginning of a line, the located objects and
     their values are those of the chunks *)
  Definition object_free (t : bytes) : Prop := forall off, objs_of (ideal_scan off true t) = [].

  Fixpoint chunk_cobjs (off : nat) (cs : list chunk) : list (cobj V) :=
    match cs with
    | [] => []
    | c :: cs' => {| co_obj := chunk_marker_obj off c; co_broken := false; co_val := Some (ck_val c) |}
                  :: chunk_cobjs (off + length (ck_bytes c) + 1) cs'
    end.

  Lemma mk_chunks : forall cs pre' rest,
    (forall c, In c cs -> chunk_parse_stable c) ->
    map (mk_cobj (pc_of (pre' ++ flat cs ++ rest))) (chunk_objs (length pre') cs) = chunk_cobjs (length pre') cs.
  Proof.
    induction cs as [|c cs IH]; intros pre' rest Hps; cbn [chunk_objs chunk_cobjs map]; [reflexivity|].
    f_equal.
    - unfold mk_cobj, pc_of. cbn [chunk_marker_obj fo_start].
      rewrite skipn_app_length. cbn [flat flat_map]. rewrite <- !app_assoc.
      rewrite (Hps c) by (left; reflexivity). reflexivity.
    - specialize (IH (pre' ++ ck_bytes c ++ [LF]) rest).
      rewrite !app_length in IH. cbn [length] in IH.
      replace (length pre' + (length (ck_bytes c) + 1))%nat with (length pre' + length (ck_bytes c) + 1)%nat in IH by lia.
      rewrite <- IH by (intros c' Hc'; apply Hps; right; exact Hc').
      cbn [flat flat_map]. rewrite <- !app_assoc. reflexivity.
  Qed.

  Lemma xref_damage_lemma pre h cs tail :
    pre_ok pre h ->
    (forall c, In c cs -> chunk_scan_ok c) ->
    (forall c, In c cs -> chunk_parse_stable c) ->
    (forall s, parse s <> POther) ->
    cs <> [] -> object_free tail ->
    let data := pre ++ flat cs ++ tail in
    seq_scan (scan_ideal data) (pc_of data) = Ok (chunk_cobjs (length pre) cs).
  Proof.
    intros (Hh & Hst & Hq) Hcs Hps Hno Hne Hfree data.
    destruct (Hst (flat cs ++ tail)) as (hs & v & Hfs).
    unfold seq_scan, scan_ideal. fold data in Hfs. rewrite Hfs.
    assert (Hsk : skipn (h - 1) data = skipn (h - 1) pre ++ flat cs ++ tail).
    { unfold data. rewrite skipn_app. replace (h - 1 - length pre)%nat with 0%nat by lia. reflexivity. }
    rewrite Hsk, Hq.
    set (ms := ideal_scan (length pre) true (flat cs ++ tail)).
    assert (Hobjs : objs_of ms = chunk_objs (length pre) cs).
    { unfold ms. rewrite flat_scan by exact Hcs. rewrite Hfree, app_nil_r. reflexivity. }
    pose proof (all_objs_locate ms) as Hall.
    destruct (locate ms) as [|s0 secs] eqn:El.
    - exfalso. cbn in Hall. rewrite Hobjs in Hall. destruct cs; [congruence|discriminate].
    - rewrite check_objects_ok by (intros o _; apply Hno).
      rewrite Hall, Hobjs. unfold data. rewrite mk_chunks by exact Hps. reflexivity.
  Qed.

  (* overwriting the cross-reference data changes neither the located objects nor their values *)
  Lemma xref_damage_same pre h cs tail tail' :
    pre_ok pre h ->
    (forall c, In c cs -> chunk_scan_ok c) ->
    (forall c, In c cs -> chunk_parse_stable c) ->
    (forall s, parse s <> POther) ->
    cs <> [] -> object_free tail -> object_free tail' ->
    seq_scan (scan_ideal (pre ++ flat cs ++ tail')) (pc_of (pre ++ flat cs ++ tail'))
    = seq_scan (scan_ideal (pre ++ flat cs ++ tail)) (pc_of (pre ++ flat cs ++ tail))
    /\ seq_scan (scan_ideal (pre ++ flat cs ++ tail)) (pc_of (pre ++ flat cs ++ tail)) = Ok (chunk_cobjs (length pre) cs).
  Proof.
    intros. split; [|eapply xref_damage_lemma; eauto].
    rewrite (xref_damage_lemma pre h cs tail) by auto.
    eapply xref_damage_lemma; eauto.
  Qed.

  Lemma no_abort_lemma pre h cs1 c t :
    pre_ok pre h ->
    (forall c', In c' cs1 -> chunk_scan_ok c') -> chunk_scan_ok c ->
    chunk_parse_stable c ->
    (forall s, parse s <> POther) ->
    follows t ->
    exists objs, seq_scan (scan_ideal (pre ++ flat cs1 ++ ck_bytes c ++ t)) (pc_of (pre ++ flat cs1 ++ ck_bytes c ++ t)) = Ok objs.
  Proof.
    intros. destruct (complete_chunk_listed pre h cs1 c t) as (objs & E & _); auto. eauto.
  Qed.

End Chunks.

(* ---------- the windows of scanner.Find: a witness ---------- *)
(* %PDF-1.4 LF, then object 1 = a literal string of 'a's in which, at file offset 960 and
   NOT at the beginning of a line, the text "2 0 obj (x) endobj " occurs *)
Definition w_header : bytes := [37; 80; 68; 70; 45; 49; 46; 52; 10]%N.
Definition w_obj1_head : bytes := [49; 32; 48; 32; 111; 98; 106; 10; 40]%N.                 (* "1 0 obj\n(" *)
Definition w_inner : bytes := [50; 32; 48; 32; 111; 98; 106; 32; 40; 120; 41; 32; 101; 110; 100; 111; 98; 106; 32]%N.
Definition w_obj1_tail : bytes := [41; 10; 101; 110; 100; 111; 98; 106; 10]%N.               (* ")\nendobj\n" *)
Definition window_witness : bytes :=
  w_header ++ w_obj1_head ++ repeat 97%N 942 ++ w_inner ++ repeat 97%N 200 ++ w_obj1_tail.

Lemma window_witness_facts :
  length window_witness = 1188%nat
  /\ nth 959 window_witness 0%N = 97%N                                   (* the byte before offset 960 is 'a' *)
  /\ scan_ideal window_witness = Some [(9%nat, MObj [49%N] [48%N])]
  /\ scan_windows_pre_F24 window_witness = Some [(9%nat, MObj [49%N] [48%N]); (960%nat, MObj [50%N] [48%N])]
  /\ scan_windows window_witness = Some [(9%nat, MObj [49%N] [48%N])].
Proof. repeat split; vm_compute; reflexivity. Qed.

(* ---------- getTrailer: the newest complete trailer ---------- *)
(* a section offers a trailer: its last xref stream reads and has /Root, or else its trailer
   dictionary reads *)
Definition offers {T} (s : tsec T) : option T :=
  match ts_xstm s with
  | Some (TOk (Some d)) => Some d
  | _ => if Nat.eqb (ts_trailerpos s) 0 then None
         else match ts_trailer s with TOk d => Some d | _ => None end
  end.
(* no byte-source failure is involved *)
Definition no_source {T} (s : tsec T) : Prop :=
  ts_xstm s <> Some TSource /\ (ts_trailerpos s <> 0%nat -> ts_trailer s <> TSource).

Fixpoint first_offer {T} (secs : list (tsec T)) : option T :=
  match secs with
  | [] => None
  | s :: rest => match offers s with Some d => Some d | None => first_offer rest end
  end.

Lemma get_trailer_newest_lemma {T} : forall (secs : list (tsec T)),
  (forall s, In s secs -> no_source s) ->
  get_trailer secs = match first_offer secs with Some d => Ok d | None => Err Other end.
Proof.
  induction secs as [|s rest IH]; intros H; [reflexivity|].
  cbn [get_trailer first_offer]. unfold offers.
  destruct (H s (or_introl eq_refl)) as [Hx Ht].
  assert (IH' := IH (fun s' Hs' => H s' (or_intror Hs'))).
  destruct (ts_xstm s) as [[[d|]| |]|] eqn:Ex; try reflexivity; try congruence;
    (destruct (Nat.eqb_spec (ts_trailerpos s) 0) as [E0|N0]; [exact IH'|];
     destruct (ts_trailer s) eqn:Et; [reflexivity|exact IH'|exfalso; apply (Ht N0); reflexivity]).
Qed.

(* spelled out: the chosen trailer belongs to the newest section that offers one, and every
   newer section offers none *)
Lemma get_trailer_split {T} (secs : list (tsec T)) d :
  (forall s, In s secs -> no_source s) ->
  get_trailer secs = Ok d ->
  exists newer s older, secs = newer ++ s :: older /\ offers s = Some d /\ forall s', In s' newer -> offers s' = None.
Proof.
  intros Hns. rewrite get_trailer_newest_lemma by exact Hns. clear Hns.
  induction secs as [|s rest IH]; cbn [first_offer]; [discriminate|].
  destruct (offers s) as [d'|] eqn:Eo.
  - intros E; inversion E; subst. exists [], s, rest. repeat split; auto. intros s' [].
  - intros E. destruct (IH E) as (newer & s0 & older & -> & Ho & Hn).
    exists (s :: newer), s0, older. repeat split; auto. intros s' [<-|Hs']; auto.
Qed.
