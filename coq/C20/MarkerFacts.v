(* C20 - facts about the marker matcher: a marker text lies inside its line, has no
   end-of-line byte, and is still found when the input is cut anywhere after it. *)
From Coq Require Import List NArith ZArith Bool Lia ZifyN ZifyNat ZifyBool.
From GoPdf.Base Require Import Bytes Res.
From GoPdf.C20 Require Import SeqScan.
Import ListNotations.

Definition noeol (b : byte) : bool := negb (is_eol b).

(* ---------- span ---------- *)
Lemma span_spec f : forall l a r, span f l = (a, r) -> l = a ++ r /\ forallb f a = true.
Proof.
  induction l as [|b l IH]; intros a r H; cbn [span] in H.
  - inversion H; subst. split; reflexivity.
  - destruct (f b) eqn:Fb.
    + destruct (span f l) as [a' r'] eqn:E. inversion H; subst.
      destruct (IH a' r eq_refl) as [-> Hf]. split; [reflexivity|]. cbn [forallb]. rewrite Fb, Hf. reflexivity.
    + inversion H; subst. split; reflexivity.
Qed.

Lemma span_firstn f : forall l n a r,
  span f l = (a, r) -> (length a <= n)%nat ->
  span f (firstn n l) = (a, firstn (n - length a) r).
Proof.
  induction l as [|b l IH]; intros n a r H Hn; cbn [span] in H.
  - inversion H; subst. rewrite !firstn_nil. reflexivity.
  - destruct (f b) eqn:Fb.
    + destruct (span f l) as [a' r'] eqn:E. inversion H; subst. cbn [length] in Hn.
      destruct n as [|n]; [lia|]. cbn [firstn span length]. rewrite Fb.
      rewrite (IH n a' r eq_refl) by lia. reflexivity.
    + inversion H; subst. cbn [length]. rewrite Nat.sub_0_r.
      destruct n as [|n]; [reflexivity|]. cbn [firstn span]. rewrite Fb. reflexivity.
Qed.

(* ---------- has_prefix, boundary ---------- *)
Lemma has_prefix_length : forall p s, has_prefix p s = true -> (length p <= length s)%nat.
Proof.
  induction p as [|x p IH]; intros [|y s] H; cbn in *; try lia; try discriminate.
  apply andb_true_iff in H as [_ H]. apply IH in H. lia.
Qed.

Lemma has_prefix_firstn : forall p s n, (length p <= n)%nat -> has_prefix p (firstn n s) = has_prefix p s.
Proof.
  induction p as [|x p IH]; intros s n Hn; [destruct (firstn n s); reflexivity|].
  cbn [length] in Hn. destruct n as [|n]; [lia|]. destruct s as [|y s]; [reflexivity|].
  cbn [firstn has_prefix]. rewrite IH by lia. reflexivity.
Qed.

Lemma boundary_firstn x k : boundary x = true -> boundary (firstn k x) = true.
Proof. destruct x as [|b x]; destruct k; cbn; auto. Qed.

Lemma skipn_firstn {A} : forall (l : list A) j n, skipn j (firstn n l) = firstn (n - j) (skipn j l).
Proof.
  induction l as [|x l IH]; intros j n.
  - rewrite firstn_nil, !skipn_nil, firstn_nil. reflexivity.
  - destruct j as [|j]; [rewrite Nat.sub_0_r; reflexivity|].
    destruct n as [|n]; [reflexivity|]. cbn [firstn skipn Nat.sub]. apply IH.
Qed.

(* ---------- the alternatives ---------- *)
Lemma kw_marker_len kw mk l m n : kw_marker kw mk l = Some (m, n) -> n = length kw /\ (n <= length l)%nat.
Proof.
  unfold kw_marker. destruct (has_prefix kw l) eqn:H; [|discriminate].
  destruct (boundary _); [|discriminate]. intros E; inversion E; subst. split; [reflexivity|].
  apply has_prefix_length. exact H.
Qed.

Lemma kw_marker_firstn kw mk l m n k :
  kw_marker kw mk l = Some (m, n) -> (n <= k)%nat -> kw_marker kw mk (firstn k l) = Some (m, n).
Proof.
  intros H Hk. destruct (kw_marker_len _ _ _ _ _ H) as [-> _]. unfold kw_marker in *.
  rewrite has_prefix_firstn by exact Hk.
  destruct (has_prefix kw l); [|discriminate]. cbn [andb] in *.
  rewrite skipn_firstn. destruct (boundary (skipn (length kw) l)) eqn:B; [|discriminate].
  rewrite boundary_firstn by exact B. exact H.
Qed.

Lemma obj_marker_len l m n : obj_marker l = Some (m, n) -> (1 <= n <= length l)%nat.
Proof.
  unfold obj_marker.
  destruct (span is_digit l) as [d1 r1] eqn:E1. destruct (span is_hws r1) as [w1 r2] eqn:E2.
  destruct (span is_digit r2) as [d2 r3] eqn:E3. destruct (span is_hws r3) as [w2 r4] eqn:E4.
  destruct (span_spec _ _ _ _ E1) as [-> _]. destruct (span_spec _ _ _ _ E2) as [-> _].
  destruct (span_spec _ _ _ _ E3) as [-> _]. destruct (span_spec _ _ _ _ E4) as [-> _].
  destruct (nonempty d1 && nonempty w1 && nonempty d2 && nonempty w2 && has_prefix kw_obj r4 && boundary (skipn 3 r4)) eqn:C; [|discriminate].
  intros E; inversion E; subst.
  apply andb_true_iff in C as [C _]. apply andb_true_iff in C as [_ C].
  apply has_prefix_length in C. cbn [length kw_obj] in C. rewrite !app_length. lia.
Qed.

Lemma obj_marker_firstn l m n k :
  obj_marker l = Some (m, n) -> (n <= k)%nat -> obj_marker (firstn k l) = Some (m, n).
Proof.
  unfold obj_marker.
  destruct (span is_digit l) as [d1 r1] eqn:E1. destruct (span is_hws r1) as [w1 r2] eqn:E2.
  destruct (span is_digit r2) as [d2 r3] eqn:E3. destruct (span is_hws r3) as [w2 r4] eqn:E4.
  destruct (nonempty d1 && nonempty w1 && nonempty d2 && nonempty w2 && has_prefix kw_obj r4 && boundary (skipn 3 r4)) eqn:C; [|discriminate].
  intros E Hk; inversion E; subst. clear E.
  rewrite (span_firstn _ _ k _ _ E1) by lia.
  rewrite (span_firstn _ _ _ _ _ E2) by lia.
  rewrite (span_firstn _ _ _ _ _ E3) by lia.
  rewrite (span_firstn _ _ _ _ _ E4) by lia.
  set (k4 := (k - length d1 - length w1 - length d2 - length w2)%nat).
  assert (H3 : (3 <= k4)%nat) by (unfold k4; lia).
  rewrite has_prefix_firstn by exact H3. rewrite skipn_firstn.
  apply andb_true_iff in C as [C B]. rewrite C. rewrite boundary_firstn by exact B. reflexivity.
Qed.

Lemma obj_marker_digit l m n : obj_marker l = Some (m, n) -> match l with b :: _ => is_digit b = true | [] => False end.
Proof.
  unfold obj_marker. destruct l as [|b l]; [cbn; discriminate|].
  cbn [span]. destruct (is_digit b) eqn:D; [reflexivity|].
  destruct (span is_hws (b :: l)) as [w1 r2]. destruct (span is_digit r2) as [d2 r3]. destruct (span is_hws r3) as [w2 r4].
  cbn. discriminate.
Qed.

Lemma obj_marker_nondigit b l : is_digit b = false -> obj_marker (b :: l) = None.
Proof.
  intros D. destruct (obj_marker (b :: l)) as [[m n]|] eqn:E; [|reflexivity].
  apply obj_marker_digit in E. congruence.
Qed.

Lemma kw_marker_head kw0 kw mk b l : (kw0 =? b)%N = false -> kw_marker (kw0 :: kw) mk (b :: l) = None.
Proof. intros H. unfold kw_marker. cbn [has_prefix]. rewrite H. reflexivity. Qed.

(* ---------- line_marker ---------- *)
Lemma line_marker_len l m n : line_marker l = Some (m, n) -> (1 <= n <= length l)%nat.
Proof.
  unfold line_marker, orelse.
  destruct (obj_marker l) as [[m1 n1]|] eqn:E1; [intros E; inversion E; subst; eapply obj_marker_len; eauto|].
  destruct (kw_marker kw_xref MXref l) as [[m2 n2]|] eqn:E2;
    [intros E; inversion E; subst; destruct (kw_marker_len _ _ _ _ _ E2) as [-> H]; unfold kw_xref, kw_trailer, kw_startxref, kw_eof in *; cbn [length] in *; lia|].
  destruct (kw_marker kw_trailer MTrailer l) as [[m3 n3]|] eqn:E3;
    [intros E; inversion E; subst; destruct (kw_marker_len _ _ _ _ _ E3) as [-> H]; unfold kw_xref, kw_trailer, kw_startxref, kw_eof in *; cbn [length] in *; lia|].
  destruct (kw_marker kw_startxref MStartxref l) as [[m4 n4]|] eqn:E4;
    [intros E; inversion E; subst; destruct (kw_marker_len _ _ _ _ _ E4) as [-> H]; unfold kw_xref, kw_trailer, kw_startxref, kw_eof in *; cbn [length] in *; lia|].
  intros E5. destruct (kw_marker_len _ _ _ _ _ E5) as [-> H]. unfold kw_eof in *. cbn [length] in *. lia.
Qed.

(* the alternatives begin with different bytes: a digit, x, t, s, % *)
Lemma line_marker_firstn l m n k :
  line_marker l = Some (m, n) -> (n <= k)%nat -> line_marker (firstn k l) = Some (m, n).
Proof.
  intros H Hk. pose proof (line_marker_len _ _ _ H) as [Hn1 _].
  destruct l as [|b l]; [cbn in H; discriminate|].
  destruct k as [|k]; [lia|].
  revert H. unfold line_marker, orelse.
  destruct (is_digit b) eqn:D.
  - (* only the object alternative can match *)
    assert (K : forall kw0 kw mk t, In kw0 [120; 116; 115; 37]%N -> kw_marker (kw0 :: kw) mk (b :: t) = None).
    { intros kw0 kw mk t Hin. apply kw_marker_head. unfold is_digit in D.
      cbn in Hin. destruct Hin as [<-|[<-|[<-|[<-|[]]]]]; lia. }
    unfold kw_xref, kw_trailer, kw_startxref, kw_eof.
    rewrite !K by (cbn; auto). cbn [firstn]. rewrite !K by (cbn; auto).
    destruct (obj_marker (b :: l)) as [[m1 n1]|] eqn:E1; [|discriminate].
    intros E; inversion E; subst. change (b :: firstn k l) with (firstn (S k) (b :: l)).
    rewrite (obj_marker_firstn _ _ _ _ E1 Hk). reflexivity.
  - rewrite obj_marker_nondigit by exact D. cbn [firstn]. rewrite obj_marker_nondigit by exact D.
    change (b :: firstn k l) with (firstn (S k) (b :: l)).
    destruct (kw_marker kw_xref MXref (b :: l)) as [[m2 n2]|] eqn:E2.
    { intros E; inversion E; subst. rewrite (kw_marker_firstn _ _ _ _ _ _ E2 Hk). reflexivity. }
    destruct (kw_marker kw_trailer MTrailer (b :: l)) as [[m3 n3]|] eqn:E3.
    { intros E; inversion E; subst.
      assert (Hb : b = 116%N).
      { unfold kw_marker, kw_trailer in E3. cbn [has_prefix] in E3. destruct (N.eqb_spec 116 b); [congruence|discriminate]. }
      subst b. rewrite (kw_marker_firstn _ _ _ _ _ _ E3 Hk). reflexivity. }
    destruct (kw_marker kw_startxref MStartxref (b :: l)) as [[m4 n4]|] eqn:E4.
    { intros E; inversion E; subst.
      assert (Hb : b = 115%N).
      { unfold kw_marker, kw_startxref in E4. cbn [has_prefix] in E4. destruct (N.eqb_spec 115 b); [congruence|discriminate]. }
      subst b. rewrite (kw_marker_firstn _ _ _ _ _ _ E4 Hk). reflexivity. }
    intros E5.
    assert (Hb : b = 37%N).
    { unfold kw_marker, kw_eof in E5. cbn [has_prefix] in E5. destruct (N.eqb_spec 37 b); [congruence|discriminate]. }
    subst b. rewrite (kw_marker_firstn _ _ _ _ _ _ E5 Hk). reflexivity.
Qed.

(* ---------- take_line ---------- *)
Lemma take_line_spec : forall s, exists r, s = take_line s ++ r /\ forallb noeol (take_line s) = true.
Proof.
  induction s as [|b s (r & E & H)]; [exists []; split; reflexivity|].
  cbn [take_line]. destruct (is_eol b) eqn:B.
  - exists (b :: s). split; reflexivity.
  - exists r. split; [cbn [app]; f_equal; exact E|]. cbn [forallb]. unfold noeol at 1. rewrite B. exact H.
Qed.

Lemma take_line_firstn : forall s n, take_line (firstn n s) = firstn n (take_line s).
Proof.
  induction s as [|b s IH]; intros n; [rewrite !firstn_nil; reflexivity|].
  destruct n as [|n]; [reflexivity|]. cbn [firstn take_line].
  destruct (is_eol b); [reflexivity|]. cbn [firstn]. f_equal. apply IH.
Qed.

(* ---------- marker_at ---------- *)
Lemma firstn_app_le {A} (a b : list A) n : (n <= length a)%nat -> firstn n (a ++ b) = firstn n a.
Proof. intros H. rewrite firstn_app. replace (n - length a)%nat with 0%nat by lia. cbn. apply app_nil_r. Qed.

Lemma forallb_firstn {A} (f : A -> bool) : forall l n, forallb f l = true -> forallb f (firstn n l) = true.
Proof.
  induction l as [|x l IH]; intros n H; [rewrite firstn_nil; reflexivity|].
  destruct n; [reflexivity|]. cbn [firstn forallb] in *. apply andb_true_iff in H as [H1 H2].
  rewrite H1, IH by exact H2. reflexivity.
Qed.

(* a marker text has at least one byte, lies inside the input and contains no CR / LF *)
Lemma marker_at_text s m l :
  marker_at s = Some (m, l) ->
  (1 <= l <= length s)%nat /\ forallb noeol (firstn l s) = true.
Proof.
  unfold marker_at. intros H. destruct (line_marker_len _ _ _ H) as [H1 H2].
  destruct (take_line_spec s) as (r & E & Hne).
  assert (Hlen : (length (take_line s) <= length s)%nat) by (rewrite E at 2; rewrite app_length; lia).
  split; [lia|]. rewrite E, firstn_app_le by exact H2. apply forallb_firstn. exact Hne.
Qed.

Lemma marker_at_firstn s m l n :
  marker_at s = Some (m, l) -> (l <= n)%nat -> marker_at (firstn n s) = Some (m, l).
Proof. unfold marker_at. intros H Hn. rewrite take_line_firstn. apply line_marker_firstn; assumption. Qed.
