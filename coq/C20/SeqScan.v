(* C20 - model of the sequential scan (sequential.go, scanner.Find).  Definitions only.

   line_marker            the hand-written matcher for the marker alternatives of markerRegexp
                          (hypothesis H-regexp: Go's regexp package implements them like this)
   find_start             startRegexp  %PDF-([12]\.[0-9])[^0-9]
   first_marker           leftmost match of markerRegexp in one byte slice (`\b` holds at its end).
                          Since fix F24 eolPat has no `^` alternative: a marker needs a real
                          end-of-line before it.  The flag [caret] = true gives the matcher
                          BEFORE that fix (`^` matched at the beginning of every slice); it is
                          used only by the documented variant scan_windows_pre_F24.
   win_find, win_scan     scanner.Find as it is NOW: a 1024-byte buffer refilled with 64 bytes
                          of overlap; every search runs on the slice buf[pos:used]; after the
                          header the byte that follows the version is given back (s.pos--)
   ideal_scan             the same search without buffer windows: `\b` only at the real end of
                          the input
   locate                 locateObjects: sections, object candidates (the switch of the scan loop)
   check_objects          checkObjects: Malformed or EOF => Broken (fix F5), other errors abort
   index_objects, make_xref
   The parse of an indirect object (scanner.ReadIndirectObject) is not modelled here: the
   functions take its outcome as an argument ([pres]); the theorems quantify over a parse
   function with named hypotheses, the harness supplies the real outcomes. *)
From Coq Require Import List NArith ZArith Bool.
From GoPdf.Base Require Import Bytes Res.
From GoPdf.Gen Require Import Gen_Consts Gen_Scan.
Import ListNotations.
Open Scope N_scope.

(* ---------- character classes ---------- *)
Definition is_eol (b : byte) : bool := (b =? 10) || (b =? 13).
Definition is_digit (b : byte) : bool := (48 <=? b) && (b <=? 57).
(* \w of RE2: [0-9A-Za-z_] *)
Definition is_word (b : byte) : bool :=
  is_digit b || ((65 <=? b) && (b <=? 90)) || ((97 <=? b) && (b <=? 122)) || (b =? 95).
(* whiteSpacePat = [\000\011\014 ] *)
Definition is_hws (b : byte) : bool := (b =? 0) || (b =? 9) || (b =? 12) || (b =? 32).
(* class[b] == space, as countLeadingSpaces uses it *)
Definition is_space (b : byte) : bool :=
  (b =? 0) || (b =? 9) || (b =? 10) || (b =? 12) || (b =? 13) || (b =? 32).

Fixpoint has_prefix (p s : bytes) : bool :=
  match p, s with
  | [], _ => true
  | x :: p', y :: s' => (x =? y) && has_prefix p' s'
  | _ :: _, [] => false
  end.

Fixpoint span (f : byte -> bool) (s : bytes) : bytes * bytes :=
  match s with
  | b :: s' => if f b then let '(a, r) := span f s' in (b :: a, r) else ([], s)
  | [] => ([], [])
  end.

(* the current line: everything before the first CR or LF *)
Fixpoint take_line (s : bytes) : bytes :=
  match s with
  | [] => []
  | b :: s' => if is_eol b then [] else b :: take_line s'
  end.

(* ---------- the marker alternatives ---------- *)
Inductive marker :=
| MObj (d1 d2 : bytes)      (* the two digit strings of  N G obj *)
| MXref | MTrailer | MStartxref | MEOF.

Definition kw_xref : bytes := [120; 114; 101; 102].
Definition kw_trailer : bytes := [116; 114; 97; 105; 108; 101; 114].
Definition kw_startxref : bytes := [115; 116; 97; 114; 116; 120; 114; 101; 102].
Definition kw_eof : bytes := [37; 37; 69; 79; 70].
Definition kw_obj : bytes := [111; 98; 106].

(* \b after a word character: the next byte is not a word character, or the text ends *)
Definition boundary (rest : bytes) : bool :=
  match rest with [] => true | b :: _ => negb (is_word b) end.

Definition nonempty (s : bytes) : bool := match s with [] => false | _ => true end.

(* (marker, length of the marker text) when the line l begins with a marker *)
Definition obj_marker (l : bytes) : option (marker * nat) :=
  let '(d1, r1) := span is_digit l in
  let '(w1, r2) := span is_hws r1 in
  let '(d2, r3) := span is_digit r2 in
  let '(w2, r4) := span is_hws r3 in
  if nonempty d1 && nonempty w1 && nonempty d2 && nonempty w2
     && has_prefix kw_obj r4 && boundary (skipn 3 r4)
  then Some (MObj d1 d2, (length d1 + length w1 + length d2 + length w2 + 3)%nat)
  else None.

Definition kw_marker (kw : bytes) (m : marker) (l : bytes) : option (marker * nat) :=
  if has_prefix kw l && boundary (skipn (length kw) l) then Some (m, length kw) else None.

Definition orelse {A} (a b : option A) : option A := match a with Some _ => a | None => b end.

Definition line_marker (l : bytes) : option (marker * nat) :=
  orelse (obj_marker l)
  (orelse (kw_marker kw_xref MXref l)
  (orelse (kw_marker kw_trailer MTrailer l)
  (orelse (kw_marker kw_startxref MStartxref l)
          (kw_marker kw_eof MEOF l)))).

(* marker text at the head of s; s may continue with further lines *)
Definition marker_at (s : bytes) : option (marker * nat) := line_marker (take_line s).

(* ---------- startRegexp ---------- *)
Definition kw_pdf : bytes := [37; 80; 68; 70; 45].      (* %PDF- *)
(* %PDF-([12]\.[0-9])[^0-9] at the head of s: the two version bytes *)
Definition start_here (s : bytes) : option (byte * byte) :=
  if has_prefix kw_pdf s then
    match skipn 5 s with
    | a :: dot :: b :: c :: _ =>
      if ((a =? 49) || (a =? 50)) && (dot =? 46) && is_digit b && negb (is_digit c) then Some (a, b) else None
    | _ => None
    end
  else None.
(* (PDFStart, offset after the match, version bytes) *)
Fixpoint find_start_from (p : nat) (s : bytes) : option (nat * nat * (byte * byte)) :=
  match s with
  | [] => None
  | _ :: s' =>
    match start_here s with
    | Some v => Some (p, (p + 9)%nat, v)
    | None => find_start_from (S p) s'
    end
  end.
Definition find_start (s : bytes) : option (nat * nat * (byte * byte)) := find_start_from 0 s.

(* ---------- markerRegexp on one slice ---------- *)
(* eolPat = (?:\r\n|\r|\n) then a marker.  locateObjects adds countLeadingSpaces(m[0]) to the
   position of the match, so what it uses is the position of the marker TEXT (after the EOL
   bytes), and the search resumes after the marker text.  first_marker is the leftmost match
   in these terms: the first position whose previous byte (inside the slice) is CR or LF and
   where a marker begins.  Result: (position of the marker text, marker, its length).
   [bol] says whether a marker may begin at the head: false at the beginning of a slice -
   the end-of-line has to be inside the slice - and true only in the matcher BEFORE fix F24,
   whose `^` alternative matched there. *)
Fixpoint first_marker (p : nat) (bol : bool) (s : bytes) : option (nat * marker * nat) :=
  match s with
  | [] => None
  | b :: s' =>
    match (if bol then marker_at s else None) with
    | Some (m, l) => Some (p, m, l)
    | None => first_marker (S p) (is_eol b) s'
    end
  end.

(* ---------- scanner.Find with its buffer ---------- *)
Definition buf_size : nat := Z.to_nat scannerBufSize.     (* 1024 *)
Definition overlap : nat := Z.to_nat regexpOverlap.       (* 64 *)

(* the buffer holds file[base, base+used); pos is the read position inside it *)
Record sstate := { st_base : nat; st_pos : nat; st_used : nat }.

Definition refill (file : bytes) (st : sstate) : sstate :=
  let base := (st_base st + st_pos st)%nat in
  let used := (st_used st - st_pos st)%nat in
  let avail := (length file - (base + used))%nat in
  {| st_base := base; st_pos := 0; st_used := (used + Nat.min (buf_size - used) avail)%nat |}.

Definition slice (file : bytes) (st : sstate) : bytes :=
  firstn (st_used st - st_pos st) (skipn (st_base st + st_pos st) file).

(* Find(markerRegexp): position of the marker text (match start + leading white space), marker, new state;
   None = io.EOF *)
Fixpoint win_find (caret : bool) (fuel : nat) (file : bytes) (st : sstate) : option (nat * marker * sstate) :=
  match fuel with
  | O => None
  | S fuel' =>
    match first_marker 0 caret (slice file st) with
    | Some (t, m, l) =>
      Some ((st_base st + st_pos st + t)%nat, m,
            {| st_base := st_base st; st_pos := (st_pos st + t + l)%nat; st_used := st_used st |})
    | None =>
      let st1 := if Nat.ltb (st_pos st + overlap) (st_used st)
                 then {| st_base := st_base st; st_pos := (st_used st - overlap)%nat; st_used := st_used st |}
                 else st in
      let before := st_used st1 in
      let st2 := refill file st1 in
      if Nat.ltb before buf_size && Nat.eqb before (st_used st2) then None
      else win_find caret fuel' file st2
    end
  end.

(* the state in which Find(startRegexp) leaves the scanner: the header match ends at offset h;
   [back] = 1 since fix F24 (s.pos--: the byte after the version is given back), 0 before *)
Fixpoint start_state (back : nat) (fuel : nat) (file : bytes) (st : sstate) : option (nat * nat * sstate) :=
  match fuel with
  | O => None
  | S fuel' =>
    match find_start (slice file st) with
    | Some (ms, me, _) =>
      Some ((st_base st + st_pos st + ms)%nat, (st_base st + st_pos st + me)%nat,
            {| st_base := st_base st; st_pos := (st_pos st + me - back)%nat; st_used := st_used st |})
    | None =>
      let st1 := if Nat.ltb (st_pos st + overlap) (st_used st)
                 then {| st_base := st_base st; st_pos := (st_used st - overlap)%nat; st_used := st_used st |}
                 else st in
      let before := st_used st1 in
      let st2 := refill file st1 in
      if Nat.ltb before buf_size && Nat.eqb before (st_used st2) then None
      else start_state back fuel' file st2
    end
  end.

(* ffuel: the fuel of each Find call (4 * length file + 4 suffices; computed once) *)
Fixpoint win_scan (caret : bool) (fuel ffuel : nat) (file : bytes) (st : sstate) : list (nat * marker) :=
  match fuel with
  | O => []
  | S fuel' =>
    match win_find caret ffuel file st with
    | Some (p, m, st') => (p, m) :: win_scan caret fuel' ffuel file st'
    | None => []
    end
  end.

(* ---------- the same search without windows ---------- *)
(* bol: a marker may begin here (the previous byte is an EOL, or the search begins here) *)
Fixpoint ideal_scan (off : nat) (bol : bool) (s : bytes) : list (nat * marker) :=
  match s with
  | [] => []
  | b :: s' =>
    let rest := ideal_scan (S off) (is_eol b) s' in
    if bol then
      match marker_at s with
      | Some (m, _) => (off, m) :: rest
      | None => rest
      end
    else rest
  end.

(* ---------- locateObjects ---------- *)
Fixpoint parse_dec (acc : N) (s : bytes) : N :=
  match s with [] => acc | b :: s' => parse_dec (acc * 10 + (b - 48)) s' end.

(* strconv.ParseUint(m[2], 10, 32) below maxXRefSize, strconv.ParseUint(m[3], 10, 16) *)
Definition obj_ref (d1 d2 : bytes) : option (N * N) :=
  let n := parse_dec 0 d1 in
  let g := parse_dec 0 d2 in
  if (n <? Z.to_N maxXRefSize) && (g <=? Z.to_N maxGeneration) then Some (n, g) else None.

Record fobj := { fo_num : N; fo_gen : N; fo_start : nat }.
Record fsec := {
  fs_xref : nat; fs_trailer : nat; fs_startxref : nat; fs_eof : nat;
  fs_objs : list fobj     (* in scan order *)
}.
Definition empty_sec : fsec := {| fs_xref := 0; fs_trailer := 0; fs_startxref := 0; fs_eof := 0; fs_objs := [] |}.

Record lstate := { ls_done : list fsec (* newest first *); ls_cur : fsec; ls_used : bool; ls_intr : bool }.
Definition finish (st : lstate) : lstate :=
  {| ls_done := if ls_used st then ls_cur st :: ls_done st else ls_done st;
     ls_cur := empty_sec; ls_used := false; ls_intr := false |}.

Definition lstep (st : lstate) (pm : nat * marker) : lstate :=
  let '(pos, m) := pm in
  let c := ls_cur st in
  match m with
  | MObj d1 d2 =>
    match obj_ref d1 d2 with
    | None => st
    | Some (n, g) =>
      let st := if ls_intr st then finish st else st in
      let c := ls_cur st in
      {| ls_done := ls_done st;
         ls_cur := {| fs_xref := fs_xref c; fs_trailer := fs_trailer c; fs_startxref := fs_startxref c; fs_eof := fs_eof c;
                      fs_objs := fs_objs c ++ [{| fo_num := n; fo_gen := g; fo_start := pos |}] |};
         ls_used := true; ls_intr := ls_intr st |}
    end
  | MXref =>
    {| ls_done := ls_done st;
       ls_cur := {| fs_xref := pos; fs_trailer := fs_trailer c; fs_startxref := fs_startxref c; fs_eof := fs_eof c; fs_objs := fs_objs c |};
       ls_used := true; ls_intr := true |}
  | MTrailer =>
    {| ls_done := ls_done st;
       ls_cur := {| fs_xref := fs_xref c; fs_trailer := pos; fs_startxref := fs_startxref c; fs_eof := fs_eof c; fs_objs := fs_objs c |};
       ls_used := true; ls_intr := true |}
  | MStartxref =>
    {| ls_done := ls_done st;
       ls_cur := {| fs_xref := fs_xref c; fs_trailer := fs_trailer c; fs_startxref := pos; fs_eof := fs_eof c; fs_objs := fs_objs c |};
       ls_used := true; ls_intr := true |}
  | MEOF =>
    finish {| ls_done := ls_done st;
              ls_cur := {| fs_xref := fs_xref c; fs_trailer := fs_trailer c; fs_startxref := fs_startxref c; fs_eof := pos; fs_objs := fs_objs c |};
              ls_used := ls_used st; ls_intr := ls_intr st |}
  end.

Definition locate (ms : list (nat * marker)) : list fsec :=
  rev (ls_done (finish (fold_left lstep ms {| ls_done := []; ls_cur := empty_sec; ls_used := false; ls_intr := false |}))).

Definition all_objs (secs : list fsec) : list fobj := flat_map fs_objs secs.

(* ---------- checkObjects ---------- *)
(* the outcome of ReadIndirectObject at an offset of the (possibly truncated) data *)
Inductive pres (V : Type) := POk (v : V) | PMalformed | PEOF | POther.
Arguments POk {V} v. Arguments PMalformed {V}. Arguments PEOF {V}. Arguments POther {V}.

Record cobj (V : Type) := { co_obj : fobj; co_broken : bool; co_val : option V }.
Arguments co_obj {V}. Arguments co_broken {V}. Arguments co_val {V}.

Fixpoint check_objects {V} (pc : nat -> pres V) (objs : list fobj) : res (list (cobj V)) :=
  match objs with
  | [] => Ok []
  | o :: objs' =>
    match pc (fo_start o) with
    | POther => Err Other
    | r =>
      match check_objects pc objs' with
      | Err c => Err c
      | Ok l =>
        Ok ({| co_obj := o;
               co_broken := match r with POk _ => false | _ => true end;
               co_val := match r with POk v => Some v | _ => None end |} :: l)
      end
    end
  end.

(* SequentialScan, given the outcome of the marker search (None: no header found) and the parse outcomes *)
Definition seq_scan {V} (ms : option (list (nat * marker))) (pc : nat -> pres V) : res (list (cobj V)) :=
  match ms with
  | None => Err Other                                  (* errNoPDF *)
  | Some l =>
    match locate l with
    | [] => Err Malformed                              (* no PDF content found in file *)
    | secs => check_objects pc (all_objs secs)
    end
  end.

(* the two searches *)
(* the marker search begins at the byte that follows the version number (h - 1) *)
Definition scan_ideal (data : bytes) : option (list (nat * marker)) :=
  match find_start data with
  | Some (_, h, _) => Some (ideal_scan (h - 1) false (skipn (h - 1) data))
  | None => None
  end.
Definition scan_windows (data : bytes) : option (list (nat * marker)) :=
  match start_state 1 (S (S (length data))) data {| st_base := 0; st_pos := 0; st_used := 0 |} with
  | Some (_, _, st) => Some (win_scan false (S (length data)) (4 * length data + 4) data st)
  | None => None
  end.
(* the search BEFORE fix F24 (documentation): `^` at every slice start, nothing given back *)
Definition scan_windows_pre_F24 (data : bytes) : option (list (nat * marker)) :=
  match start_state 0 (S (S (length data))) data {| st_base := 0; st_pos := 0; st_used := 0 |} with
  | Some (_, _, st) => Some (win_scan true (S (length data)) (4 * length data + 4) data st)
  | None => None
  end.

(* ---------- indexObjects / makeXRef ---------- *)
(* the last definition of a reference wins *)
Fixpoint index_lookup {V} (l : list (cobj V)) (num gen : N) (acc : option (cobj V)) : option (cobj V) :=
  match l with
  | [] => acc
  | o :: l' =>
    index_lookup l' num gen
      (if (fo_num (co_obj o) =? num) && (fo_gen (co_obj o) =? gen) then Some o else acc)
  end.

(* makeXRef: number -> (offset, generation); broken objects are skipped, a lower generation does not replace a higher one *)
Fixpoint xref_lookup {V} (l : list (cobj V)) (num : N) (acc : option (nat * N)) : option (nat * N) :=
  match l with
  | [] => acc
  | o :: l' =>
    let acc' :=
      if co_broken o || negb (fo_num (co_obj o) =? num) then acc
      else match acc with
           | Some (_, g) => if fo_gen (co_obj o) <? g then acc else Some (fo_start (co_obj o), fo_gen (co_obj o))
           | None => Some (fo_start (co_obj o), fo_gen (co_obj o))
           end in
    xref_lookup l' num acc'
  end.

(* ---------- getTrailer (MakeReader) ---------- *)
(* the outcome of reading a trailer candidate: a dictionary, malformed or cut-off content, or
   a failing byte source (isSourceFailure) *)
Inductive tout (T : Type) := TOk (t : T) | TBad | TSource.
Arguments TOk {T} t. Arguments TBad {T}. Arguments TSource {T}.

(* what getTrailer looks at in one section: the LAST object that checkObjects classified as a
   stream with /Type /XRef and the outcome of reading it (Some d: it has /Root), the position of
   the keyword trailer (0: none) and the outcome of readTrailer there *)
Record tsec (T : Type) := {
  ts_xstm : option (tout (option T));
  ts_trailerpos : nat;
  ts_trailer : tout T
}.
Arguments ts_xstm {T}. Arguments ts_trailerpos {T}. Arguments ts_trailer {T}.

(* sections newest first *)
Fixpoint get_trailer {T} (secs : list (tsec T)) : res T :=
  match secs with
  | [] => Err Other                               (* no trailer found *)
  | s :: rest =>
    match ts_xstm s with
    | Some (TOk (Some d)) => Ok d                 (* method 1: a cross-reference stream with /Root *)
    | Some TSource => Err (IO 0)
    | _ =>
      (* method 2: the trailer dictionary of the section *)
      if Nat.eqb (ts_trailerpos s) 0 then get_trailer rest
      else match ts_trailer s with
           | TOk d => Ok d
           | TSource => Err (IO 0)
           | TBad => get_trailer rest
           end
    end
  end.

(* the view of a located section: px tells which located objects are xref streams (and how
   reading them ends), pt how readTrailer ends at a position *)
Fixpoint last_some {A B} (f : A -> option B) (l : list A) (acc : option B) : option B :=
  match l with
  | [] => acc
  | x :: l' => last_some f l' (match f x with Some y => Some y | None => acc end)
  end.
Definition section_tsec {T} (px : nat -> option (tout (option T))) (pt : nat -> tout T) (s : fsec) : tsec T :=
  {| ts_xstm := last_some (fun o => px (fo_start o)) (fs_objs s) None;
     ts_trailerpos := fs_trailer s;
     ts_trailer := pt (fs_trailer s) |}.
Definition scan_trailer {T} (px : nat -> option (tout (option T))) (pt : nat -> tout T) (secs : list fsec) : res T :=
  get_trailer (map (section_tsec px pt) (rev secs)).
