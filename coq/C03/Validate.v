(* C03: a strict validator of the file structure of ISO 32000-2 §7.5 (header,
   trailer, cross-reference table or stream, indirect objects, streams, object
   streams).  Written from the specification; shares no definitions with the
   reader model of C02 (only the datatype of values).  Definitions only.

   [orc] is the oracle table for data that zlib (and, in encrypted files, the
   cipher) has to decode: raw stream body -> decoded bytes, computed by the Go
   harness with compress/zlib.  A body that needs decoding and is not in the
   table is an error, never a guess. *)
From Coq Require Import List NArith ZArith Bool.
From GoPdf.Base Require Import Bytes.
From GoPdf.C02 Require Import Obj.
From GoPdf.C03 Require Import PSyntax.
Import ListNotations.
Open Scope N_scope.

Inductive vres (A : Type) :=
| VOk (a : A)
| VErr (code : N).
Arguments VOk {A} a.
Arguments VErr {A} code.

Definition vbind {A B} (r : vres A) (f : A -> vres B) : vres B :=
  match r with VOk a => f a | VErr c => VErr c end.
Notation "'do' x <- r ; k" := (vbind r (fun x => k)) (at level 200, x name, r at level 100, k at level 200).
Notation "'do' ' p <- r ; k" := (vbind r (fun x => match x with p => k end))
  (at level 200, p pattern, r at level 100, k at level 200).

Definition opt {A} (code : N) (o : option A) : vres A :=
  match o with Some a => VOk a | None => VErr code end.
Definition guard (code : N) (b : bool) : vres unit := if b then VOk tt else VErr code.

(* error codes (the driver prints their names) *)
Definition E_HEADER := 1.        Definition E_TAIL := 2.          Definition E_XREFPOS := 3.
Definition E_SUBSECTION := 4.    Definition E_LINE := 5.          Definition E_OBJ0 := 6.
Definition E_TRAILER := 7.       Definition E_SIZE := 8.          Definition E_PREV := 9.
Definition E_XSTM_DICT := 10.    Definition E_XSTM_DATA := 11.    Definition E_INDEX := 12.
Definition E_ORACLE := 13.       Definition E_PREDICTOR := 14.    Definition E_ENTRY_TYPE := 15.
Definition E_OFFSET := 16.       Definition E_OBJ_HEADER := 17.   Definition E_OBJ_NUMBER := 18.
Definition E_OBJ_SYNTAX := 19.   Definition E_OBJ_END := 20.      Definition E_STREAM_EOL := 21.
Definition E_LENGTH := 22.       Definition E_ENDSTREAM := 23.    Definition E_OSTM_ENTRY := 24.
Definition E_OSTM_DICT := 25.    Definition E_OSTM_PAIRS := 26.   Definition E_OSTM_ORDER := 27.
Definition E_OSTM_INDEX := 28.   Definition E_OSTM_OBJ := 29.     Definition E_OSTM_STREAM := 30.
Definition E_ROOT := 31.         Definition E_AFTER_XREF := 32.   Definition E_OSTM_FIRST := 33.

Inductive xentry :=
| XFree (next gen : N)
| XUse (off gen : N)
| XComp (stm idx : N).

Inductive vbody :=
| BObj (o : obj)
| BStream (d : dict) (data_off len : N).

Record vobject := { o_num : N; o_gen : N; o_off : N; o_body : vbody }.

Record vostm := {
  os_num : N; os_n : N; os_first : N;
  os_pairs : list (N * N);
  os_data : bytes
}.

Record vdoc := {
  d_version : N;                       (* 0..7 = 1.0..1.7, 8 = 2.0 *)
  d_xrefpos : N;
  d_xstream : option N;                (* object number of the cross-reference stream *)
  d_size : N;
  d_entries : list xentry;             (* index = object number *)
  d_trailer : dict;
  d_objects : list vobject;            (* one per in-use entry, by object number *)
  d_ostms : list vostm;
  d_members : list (N * N * N * obj);  (* number, container, index, value *)
  d_encrypted : bool
}.

Definition k (l : list N) : bytes := l.
Definition w_pdf : bytes := [37; 80; 68; 70; 45].
Definition w_eof : bytes := [37; 37; 69; 79; 70].
Definition w_startxref : bytes := [115; 116; 97; 114; 116; 120; 114; 101; 102].
Definition w_xref : bytes := [120; 114; 101; 102].
Definition w_trailer : bytes := [116; 114; 97; 105; 108; 101; 114].
Definition w_obj : bytes := [111; 98; 106].
Definition w_endobj : bytes := [101; 110; 100; 111; 98; 106].
Definition w_stream : bytes := [115; 116; 114; 101; 97; 109].
Definition w_endstream : bytes := [101; 110; 100; 115; 116; 114; 101; 97; 109].
Definition n_Length : bytes := [76; 101; 110; 103; 116; 104].
Definition n_Size : bytes := [83; 105; 122; 101].
Definition n_Root : bytes := [82; 111; 111; 116].
Definition n_Prev : bytes := [80; 114; 101; 118].
Definition n_Encrypt : bytes := [69; 110; 99; 114; 121; 112; 116].
Definition n_Type : bytes := [84; 121; 112; 101].
Definition n_XRef : bytes := [88; 82; 101; 102].
Definition n_W : bytes := [87].
Definition n_Index : bytes := [73; 110; 100; 101; 120].
Definition n_Filter : bytes := [70; 105; 108; 116; 101; 114].
Definition n_DecodeParms : bytes := [68; 101; 99; 111; 100; 101; 80; 97; 114; 109; 115].
Definition n_FlateDecode : bytes := [70; 108; 97; 116; 101; 68; 101; 99; 111; 100; 101].
Definition n_Predictor : bytes := [80; 114; 101; 100; 105; 99; 116; 111; 114].
Definition n_Columns : bytes := [67; 111; 108; 117; 109; 110; 115].
Definition n_ObjStm : bytes := [79; 98; 106; 83; 116; 109].
Definition n_N : bytes := [78].
Definition n_First : bytes := [70; 105; 114; 115; 116].
Definition n_Crypt : bytes := [67; 114; 121; 112; 116].

Definition at_ (off : N) (f : bytes) : bytes := skipn (N.to_nat off) f.
Definition sub (off len : N) (f : bytes) : bytes := firstn (N.to_nat len) (at_ off f).
Definition blen (s : bytes) : N := N.of_nat (length s).

Fixpoint olookup (key : bytes) (t : list (bytes * bytes)) : option bytes :=
  match t with
  | [] => None
  | (a, b) :: r => if bytes_eqb key a then Some b else olookup key r
  end.

(* one end-of-line marker: CR LF, LF or CR *)
Definition eol_len (s : bytes) : option nat :=
  match s with
  | 13 :: 10 :: _ => Some 2%nat
  | 10 :: _ => Some 1%nat
  | 13 :: _ => Some 1%nat
  | _ => None
  end.

(* ---- 7.5.2 header ---- *)
Definition header_version (f : bytes) : option N :=
  if vprefix w_pdf f then
    match skipn 5 f with
    | 49 :: 46 :: d :: e :: _ =>
      if (48 <=? d) && (d <=? 55) && veol e then Some (d - 48) else None
    | 50 :: 46 :: 48 :: e :: _ => if veol e then Some 8 else None
    | _ => None
    end
  else None.

(* ---- 7.5.5 the end of the file: "startxref" EOL digits EOL "%%EOF" [EOL] ---- *)
Definition tail_parse (t : bytes) : option N :=
  if vprefix w_startxref t then
    let t1 := skipn 9 t in
    match eol_len t1 with
    | Some e1 =>
      match vnat (skipn e1 t1) with
      | Some (xp, t2) =>
        match eol_len t2 with
        | Some e2 =>
          let t3 := skipn e2 t2 in
          if vprefix w_eof t3 then
            match skipn 5 t3 with
            | [] | [10] | [13] | [13; 10] => Some xp
            | _ => None
            end
          else None
        | None => None
        end
      | None => None
      end
    | None => None
    end
  else None.

(* the start of the last line that reads "startxref": found from the end *)
Fixpoint rfind (pat : bytes) (rs : bytes) (i : nat) (fuel : nat) : option nat :=
  match fuel with
  | O => None
  | S fu =>
    if vprefix pat rs then Some i
    else match rs with
         | [] => None
         | _ :: r => rfind pat r (S i) fu
         end
  end.

Definition find_tail (f : bytes) : option (N * N) :=
  (* position of the last "startxref": search the reversed file for the reversed word,
     within the last 64 bytes *)
  match rfind (rev w_startxref) (rev_append f []) 0 64 with
  | Some i =>
    let p := (length f - i - 9)%nat in
    match tail_parse (skipn p f) with
    | Some xp => Some (N.of_nat p, xp)
    | None => None
    end
  | None => None
  end.

(* ---- 7.5.4 cross-reference table ---- *)
Definition alld (s : bytes) : bool := forallb vdigit s.
Definition dval (s : bytes) : N := let '(v, _, _) := digits_val s 0 in v.

(* one 20-byte entry *)
Definition line_entry (l : bytes) : option xentry :=
  match l with
  | [a0; a1; a2; a3; a4; a5; a6; a7; a8; a9; s1; g0; g1; g2; g3; g4; s2; t; e1; e2] =>
    let a := [a0; a1; a2; a3; a4; a5; a6; a7; a8; a9] in
    let g := [g0; g1; g2; g3; g4] in
    if alld a && alld g && (s1 =? 32) && (s2 =? 32) &&
       (((e1 =? 32) && (e2 =? 10)) || ((e1 =? 32) && (e2 =? 13)) || ((e1 =? 13) && (e2 =? 10)))
    then
      if t =? 110 then Some (XUse (dval a) (dval g))
      else if t =? 102 then Some (XFree (dval a) (dval g))
      else None
    else None
  | _ => None
  end.

Fixpoint table_entries (cnt : nat) (s : bytes) : option (list xentry * bytes) :=
  match cnt with
  | O => Some ([], s)
  | S c =>
    match line_entry (firstn 20 s) with
    | Some e =>
      match table_entries c (skipn 20 s) with
      | Some (l, r) => Some (e :: l, r)
      | None => None
      end
    | None => None
    end
  end.

Definition dget := dict_get.

Definition dict_int (key : bytes) (d : dict) : option Z :=
  match dget key d with Some (OInt z) => Some z | _ => None end.

(* "xref" EOL "0 size" EOL entries "trailer" dict ; returns entries, trailer, offset of the table
   relative to the section start, and what follows the trailer dictionary *)
Definition read_table (s : bytes) : vres (list xentry * dict * N * bytes) :=
  do _ <- guard E_XREFPOS (vprefix w_xref s);
  let s1 := skipn 4 s in
  do e1 <- opt E_XREFPOS (eol_len s1);
  let s2 := skipn e1 s1 in
  do '(start, s3) <- opt E_SUBSECTION (vnat s2);
  do _ <- guard E_SUBSECTION (match s3 with 32 :: _ => true | _ => false end);
  do '(cnt, s4) <- opt E_SUBSECTION (vnat (skipn 1 s3));
  do _ <- guard E_SUBSECTION (start =? 0);
  (* the line may end with optional spaces before the EOL? no: strictly an EOL *)
  do e2 <- opt E_SUBSECTION (eol_len s4);
  let s5 := skipn e2 s4 in
  let toff := blen s - blen s5 in
  do '(ents, s6) <- opt E_LINE (table_entries (N.to_nat cnt) s5);
  (* a file that was never updated has exactly one subsection (7.5.4) *)
  do _ <- guard E_SUBSECTION (vprefix w_trailer s6);
  do '(tv, s7) <- opt E_TRAILER (vvalue (skipn 7 s6));
  match tv with
  | ODict d => VOk (ents, d, toff, s7)
  | _ => VErr E_TRAILER
  end.

(* ---- 7.5.8 cross-reference streams ---- *)
Fixpoint beval (s : bytes) (acc : N) : N :=
  match s with [] => acc | b :: r => beval r (acc * 256 + b) end.

Definition row_entry (w0 w1 w2 : nat) (row : bytes) : option xentry :=
  let tp := if Nat.eqb w0 0 then 1 else beval (firstn w0 row) 0 in
  let a := beval (firstn w1 (skipn w0 row)) 0 in
  let b := beval (skipn (w0 + w1) row) 0 in
  match tp with
  | 0 => Some (XFree a b)
  | 1 => Some (XUse a b)
  | 2 => Some (XComp a b)
  | _ => None
  end.

Fixpoint rows_entries (cnt : nat) (w0 w1 w2 : nat) (s : bytes) : option (list xentry * bytes) :=
  match cnt with
  | O => Some ([], s)
  | S c =>
    let rl := (w0 + w1 + w2)%nat in
    let row := firstn rl s in
    if Nat.eqb (length row) rl then
      match row_entry w0 w1 w2 row with
      | Some e =>
        match rows_entries c w0 w1 w2 (skipn rl s) with
        | Some (l, r) => Some (e :: l, r)
        | None => None
        end
      | None => None
      end
    else None
  end.

(* PNG predictors of 7.4.4.4, 8 bits per component, one colour: None, Sub, Up *)
Fixpoint zipadd (a b : bytes) : bytes :=
  match a, b with
  | x :: a', y :: b' => ((x + y) mod 256) :: zipadd a' b'
  | x :: a', [] => x :: zipadd a' []
  | [], _ => []
  end.
Fixpoint unsub (prev : N) (a : bytes) : bytes :=
  match a with
  | [] => []
  | x :: r => let v := (x + prev) mod 256 in v :: unsub v r
  end.

Fixpoint unpredict (fuel : nat) (cols : nat) (prev : bytes) (s : bytes) : option bytes :=
  match fuel with
  | O => None
  | S fu =>
    match s with
    | [] => Some []
    | tag :: r =>
      let raw := firstn cols r in
      if Nat.eqb (length raw) cols then
        let cur := match tag with
                   | 0 => Some raw
                   | 1 => Some (unsub 0 raw)
                   | 2 => Some (zipadd raw prev)
                   | _ => None
                   end in
        match cur with
        | Some c =>
          match unpredict fu cols c (skipn cols r) with
          | Some t => Some (c ++ t)
          | None => None
          end
        | None => None
        end
      else None
    end
  end.

(* the filter of a stream dictionary, as far as the validator itself decodes:
   none, or FlateDecode alone (by the oracle) *)
Inductive vfilter := FNone | FFlate | FOther.
Definition filter_of (d : dict) : vfilter :=
  match dget n_Filter d with
  | None => FNone
  | Some (OArr []) => FNone
  | Some (OName f) => if bytes_eqb f n_FlateDecode then FFlate else FOther
  | Some (OArr [OName f]) => if bytes_eqb f n_FlateDecode then FFlate else FOther
  | _ => FOther
  end.

Definition parms_of (d : dict) : dict :=
  match dget n_DecodeParms d with
  | Some (ODict p) => p
  | Some (OArr [ODict p]) => p
  | _ => []
  end.

Definition has_crypt (d : dict) : bool :=
  match dget n_Filter d with
  | Some (OName f) => bytes_eqb f n_Crypt
  | Some (OArr (OName f :: _)) => bytes_eqb f n_Crypt
  | _ => false
  end.

(* decoded data of a stream: the body itself if nothing encodes it, else the oracle's answer *)
Definition payload (orc : list (bytes * bytes)) (enc : bool) (d : dict) (body : bytes) : option bytes :=
  match filter_of d with
  | FNone => if enc then olookup body orc else Some body
  | _ => olookup body orc
  end.

(* subsections of /Index must tile [0, Size) in increasing order *)
Fixpoint index_tiles (l : list obj) (next : N) : option (list (N * N)) :=
  match l with
  | [] => Some []
  | OInt a :: OInt b :: r =>
    if (a =? Z.of_N next)%Z && (0 <? b)%Z then
      match index_tiles r (next + Z.to_N b) with
      | Some t => Some ((Z.to_N a, Z.to_N b) :: t)
      | None => None
      end
    else None
  | _ => None
  end.

(* ---- 7.3.10 indirect objects, 7.3.8 streams ---- *)

(* "N G obj" exactly at [off]; the byte before is white space *)
Definition header_at (f : bytes) (off : N) : option (N * N * bytes) :=
  let before_ok :=
    if off =? 0 then true
    else match at_ (off - 1) f with b :: _ => vws b | [] => false end in
  if before_ok then
    match vnat (at_ off f) with
    | Some (n, s1) =>
      match s1 with
      | b1 :: _ =>
        if vws b1 then
          match vnat (skipsp s1) with
          | Some (g, s2) =>
            match s2 with
            | b2 :: _ =>
              if vws b2 then
                match kwd w_obj (skipsp s2) with
                | Some s3 => Some (n, g, s3)
                | None => None
                end
              else None
            | [] => None
            end
          | None => None
          end
        else None
      | [] => None
      end
    | None => None
    end
  else None.

(* an integer object: the target of an indirect /Length *)
Definition int_object_at (f : bytes) (off n g : N) : option Z :=
  match header_at f off with
  | Some (n', g', s) =>
    if (n' =? n) && (g' =? g) then
      match vvalue s with
      | Some (OInt z, r) =>
        match kwd w_endobj (skipws r) with Some _ => Some z | None => None end
      | _ => None
      end
    else None
  | None => None
  end.

Definition resolve_length (f : bytes) (ents : list xentry) (d : dict) : option N :=
  match dget n_Length d with
  | Some (OInt z) => if (0 <=? z)%Z then Some (Z.to_N z) else None
  | Some (ORef n g) =>
    match nth_error ents (N.to_nat n) with
    | Some (XUse off g') =>
      if g' =? g then
        match int_object_at f off n g with
        | Some z => if (0 <=? z)%Z then Some (Z.to_N z) else None
        | None => None
        end
      else None
    | _ => None
    end
  | _ => None
  end.

(* the object whose entry is (n, off, g); returns it and the offset just after "endobj" *)
Definition object_at (f : bytes) (ents : list xentry) (n off g : N) : vres (vobject * N) :=
  do _ <- guard E_OFFSET (off <? blen f);
  do '(n', g', s) <- opt E_OBJ_HEADER (header_at f off);
  do _ <- guard E_OBJ_NUMBER ((n' =? n) && (g' =? g));
  do '(o, r) <- opt E_OBJ_SYNTAX (vvalue s);
  let r1 := skipws r in
  match kwd w_endobj r1 with
  | Some r2 =>
    VOk ({| o_num := n; o_gen := g; o_off := off; o_body := BObj o |}, blen f - blen r2)
  | None =>
    match o with
    | ODict d =>
      do _ <- guard E_OBJ_END (vprefix w_stream r1);
      let r2 := skipn 6 r1 in
      (* "stream" is followed by CR LF or LF, not by CR alone (7.3.8.1) *)
      do e <- opt E_STREAM_EOL (match r2 with
                                | 13 :: 10 :: _ => Some 2%nat
                                | 10 :: _ => Some 1%nat
                                | _ => None
                                end);
      let body := skipn e r2 in
      let boff := blen f - blen body in
      do len <- opt E_LENGTH (resolve_length f ents d);
      do _ <- guard E_LENGTH (len <=? blen body);
      let after := skipn (N.to_nat len) body in
      do e2 <- opt E_ENDSTREAM (eol_len after);
      let a1 := skipn e2 after in
      do a2 <- opt E_ENDSTREAM (kwd w_endstream a1);
      do a3 <- opt E_OBJ_END (kwd w_endobj (skipws a2));
      VOk ({| o_num := n; o_gen := g; o_off := off; o_body := BStream d boff len |}, blen f - blen a3)
    | _ => VErr E_OBJ_END
    end
  end.

Fixpoint objects_of (f : bytes) (all : list xentry) (ents : list xentry) (i : N) : vres (list vobject) :=
  match ents with
  | [] => VOk []
  | XUse off g :: r =>
    do '(o, _) <- object_at f all i off g;
    do t <- objects_of f all r (i + 1);
    VOk (o :: t)
  | _ :: r => objects_of f all r (i + 1)
  end.

Fixpoint find_object (n : N) (l : list vobject) : option vobject :=
  match l with
  | [] => None
  | o :: r => if o_num o =? n then Some o else find_object n r
  end.

(* ---- 7.5.7 object streams ---- *)
Fixpoint ostm_pairs (cnt : nat) (s : bytes) : option (list (N * N) * bytes) :=
  match cnt with
  | O => Some ([], s)
  | S c =>
    match vnat (skipsp s) with
    | Some (a, s1) =>
      match s1 with
      | w :: _ =>
        if vws w then
          match vnat (skipsp s1) with
          | Some (b, s2) =>
            match ostm_pairs c s2 with
            | Some (l, r) => Some ((a, b) :: l, r)
            | None => None
            end
          | None => None
          end
        else None
      | [] => None
      end
    | None => None
    end
  end.

Fixpoint increasing (l : list N) : bool :=
  match l with
  | a :: ((b :: _) as r) => (a <? b) && increasing r
  | _ => true
  end.

Definition read_ostm (orc : list (bytes * bytes)) (enc : bool) (f : bytes) (objs : list vobject) (sn : N)
  : vres vostm :=
  do o <- opt E_OSTM_ENTRY (find_object sn objs);
  do _ <- guard E_OSTM_ENTRY (o_gen o =? 0);
  match o_body o with
  | BStream d boff len =>
    do _ <- guard E_OSTM_DICT (match dget n_Type d with Some (OName t) => bytes_eqb t n_ObjStm | _ => false end);
    do n <- opt E_OSTM_DICT (dict_int n_N d);
    do first <- opt E_OSTM_DICT (dict_int n_First d);
    do _ <- guard E_OSTM_DICT ((0 <=? n)%Z && (0 <=? first)%Z);
    do data <- opt E_ORACLE (payload orc (enc && negb (has_crypt d)) d (sub boff len f));
    do '(pairs, rest) <- opt E_OSTM_PAIRS (ostm_pairs (Z.to_nat n) data);
    do _ <- guard E_OSTM_FIRST (blen data - blen rest <=? Z.to_N first);
    do _ <- guard E_OSTM_FIRST (Z.to_N first <=? blen data);
    do _ <- guard E_OSTM_ORDER (increasing (map snd pairs));
    VOk {| os_num := sn; os_n := Z.to_N n; os_first := Z.to_N first; os_pairs := pairs; os_data := data |}
  | _ => VErr E_OSTM_ENTRY
  end.

Fixpoint find_ostm (n : N) (l : list vostm) : option vostm :=
  match l with
  | [] => None
  | o :: r => if os_num o =? n then Some o else find_ostm n r
  end.

Fixpoint containers (ents : list xentry) (acc : list N) : list N :=
  match ents with
  | [] => rev acc
  | XComp s _ :: r => if existsb (N.eqb s) acc then containers r acc else containers r (s :: acc)
  | _ :: r => containers r acc
  end.

Fixpoint read_ostms (orc : list (bytes * bytes)) (enc : bool) (f : bytes) (objs : list vobject) (l : list N)
  : vres (list vostm) :=
  match l with
  | [] => VOk []
  | s :: r =>
    do o <- read_ostm orc enc f objs s;
    do t <- read_ostms orc enc f objs r;
    VOk (o :: t)
  end.

(* member [idx] of an object stream: its number is [n]; its text lies between
   its offset and the next one (or the end of the data) *)
Definition member (os : vostm) (n idx : N) : vres obj :=
  do '(num, off) <- opt E_OSTM_INDEX (nth_error (os_pairs os) (N.to_nat idx));
  do _ <- guard E_OSTM_INDEX (num =? n);
  let stop := match nth_error (os_pairs os) (S (N.to_nat idx)) with
              | Some (_, off') => os_first os + off'
              | None => blen (os_data os)
              end in
  do _ <- guard E_OSTM_OBJ (os_first os + off <=? stop);
  let text := sub (os_first os + off) (stop - (os_first os + off)) (os_data os) in
  do '(o, rest) <- opt E_OSTM_OBJ (vvalue text);
  do _ <- guard E_OSTM_STREAM (match skipws rest with [] => true | _ => false end);
  VOk o.

Fixpoint members_of (oss : list vostm) (ents : list xentry) (i : N) : vres (list (N * N * N * obj)) :=
  match ents with
  | [] => VOk []
  | XComp s idx :: r =>
    do os <- opt E_OSTM_ENTRY (find_ostm s oss);
    do o <- member os i idx;
    do t <- members_of oss r (i + 1);
    VOk ((i, s, idx, o) :: t)
  | _ :: r => members_of oss r (i + 1)
  end.

(* ---- the cross-reference stream object at [xp] ---- *)
Definition read_xstream (orc : list (bytes * bytes)) (f : bytes) (xp : N)
  : vres (N * list xentry * dict * N) :=
  do '(n, g, _) <- opt E_XREFPOS (header_at f xp);
  do '(o, endpos) <- object_at f [] n xp g;
  match o_body o with
  | BStream d boff len =>
    do _ <- guard E_XSTM_DICT (match dget n_Type d with Some (OName t) => bytes_eqb t n_XRef | _ => false end);
    do size <- opt E_XSTM_DICT (dict_int n_Size d);
    do _ <- guard E_XSTM_DICT (0 <=? size)%Z;
    do '(w0, w1, w2) <- opt E_XSTM_DICT
         (match dget n_W d with
          | Some (OArr [OInt a; OInt b; OInt c]) =>
            if (0 <=? a)%Z && (0 <=? b)%Z && (0 <=? c)%Z && (a <=? 8)%Z && (b <=? 8)%Z && (c <=? 8)%Z
            then Some (Z.to_nat a, Z.to_nat b, Z.to_nat c) else None
          | _ => None
          end);
    do ss <- opt E_INDEX
         (match dget n_Index d with
          | None => Some [(0, Z.to_N size)]
          | Some (OArr l) => index_tiles l 0
          | Some _ => None
          end);
    do _ <- guard E_INDEX (fold_left (fun t p => t + snd p) ss 0 =? Z.to_N size);
    let body := sub boff len f in
    do raw <- match filter_of d with
              | FNone => VOk body
              | FFlate => opt E_ORACLE (olookup body orc)
              | FOther => VErr E_XSTM_DICT
              end;
    let p := parms_of d in
    let pred := match dict_int n_Predictor p with Some z => z | None => 1%Z end in
    let cols := match dict_int n_Columns p with Some z => Z.to_nat z | None => 1%nat end in
    do data <- (if (pred =? 1)%Z then VOk raw
                else if (10 <=? pred)%Z && (pred <=? 15)%Z then
                  opt E_PREDICTOR (unpredict (S (length raw)) cols (repeat 0 cols) raw)
                else VErr E_PREDICTOR);
    do '(ents, rest) <- opt E_XSTM_DATA (rows_entries (Z.to_nat size) w0 w1 w2 data);
    do _ <- guard E_XSTM_DATA (match rest with [] => true | _ => false end);
    VOk (n, ents, d, endpos)
  | _ => VErr E_XREFPOS
  end.

(* ---- the whole file ---- *)
Definition validate (orc : list (bytes * bytes)) (f : bytes) : vres vdoc :=
  do v <- opt E_HEADER (header_version f);
  do '(tpos, xp) <- opt E_TAIL (find_tail f);
  do _ <- guard E_XREFPOS ((0 <? xp) && (xp <? tpos));
  do '(xs, ents, tr, endpos) <-
     (if vprefix w_xref (at_ xp f) then
        do '(ents, tr, _, rest) <- read_table (at_ xp f);
        VOk (None, ents, tr, blen f - blen rest)
      else
        do '(n, ents, tr, endpos) <- read_xstream orc f xp;
        VOk (Some n, ents, tr, endpos));
  (* between the section and "startxref": white space only *)
  do _ <- guard E_AFTER_XREF (blen (skipws (at_ endpos f)) =? blen f - tpos);
  do size <- opt E_SIZE (dict_int n_Size tr);
  do _ <- guard E_SIZE ((0 <=? size)%Z && (Z.to_N size =? N.of_nat (length ents)));
  do _ <- guard E_PREV (match dget n_Prev tr with None => true | Some _ => false end);
  do _ <- guard E_ROOT (match dget n_Root tr with Some (ORef _ _) => true | _ => false end);
  do _ <- guard E_OBJ0 (match ents, xs with
                        | XFree _ g :: _, None => g =? 65535
                        | XFree _ _ :: _, Some _ => true
                        | _, _ => false
                        end);
  let enc := match dget n_Encrypt tr with Some _ => true | None => false end in
  do objs <- objects_of f ents ents 0;
  do oss <- read_ostms orc enc f objs (containers ents []);
  do mem <- members_of oss ents 0;
  VOk {| d_version := v; d_xrefpos := xp; d_xstream := xs; d_size := Z.to_N size;
         d_entries := ents; d_trailer := tr; d_objects := objs; d_ostms := oss;
         d_members := mem; d_encrypted := enc |}.

(* two boundaries that the chain above does not look at: the byte before the
   cross-reference section is white space and "startxref" starts a line *)
Definition E_BOUNDARY := 34.
Definition prev_is (p : byte -> bool) (f : bytes) (off : N) : bool :=
  if off =? 0 then false
  else match at_ (off - 1) f with b :: _ => p b | [] => false end.
Definition boundaries_ok (f : bytes) (d : vdoc) : bool :=
  prev_is vws f (d_xrefpos d) &&
  match find_tail f with Some (tpos, _) => prev_is veol f tpos | None => false end.

(* 7.3.8.2, Table 5: /Filter is a name or an array of names; /DecodeParms belongs to it - for a
   single name a dictionary, for an array an array with exactly one entry, dictionary or null, per
   filter; it may be absent (all parameters default) *)
Definition E_FILTERS := 35.
Definition is_name (o : obj) : bool := match o with OName _ => true | _ => false end.
Definition parm_entry_ok (o : obj) : bool := match o with ODict _ | ONull => true | _ => false end.
Definition filters_ok (d : dict) : bool :=
  match dget n_Filter d, dget n_DecodeParms d with
  | None, _ => true                                    (* parameters of no filter: of no effect *)
  | Some (OName _), None => true
  | Some (OName _), Some (ODict _) => true
  | Some (OArr names), None => forallb is_name names
  | Some (OArr names), Some (OArr pp) =>
    forallb is_name names && Nat.eqb (length pp) (length names) && forallb parm_entry_ok pp
  | _, _ => false
  end.
Definition filters_doc_ok (d : vdoc) : bool :=
  forallb (fun o => match o_body o with BStream sd _ _ => filters_ok sd | BObj _ => true end) (d_objects d).

Definition validate_strict (orc : list (bytes * bytes)) (f : bytes) : vres vdoc :=
  do d <- validate orc f;
  do _ <- guard E_BOUNDARY (boundaries_ok f d);
  do _ <- guard E_FILTERS (filters_doc_ok d);
  VOk d.

(* what the driver prints for a stream: its decoded data *)
Definition stream_payload (orc : list (bytes * bytes)) (f : bytes) (dc : vdoc) (d : dict) (boff len : N)
  : option bytes :=
  payload orc (d_encrypted dc && negb (has_crypt d)) d (sub boff len f).
