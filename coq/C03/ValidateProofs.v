(* C03: lemmas about the strict validator of Validate.v / PSyntax.v.
   Part A: inversion of the result monad, list facts, the leaf parsers.
   Part B: every parser of PSyntax returns a suffix of its input.
   Part C: the structure functions (table, objects, object streams) and [validate_inv].
   Part D: what [validate orc f = VOk d] says about [f] and [d].
   Part W: the writer's field encoding (C02 Writer.v) against the validator's decoder. *)
From Coq Require Import List NArith ZArith Bool Lia ZifyBool.
From GoPdf.Base Require Import Bytes.
From GoPdf.C02 Require Import Obj Writer.
From GoPdf.C03 Require Import PSyntax Validate.
Import ListNotations.
Open Scope N_scope.


(* ================= VPa ================= *)
(* C03: proofs about the validator, part A: inversion, list facts, leaf parsers *)

(* ---------- the result monad ---------- *)
Lemma vbind_ok {A B} (r : vres A) (k : A -> vres B) b :
  vbind r k = VOk b -> exists a, r = VOk a /\ k a = VOk b.
Proof. destruct r; cbn; intro H; [eauto|discriminate]. Qed.

Lemma guard_ok c b u : guard c b = VOk u -> b = true.
Proof. destruct b; cbn; [reflexivity|discriminate]. Qed.

Lemma opt_ok {A} c (o : option A) a : opt c o = VOk a -> o = Some a.
Proof. destruct o; cbn; intro H; [injection H as ->; reflexivity|discriminate]. Qed.

(* peel one [vbind] off hypothesis H: names the intermediate value and its equation *)
Ltac vstep H a Ha :=
  apply vbind_ok in H; destruct H as (a & Ha & H);
  first [apply guard_ok in Ha | apply opt_ok in Ha | idtac];
  cbv beta in H.

(* destruct whatever a hypothesis is matching on, until no match is left *)
Ltac dmatch H :=
  repeat (match type of H with
          | context[match ?x with _ => _ end] =>
            first [ is_var x; destruct x
                  | let E := fresh "E" in destruct x eqn:E ]
          end; try discriminate H).

(* ---------- lists ---------- *)
Lemma skipn_app_exact {A} (p r : list A) : skipn (length p) (p ++ r) = r.
Proof. induction p; cbn; auto. Qed.

Lemma firstn_app_exact {A} (p r : list A) : firstn (length p) (p ++ r) = p.
Proof. induction p; cbn; congruence. Qed.

Lemma skipn_add {A} (a b : nat) (l : list A) : skipn (a + b) l = skipn b (skipn a l).
Proof.
  revert l; induction a as [|a IH]; intro l; [reflexivity|].
  destruct l as [|x l]; cbn [Nat.add skipn]; [now rewrite skipn_nil|apply IH].
Qed.

Lemma skipn_cons_nth {A} (n : nat) (l : list A) b r : skipn n l = b :: r -> nth_error l n = Some b.
Proof.
  revert l; induction n as [|n IH]; intros [|x l]; cbn; intro H; try discriminate.
  - congruence.
  - auto.
Qed.

Definition suffix (r s : bytes) : Prop := exists p, s = p ++ r.

Lemma suffix_refl s : suffix s s.
Proof. exists []; reflexivity. Qed.
Lemma suffix_trans a b c : suffix a b -> suffix b c -> suffix a c.
Proof. intros [p ->] [q ->]. exists (q ++ p). now rewrite app_assoc. Qed.
Lemma suffix_app p r : suffix r (p ++ r).
Proof. now exists p. Qed.
Lemma suffix_cons a r s : suffix r s -> suffix r (a :: s).
Proof. intros [p ->]. now exists (a :: p). Qed.
Lemma suffix_skipn n s : suffix (skipn n s) s.
Proof. exists (firstn n s). symmetry; apply firstn_skipn. Qed.
Lemma suffix_tl a r s : suffix (a :: r) s -> suffix r s.
Proof. intros [p ->]. exists (p ++ [a]). now rewrite <- app_assoc. Qed.
Lemma suffix_len r s : suffix r s -> (length r <= length s)%nat.
Proof. intros [p ->]. rewrite app_length. lia. Qed.
Lemma suffix_at r s : suffix r s -> r = skipn (length s - length r) s.
Proof.
  intros [p ->]. rewrite app_length.
  replace (length p + length r - length r)%nat with (length p) by lia.
  now rewrite skipn_app_exact.
Qed.
Lemma suffix_nil s : suffix [] s.
Proof. exists s. now rewrite app_nil_r. Qed.

(* offsets computed as [blen f - blen r] *)
Lemma blen_diff p r : N.to_nat (blen (p ++ r) - blen r) = length p.
Proof. unfold blen. rewrite app_length. lia. Qed.

Lemma at_blen_diff p r : at_ (blen (p ++ r) - blen r) (p ++ r) = r.
Proof. unfold at_. rewrite blen_diff. apply skipn_app_exact. Qed.

Lemma firstn_blen_diff p r : firstn (N.to_nat (blen (p ++ r) - blen r)) (p ++ r) = p.
Proof. rewrite blen_diff. apply firstn_app_exact. Qed.

(* ---------- words ---------- *)
Lemma vprefix_spec p s : vprefix p s = true -> s = p ++ skipn (length p) s.
Proof.
  revert s; induction p as [|x p IH]; intros [|y s]; cbn [vprefix length skipn app]; intro H;
    try discriminate; auto.
  apply andb_true_iff in H as [H1 H2]. apply N.eqb_eq in H1. subst. f_equal. auto.
Qed.

Lemma kwd_spec l s r : kwd l s = Some r -> s = l ++ r.
Proof.
  unfold kwd. destruct (vprefix l s) eqn:P; cbn [andb]; [|discriminate].
  destruct (vends _); [|discriminate]. intro H; injection H as <-. now apply vprefix_spec.
Qed.

Lemma kwd_suffix l s r : kwd l s = Some r -> suffix r s.
Proof. intro H. apply kwd_spec in H. subst. apply suffix_app. Qed.

(* ---------- end-of-line markers ---------- *)
Definition is_eol (e : bytes) : Prop := e = [10] \/ e = [13] \/ e = [13; 10].

Lemma eol_len_spec s n : eol_len s = Some n ->
  exists e, is_eol e /\ s = e ++ skipn n s /\ length e = n.
Proof.
  unfold eol_len, is_eol. intro H. dmatch H; injection H as <-;
    first [ exists [13; 10]; now auto | exists [10]; now auto | exists [13]; now auto ].
Qed.

(* ---------- digit runs ---------- *)
Definition starts_nondigit (s : bytes) : Prop :=
  match s with [] => True | b :: _ => vdigit b = false end.

Lemma digits_val_spec s : forall acc v rest k,
  digits_val s acc = (v, rest, k) ->
  exists ds, s = ds ++ rest /\ forallb vdigit ds = true /\ length ds = k /\
             digits_val ds acc = (v, [], k) /\ starts_nondigit rest.
Proof.
  induction s as [|b r IH]; intros acc v rest k H; cbn [digits_val] in H.
  - injection H as <- <- <-. exists []. cbn. auto.
  - destruct (vdigit b) eqn:D.
    + destruct (digits_val r (acc * 10 + (b - 48))) as [[v1 r1] k1] eqn:E.
      injection H as <- <- <-.
      apply IH in E. destruct E as (ds & -> & F & L & V & S).
      exists (b :: ds). cbn [app forallb length digits_val]. rewrite D, V, F, L. auto.
    + injection H as <- <- <-. exists []. cbn. auto.
Qed.

Lemma vnat_spec s v rest : vnat s = Some (v, rest) ->
  exists ds, s = ds ++ rest /\ ds <> [] /\ forallb vdigit ds = true /\ dval ds = v /\
             starts_nondigit rest.
Proof.
  unfold vnat. destruct (digits_val s 0) as [[v1 r1] k1] eqn:E. intro H.
  destruct k1; [discriminate|]. injection H as <- <-.
  apply digits_val_spec in E. destruct E as (ds & -> & F & L & V & S).
  exists ds. repeat split; auto.
  - intros ->. discriminate.
  - unfold dval. now rewrite V.
Qed.

Lemma vnat_suffix s v rest : vnat s = Some (v, rest) -> suffix rest s.
Proof. intro H. apply vnat_spec in H. destruct H as (ds & -> & _). apply suffix_app. Qed.

(* ---------- white space ---------- *)
Lemma skipsp_spec s : exists w, s = w ++ skipsp s /\ forallb vws w = true /\
  (forall b r, s = b :: r -> vws b = true -> w <> []).
Proof.
  induction s as [|b r (w & E & F & _)]; cbn [skipsp].
  - exists []. repeat split; auto. discriminate.
  - destruct (vws b) eqn:W.
    + exists (b :: w). cbn [app forallb]. rewrite W, F, <- E. repeat split; auto. discriminate.
    + exists []. repeat split; auto. intros b' r' [= -> ->]. congruence.
Qed.

Lemma skipsp_suffix s : suffix (skipsp s) s.
Proof. destruct (skipsp_spec s) as (w & E & _). now exists w. Qed.

Lemma vsk_suffix s : forall c, suffix (vsk c s) s.
Proof.
  induction s as [|b r IH]; intro c; cbn [vsk]; [apply suffix_refl|].
  destruct c.
  - destruct (veol b); apply suffix_cons, IH.
  - destruct (vws b); [apply suffix_cons, IH|].
    destruct (b =? 37); [apply suffix_cons, IH|apply suffix_refl].
Qed.

Lemma skipws_suffix s : suffix (skipws s) s.
Proof. apply vsk_suffix. Qed.

(* ---------- S1: header ---------- *)
Definition version_text (v : N) : bytes :=
  if v <=? 7 then [49; 46; 48 + v] else [50; 46; 48].

Lemma header_version_spec f v : header_version f = Some v ->
  v <= 8 /\ exists e rest, f = w_pdf ++ version_text v ++ e :: rest /\ veol e = true.
Proof.
  unfold header_version. destruct (vprefix w_pdf f) eqn:P; [|discriminate].
  apply vprefix_spec in P. change (length w_pdf) with 5%nat in P.
  remember (skipn 5 f) as r eqn:R. clear R. subst f. intro H.
  dmatch H; injection H as <-.
  - apply andb_true_iff in E as [E E3]. apply andb_true_iff in E as [E1 E2].
    split; [lia|]. eexists _, _. split; [|eassumption].
    unfold version_text. replace (_ <=? 7) with true by lia.
    match goal with |- context[48 + (?d - 48)] => replace (48 + (d - 48)) with d by lia end.
    reflexivity.
  - split; [lia|]. eexists _, _. split; [|eassumption]. reflexivity.
Qed.

(* ---------- S2: tail ---------- *)
Lemma tail_end_spec (l : bytes) (xp r : N) :
  match l with [] | [10] | [13] | [13; 10] => Some xp | _ => None end = Some r ->
  r = xp /\ (l = [] \/ is_eol l).
Proof. unfold is_eol. intro H. dmatch H; injection H as <-; auto 6. Qed.

Lemma tail_parse_spec t xp : tail_parse t = Some xp ->
  exists e1 ds e2 e3, t = w_startxref ++ e1 ++ ds ++ e2 ++ w_eof ++ e3 /\
    is_eol e1 /\ is_eol e2 /\ (e3 = [] \/ is_eol e3) /\
    ds <> [] /\ forallb vdigit ds = true /\ dval ds = xp.
Proof.
  unfold tail_parse. destruct (vprefix w_startxref t) eqn:P; [|discriminate].
  apply vprefix_spec in P. change (length w_startxref) with 9%nat in P. cbv zeta.
  remember (skipn 9 t) as t1 eqn:R. clear R. subst t.
  destruct (eol_len t1) as [n1|] eqn:E1; [|discriminate].
  apply eol_len_spec in E1. destruct E1 as (e1 & I1 & E1 & _).
  remember (skipn n1 t1) as t1' eqn:R. clear R. subst t1.
  destruct (vnat t1') as [[xp' t2]|] eqn:V; [|discriminate].
  apply vnat_spec in V. destruct V as (ds & -> & NE & F & DV & _).
  destruct (eol_len t2) as [n2|] eqn:E2; [|discriminate].
  apply eol_len_spec in E2. destruct E2 as (e2 & I2 & E2 & _).
  remember (skipn n2 t2) as t3 eqn:R. clear R. subst t2.
  destruct (vprefix w_eof t3) eqn:P; [|discriminate].
  apply vprefix_spec in P. change (length w_eof) with 5%nat in P.
  remember (skipn 5 t3) as e3 eqn:R. clear R. subst t3.
  intro H. apply tail_end_spec in H. destruct H as [-> I3].
  exists e1, ds, e2, e3. auto 10.
Qed.

Lemma find_tail_spec f tpos xp : find_tail f = Some (tpos, xp) ->
  exists p, tpos = N.of_nat p /\ (p <= length f)%nat /\ tail_parse (skipn p f) = Some xp.
Proof.
  unfold find_tail. intro H.
  destruct (rfind _ _ _ _) as [i|]; [|discriminate]. cbv zeta in H.
  destruct (tail_parse _) as [xp'|] eqn:T; [|discriminate].
  injection H as <- <-. eexists. split; [reflexivity|]. split; [lia|exact T].
Qed.

(* ---------- S4: one 20-byte line ---------- *)
Definition is_eol2 (e1 e2 : byte) : Prop :=
  (e1 = 32 /\ e2 = 10) \/ (e1 = 32 /\ e2 = 13) \/ (e1 = 13 /\ e2 = 10).

Lemma is_eol2_of_bool e1 e2 :
  (e1 =? 32) && (e2 =? 10) || (e1 =? 32) && (e2 =? 13) || (e1 =? 13) && (e2 =? 10) = true ->
  is_eol2 e1 e2.
Proof. unfold is_eol2. lia. Qed.

Lemma line_entry_shape l e : line_entry l = Some e ->
  length l = 20%nat /\
  exists a g t e1 e2, l = a ++ [32] ++ g ++ [32] ++ [t; e1; e2] /\
    length a = 10%nat /\ forallb vdigit a = true /\
    length g = 5%nat /\ forallb vdigit g = true /\
    is_eol2 e1 e2 /\
    ((t = 110 /\ e = XUse (dval a) (dval g)) \/ (t = 102 /\ e = XFree (dval a) (dval g))).
Proof.
  unfold line_entry. intro H.
  do 20 (destruct l as [|? l]; [discriminate H|]). destruct l; [|discriminate H].
  match type of H with (if ?c then _ else _) = _ => destruct c eqn:C; [|discriminate] end.
  apply andb_true_iff in C as [C C5]. apply andb_true_iff in C as [C C4].
  apply andb_true_iff in C as [C C3]. apply andb_true_iff in C as [C1 C2].
  apply N.eqb_eq in C3, C4. subst.
  apply is_eol2_of_bool in C5. unfold alld in C1, C2.
  split; [reflexivity|].
  eexists [_;_;_;_;_;_;_;_;_;_], [_;_;_;_;_], _, _, _.
  split; [reflexivity|].
  split; [reflexivity|]. split; [exact C1|]. split; [reflexivity|]. split; [exact C2|].
  split; [exact C5|].
  match type of H with (if ?t =? 110 then _ else _) = _ =>
    destruct (N.eqb_spec t 110) as [->|_];
      [injection H as <-; left; split; reflexivity|];
    destruct (N.eqb_spec t 102) as [->|_];
      [injection H as <-; right; split; reflexivity|discriminate H] end.
Qed.

Lemma table_entries_spec cnt : forall s ents r, table_entries cnt s = Some (ents, r) ->
  length ents = cnt /\ suffix r s /\
  forall i e, nth_error ents i = Some e ->
              line_entry (firstn 20 (skipn (20 * i) s)) = Some e.
Proof.
  induction cnt as [|c IH]; intros s ents r H; cbn [table_entries] in H.
  - injection H as <- <-. repeat split; [apply suffix_refl|]. intros [|i] e; discriminate.
  - destruct (line_entry (firstn 20 s)) as [e0|] eqn:L; [|discriminate].
    destruct (table_entries c (skipn 20 s)) as [[l r']|] eqn:T; [|discriminate].
    injection H as <- <-. apply IH in T. destruct T as (Len & Suf & Nth).
    repeat split.
    + cbn [length]. now rewrite Len.
    + eapply suffix_trans; [exact Suf|apply suffix_skipn].
    + intros [|i] e; cbn [nth_error]; intro E.
      * injection E as <-. exact L.
      * apply Nth in E. replace (20 * S i)%nat with (20 + 20 * i)%nat by lia.
        now rewrite skipn_add.
Qed.

(* ---------- S5: object headers ---------- *)
Lemma header_at_spec f off n g s : header_at f off = Some (n, g, s) ->
  (off = 0 \/ exists b, nth_error f (N.to_nat (off - 1)) = Some b /\ vws b = true) /\
  exists dn w1 dg w2, at_ off f = dn ++ w1 ++ dg ++ w2 ++ w_obj ++ s /\
    dn <> [] /\ forallb vdigit dn = true /\ dval dn = n /\
    w1 <> [] /\ forallb vws w1 = true /\
    dg <> [] /\ forallb vdigit dg = true /\ dval dg = g /\
    w2 <> [] /\ forallb vws w2 = true.
Proof.
  intro H. unfold header_at in H. cbv zeta in H.
  match type of H with (if ?c then _ else _) = _ => destruct c eqn:B; [|discriminate] end.
  destruct (vnat (at_ off f)) as [[n1 s1]|] eqn:V1; [|discriminate].
  destruct s1 as [|b1 s1']; [discriminate|].
  destruct (vws b1) eqn:W1; [|discriminate].
  destruct (vnat (skipsp (b1 :: s1'))) as [[g1 s2]|] eqn:V2; [|discriminate].
  destruct s2 as [|b2 s2']; [discriminate|].
  destruct (vws b2) eqn:W2; [|discriminate].
  destruct (kwd w_obj (skipsp (b2 :: s2'))) as [s3|] eqn:K; [|discriminate].
  injection H as <- <- <-.
  split.
  - destruct (off =? 0) eqn:Z; [left; lia|right].
    destruct (at_ (off - 1) f) as [|b r] eqn:A; [discriminate|].
    exists b. split; [|exact B]. eapply skipn_cons_nth. exact A.
  - apply vnat_spec in V1. destruct V1 as (dn & E1 & NE1 & F1 & D1 & _).
    destruct (skipsp_spec (b1 :: s1')) as (w1 & Ew1 & Fw1 & NEw1).
    apply vnat_spec in V2. destruct V2 as (dg & E2 & NE2 & F2 & D2 & _).
    destruct (skipsp_spec (b2 :: s2')) as (w2 & Ew2 & Fw2 & NEw2).
    apply kwd_spec in K.
    exists dn, w1, dg, w2. rewrite E1, Ew1, E2, Ew2, K.
    repeat split; eauto.
Qed.

Lemma header_at_suffix f off n g s : header_at f off = Some (n, g, s) -> suffix s f.
Proof.
  intro H. apply header_at_spec in H. destruct H as (_ & dn & w1 & dg & w2 & E & _).
  eapply suffix_trans; [|apply (suffix_skipn (N.to_nat off) f)].
  unfold at_ in E. rewrite E.
  exists (dn ++ w1 ++ dg ++ w2 ++ w_obj). now rewrite <- !app_assoc.
Qed.

(* ---------- S8 ---------- *)
Lemma increasing_spec l : increasing l = true ->
  forall i j a b, (i < j)%nat -> nth_error l i = Some a -> nth_error l j = Some b -> a < b.
Proof.
  induction l as [|x l IH]; intros H i j a b Lt Hi Hj.
  - destruct i; discriminate.
  - destruct l as [|y l].
    + destruct j as [|[|j]]; [lia|discriminate..].
    + cbn [increasing] in H. apply andb_true_iff in H as [H1 H2].
      assert (Hd : forall k c, nth_error (y :: l) k = Some c -> x < c).
      { intros [|k] c Hc.
        - cbn in Hc. injection Hc as <-. lia.
        - assert (y < c) by (apply (IH H2 O (S k) y c); [lia|reflexivity|exact Hc]). lia. }
      destruct j as [|j]; [lia|]. destruct i as [|i].
      * cbn [nth_error] in Hi. injection Hi as <-. apply (Hd j). exact Hj.
      * apply (IH H2 i j); [lia|exact Hi|exact Hj].
Qed.


(* ================= VPb ================= *)
(* C03: proofs, part B: every parser of PSyntax returns a suffix of its input *)

(* goal-directed search along a chain of [suffix] facts *)
Ltac ssuf n :=
  idtac;
  match n with
  | O => fail
  | S ?m =>
    first [ apply suffix_refl
          | assumption
          | apply suffix_cons; ssuf m
          | match goal with
            | H : suffix ?x ?s |- suffix _ ?s =>
              apply (suffix_trans _ x s); [ssuf m | exact H]
            end ]
  end.

Lemma vname_suffix_aux k : forall s, (length s <= k)%nat ->
  forall n r, vname s = Some (n, r) -> suffix r s.
Proof.
  induction k as [|k IH]; intros s L n r H; destruct s as [|b s]; cbn [vname] in H;
    cbn [length] in L; try lia; try (injection H as <- <-; apply suffix_refl).
  destruct (vregular b); [|injection H as <- <-; apply suffix_refl].
  destruct (b =? 35).
  - destruct s as [|h1 [|h2 r']]; try discriminate H.
    destruct (vhex h1); [|discriminate H]. destruct (vhex h2); [|discriminate H].
    destruct (vname r') as [[n' rest]|] eqn:E; [|discriminate H].
    injection H as <- <-. apply IH in E; [|cbn [length] in L; lia]. ssuf 5%nat.
  - destruct (vname s) as [[n' rest]|] eqn:E; [|discriminate H].
    injection H as <- <-. apply IH in E; [|lia]. ssuf 5%nat.
Qed.

Lemma vname_suffix s n r : vname s = Some (n, r) -> suffix r s.
Proof. apply (vname_suffix_aux (length s)). lia. Qed.

Lemma vhexstr_suffix s : forall pend t r, vhexstr s pend = Some (t, r) -> suffix r s.
Proof.
  induction s as [|b s IH]; intros pend t r H; cbn [vhexstr] in H; [discriminate|].
  destruct (b =? 62); [injection H as <- <-; solve [ssuf 3%nat]|].
  destruct (vws b); [apply IH in H; solve [ssuf 3%nat]|].
  destruct (vhex b); [|discriminate H].
  destruct pend.
  - destruct (vhexstr s None) as [[t' rest]|] eqn:E; [|discriminate H].
    injection H as <- <-. apply IH in E. ssuf 3%nat.
  - apply IH in H. ssuf 3%nat.
Qed.

Lemma vnumtok_suffix s : forall t r, vnumtok s = (t, r) -> suffix r s.
Proof.
  induction s as [|b s IH]; intros t r H; cbn [vnumtok] in H.
  - injection H as <- <-. apply suffix_refl.
  - destruct (vnumch b).
    + destruct (vnumtok s) as [t' r'] eqn:E. injection H as <- <-.
      specialize (IH _ _ eq_refl). ssuf 3%nat.
    + injection H as <- <-. apply suffix_refl.
Qed.

Lemma vlit_suffix fuel : forall depth s t rest,
  vlit fuel depth s = Some (t, rest) -> suffix rest s.
Proof.
  induction fuel as [|f IH]; intros depth s t rest H; [discriminate|].
  cbn [vlit] in H. cbv zeta beta in H.
  dmatch H; try (injection H as <- <-);
    repeat match goal with E : vlit _ _ _ = Some _ |- _ => apply IH in E end;
    solve [ssuf 8%nat].
Qed.

Ltac skipws_fwd :=
  repeat match goal with
         | E : skipws ?x = ?y |- _ =>
           let S := fresh "S" in
           pose proof (skipws_suffix x) as S; rewrite E in S; clear E
         end.

Lemma vref_suffix a s o r : vref a s = Some (o, r) -> suffix r s.
Proof.
  unfold vref. intro H.
  dmatch H; injection H as <- <-; skipws_fwd;
    repeat match goal with E : vnat _ = Some _ |- _ => apply vnat_suffix in E end;
    repeat match goal with
           | E : suffix _ (skipws ?x) |- _ =>
             let S := fresh "S" in
             pose proof (suffix_trans _ _ _ E (skipws_suffix x)) as S; clear E
           end;
    solve [ssuf 8%nat].
Qed.

Section P.
  Variable p : bytes -> option (obj * bytes).
  Hypothesis Hp : forall s o r, p s = Some (o, r) -> suffix r s.

  Lemma varr_suffix fuel : forall s l r, varr p fuel s = Some (l, r) -> suffix r s.
  Proof.
    induction fuel as [|f IH]; intros s l r H; [discriminate|].
    cbn [varr] in H.
    remember (skipws s) as s' eqn:E. symmetry in E.
    pose proof (skipws_suffix s) as S. rewrite E in S. clear E.
    dmatch H; injection H as <- <-;
      repeat match goal with
             | E : p _ = Some _ |- _ => apply Hp in E
             | E : varr _ _ _ = Some _ |- _ => apply IH in E
             end;
      solve [ssuf 8%nat].
  Qed.

  Lemma vdict_suffix fuel : forall s l r, vdict p fuel s = Some (l, r) -> suffix r s.
  Proof.
    induction fuel as [|f IH]; intros s l r H; [discriminate|].
    cbn [vdict] in H.
    remember (skipws s) as s' eqn:E. symmetry in E.
    pose proof (skipws_suffix s) as S. rewrite E in S. clear E.
    dmatch H; injection H as <- <-;
      repeat match goal with
             | E : p _ = Some _ |- _ => apply Hp in E
             | E : vname _ = Some _ |- _ => apply vname_suffix in E
             | E : vdict _ _ _ = Some _ |- _ => apply IH in E
             end;
      solve [ssuf 8%nat].
  Qed.
End P.

Lemma vobj_suffix fuel : forall s o r, vobj fuel s = Some (o, r) -> suffix r s.
Proof.
  induction fuel as [|f IH]; intros s o r H; [discriminate|].
  cbn [vobj] in H.
  remember (skipws s) as s' eqn:E. symmetry in E.
  pose proof (skipws_suffix s) as S. rewrite E in S. clear E.
  dmatch H; first [injection H as <- <- | injection H as -> | idtac];
    repeat match goal with
           | E : vname _ = Some _ |- _ => apply vname_suffix in E
           | E : vhexstr _ _ = Some _ |- _ => apply vhexstr_suffix in E
           | E : vlit _ _ _ = Some _ |- _ => apply vlit_suffix in E
           | E : vnumtok _ = (_, _) |- _ => apply vnumtok_suffix in E
           | E : vref _ _ = Some _ |- _ => apply vref_suffix in E
           | E : kwd _ _ = Some _ |- _ => apply kwd_suffix in E
           | E : varr _ _ _ = Some _ |- _ => apply (varr_suffix _ IH) in E
           | E : vdict _ _ _ = Some _ |- _ => apply (vdict_suffix _ IH) in E
           end;
    solve [ssuf 8%nat].
Qed.

Lemma vvalue_suffix s o r : vvalue s = Some (o, r) -> suffix r s.
Proof. apply vobj_suffix. Qed.


(* ================= VPc ================= *)
(* C03: proofs, part C: the structure functions and [validate] itself *)

Lemma firstn_blen_diff' f p r : f = p ++ r -> firstn (N.to_nat (blen f - blen r)) f = p.
Proof. intros ->. apply firstn_blen_diff. Qed.
Lemma at_blen_diff' f p r : f = p ++ r -> at_ (blen f - blen r) f = r.
Proof. intros ->. apply at_blen_diff. Qed.

(* ---------- the cross-reference table ---------- *)
Lemma read_table_spec s ents tr toff rest :
  read_table s = VOk (ents, tr, toff, rest) ->
  exists s5 s6, suffix s5 s /\ toff = blen s - blen s5 /\
    table_entries (length ents) s5 = Some (ents, s6) /\ suffix rest s.
Proof.
  unfold read_table. intro H.
  vstep H u0 P. cbv zeta in H.
  vstep H e1 E1.
  vstep H a V1. destruct a as [start s3].
  vstep H u1 G1.
  vstep H a V2. destruct a as [cnt s4].
  vstep H u2 G2.
  vstep H e2 E2.
  vstep H a T. destruct a as [ents' s6].
  vstep H u3 P2.
  vstep H a V. destruct a as [tv s7].
  destruct tv; try discriminate H. injection H as <- <- <- <-.
  pose proof (suffix_skipn 4 s) as S1.
  pose proof (suffix_skipn e1 (skipn 4 s)) as S2.
  apply vnat_suffix in V1.
  pose proof (suffix_skipn 1 s3) as S3.
  apply vnat_suffix in V2.
  pose proof (suffix_skipn e2 s4) as S5.
  assert (Suf5 : suffix (skipn e2 s4) s) by (solve [ssuf 8%nat]).
  pose proof (table_entries_spec _ _ _ _ T) as (Len & Suf6 & _).
  rewrite <- Len in T.
  exists (skipn e2 s4), s6. repeat split; auto.
  pose proof (suffix_skipn 7 s6) as S7. apply vvalue_suffix in V.
  solve [ssuf 8%nat].
Qed.

(* ---------- objects ---------- *)
Lemma stream_eol_spec (r2 : bytes) e :
  match r2 with 13 :: 10 :: _ => Some 2%nat | 10 :: _ => Some 1%nat | _ => None end = Some e ->
  exists e0, (e0 = [10] \/ e0 = [13; 10]) /\ r2 = e0 ++ skipn e r2.
Proof.
  intro H. dmatch H; injection H as <-;
    first [ exists [13; 10]; now auto | exists [10]; now auto ].
Qed.

Definition stream_shape (f : bytes) (boff len : N) : Prop :=
  exists pre e0 body e1 rest,
    firstn (N.to_nat boff) f = pre ++ w_stream ++ e0 /\ (e0 = [10] \/ e0 = [13; 10]) /\
    at_ boff f = body ++ e1 ++ w_endstream ++ rest /\ N.of_nat (length body) = len /\ is_eol e1.

Lemma object_at_spec f all n off g o e : object_at f all n off g = VOk (o, e) ->
  o_num o = n /\ o_gen o = g /\ o_off o = off /\ off < blen f /\
  (exists s, header_at f off = Some (n, g, s)) /\
  (forall sd boff len, o_body o = BStream sd boff len ->
     resolve_length f all sd = Some len /\ stream_shape f boff len) /\
  (forall v, o_body o = BObj v ->
     exists s r r2, header_at f off = Some (n, g, s) /\ vvalue s = Some (v, r) /\
                    kwd w_endobj (skipws r) = Some r2).
Proof.
  unfold object_at. intro H.
  vstep H u0 G0.
  vstep H a Hd. destruct a as [[n' g'] s].
  vstep H u1 G1.
  apply andb_true_iff in G1 as [Gn Gg]. apply N.eqb_eq in Gn, Gg. subst n' g'.
  vstep H a V. destruct a as [o' r]. cbv zeta in H.
  assert (Lt : off < blen f) by lia.
  destruct (kwd w_endobj (skipws r)) as [r2|] eqn:K.
  - injection H as <- <-. cbn [o_num o_gen o_off o_body].
    do 4 (split; [solve [reflexivity|exact Lt]|]). split; [eauto|].
    split; [intros sd boff len E; discriminate E|].
    intros v E. injection E as <-. exists s, r, r2. auto.
  - destruct o' as [| | | | | | |d|]; try discriminate H.
    vstep H u2 P.
    vstep H e0n E0. cbv zeta in H.
    remember (skipn e0n (skipn 6 (skipws r))) as body eqn:Hb.
    vstep H len RL.
    vstep H u3 GL.
    vstep H e2 E2.
    vstep H a2 K2.
    vstep H a3 K3.
    injection H as <- <-. cbn [o_num o_gen o_off o_body].
    do 4 (split; [solve [reflexivity|exact Lt]|]). split; [eauto|].
    split; [|intros v E; discriminate E].
    intros sd boff len' E. injection E as <- <- <-. split; [exact RL|].
    (* the chain of suffixes down to the body *)
    pose proof (header_at_suffix _ _ _ _ _ Hd) as S1.
    pose proof (vvalue_suffix _ _ _ V) as S2.
    pose proof (skipws_suffix r) as S3.
    assert (S4 : suffix (skipws r) f) by (solve [ssuf 8%nat]).
    destruct S4 as [p Ef].
    apply vprefix_spec in P. change (length w_stream) with 6%nat in P.
    apply stream_eol_spec in E0. destruct E0 as (e0 & He0 & Er2).
    rewrite <- Hb in Er2.
    assert (Ef' : f = (p ++ w_stream ++ e0) ++ body).
    { rewrite Ef, P at 1. rewrite Er2 at 1. now rewrite <- !app_assoc. }
    apply eol_len_spec in E2. destruct E2 as (e1 & He1 & Eaft & _).
    apply kwd_spec in K2.
    exists p, e0, (firstn (N.to_nat len) body), e1, a2.
    split; [apply firstn_blen_diff'; exact Ef'|].
    split; [exact He0|].
    split; [|split; [|exact He1]].
    + rewrite (at_blen_diff' _ _ _ Ef').
      transitivity (firstn (N.to_nat len) body ++ skipn (N.to_nat len) body);
        [symmetry; apply firstn_skipn|].
      f_equal. etransitivity; [exact Eaft|]. f_equal. exact K2.
    + rewrite firstn_length_le; [lia|]. unfold blen in GL. lia.
Qed.

Lemma objects_of_spec f all : forall ents i objs,
  objects_of f all ents i = VOk objs ->
  (forall j off g, nth_error ents j = Some (XUse off g) ->
     exists o e, object_at f all (i + N.of_nat j) off g = VOk (o, e) /\ In o objs) /\
  (forall o, In o objs ->
     exists j e, nth_error ents j = Some (XUse (o_off o) (o_gen o)) /\
                 o_num o = i + N.of_nat j /\
                 object_at f all (o_num o) (o_off o) (o_gen o) = VOk (o, e)).
Proof.
  induction ents as [|x r IH]; intros i objs H; cbn [objects_of] in H.
  - injection H as <-. split; [intros [|j]; discriminate|intros o []].
  - assert (Shift : forall objs', objects_of f all r (i + 1) = VOk objs' ->
      (forall j off g, nth_error (x :: r) (S j) = Some (XUse off g) ->
         exists o e, object_at f all (i + N.of_nat (S j)) off g = VOk (o, e) /\ In o objs') /\
      (forall o, In o objs' ->
         exists j e, nth_error (x :: r) j = Some (XUse (o_off o) (o_gen o)) /\
                     o_num o = i + N.of_nat j /\
                     object_at f all (o_num o) (o_off o) (o_gen o) = VOk (o, e))).
    { intros objs' H'. apply IH in H'. destruct H' as [A B]. split.
      - intros j off g Hj. cbn [nth_error] in Hj. destruct (A _ _ _ Hj) as (o & e & Ho & Hin).
        exists o, e. split; [|exact Hin].
        replace (i + N.of_nat (S j)) with (i + 1 + N.of_nat j) by lia. exact Ho.
      - intros o Hin. destruct (B _ Hin) as (j & e & Hj & Hn & Ho).
        exists (S j), e. cbn [nth_error]. repeat split; auto. lia. }
    destruct x as [nx gx|off g|sx ix].
    + destruct (Shift _ H) as [A B]. split; [|exact B].
      intros [|j] off g Hj; [discriminate|]. eauto.
    + vstep H a Ho. destruct a as [o e].
      vstep H t Ht. injection H as <-.
      destruct (Shift _ Ht) as [A B].
      pose proof (object_at_spec _ _ _ _ _ _ _ Ho) as (On & Og & Oo & _).
      split.
      * intros [|j] off' g' Hj.
        -- cbn [nth_error] in Hj. injection Hj as <- <-.
           exists o, e. replace (i + N.of_nat 0) with i by lia. split; [exact Ho|now left].
        -- destruct (A _ _ _ Hj) as (o' & e' & Ho' & Hin'). exists o', e'. split; [exact Ho'|now right].
      * intros o' [<-|Hin].
        -- exists O, e. cbn [nth_error]. rewrite On, Og, Oo. repeat split; auto. lia.
        -- auto.
    + destruct (Shift _ H) as [A B]. split; [|exact B].
      intros [|j] off g Hj; [discriminate|]. eauto.
Qed.

(* ---------- object streams ---------- *)
Lemma ostm_pairs_length cnt : forall s l r, ostm_pairs cnt s = Some (l, r) -> length l = cnt.
Proof.
  induction cnt as [|c IH]; intros s l r H; cbn [ostm_pairs] in H.
  - injection H as <- <-. reflexivity.
  - dmatch H. injection H as <- <-. cbn [length]. f_equal. eapply IH. eassumption.
Qed.

Lemma read_ostm_spec orc enc f objs sn os : read_ostm orc enc f objs sn = VOk os ->
  os_num os = sn /\ increasing (map snd (os_pairs os)) = true /\
  N.of_nat (length (os_pairs os)) = os_n os /\
  exists o sd boff len,
    find_object sn objs = Some o /\ o_gen o = 0 /\ o_body o = BStream sd boff len /\
    dict_int n_N sd = Some (Z.of_N (os_n os)) /\
    dict_int n_First sd = Some (Z.of_N (os_first os)) /\
    dget n_Type sd = Some (OName n_ObjStm).
Proof.
  unfold read_ostm. intro H.
  vstep H o Fo.
  vstep H u0 G0.
  destruct (o_body o) as [|d boff len] eqn:B; [discriminate H|].
  vstep H u1 GT.
  vstep H n Hn.
  vstep H fst0 Hf.
  vstep H u2 G2.
  vstep H data Hp.
  vstep H a Pa. destruct a as [pairs rest].
  vstep H u3 G3.
  vstep H u4 G4.
  vstep H u5 G5.
  injection H as <-. cbn [os_num os_n os_first os_pairs os_data].
  apply ostm_pairs_length in Pa.
  split; [reflexivity|]. split; [exact G5|]. split; [lia|].
  exists o, d, boff, len.
  replace (Z.of_N (Z.to_N n)) with n by lia.
  replace (Z.of_N (Z.to_N fst0)) with fst0 by lia.
  repeat split; auto; [lia|].
  destruct (dget n_Type d) as [[| | | |t| | | |]|]; try discriminate GT.
  apply bytes_eqb_eq in GT. now subst.
Qed.

Lemma read_ostms_spec orc enc f objs : forall l oss,
  read_ostms orc enc f objs l = VOk oss ->
  forall os, In os oss -> exists sn, In sn l /\ read_ostm orc enc f objs sn = VOk os.
Proof.
  induction l as [|s r IH]; intros oss H os Hin; cbn [read_ostms] in H.
  - injection H as <-. destruct Hin.
  - vstep H o Ho. vstep H t Ht. injection H as <-.
    destruct Hin as [<-|Hin].
    + exists s. split; [now left|exact Ho].
    + destruct (IH _ Ht _ Hin) as (sn & I & R). exists sn. split; [now right|exact R].
Qed.

Lemma find_object_num n : forall l o, find_object n l = Some o -> o_num o = n /\ In o l.
Proof.
  induction l as [|x r IH]; intros o H; cbn [find_object] in H; [discriminate|].
  destruct (N.eqb_spec (o_num x) n) as [E|_].
  - injection H as <-. split; [exact E|now left].
  - apply IH in H. destruct H. split; [assumption|now right].
Qed.

Lemma member_spec os n idx v : member os n idx = VOk v ->
  (exists off, nth_error (os_pairs os) (N.to_nat idx) = Some (n, off)) /\
  exists text rest, vvalue text = Some (v, rest) /\ skipws rest = [].
Proof.
  unfold member. intro H.
  vstep H a Hn. destruct a as [num off].
  vstep H u0 G0. apply N.eqb_eq in G0. subst num. cbv zeta in H.
  vstep H u1 G1.
  vstep H a V. destruct a as [o rest].
  vstep H u2 G2. injection H as <-.
  split; [eauto|]. eexists _, rest. split; [exact V|].
  destruct (skipws rest); [reflexivity|discriminate].
Qed.

Lemma members_of_spec oss : forall ents i mem,
  members_of oss ents i = VOk mem ->
  forall n s idx v, In (n, s, idx, v) mem ->
    exists j, n = i + N.of_nat j /\ nth_error ents j = Some (XComp s idx) /\
      exists os, find_ostm s oss = Some os /\ member os n idx = VOk v.
Proof.
  induction ents as [|x r IH]; intros i mem H n s idx v Hin; cbn [members_of] in H.
  - injection H as <-. destruct Hin.
  - assert (Shift : forall mem', members_of oss r (i + 1) = VOk mem' -> In (n, s, idx, v) mem' ->
      exists j, n = i + N.of_nat j /\ nth_error (x :: r) j = Some (XComp s idx) /\
        exists os, find_ostm s oss = Some os /\ member os n idx = VOk v).
    { intros mem' H' Hin'. destruct (IH _ _ H' _ _ _ _ Hin') as (j & Ej & Nj & R).
      exists (S j). cbn [nth_error]. split; [lia|]. split; assumption. }
    destruct x as [nx gx|off g|sx ix]; eauto.
    vstep H os Fo. vstep H o Mo. vstep H t Ht. injection H as <-.
    destruct Hin as [E|Hin]; eauto.
    injection E as <- <- <- <-.
    exists O. split; [lia|]. split; [reflexivity|]. eauto.
Qed.

(* ---------- the whole file ---------- *)
Definition obj0_ok (ents : list xentry) (xs : option N) : Prop :=
  exists nx g r, ents = XFree nx g :: r /\ (xs = None -> g = 65535).

Lemma validate_inv orc f d : validate orc f = VOk d ->
  exists v tpos xp xs ents tr endpos size objs oss mem,
    header_version f = Some v /\
    find_tail f = Some (tpos, xp) /\
    0 < xp /\ xp < tpos /\
    ((xs = None /\ vprefix w_xref (at_ xp f) = true /\
      exists toff rest, read_table (at_ xp f) = VOk (ents, tr, toff, rest) /\
                        endpos = blen f - blen rest) \/
     (vprefix w_xref (at_ xp f) = false /\
      exists n, xs = Some n /\ read_xstream orc f xp = VOk (n, ents, tr, endpos))) /\
    blen (skipws (at_ endpos f)) = blen f - tpos /\
    dict_int n_Size tr = Some size /\ (0 <= size)%Z /\ Z.to_N size = N.of_nat (length ents) /\
    dget n_Prev tr = None /\
    (exists a b, dget n_Root tr = Some (ORef a b)) /\
    obj0_ok ents xs /\
    objects_of f ents ents 0 = VOk objs /\
    read_ostms orc (match dget n_Encrypt tr with Some _ => true | None => false end)
               f objs (containers ents []) = VOk oss /\
    members_of oss ents 0 = VOk mem /\
    d = {| d_version := v; d_xrefpos := xp; d_xstream := xs; d_size := Z.to_N size;
           d_entries := ents; d_trailer := tr; d_objects := objs; d_ostms := oss;
           d_members := mem;
           d_encrypted := match dget n_Encrypt tr with Some _ => true | None => false end |}.
Proof.
  unfold validate. intro H.
  vstep H v Hv.
  vstep H a Ht. destruct a as [tpos xp].
  vstep H u0 G0.
  vstep H a Hx. destruct a as [[[xs ents] tr] endpos].
  vstep H u1 G1.
  vstep H size Hs.
  vstep H u2 G2.
  vstep H u3 G3.
  vstep H u4 G4.
  vstep H u5 G5.
  cbv zeta in H.
  vstep H objs Ho.
  vstep H oss Hos.
  vstep H mem Hm.
  injection H as <-.
  exists v, tpos, xp, xs, ents, tr, endpos, size, objs, oss, mem.
  split; [exact Hv|]. split; [exact Ht|]. split; [lia|]. split; [lia|].
  split.
  { destruct (vprefix w_xref (at_ xp f)) eqn:P.
    - left. vstep Hx a Hr. destruct a as [[[ents' tr'] toff] rest].
      injection Hx as <- <- <- <-. repeat split; eauto.
    - right. vstep Hx a Hr. destruct a as [[[n ents'] tr'] endpos'].
      injection Hx as <- <- <- <-. repeat split; eauto. }
  split; [lia|]. split; [exact Hs|]. split; [lia|]. split; [lia|].
  split; [destruct (dget n_Prev tr); [discriminate|reflexivity]|].
  split; [destruct (dget n_Root tr) as [[| | | | | | | |a b]|]; try discriminate; eauto|].
  split.
  { unfold obj0_ok. destruct ents as [|[nx g| |] r]; try discriminate G5.
    exists nx, g, r. split; [reflexivity|]. intros ->. lia. }
  auto.
Qed.


(* ================= VPd ================= *)
(* C03: proofs, part D: what [validate orc f = VOk d] says about [f] and [d] *)

Lemma read_xstream_spec orc f xp n ents tr endpos :
  read_xstream orc f xp = VOk (n, ents, tr, endpos) ->
  (exists g s, header_at f xp = Some (n, g, s)) /\
  dget n_Type tr = Some (OName n_XRef).
Proof.
  unfold read_xstream. intro H.
  vstep H a Hh. destruct a as [[n' g] s0].
  vstep H a Ho. destruct a as [o endpos'].
  destruct (o_body o) as [|d boff len]; [discriminate H|].
  vstep H u0 GT.
  vstep H size Hs.
  vstep H u1 G1.
  vstep H a HW. destruct a as [[w0 w1] w2].
  vstep H ss Hss.
  vstep H u2 G2. cbv zeta in H.
  vstep H raw Hraw.
  vstep H data Hdata.
  vstep H a Hrows. destruct a as [ents' rest].
  vstep H u3 G3.
  injection H as <- <- <- <-.
  split; [eauto|].
  destruct (dget n_Type d) as [[| | | |t| | | |]|]; try discriminate GT.
  apply bytes_eqb_eq in GT. now subst.
Qed.

Lemma members_of_complete oss : forall ents i mem,
  members_of oss ents i = VOk mem ->
  forall j s idx, nth_error ents j = Some (XComp s idx) ->
    exists v, In (i + N.of_nat j, s, idx, v) mem.
Proof.
  induction ents as [|x r IH]; intros i mem H j s idx Hj; [destruct j; discriminate|].
  cbn [members_of] in H.
  assert (Shift : forall mem' j', members_of oss r (i + 1) = VOk mem' ->
            nth_error r j' = Some (XComp s idx) ->
            exists v, In (i + N.of_nat (S j'), s, idx, v) mem').
  { intros mem' j' H' Hj'. destruct (IH _ _ H' _ _ _ Hj') as (v & Hin). exists v.
    replace (i + N.of_nat (S j')) with (i + 1 + N.of_nat j') by lia. exact Hin. }
  destruct x as [nx gx|off g|sx ix].
  - destruct j as [|j]; [discriminate|]. eauto.
  - destruct j as [|j]; [discriminate|]. eauto.
  - vstep H os Fo. vstep H o Mo. vstep H t Ht. injection H as <-.
    destruct j as [|j].
    + cbn [nth_error] in Hj. injection Hj as <- <-. exists o.
      replace (i + N.of_nat 0) with i by lia. now left.
    + cbn [nth_error] in Hj. destruct (Shift _ _ Ht Hj) as (v & Hin). exists v. now right.
Qed.

Section Sound.
  Variables (orc : list (bytes * bytes)) (f : bytes) (d : vdoc).
  Hypothesis Hok : validate orc f = VOk d.

  (* S1 *)
  Lemma sound_header_l :
    d_version d <= 8 /\
    exists e rest,
      f = w_pdf ++ (if d_version d <=? 7 then [49; 46; 48 + d_version d] else [50; 46; 48])
                ++ e :: rest /\
      veol e = true.
  Proof.
    destruct (validate_inv _ _ _ Hok)
      as (v & tpos & xp & xs & ents & tr & endpos & size & objs & oss & mem & Hv & _ & _ & _ & _ &
          _ & _ & _ & _ & _ & _ & _ & _ & _ & _ & ->).
    cbn [d_version]. apply header_version_spec in Hv. exact Hv.
  Qed.

  (* S2 *)
  Lemma sound_tail_l :
    exists pre e1 ds e2 e3,
      f = pre ++ w_startxref ++ e1 ++ ds ++ e2 ++ w_eof ++ e3 /\
      is_eol e1 /\ is_eol e2 /\ (e3 = [] \/ is_eol e3) /\
      ds <> [] /\ forallb vdigit ds = true /\ dval ds = d_xrefpos d /\
      d_xrefpos d < blen pre.
  Proof.
    destruct (validate_inv _ _ _ Hok)
      as (v & tpos & xp & xs & ents & tr & endpos & size & objs & oss & mem & _ & Ht & _ & Lt & _ &
          _ & _ & _ & _ & _ & _ & _ & _ & _ & _ & ->).
    cbn [d_xrefpos]. apply find_tail_spec in Ht. destruct Ht as (p & -> & Lp & Tp).
    apply tail_parse_spec in Tp.
    destruct Tp as (e1 & ds & e2 & e3 & E & I1 & I2 & I3 & NE & F & DV).
    exists (firstn p f), e1, ds, e2, e3.
    split; [rewrite <- E; symmetry; apply firstn_skipn|].
    repeat (split; [assumption|]).
    unfold blen. rewrite firstn_length_le by exact Lp. exact Lt.
  Qed.

  (* S3 *)
  Lemma sound_xref_start_l :
    0 < d_xrefpos d /\
    ((d_xstream d = None /\ exists rest, at_ (d_xrefpos d) f = w_xref ++ rest) \/
     (exists n g s, d_xstream d = Some n /\ header_at f (d_xrefpos d) = Some (n, g, s))) /\
    dget n_Prev (d_trailer d) = None.
  Proof.
    destruct (validate_inv _ _ _ Hok)
      as (v & tpos & xp & xs & ents & tr & endpos & size & objs & oss & mem & _ & _ & Lt & _ & Hx &
          _ & _ & _ & _ & Hp & _ & _ & _ & _ & _ & ->).
    cbn [d_xrefpos d_xstream d_trailer].
    split; [exact Lt|]. split; [|exact Hp].
    destruct Hx as [(-> & P & _)|(_ & n & -> & R)].
    - left. split; [reflexivity|]. apply vprefix_spec in P. eauto.
    - right. apply read_xstream_spec in R. destruct R as ((g & s & R) & _). eauto.
  Qed.

  Lemma sound_xref_stream_type_l :
    forall n, d_xstream d = Some n -> dget n_Type (d_trailer d) = Some (OName n_XRef).
  Proof.
    destruct (validate_inv _ _ _ Hok)
      as (v & tpos & xp & xs & ents & tr & endpos & size & objs & oss & mem & _ & _ & _ & _ & Hx &
          _ & _ & _ & _ & _ & _ & _ & _ & _ & _ & ->).
    cbn [d_xstream d_trailer]. intros n E.
    destruct Hx as [(-> & _)|(_ & n' & _ & R)]; [discriminate|].
    apply read_xstream_spec in R. apply R.
  Qed.

  (* S4 *)
  Lemma sound_one_entry_per_number_l :
    length (d_entries d) = N.to_nat (d_size d) /\
    dict_int n_Size (d_trailer d) = Some (Z.of_N (d_size d)) /\
    (d_xstream d = None ->
     exists toff, forall i e, nth_error (d_entries d) i = Some e ->
       line_entry (sub (d_xrefpos d + toff + 20 * N.of_nat i) 20 f) = Some e).
  Proof.
    destruct (validate_inv _ _ _ Hok)
      as (v & tpos & xp & xs & ents & tr & endpos & size & objs & oss & mem & _ & _ & _ & _ & Hx &
          _ & Hs & Hs0 & Hs1 & _ & _ & _ & _ & _ & _ & ->).
    cbn [d_entries d_size d_trailer d_xstream d_xrefpos].
    split; [lia|]. split; [rewrite Hs; f_equal; lia|].
    intros ->. destruct Hx as [(_ & _ & toff & rest & R & _)|(_ & n & Hn & _)]; [|discriminate].
    apply read_table_spec in R. destruct R as (s5 & s6 & Suf & -> & T & _).
    exists (blen (at_ xp f) - blen s5).
    intros i e Hi. apply table_entries_spec in T. destruct T as (_ & _ & Nth).
    apply Nth in Hi. rewrite <- Hi. unfold sub.
    change (N.to_nat 20) with 20%nat. f_equal.
    pose proof (suffix_len _ _ Suf) as Ls. apply suffix_at in Suf.
    unfold at_ at 1.
    replace (N.to_nat (xp + (blen (at_ xp f) - blen s5) + 20 * N.of_nat i))
      with (N.to_nat xp + ((length (at_ xp f) - length s5) + 20 * i))%nat
      by (unfold blen; lia).
    rewrite !skipn_add. fold (at_ xp f). rewrite <- Suf. reflexivity.
  Qed.

  (* S5 *)
  Lemma sound_entries_point_at_headers_l :
    forall i off g, nth_error (d_entries d) i = Some (XUse off g) ->
      exists s, header_at f off = Some (N.of_nat i, g, s).
  Proof.
    destruct (validate_inv _ _ _ Hok)
      as (v & tpos & xp & xs & ents & tr & endpos & size & objs & oss & mem & _ & _ & _ & _ & _ &
          _ & _ & _ & _ & _ & _ & _ & Ho & _ & _ & ->).
    cbn [d_entries]. intros i off g Hi.
    apply objects_of_spec in Ho. destruct Ho as [A _].
    destruct (A _ _ _ Hi) as (o & e & Ho & _).
    apply object_at_spec in Ho. destruct Ho as (_ & _ & _ & _ & Hh & _).
    replace (0 + N.of_nat i) with (N.of_nat i) in Hh by lia. exact Hh.
  Qed.

  Lemma sound_objects_complete_l :
    forall i off g, nth_error (d_entries d) i = Some (XUse off g) ->
      off < blen f /\
      exists o, In o (d_objects d) /\ o_num o = N.of_nat i /\ o_off o = off /\ o_gen o = g.
  Proof.
    destruct (validate_inv _ _ _ Hok)
      as (v & tpos & xp & xs & ents & tr & endpos & size & objs & oss & mem & _ & _ & _ & _ & _ &
          _ & _ & _ & _ & _ & _ & _ & Ho & _ & _ & ->).
    cbn [d_entries d_objects]. intros i off g Hi.
    apply objects_of_spec in Ho. destruct Ho as [A _].
    destruct (A _ _ _ Hi) as (o & e & Ho & Hin).
    apply object_at_spec in Ho. destruct Ho as (On & Og & Oo & Lt & _).
    split; [exact Lt|]. exists o. repeat split; auto; lia.
  Qed.

  (* S6 *)
  Lemma sound_objects_l :
    forall o, In o (d_objects d) ->
      nth_error (d_entries d) (N.to_nat (o_num o)) = Some (XUse (o_off o) (o_gen o)).
  Proof.
    destruct (validate_inv _ _ _ Hok)
      as (v & tpos & xp & xs & ents & tr & endpos & size & objs & oss & mem & _ & _ & _ & _ & _ &
          _ & _ & _ & _ & _ & _ & _ & Ho & _ & _ & ->).
    cbn [d_entries d_objects]. intros o Hin.
    apply objects_of_spec in Ho. destruct Ho as [_ B].
    destruct (B _ Hin) as (j & e & Hj & Hn & _).
    replace (N.to_nat (o_num o)) with j by lia. exact Hj.
  Qed.

  Lemma sound_stream_length_l :
    forall o sd boff len, In o (d_objects d) -> o_body o = BStream sd boff len ->
      resolve_length f (d_entries d) sd = Some len /\
      exists pre e0 body e1 rest,
        firstn (N.to_nat boff) f = pre ++ w_stream ++ e0 /\ (e0 = [10] \/ e0 = [13; 10]) /\
        at_ boff f = body ++ e1 ++ w_endstream ++ rest /\ N.of_nat (length body) = len /\
        is_eol e1.
  Proof.
    destruct (validate_inv _ _ _ Hok)
      as (v & tpos & xp & xs & ents & tr & endpos & size & objs & oss & mem & _ & _ & _ & _ & _ &
          _ & _ & _ & _ & _ & _ & _ & Ho & _ & _ & ->).
    cbn [d_entries d_objects]. intros o sd boff len Hin Hb.
    apply objects_of_spec in Ho. destruct Ho as [_ B].
    destruct (B _ Hin) as (j & e & _ & _ & Ho).
    apply object_at_spec in Ho. destruct Ho as (_ & _ & _ & _ & _ & St & _).
    exact (St _ _ _ Hb).
  Qed.

  Lemma sound_object_syntax_l :
    forall o v, In o (d_objects d) -> o_body o = BObj v ->
      exists s r r2, header_at f (o_off o) = Some (o_num o, o_gen o, s) /\
                     vvalue s = Some (v, r) /\ kwd w_endobj (skipws r) = Some r2.
  Proof.
    destruct (validate_inv _ _ _ Hok)
      as (v & tpos & xp & xs & ents & tr & endpos & size & objs & oss & mem & _ & _ & _ & _ & _ &
          _ & _ & _ & _ & _ & _ & _ & Ho & _ & _ & ->).
    cbn [d_objects]. intros o v' Hin Hb.
    apply objects_of_spec in Ho. destruct Ho as [_ B].
    destruct (B _ Hin) as (j & e & _ & _ & Ho).
    apply object_at_spec in Ho. destruct Ho as (_ & _ & _ & _ & _ & _ & Sy).
    exact (Sy _ Hb).
  Qed.

  (* S7 *)
  Lemma sound_object_streams_l :
    forall os, In os (d_ostms d) ->
      increasing (map snd (os_pairs os)) = true /\
      N.of_nat (length (os_pairs os)) = os_n os /\
      exists o sd boff len,
        find_object (os_num os) (d_objects d) = Some o /\ o_gen o = 0 /\
        o_body o = BStream sd boff len /\
        dict_int n_N sd = Some (Z.of_N (os_n os)) /\
        dict_int n_First sd = Some (Z.of_N (os_first os)) /\
        dget n_Type sd = Some (OName n_ObjStm).
  Proof.
    destruct (validate_inv _ _ _ Hok)
      as (v & tpos & xp & xs & ents & tr & endpos & size & objs & oss & mem & _ & _ & _ & _ & _ &
          _ & _ & _ & _ & _ & _ & _ & _ & Hos & _ & ->).
    cbn [d_ostms d_objects]. intros os Hin.
    destruct (read_ostms_spec _ _ _ _ _ _ Hos _ Hin) as (sn & _ & R).
    apply read_ostm_spec in R. destruct R as (<- & Inc & Len & R).
    split; [exact Inc|]. split; [exact Len|exact R].
  Qed.

  Lemma sound_members_l :
    forall n s idx v, In (n, s, idx, v) (d_members d) ->
      nth_error (d_entries d) (N.to_nat n) = Some (XComp s idx) /\
      exists os off, find_ostm s (d_ostms d) = Some os /\
        nth_error (os_pairs os) (N.to_nat idx) = Some (n, off) /\
        member os n idx = VOk v.
  Proof.
    destruct (validate_inv _ _ _ Hok)
      as (v & tpos & xp & xs & ents & tr & endpos & size & objs & oss & mem & _ & _ & _ & _ & _ &
          _ & _ & _ & _ & _ & _ & _ & _ & _ & Hm & ->).
    cbn [d_members d_entries d_ostms]. intros n s idx v' Hin.
    destruct (members_of_spec _ _ _ _ Hm _ _ _ _ Hin) as (j & -> & Hj & os & Fo & Mo).
    split; [replace (N.to_nat (0 + N.of_nat j)) with j by lia; exact Hj|].
    destruct (member_spec _ _ _ _ Mo) as ((off & Hoff) & _).
    exists os, off. auto.
  Qed.

  Lemma sound_members_complete_l :
    forall i s idx, nth_error (d_entries d) i = Some (XComp s idx) ->
      exists v, In (N.of_nat i, s, idx, v) (d_members d).
  Proof.
    destruct (validate_inv _ _ _ Hok)
      as (v & tpos & xp & xs & ents & tr & endpos & size & objs & oss & mem & _ & _ & _ & _ & _ &
          _ & _ & _ & _ & _ & _ & _ & _ & _ & Hm & ->).
    cbn [d_members d_entries]. intros i s idx Hi.
    destruct (members_of_complete _ _ _ _ Hm _ _ _ Hi) as (v' & Hin).
    exists v'. replace (N.of_nat i) with (0 + N.of_nat i) by lia. exact Hin.
  Qed.

  Lemma sound_object0_and_root_l :
    (exists nx g r, d_entries d = XFree nx g :: r /\ (d_xstream d = None -> g = 65535)) /\
    (exists a b, dget n_Root (d_trailer d) = Some (ORef a b)).
  Proof.
    destruct (validate_inv _ _ _ Hok)
      as (v & tpos & xp & xs & ents & tr & endpos & size & objs & oss & mem & _ & _ & _ & _ & _ &
          _ & _ & _ & _ & _ & Hr & H0 & _ & _ & _ & ->).
    cbn [d_entries d_xstream d_trailer]. split; [exact H0|exact Hr].
  Qed.
End Sound.

Lemma member_no_stream os n idx v : member os n idx = VOk v ->
  exists text rest, vvalue text = Some (v, rest) /\ skipws rest = [].
Proof. intro H. apply member_spec in H. apply H. Qed.


(* ================= VPw ================= *)
(* C03: proofs, part W: the writer's field encoding against the validator's decoder *)

Lemma firstn_len_app {A} n (p r : list A) : length p = n -> firstn n (p ++ r) = p.
Proof. intros <-. apply firstn_app_exact. Qed.
Lemma skipn_len_app {A} n (p r : list A) : length p = n -> skipn n (p ++ r) = r.
Proof. intros <-. apply skipn_app_exact. Qed.

(* W1 *)
Lemma width_fits m x : x <= m -> x < 256 ^ (width_of m).
Proof.
  unfold width_of. intro H.
  pose proof (N.size_gt m) as G. set (s := N.size m) in *.
  assert (L : 2 ^ s <= 2 ^ (8 * ((s + 7) / 8))).
  { apply N.pow_le_mono_r; [lia|].
    pose proof (N.div_mod (s + 7) 8). pose proof (N.mod_lt (s + 7) 8). lia. }
  change 256 with (2 ^ 8). rewrite <- N.pow_mul_r. lia.
Qed.

(* W2 *)
Lemma be_eval w : forall x acc,
  beval (be_bytes w x) acc = acc * 256 ^ N.of_nat w + x mod 256 ^ N.of_nat w.
Proof.
  induction w as [|w IH]; intros x acc; cbn [be_bytes beval].
  - change (N.of_nat 0) with 0. rewrite N.pow_0_r, N.mod_1_r. lia.
  - rewrite IH. rewrite Nat2N.inj_succ, N.pow_succ_r'.
    set (P := 256 ^ N.of_nat w).
    assert (P <> 0) by (apply N.pow_nonzero; lia).
    rewrite (N.mul_comm 256 P). rewrite (N.mod_mul_r x P 256) by lia.
    set (b := (x / P) mod 256). set (q := x mod P). ring.
Qed.

Lemma be_length w x : length (be_bytes w x) = w.
Proof. induction w; cbn [be_bytes length]; congruence. Qed.

Lemma be_wf w x : Forall (fun b => b < 256) (be_bytes w x).
Proof.
  induction w; cbn [be_bytes]; constructor; auto. apply N.mod_lt. lia.
Qed.

Lemma be_roundtrip w x : x < 256 ^ N.of_nat w ->
  beval (be_bytes w x) 0 = x /\ length (be_bytes w x) = w /\
  Forall (fun b => b < 256) (be_bytes w x).
Proof.
  intro H. split; [|split; [apply be_length|apply be_wf]].
  rewrite be_eval. rewrite N.mod_small by exact H. lia.
Qed.

(* W3 *)
Lemma row_roundtrip t f2 f3 (w2 w3 : nat) :
  t < 3 -> f2 < 256 ^ N.of_nat w2 -> f3 < 256 ^ N.of_nat w3 ->
  row_entry 1 w2 w3 (t :: be_bytes w2 f2 ++ be_bytes w3 f3) =
  Some (match t with 0 => XFree f2 f3 | 1 => XUse f2 f3 | _ => XComp f2 f3 end).
Proof.
  intros Ht H2 H3. unfold row_entry.
  cbn [Nat.eqb Nat.add firstn skipn beval].
  rewrite (firstn_len_app w2) by apply be_length.
  rewrite (skipn_len_app w2) by apply be_length.
  destruct (be_roundtrip w2 f2 H2) as [-> _]. destruct (be_roundtrip w3 f3 H3) as [-> _].
  assert (E : t = 0 \/ t = 1 \/ t = 2) by lia.
  destruct E as [-> | [-> | ->]]; reflexivity.
Qed.

(* W4 *)
Lemma zipsub_length a : forall b, length (zipsub a b) = length a.
Proof. induction a as [|x a IH]; intros [|y b]; cbn [zipsub length]; auto. Qed.

Lemma zip_cancel r : forall prev, length prev = length r ->
  Forall (fun b => b < 256) r -> Forall (fun b => b < 256) prev ->
  zipadd (zipsub r prev) prev = r.
Proof.
  induction r as [|x r IH]; intros [|y prev] L Fr Fp; cbn [length] in L; try discriminate;
    cbn [zipsub zipadd]; [reflexivity|].
  inversion Fr; subst. inversion Fp; subst. f_equal.
  - rewrite N.add_mod_idemp_l by lia. replace (x + 256 - y + y) with (x + 1 * 256) by lia.
    rewrite N.mod_add by lia. apply N.mod_small. assumption.
  - apply IH; auto.
Qed.

Lemma unpredict_up fu cols prev (raw rest : bytes) : length raw = cols ->
  unpredict (S fu) cols prev (2 :: raw ++ rest) =
  match unpredict fu cols (zipadd raw prev) rest with
  | Some t => Some (zipadd raw prev ++ t)
  | None => None
  end.
Proof.
  intro L. cbn [unpredict]. cbv zeta. rewrite (firstn_len_app cols), (skipn_len_app cols) by exact L.
  rewrite L, Nat.eqb_refl. reflexivity.
Qed.

Lemma png_up_rows_le rows : forall prev, (length rows <= length (png_up prev rows))%nat.
Proof.
  induction rows as [|r rs IH]; intro prev; cbn [png_up length]; [lia|].
  rewrite app_length. specialize (IH r). lia.
Qed.

Lemma png_up_roundtrip_gen (cols : nat) rows : forall fuel prev,
  (length rows < fuel)%nat -> length prev = cols -> Forall (fun b => b < 256) prev ->
  (forall r, In r rows -> length r = cols /\ Forall (fun b => b < 256) r) ->
  unpredict fuel cols prev (png_up prev rows) = Some (concat rows).
Proof.
  induction rows as [|r rs IH]; intros fuel prev Hf Lp Fp Hr;
    (destruct fuel as [|fu]; [cbn [length] in Hf; lia|]).
  - reflexivity.
  - cbn [png_up concat]. destruct (Hr r (or_introl eq_refl)) as [Lr Fr].
    rewrite unpredict_up by (rewrite zipsub_length; exact Lr).
    rewrite zip_cancel by (auto; congruence).
    rewrite IH; [reflexivity|cbn [length] in Hf; lia|exact Lr|exact Fr|].
    intros r' Hin. apply Hr. right. exact Hin.
Qed.

Lemma repeat0_wf n : Forall (fun b => b < 256) (repeat 0 n).
Proof. induction n; cbn [repeat]; constructor; auto. lia. Qed.

Lemma png_up_roundtrip (cols : nat) rows :
  (forall r, In r rows -> length r = cols /\ Forall (fun b => b < 256) r) ->
  unpredict (S (length (png_up (repeat 0 cols) rows))) cols (repeat 0 cols)
            (png_up (repeat 0 cols) rows) = Some (concat rows).
Proof.
  intro H. apply png_up_roundtrip_gen; auto.
  - apply le_n_S, png_up_rows_le.
  - apply repeat_length.
  - apply repeat0_wf.
Qed.
