(* C03: the structural facts that [validate] checks (and [validate_sound] concludes) hold of every
   output of the C02 model writer: each in-use entry of the serialised table is the offset of the
   bytes "N G obj" LF; a stream's body is followed by LF "endstream" LF "endobj" and its declared
   /Length is the length of that body.  (That the validator's object parser accepts the text of
   the model's formatter is C01's round trip; it is executed on every case of the check.) *)
From Coq Require Import List NArith ZArith Bool Lia.
From GoPdf.Base Require Import Bytes Res.
From GoPdf.C02 Require Import Obj Dec Syntax Writer WriterProofs LayoutProofs Reader ReaderProofs ChainProofs.
From GoPdf.C03 Require Import PSyntax Validate.
Import ListNotations.
Open Scope N_scope.

(* the strict entry point only adds checks *)
Lemma validate_strict_sound orc f d :
  validate_strict orc f = VOk d ->
  validate orc f = VOk d /\ boundaries_ok f d = true /\ filters_doc_ok d = true.
Proof.
  unfold validate_strict, vbind. destruct (validate orc f) as [d0|]; [|discriminate].
  unfold guard. destruct (boundaries_ok f d0) eqn:E; [|discriminate].
  destruct (filters_doc_ok d0) eqn:E2; [|discriminate].
  intros H; injection H as <-. auto.
Qed.

(* what the added check means for every stream object of an accepted file *)
Lemma filters_doc_ok_spec d : filters_doc_ok d = true ->
  forall o sd boff len, In o (d_objects d) -> o_body o = BStream sd boff len ->
    match dict_get n_Filter sd, dict_get n_DecodeParms sd with
    | None, _ => True
    | Some (OName _), None => True
    | Some (OName _), Some (ODict _) => True
    | Some (OArr names), None => forallb is_name names = true
    | Some (OArr names), Some (OArr pp) =>
      forallb is_name names = true /\ length pp = length names /\ forallb parm_entry_ok pp = true
    | _, _ => False
    end.
Proof.
  unfold filters_doc_ok. rewrite forallb_forall. intros H o sd boff len Hin Hb.
  specialize (H o Hin). rewrite Hb in H. unfold filters_ok, dget in H.
  destruct (dict_get n_Filter sd) as [[]|]; destruct (dict_get n_DecodeParms sd) as [[]|];
    try discriminate H; auto.
  apply andb_true_iff in H as [H H3]. apply andb_true_iff in H as [H1 H2].
  apply Nat.eqb_eq in H2. auto.
Qed.

(* ---- every stream dictionary the model writer renders passes the validator's check of /Filter
   against /DecodeParms, as the validator sees it (parsed, i.e. normalised) ---- *)
Lemma forallb_is_name_nm fs : forallb is_name (map nm fs) = true.
Proof. induction fs as [|f fs IH]; [reflexivity | exact IH]. Qed.

Lemma prepr_entries_ok fs : forall pp, Forall2 prepr fs pp -> forallb parm_entry_ok (map norm pp) = true.
Proof.
  induction fs as [|f fs IH]; intros pp H; inversion H as [|f' o fs' pp' Hf Hr]; subst; [reflexivity|].
  cbn [map forallb]. rewrite (IH _ Hr), andb_true_r.
  destruct Hf as [->|[_ ->]]; reflexivity.
Qed.

Lemma chain_repr_filters_ok fs sd :
  chain_repr fs sd -> single k_Filter sd -> single k_DecodeParms sd ->
  filters_ok (norm_parms sd) = true.
Proof.
  intros H S1 S2. unfold filters_ok, dget.
  change n_Filter with k_Filter. change n_DecodeParms with k_DecodeParms.
  rewrite !dict_get_norm_parms, S1, S2.
  destruct fs as [|f0 [|f1 fs]].
  - destruct H as [HF _]. rewrite HF. reflexivity.
  - destruct H as [-> ->]. cbn [is_null norm]. destruct (snd f0); reflexivity.
  - change (repr_many (f0 :: f1 :: fs) sd) in H. destruct H as [-> HD].
    cbn [is_null norm]. rewrite map_norm_nm.
    destruct HD as [[_ ->]|[pp [-> [H2 _]]]].
    + apply forallb_is_name_nm.
    + cbn [is_null norm]. rewrite forallb_is_name_nm, (prepr_entries_ok _ _ H2), !map_length.
      rewrite <- (Forall2_len _ _ _ H2), Nat.eqb_refl. reflexivity.
Qed.

(* for a caller dictionary without /Filter and /DecodeParms, and for one that declares a chain
   (any shape) under at least one filter of OpenStream *)
Lemma model_stream_dict_filters_ok n g d fs :
  (dict_get k_Filter d = None -> dict_get k_DecodeParms d = None ->
     filters_ok (norm_parms (stream_dict n g d fs)) = true) /\
  (forall f fs' o, fs = f :: fs' -> dict_get k_Filter d = Some o ->
     filters_ok (norm_parms (stream_dict n g d fs)) = true).
Proof.
  split.
  - intros HF HD. destruct (stream_dict_repr_plain n g d fs HF HD) as [R [S1 S2]].
    exact (chain_repr_filters_ok _ _ R S1 S2).
  - intros f fs' o -> H. destruct (stream_dict_repr_declared n g d f fs' o H) as [R [S1 S2]].
    exact (chain_repr_filters_ok _ _ R S1 S2).
Qed.

Section ModelWriter.
  Variable fmt : obj -> bytes.
  Variable fmt_sd : dict -> lenrep -> bytes.
  Variable encS : N -> N -> bytes -> bytes.
  Variable encB : N -> N -> bytes -> bytes.
  Variable fenc : bytes -> dict -> bytes -> bytes.
  Variable deflate : bytes -> bytes.
  Variable c : cfg.

  Notation run := (run fmt fmt_sd encS encB fenc deflate c).

  (* the header, in the validator's vocabulary *)
  Definition header_bytes (n g : N) : bytes := dec n ++ 32 :: dec g ++ 32 :: w_obj ++ [10].

  Lemma header_bytes_hdr n g : header_bytes n g = hdr_of n g.
  Proof. reflexivity. Qed.

  (* what the declared length of a stream chunk is *)
  Definition declared_length (st : state) (lr : lenrep) (len : N) : Prop :=
    match lr with
    | LDirect l | LPadded l => l = len
    | LRef r =>
      exists off rest,
        xlookup r (xref st) = Some (EUse off 0) /\
        at_ off (out st) = header_bytes r 0 ++ fmt (OInt (Z.of_N len)) ++ (10 :: w_endobj ++ [10]) ++ rest
    end.

  Lemma model_writer_facts ops st :
    run ops = Ok st -> closed st = true ->
    forall n off g, xlookup n (xtab st) = Some (EUse off g) ->
      (* the entry points exactly at "N G obj" LF *)
      (exists rest, at_ off (out st) = header_bytes n g ++ rest) /\
      (* and what follows is either an object closed by LF "endobj" LF, or a stream whose body is
         followed by LF "endstream" LF "endobj" LF and whose /Length is the length of the body *)
      ((exists o rest, at_ off (out st) =
          header_bytes n g ++ fmt o ++ (10 :: w_endobj ++ [10]) ++ rest) \/
       (exists sd lr raw rest,
          at_ off (out st) =
            header_bytes n g ++ fmt_sd sd lr ++ (10 :: w_stream ++ [10]) ++ raw ++
            (10 :: w_endstream ++ 10 :: w_endobj ++ [10]) ++ rest /\
          declared_length st lr (N.of_nat (length raw)))).
  Proof.
    intros H Hc n off g Hn.
    destruct (layout_closed_lemma fmt fmt_sd encS encB fenc deflate c ops st H Hc n off g Hn)
      as [v [ch [rest [W [S C]]]]].
    assert (Hs : strm st = None).
    { destruct (run_inv fmt fmt_sd encS encB fenc deflate c ops st H) as [[_ C0]|[_ [S0 _]]]; [congruence | exact S0]. }
    unfold at_. destruct v as [o|d fs data]; unfold chunk_of in C.
    - subst ch. split.
      + rewrite S, <- app_assoc. eexists. reflexivity.
      + left. exists (map_str (sc encS c n g) o), (nl c ++ rest). rewrite S.
        change (header_bytes n g) with (hdr_of n g). unfold k_endobj_nl. rewrite <- !app_assoc. reflexivity.
    - cbv zeta in C. destruct C as [lr [-> L]]. split.
      + rewrite S. unfold stream_chunk. rewrite <- app_assoc. eexists. reflexivity.
      + right. exists (enc_dict encS c n g (stream_dict n g d fs)), lr,
                 (stream_raw encB fenc c n g d fs data), (nl c ++ rest).
        split.
        * rewrite S. unfold stream_chunk, k_stream_nl, k_endstream_endobj. change (header_bytes n g) with (hdr_of n g).
          rewrite <- !app_assoc. reflexivity.
        * destruct lr as [l|l|r]; cbn in L |- *; auto.
          destruct L as [[]|[off' [X Wr]]].
          destruct (layout_recorded_lemma fmt fmt_sd encS encB fenc deflate c ops st H Hs r off' 0 _ X Wr)
            as [v' [ch' [rest' [W' [S' C']]]]].
          rewrite Wr in W'. injection W' as <-. unfold chunk_of in C'. subst ch'.
          exists off', (nl c ++ rest'). split; [exact X|]. unfold at_. rewrite S'.
          change (header_bytes r 0) with (hdr_of r 0). unfold k_endobj_nl. rewrite <- !app_assoc. reflexivity.
  Qed.
End ModelWriter.
