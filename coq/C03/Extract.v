Require Extraction.
Require Import ExtrOcamlBasic.
From GoPdf.Base Require Import WireAnchor.
From GoPdf.C02 Require Import Obj Syntax Writer Stored.
From GoPdf.C03 Require Import PSyntax Validate.
Separate Extraction wire_anchor validate validate_strict stream_payload find_object
  Writer.init Writer.run_trace Writer.run_lenient fmt_obj fmt_sd_concrete id_cipher fenc_concrete deflate_stored.
