(* C03: the statements proved about the strict validator [validate] (Validate.v,
   PSyntax.v) and about the writer's field encoding (C02 Writer.v) against the
   validator's decoder.  Proofs are in ValidateProofs.v; this file only states. *)
From Coq Require Import String Ascii.
From Coq Require Import List NArith ZArith Bool.
From GoPdf.Base Require Import Bytes.
From GoPdf.C02 Require Import Obj Writer.
From GoPdf.Base Require Import Res.
From GoPdf.C02 Require Import Dec Syntax Stored Expect Reader ChainProofs.
From GoPdf.C03 Require Import PSyntax Validate ValidateProofs ModelWriter SyntaxRT.
Import ListNotations.
Open Scope N_scope.

(* helper Props of ValidateProofs.v, repeated here as checked equations:
     is_eol e      := e = [10] \/ e = [13] \/ e = [13; 10]
     is_eol2 a b   := (a = 32 /\ b = 10) \/ (a = 32 /\ b = 13) \/ (a = 13 /\ b = 10)
     suffix r s    := exists p, s = p ++ r *)
Example is_eol_def e : is_eol e = (e = [10] \/ e = [13] \/ e = [13; 10]).
Proof. reflexivity. Qed.
Example is_eol2_def a b :
  is_eol2 a b = ((a = 32 /\ b = 10) \/ (a = 32 /\ b = 13) \/ (a = 13 /\ b = 10)).
Proof. reflexivity. Qed.
Example suffix_def r s : suffix r s = (exists p, s = p ++ r).
Proof. reflexivity. Qed.

(* ================= validate_sound ================= *)

(* S1: the file starts with the header line of the version that is reported *)
Theorem sound_header : forall orc f d, validate orc f = VOk d ->
  d_version d <= 8 /\
  exists e rest,
    f = w_pdf ++ (if d_version d <=? 7 then [49; 46; 48 + d_version d] else [50; 46; 48])
              ++ e :: rest /\
    veol e = true.
Proof. exact sound_header_l. Qed.
Print Assumptions sound_header.

(* S2: the file ends with startxref EOL digits EOL %%EOF [EOL]; the digits are d_xrefpos,
   which lies before the word "startxref" *)
Theorem sound_tail : forall orc f d, validate orc f = VOk d ->
  exists pre e1 ds e2 e3,
    f = pre ++ w_startxref ++ e1 ++ ds ++ e2 ++ w_eof ++ e3 /\
    is_eol e1 /\ is_eol e2 /\ (e3 = [] \/ is_eol e3) /\
    ds <> [] /\ forallb vdigit ds = true /\ dval ds = d_xrefpos d /\
    d_xrefpos d < blen pre.
Proof. exact sound_tail_l. Qed.
Print Assumptions sound_tail.

(* S3: startxref is the offset of the cross-reference section, and there is no older one *)
Theorem sound_xref_start : forall orc f d, validate orc f = VOk d ->
  0 < d_xrefpos d /\
  ((d_xstream d = None /\ exists rest, at_ (d_xrefpos d) f = w_xref ++ rest) \/
   (exists n g s, d_xstream d = Some n /\ header_at f (d_xrefpos d) = Some (n, g, s))) /\
  dget n_Prev (d_trailer d) = None.
Proof. exact sound_xref_start_l. Qed.
Print Assumptions sound_xref_start.

Theorem sound_xref_stream_type : forall orc f d, validate orc f = VOk d ->
  forall n, d_xstream d = Some n -> dget n_Type (d_trailer d) = Some (OName n_XRef).
Proof. exact sound_xref_stream_type_l. Qed.
Print Assumptions sound_xref_stream_type.

(* S4: one entry per object number below /Size; in a table, entry i is the decoding of
   the i-th 20-byte line *)
Theorem sound_one_entry_per_number : forall orc f d, validate orc f = VOk d ->
  length (d_entries d) = N.to_nat (d_size d) /\
  dict_int n_Size (d_trailer d) = Some (Z.of_N (d_size d)) /\
  (d_xstream d = None ->
   exists toff, forall i e, nth_error (d_entries d) i = Some e ->
     line_entry (sub (d_xrefpos d + toff + 20 * N.of_nat i) 20 f) = Some e).
Proof. exact sound_one_entry_per_number_l. Qed.
Print Assumptions sound_one_entry_per_number.

Theorem line_entry_shape : forall l e, line_entry l = Some e ->
  length l = 20%nat /\
  exists a g t e1 e2, l = a ++ [32] ++ g ++ [32] ++ [t; e1; e2] /\
    length a = 10%nat /\ forallb vdigit a = true /\
    length g = 5%nat /\ forallb vdigit g = true /\
    is_eol2 e1 e2 /\
    ((t = 110 /\ e = XUse (dval a) (dval g)) \/ (t = 102 /\ e = XFree (dval a) (dval g))).
Proof. exact ValidateProofs.line_entry_shape. Qed.
Print Assumptions line_entry_shape.

(* S5: every in-use entry points at the header "i g obj" of its own object *)
Theorem sound_entries_point_at_headers : forall orc f d, validate orc f = VOk d ->
  forall i off g, nth_error (d_entries d) i = Some (XUse off g) ->
    exists s, header_at f off = Some (N.of_nat i, g, s).
Proof. exact sound_entries_point_at_headers_l. Qed.
Print Assumptions sound_entries_point_at_headers.

Theorem header_at_spec : forall f off n g s, header_at f off = Some (n, g, s) ->
  (off = 0 \/ exists b, nth_error f (N.to_nat (off - 1)) = Some b /\ vws b = true) /\
  exists dn w1 dg w2, at_ off f = dn ++ w1 ++ dg ++ w2 ++ w_obj ++ s /\
    dn <> [] /\ forallb vdigit dn = true /\ dval dn = n /\
    w1 <> [] /\ forallb vws w1 = true /\
    dg <> [] /\ forallb vdigit dg = true /\ dval dg = g /\
    w2 <> [] /\ forallb vws w2 = true.
Proof. exact ValidateProofs.header_at_spec. Qed.
Print Assumptions header_at_spec.

Theorem sound_objects_complete : forall orc f d, validate orc f = VOk d ->
  forall i off g, nth_error (d_entries d) i = Some (XUse off g) ->
    off < blen f /\
    exists o, In o (d_objects d) /\ o_num o = N.of_nat i /\ o_off o = off /\ o_gen o = g.
Proof. exact sound_objects_complete_l. Qed.
Print Assumptions sound_objects_complete.

(* S6: objects come from in-use entries; /Length is the number of bytes between
   "stream" EOL and the EOL before "endstream" *)
Theorem sound_objects : forall orc f d, validate orc f = VOk d ->
  forall o, In o (d_objects d) ->
    nth_error (d_entries d) (N.to_nat (o_num o)) = Some (XUse (o_off o) (o_gen o)).
Proof. exact sound_objects_l. Qed.
Print Assumptions sound_objects.

Theorem sound_stream_length : forall orc f d, validate orc f = VOk d ->
  forall o sd boff len, In o (d_objects d) -> o_body o = BStream sd boff len ->
    resolve_length f (d_entries d) sd = Some len /\
    exists pre e0 body e1 rest,
      firstn (N.to_nat boff) f = pre ++ w_stream ++ e0 /\ (e0 = [10] \/ e0 = [13; 10]) /\
      at_ boff f = body ++ e1 ++ w_endstream ++ rest /\ N.of_nat (length body) = len /\
      is_eol e1.
Proof. exact sound_stream_length_l. Qed.
Print Assumptions sound_stream_length.

Theorem sound_object_syntax : forall orc f d, validate orc f = VOk d ->
  forall o v, In o (d_objects d) -> o_body o = BObj v ->
    exists s r r2, header_at f (o_off o) = Some (o_num o, o_gen o, s) /\
                   vvalue s = Some (v, r) /\ kwd w_endobj (skipws r) = Some r2.
Proof. exact sound_object_syntax_l. Qed.
Print Assumptions sound_object_syntax.

(* S7: object streams and their members *)
Theorem sound_object_streams : forall orc f d, validate orc f = VOk d ->
  forall os, In os (d_ostms d) ->
    increasing (map snd (os_pairs os)) = true /\
    N.of_nat (length (os_pairs os)) = os_n os /\
    exists o sd boff len,
      find_object (os_num os) (d_objects d) = Some o /\ o_gen o = 0 /\
      o_body o = BStream sd boff len /\
      dict_int n_N sd = Some (Z.of_N (os_n os)) /\
      dict_int n_First sd = Some (Z.of_N (os_first os)) /\
      dget n_Type sd = Some (OName n_ObjStm).
Proof. exact sound_object_streams_l. Qed.
Print Assumptions sound_object_streams.

Theorem sound_members : forall orc f d, validate orc f = VOk d ->
  forall n s idx v, In (n, s, idx, v) (d_members d) ->
    nth_error (d_entries d) (N.to_nat n) = Some (XComp s idx) /\
    exists os off, find_ostm s (d_ostms d) = Some os /\
      nth_error (os_pairs os) (N.to_nat idx) = Some (n, off) /\
      member os n idx = VOk v.
Proof. exact sound_members_l. Qed.
Print Assumptions sound_members.

Theorem sound_members_complete : forall orc f d, validate orc f = VOk d ->
  forall i s idx, nth_error (d_entries d) i = Some (XComp s idx) ->
    exists v, In (N.of_nat i, s, idx, v) (d_members d).
Proof. exact sound_members_complete_l. Qed.
Print Assumptions sound_members_complete.

Theorem member_no_stream : forall os n idx v, member os n idx = VOk v ->
  exists text rest, vvalue text = Some (v, rest) /\ skipws rest = [].
Proof. exact ValidateProofs.member_no_stream. Qed.
Print Assumptions member_no_stream.

Theorem sound_object0_and_root : forall orc f d, validate orc f = VOk d ->
  (exists nx g r, d_entries d = XFree nx g :: r /\ (d_xstream d = None -> g = 65535)) /\
  (exists a b, dget n_Root (d_trailer d) = Some (ORef a b)).
Proof. exact sound_object0_and_root_l. Qed.
Print Assumptions sound_object0_and_root.

(* S8 *)
Theorem increasing_spec : forall l, increasing l = true ->
  forall i j a b, (i < j)%nat -> nth_error l i = Some a -> nth_error l j = Some b -> a < b.
Proof. exact ValidateProofs.increasing_spec. Qed.
Print Assumptions increasing_spec.

(* the object parser consumes a prefix of its input (the basis of all offsets above) *)
Theorem vvalue_consumes_prefix : forall s o r, vvalue s = Some (o, r) -> exists p, s = p ++ r.
Proof. exact vvalue_suffix. Qed.
Print Assumptions vvalue_consumes_prefix.

(* ================= w_sizing ================= *)
Theorem width_fits : forall m x, x <= m -> x < 256 ^ (width_of m).
Proof. exact ValidateProofs.width_fits. Qed.
Print Assumptions width_fits.

Theorem be_roundtrip : forall (w : nat) x, x < 256 ^ N.of_nat w ->
  beval (be_bytes w x) 0 = x /\ length (be_bytes w x) = w /\
  Forall (fun b => b < 256) (be_bytes w x).
Proof. exact ValidateProofs.be_roundtrip. Qed.
Print Assumptions be_roundtrip.

Theorem row_roundtrip : forall t f2 f3 (w2 w3 : nat),
  t < 3 -> f2 < 256 ^ N.of_nat w2 -> f3 < 256 ^ N.of_nat w3 ->
  row_entry 1 w2 w3 (t :: be_bytes w2 f2 ++ be_bytes w3 f3) =
  Some (match t with 0 => XFree f2 f3 | 1 => XUse f2 f3 | _ => XComp f2 f3 end).
Proof. exact ValidateProofs.row_roundtrip. Qed.
Print Assumptions row_roundtrip.

Theorem png_up_roundtrip : forall (cols : nat) rows,
  (forall r, In r rows -> length r = cols /\ Forall (fun b => b < 256) r) ->
  unpredict (S (length (png_up (repeat 0 cols) rows))) cols (repeat 0 cols)
            (png_up (repeat 0 cols) rows) = Some (concat rows).
Proof. exact ValidateProofs.png_up_roundtrip. Qed.
Print Assumptions png_up_roundtrip.

(* the entry point that is extracted and run adds to [validate] two boundary checks and the check of
   /Filter against /DecodeParms in every stream dictionary: every theorem above therefore holds of
   its results as well *)
Theorem validate_strict_refines :
  forall orc f d, validate_strict orc f = VOk d ->
    validate orc f = VOk d /\ boundaries_ok f d = true /\ filters_doc_ok d = true.
Proof. exact validate_strict_sound. Qed.
Print Assumptions validate_strict_refines.

(* 7.3.8.2 Table 5 for every stream object of an accepted file: /Filter a name with /DecodeParms
   absent or a dictionary, or an array of names with /DecodeParms absent or an array of the same
   length whose entries are dictionaries or null *)
Theorem sound_filter_parms :
  forall d, filters_doc_ok d = true ->
  forall o sd boff len, In o (d_objects d) -> o_body o = BStream sd boff len ->
    match dict_get n_Filter sd, dict_get n_DecodeParms sd with
    | None, _ => True
    | Some (OName _), None => True
    | Some (OName _), Some (ODict _) => True
    | Some (OArr names), None => forallb is_name names = true
    | Some (OArr names), Some (OArr pp) =>
      forallb is_name names = true /\ length pp = length names /\ forallb parm_entry_ok pp = true
    | _, _ => False
    end.
Proof. exact filters_doc_ok_spec. Qed.
Print Assumptions sound_filter_parms.

(* every stream dictionary the model writer renders - the caller's dictionary without /Filter, or
   declaring a chain of any shape under at least one filter of OpenStream - passes this check, as the
   validator sees it (parsed: normalised) *)
Theorem model_stream_dicts_aligned :
  forall n g d fs,
    (dict_get k_Filter d = None -> dict_get k_DecodeParms d = None ->
       filters_ok (norm_parms (stream_dict n g d fs)) = true) /\
    (forall f fs' o, fs = f :: fs' -> dict_get k_Filter d = Some o ->
       filters_ok (norm_parms (stream_dict n g d fs)) = true).
Proof. exact model_stream_dict_filters_ok. Qed.
Print Assumptions model_stream_dicts_aligned.

(* ================= strict is contained in lenient ================= *)

(* The statement (not proved; the two sides are compared on every file of every run instead: the
   harness asks go-pdf's Reader and the extracted validator for the same references of the same file):
   what the strict validator accepts, the model reader of C02 - run with the validator's own object
   parser as its parser, without decryption, and with filter decoders that agree with the oracle table
   on the bodies the validator looked up - opens, and it answers every reference as the validator's
   document does.  Two side conditions keep the statement true of the models as they are: the file
   is not encrypted, and no comment stands between the parts of an object (the validator skips
   comments wherever white space may stand, as the specification says; the model reader's skip_ws
   does not - go-pdf's scanner does -, so a file with such a comment is accepted by the validator and
   would be refused by the *model* reader). *)
Definition entry_of_x (e : xentry) : Writer.entry :=
  match e with
  | XFree _ g => Writer.EFree g
  | XUse off g => Writer.EUse off g
  | XComp s i => Writer.EComp s i
  end.

Definition strict_subset_lenient_full : Prop :=
  forall (fdec : bytes -> dict -> bytes -> option bytes) (orc : list (bytes * bytes)) (f : bytes) (d : vdoc),
    validate orc f = VOk d ->
    d_encrypted d = false ->
    (forall i, (15 <= i)%nat -> nth_error f i <> Some 37) ->
    (forall sd body data, payload orc false sd body = Some data ->
                          decode_chain fdec (filter_chain sd) body = Some data) ->
    exists rs,
      Reader.open vvalue (fun _ _ s => s) fdec false f = Ok rs /\
      rversion rs = d_version d /\
      (forall n, xlookup n (rxref rs) = option_map entry_of_x (nth_error (d_entries d) (N.to_nat n))) /\
      (forall o, In o (d_objects d) ->
         get vvalue (fun _ _ s => s) (fun _ _ s => s) fdec false 4 rs (o_num o) (o_gen o) =
         Ok (match o_body o with
             | BObj v => RObj v
             | BStream sd boff len => RStream (dict_del n_Length sd) (sub boff len f)
             end)) /\
      (forall n s i v, In (n, s, i, v) (d_members d) ->
         get vvalue (fun _ _ s => s) (fun _ _ s => s) fdec false 4 rs n 0 = Ok (RObj v)) /\
      (forall n g, (forall o, In o (d_objects d) -> o_num o = n -> o_gen o <> g) ->
                   (forall s i v, ~ In (n, s, i, v) (d_members d) \/ g <> 0) ->
         get vvalue (fun _ _ s => s) (fun _ _ s => s) fdec false 4 rs n g = Ok RNull).

(* ================= validate_model_writer ================= *)

(* The full statement: the model writer's output always validates, and the validator extracts what
   was written.  [orc] is any table that inflates what the model's deflate produced. *)
Definition validate_model_writer_full : Prop :=
  forall (c : cfg) (ops : list op) (st : state) (orc : list (bytes * bytes)),
    (forall x, olookup (deflate_stored x) orc = Some x) ->
    run_concrete c ops = Ok st -> closed st = true ->
    exists d, validate orc (out st) = VOk d /\
      d_size d = nextRef st /\
      (forall n g o, wlookup n (wr st) = Some (g, VObj o) ->
         (exists ob, find_object n (d_objects d) = Some ob /\ o_gen ob = g /\ o_body ob = BObj (norm o)) \/
         (exists s idx, In (n, s, idx, norm o) (d_members d))).

(* What is proved, for the abstract model writer (any object formatter, ciphers, filters): the
   structural facts that [validate] checks - and that validate_sound concludes - hold of every
   output: each in-use entry of the serialised table points exactly at "N G obj" LF; the object is
   closed by LF "endobj" LF, or it is a stream whose body is followed by LF "endstream" LF "endobj"
   LF and whose declared /Length (direct, padded, or an integer object that has been written) is the
   length of the body.  That the validator's parser reads the model formatter's text is C01's
   round trip and is executed on every case of the check. *)
Theorem validate_model_writer_partial :
  forall fmt fmt_sd encS encB fenc deflate (c : cfg) (ops : list op) (st : state),
    run fmt fmt_sd encS encB fenc deflate c ops = Ok st -> closed st = true ->
    forall n off g, xlookup n (xtab st) = Some (EUse off g) ->
      (exists rest, at_ off (out st) = header_bytes n g ++ rest) /\
      ((exists o rest, at_ off (out st) =
          header_bytes n g ++ fmt o ++ (10 :: w_endobj ++ [10]) ++ rest) \/
       (exists sd lr raw rest,
          at_ off (out st) =
            header_bytes n g ++ fmt_sd sd lr ++ (10 :: w_stream ++ [10]) ++ raw ++
            (10 :: w_endstream ++ 10 :: w_endobj ++ [10]) ++ rest /\
          declared_length fmt st lr (N.of_nat (length raw)))).
Proof. exact model_writer_facts. Qed.
Print Assumptions validate_model_writer_partial.

(* ================= the validator's parser reads the model formatter's text ================= *)

(* any well-formed value (bytes below 256, real tokens that are reals, distinct keys among the entries
   that are written), formatted by the model writer's canonical formatter and followed by something
   that cannot continue it, is read by the validator's parser as its normal form *)
Theorem parser_accepts_formatter :
  forall o, wf_obj o -> forall rest fuel, follow_ok rest ->
    (length (fmt_obj o ++ rest) < fuel)%nat -> vobj fuel (fmt_obj o ++ rest) = Some (norm o, rest).
Proof. exact vobj_fmt_obj. Qed.
Print Assumptions parser_accepts_formatter.

(* in the position of an indirect object: after "obj" LF, before LF and a non-digit ("endobj") *)
Theorem parser_accepts_object :
  forall o rest, wf_obj o -> no_digit_next rest ->
    vvalue (10 :: fmt_obj o ++ 10 :: rest) = Some (norm o, 10 :: rest).
Proof. exact vvalue_fmt_obj_lf. Qed.
Print Assumptions parser_accepts_object.

(* a stream dictionary with its /Length in any of the three forms *)
Theorem parser_accepts_stream_dict :
  forall d lr rest, wf_obj (ODict d) -> dict_get k_Length d = None ->
    exists d', vvalue (10 :: fmt_sd_concrete d lr ++ 10 :: rest) = Some (ODict d', 10 :: rest) /\
               dict_get k_Length d' = Some (lenval lr) /\
               ODict (dict_del k_Length d') = norm (ODict d).
Proof. exact vvalue_fmt_sd_nolength. Qed.
Print Assumptions parser_accepts_stream_dict.

(* so the two syntax hypotheses of C02's write_read theorems are met by the canonical formatter and the
   validator's parser, with "well-formed, and a dictionary has no /Length of its own" as the predicate *)
Definition wfo_c (o : obj) : Prop :=
  wf_obj o /\ (forall d, o = ODict d -> dict_get k_Length d = None).

Theorem syntax_hypotheses_hold :
  (forall o rest, wfo_c o ->
     vvalue (LF :: fmt_obj o ++ LF :: kw_endobj ++ rest) = Some (norm o, LF :: kw_endobj ++ rest)) /\
  (forall sd lr rest, wfo_c (ODict sd) -> exists d',
     vvalue (LF :: fmt_sd_concrete sd lr ++ LF :: kw_stream ++ rest) = Some (ODict d', LF :: kw_stream ++ rest) /\
     dict_get k_Length d' = Some (lenval lr) /\ ODict (dict_del k_Length d') = norm (ODict sd)).
Proof. exact syntax_hypotheses_lemma. Qed.
Print Assumptions syntax_hypotheses_hold.

(* ================= the hypotheses are satisfiable ================= *)
Definition bs (s : string) : bytes := map N_of_ascii (list_ascii_of_string s).

(* a classic file: objects at 9 and 54, table at 103 *)
Definition good_file : bytes :=
  bs "%PDF-1.4"%string ++ [10] ++ bs "1 0 obj"%string ++ [10] ++
  bs "<</Type/Catalog/Pages 2 0 R>>"%string ++ [10] ++ bs "endobj"%string ++ [10] ++
  bs "2 0 obj"%string ++ [10] ++ bs "<</Length 2>>"%string ++ [10] ++ bs "stream"%string ++
  [10] ++ bs "hi"%string ++ [10] ++ bs "endstream"%string ++ [10] ++ bs "endobj"%string ++
  [10] ++ bs "xref"%string ++ [10] ++ bs "0 3"%string ++ [10] ++
  bs "0000000000 65535 f"%string ++ [13; 10] ++ bs "0000000009 00000 n"%string ++ [13; 10] ++
  bs "0000000054 00000 n"%string ++ [13; 10] ++ bs "trailer"%string ++ [10] ++
  bs "<</Root 1 0 R/Size 3>>"%string ++ [10] ++ bs "startxref"%string ++ [10] ++
  bs "103"%string ++ [10] ++ bs "%%EOF"%string ++ [10].
Definition bad_startxref : bytes :=
  bs "%PDF-1.4"%string ++ [10] ++ bs "1 0 obj"%string ++ [10] ++
  bs "<</Type/Catalog/Pages 2 0 R>>"%string ++ [10] ++ bs "endobj"%string ++ [10] ++
  bs "2 0 obj"%string ++ [10] ++ bs "<</Length 2>>"%string ++ [10] ++ bs "stream"%string ++
  [10] ++ bs "hi"%string ++ [10] ++ bs "endstream"%string ++ [10] ++ bs "endobj"%string ++
  [10] ++ bs "xref"%string ++ [10] ++ bs "0 3"%string ++ [10] ++
  bs "0000000000 65535 f"%string ++ [13; 10] ++ bs "0000000009 00000 n"%string ++ [13; 10] ++
  bs "0000000054 00000 n"%string ++ [13; 10] ++ bs "trailer"%string ++ [10] ++
  bs "<</Root 1 0 R/Size 3>>"%string ++ [10] ++ bs "startxref"%string ++ [10] ++
  bs "104"%string ++ [10] ++ bs "%%EOF"%string ++ [10].
Definition bad_entry : bytes :=
  bs "%PDF-1.4"%string ++ [10] ++ bs "1 0 obj"%string ++ [10] ++
  bs "<</Type/Catalog/Pages 2 0 R>>"%string ++ [10] ++ bs "endobj"%string ++ [10] ++
  bs "2 0 obj"%string ++ [10] ++ bs "<</Length 2>>"%string ++ [10] ++ bs "stream"%string ++
  [10] ++ bs "hi"%string ++ [10] ++ bs "endstream"%string ++ [10] ++ bs "endobj"%string ++
  [10] ++ bs "xref"%string ++ [10] ++ bs "0 3"%string ++ [10] ++
  bs "0000000000 65535 f"%string ++ [13; 10] ++ bs "0000000010 00000 n"%string ++ [13; 10] ++
  bs "0000000054 00000 n"%string ++ [13; 10] ++ bs "trailer"%string ++ [10] ++
  bs "<</Root 1 0 R/Size 3>>"%string ++ [10] ++ bs "startxref"%string ++ [10] ++
  bs "103"%string ++ [10] ++ bs "%%EOF"%string ++ [10].
(* a file with an object stream (2) holding object 3, and a cross-reference stream (4) at 121 *)
Definition good_file2 : bytes :=
  bs "%PDF-1.5"%string ++ [10] ++ bs "1 0 obj"%string ++ [10] ++
  bs "<</Type/Catalog>>"%string ++ [10] ++ bs "endobj"%string ++ [10] ++
  bs "2 0 obj"%string ++ [10] ++ bs "<</Type/ObjStm/N 1/First 4/Length 8>>"%string ++ [10] ++
  bs "stream"%string ++ [10] ++ bs "3 0 (hi)"%string ++ [10] ++ bs "endstream"%string ++
  [10] ++ bs "endobj"%string ++ [10] ++ bs "4 0 obj"%string ++ [10] ++
  bs "<</Type/XRef/Size 5/W[1 2 1]/Root 1 0 R/Length 20>>"%string ++ [10] ++
  bs "stream"%string ++ [10] ++
  [0; 0; 0; 255; 1; 0; 9; 0; 1; 0; 42; 0; 2; 0; 2; 0; 1; 0; 121; 0] ++ [10] ++
  bs "endstream"%string ++ [10] ++ bs "endobj"%string ++ [10] ++ bs "startxref"%string ++
  [10] ++ bs "121"%string ++ [10] ++ bs "%%EOF"%string ++ [10].

Example good_file_ok :
  match validate [] good_file with
  | VOk d => (d_size d, length (d_objects d))
  | VErr c => (c, 0%nat)
  end = (3, 2%nat).
Proof. vm_compute. reflexivity. Qed.

Example good_file_doc :
  match validate [] good_file with
  | VOk d => Some (d_version d, d_xrefpos d, d_xstream d, d_entries d,
                   map (fun o => (o_num o, o_off o,
                                  match o_body o with BStream _ b l => Some (b, l) | _ => None end))
                       (d_objects d))
  | VErr _ => None
  end = Some (4, 103, None, [XFree 0 65535; XUse 9 0; XUse 54 0],
              [(1, 9, None); (2, 54, Some (83, 2))]).
Proof. vm_compute. reflexivity. Qed.

Example bad_startxref_rejected : validate [] bad_startxref = VErr E_XREFPOS.
Proof. vm_compute. reflexivity. Qed.

Example bad_entry_rejected : validate [] bad_entry = VErr E_OBJ_HEADER.
Proof. vm_compute. reflexivity. Qed.

Example good_file2_ok :
  match validate [] good_file2 with
  | VOk d => Some (d_size d, d_xstream d, d_entries d, length (d_objects d),
                   map (fun os => (os_num os, os_n os, os_first os, os_pairs os)) (d_ostms d),
                   d_members d)
  | VErr _ => None
  end = Some (5, Some 4, [XFree 0 255; XUse 9 0; XUse 42 0; XComp 2 0; XUse 121 0], 3%nat,
              [(2, 1, 4, [(3, 0)])], [(3, 2, 0, OStr [104; 105])]).
Proof. vm_compute. reflexivity. Qed.

(* the writer-side hypotheses *)
Example width_fits_inst : 70000 < 256 ^ (width_of 70000) /\ width_of 70000 = 3.
Proof. split; [apply width_fits; apply N.le_refl|reflexivity]. Qed.

Example row_roundtrip_inst :
  row_entry 1 3 2 (2 :: be_bytes 3 70000 ++ be_bytes 2 7) = Some (XComp 70000 7).
Proof. vm_compute. reflexivity. Qed.

Example png_up_inst :
  png_up (repeat 0 2%nat) [[1; 2]; [3; 1]] = [2; 1; 2; 2; 2; 255] /\
  unpredict 7 2 [0; 0] [2; 1; 2; 2; 2; 255] = Some [1; 2; 3; 1].
Proof. vm_compute. split; reflexivity. Qed.
