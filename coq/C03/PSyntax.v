(* C03: object syntax of ISO 32000-2 §7.2-7.3, as the independent validator
   reads it.  Written from the specification; shares nothing with the C02
   reader model except the datatype of values (GoPdf.C02.Obj). *)
From Coq Require Import List NArith ZArith Bool Decimal DecimalN.
From GoPdf.Base Require Import Bytes.
From GoPdf.C02 Require Import Obj.
Import ListNotations.
Open Scope N_scope.

(* 7.2.3 Table 1: white-space characters *)
Definition vws (b : byte) : bool :=
  (b =? 0) || (b =? 9) || (b =? 10) || (b =? 12) || (b =? 13) || (b =? 32).
(* 7.2.3 Table 2: delimiters *)
Definition vdelim (b : byte) : bool :=
  (b =? 40) || (b =? 41) || (b =? 60) || (b =? 62) || (b =? 91) || (b =? 93) ||
  (b =? 123) || (b =? 125) || (b =? 47) || (b =? 37).
Definition vregular (b : byte) : bool := negb (vws b) && negb (vdelim b).
Definition vdigit (b : byte) : bool := (48 <=? b) && (b <=? 57).
Definition veol (b : byte) : bool := (b =? 10) || (b =? 13).

Fixpoint vprefix (p s : bytes) : bool :=
  match p, s with
  | [], _ => true
  | x :: p', y :: s' => (x =? y) && vprefix p' s'
  | _ :: _, [] => false
  end.

(* white space and comments (7.2.4) *)
Fixpoint vsk (in_comment : bool) (s : bytes) : bytes :=
  match s with
  | [] => []
  | b :: r =>
    if in_comment then (if veol b then vsk false r else vsk true r)
    else if vws b then vsk false r
    else if b =? 37 then vsk true r
    else s
  end.
Definition skipws (s : bytes) : bytes := vsk false s.

(* white space only (no comments): between the parts of "N G obj" *)
Fixpoint skipsp (s : bytes) : bytes :=
  match s with
  | b :: r => if vws b then skipsp r else s
  | [] => []
  end.

(* value of a run of decimal digits *)
Fixpoint digits_val (s : bytes) (acc : N) : N * bytes * nat :=
  match s with
  | b :: r =>
    if vdigit b then
      let '(v, rest, k) := digits_val r (acc * 10 + (b - 48)) in (v, rest, S k)
    else (acc, s, O)
  | [] => (acc, [], O)
  end.

Definition vnat (s : bytes) : option (N * bytes) :=
  match digits_val s 0 with
  | (_, _, O) => None
  | (v, rest, _) => Some (v, rest)
  end.

Definition vhex (b : byte) : option N :=
  if (48 <=? b) && (b <=? 57) then Some (b - 48)
  else if (97 <=? b) && (b <=? 102) then Some (b - 87)
  else if (65 <=? b) && (b <=? 70) then Some (b - 55)
  else None.

(* 7.3.5 names: regular characters, #xx *)
Fixpoint vname (s : bytes) : option (bytes * bytes) :=
  match s with
  | b :: r =>
    if vregular b then
      if b =? 35 then
        match r with
        | h1 :: h2 :: r' =>
          match vhex h1, vhex h2 with
          | Some a, Some c =>
            match vname r' with
            | Some (n, rest) => Some ((16 * a + c) :: n, rest)
            | None => None
            end
          | _, _ => None            (* '#' not followed by two hex digits *)
          end
        | _ => None
        end
      else
        match vname r with
        | Some (n, rest) => Some (b :: n, rest)
        | None => None
        end
    else Some ([], s)
  | [] => Some ([], [])
  end.

(* 7.3.4.3 hexadecimal strings *)
Fixpoint vhexstr (s : bytes) (pend : option N) : option (bytes * bytes) :=
  match s with
  | [] => None
  | b :: r =>
    if b =? 62 then Some (match pend with Some a => [16 * a] | None => [] end, r)
    else if vws b then vhexstr r pend
    else match vhex b with
         | None => None
         | Some v =>
           match pend with
           | None => vhexstr r (Some v)
           | Some a =>
             match vhexstr r None with
             | Some (t, rest) => Some ((16 * a + v) :: t, rest)
             | None => None
             end
           end
         end
  end.

(* 7.3.4.2 literal strings; [s] starts after the opening parenthesis *)
Definition voct (b : byte) : bool := (48 <=? b) && (b <=? 55).

Fixpoint vlit (fuel : nat) (depth : nat) (s : bytes) : option (bytes * bytes) :=
  match fuel with
  | O => None
  | S f =>
    match s with
    | [] => None
    | 41 :: r =>
      match depth with
      | O => Some ([], r)
      | S d => match vlit f d r with Some (t, rest) => Some (41 :: t, rest) | None => None end
      end
    | 40 :: r =>
      match vlit f (S depth) r with Some (t, rest) => Some (40 :: t, rest) | None => None end
    | 13 :: 10 :: r =>
      match vlit f depth r with Some (t, rest) => Some (10 :: t, rest) | None => None end
    | 13 :: r =>
      match vlit f depth r with Some (t, rest) => Some (10 :: t, rest) | None => None end
    | 92 :: e :: r =>
      let cont c rr := match vlit f depth rr with Some (t, rest) => Some (c :: t, rest) | None => None end in
      if e =? 110 then cont 10 r
      else if e =? 114 then cont 13 r
      else if e =? 116 then cont 9 r
      else if e =? 98 then cont 8 r
      else if e =? 102 then cont 12 r
      else if (e =? 40) || (e =? 41) || (e =? 92) then cont e r
      else if e =? 13 then
        match r with
        | 10 :: r' => vlit f depth r'
        | _ => vlit f depth r
        end
      else if e =? 10 then vlit f depth r
      else if voct e then
        match r with
        | o2 :: r2 =>
          if voct o2 then
            match r2 with
            | o3 :: r3 =>
              if voct o3 then cont (((e - 48) * 64 + (o2 - 48) * 8 + (o3 - 48)) mod 256) r3
              else cont ((e - 48) * 8 + (o2 - 48)) r2
            | [] => cont ((e - 48) * 8 + (o2 - 48)) r2
            end
          else cont (e - 48) r
        | [] => cont (e - 48) r
        end
      else vlit f depth (e :: r)      (* the solidus is ignored *)
    | b :: r =>
      match vlit f depth r with Some (t, rest) => Some (b :: t, rest) | None => None end
    end
  end.

(* 7.3.3 numbers *)
Definition vnumch (b : byte) : bool := vdigit b || (b =? 43) || (b =? 45) || (b =? 46).
Fixpoint vnumtok (s : bytes) : bytes * bytes :=
  match s with
  | b :: r => if vnumch b then let '(t, rest) := vnumtok r in (b :: t, rest) else ([], s)
  | [] => ([], [])
  end.

Definition alldig (t : bytes) : bool := negb (Nat.eqb (length t) 0) && forallb vdigit t.
Definition unsigned_part (t : bytes) : bytes :=
  match t with 43 :: d | 45 :: d => d | d => d end.
Definition vint (t : bytes) : option Z :=
  let d := unsigned_part t in
  if alldig d then
    let '(v, _, _) := digits_val d 0 in
    Some (match t with 45 :: _ => (- Z.of_N v)%Z | _ => Z.of_N v end)
  else None.
(* a real: optional sign, digits with exactly one '.', at least one digit *)
Definition vreal (t : bytes) : bool :=
  let d := unsigned_part t in
  (Nat.eqb (length (filter (N.eqb 46) d)) 1) &&
  forallb (fun b => vdigit b || (b =? 46)) d &&
  negb (Nat.eqb (length (filter vdigit d)) 0).

Definition vends (s : bytes) : bool :=
  match s with [] => true | b :: _ => negb (vregular b) end.

Definition k_R : byte := 82.

(* after a non-negative integer: "<ws> gen <ws> R" (7.3.10) *)
Definition vref (a : Z) (s : bytes) : option (obj * bytes) :=
  match a with
  | Zneg _ => None
  | _ =>
    match s with
    | b :: _ =>
      if vws b then
        match vnat (skipws s) with
        | Some (g, s1) =>
          match s1 with
          | b1 :: _ =>
            if vws b1 then
              match skipws s1 with
              | 82 :: s2 => if vends s2 then Some (ORef (Z.to_N a) g, s2) else None
              | _ => None
              end
            else None
          | [] => None
          end
        | None => None
        end
      else None
    | [] => None
    end
  end.

Definition kwd (l : list N) (s : bytes) : option bytes :=
  if vprefix l s && vends (skipn (length l) s) then Some (skipn (length l) s) else None.

Definition w_null : bytes := [110; 117; 108; 108].
Definition w_true : bytes := [116; 114; 117; 101].
Definition w_false : bytes := [102; 97; 108; 115; 101].

Fixpoint varr (p : bytes -> option (obj * bytes)) (fuel : nat) (s : bytes)
  : option (list obj * bytes) :=
  match fuel with
  | O => None
  | S f =>
    match skipws s with
    | 93 :: r => Some ([], r)
    | s' =>
      match p s' with
      | Some (o, r) =>
        match varr p f r with
        | Some (l, r') => Some (o :: l, r')
        | None => None
        end
      | None => None
      end
    end
  end.

Fixpoint vdict (p : bytes -> option (obj * bytes)) (fuel : nat) (s : bytes)
  : option (dict * bytes) :=
  match fuel with
  | O => None
  | S f =>
    match skipws s with
    | 62 :: 62 :: r => Some ([], r)
    | 47 :: r =>
      match vname r with
      | Some (k, r1) =>
        match p r1 with
        | Some (v, r2) =>
          match vdict p f r2 with
          | Some (l, r3) => Some ((k, v) :: l, r3)
          | None => None
          end
        | None => None
        end
      | None => None
      end
    | _ => None
    end
  end.

Fixpoint has_key (k : bytes) (l : dict) : bool :=
  match l with [] => false | (k', _) :: r => bytes_eqb k k' || has_key k r end.
Fixpoint dup_keys (l : dict) : bool :=
  match l with [] => false | (k, _) :: r => has_key k r || dup_keys r end.

(* a dictionary value: entries with a null value are equivalent to absent
   entries (7.3.7); the result is sorted by key; duplicate keys are refused *)
Definition vdict_norm (l : dict) : option obj :=
  if dup_keys l then None
  else Some (ODict (dict_sort (filter (fun kv => negb (is_null (snd kv))) l))).

Fixpoint vobj (fuel : nat) (s : bytes) : option (obj * bytes) :=
  match fuel with
  | O => None
  | S f =>
    match skipws s with
    | [] => None
    | 47 :: r => match vname r with Some (n, rest) => Some (OName n, rest) | None => None end
    | 60 :: 60 :: r =>
      match vdict (vobj f) f r with
      | Some (l, rest) => match vdict_norm l with Some d => Some (d, rest) | None => None end
      | None => None
      end
    | 60 :: r => match vhexstr r None with Some (x, rest) => Some (OStr x, rest) | None => None end
    | 40 :: r => match vlit f 0 r with Some (x, rest) => Some (OStr x, rest) | None => None end
    | 91 :: r => match varr (vobj f) f r with Some (l, rest) => Some (OArr l, rest) | None => None end
    | b :: r =>
      if vnumch b then
        let '(t, rest) := vnumtok (b :: r) in
        if negb (vends rest) then None
        else match vint t with
             | Some z => match vref z rest with Some x => Some x | None => Some (OInt z, rest) end
             | None => if vreal t then Some (OReal t, rest) else None
             end
      else match kwd w_null (b :: r) with
           | Some rest => Some (ONull, rest)
           | None =>
             match kwd w_true (b :: r) with
             | Some rest => Some (OBool true, rest)
             | None =>
               match kwd w_false (b :: r) with
               | Some rest => Some (OBool false, rest)
               | None => None
               end
             end
           end
    end
  end.

Definition vvalue (s : bytes) : option (obj * bytes) := vobj (S (length s)) s.
