(* C03: the strict object parser of the validator (PSyntax.vobj / vvalue) reads the text of the
   canonical formatter of the C02 model writer (Syntax.fmt_obj) back as the normal form of the
   value.  Leaf lemmas (names, hex strings, decimal integers, keywords, references), the
   look-ahead of [vref], the nested induction over arrays and dictionaries, the theorem
   [vobj_fmt_obj] and its corollaries for [vvalue]. *)
From Coq Require Import List NArith ZArith Bool Lia ZifyBool Decimal DecimalN DecimalPos.
From GoPdf.Base Require Import Bytes.
From GoPdf.C02 Require Import Obj Dec Syntax Writer Stored Samples.
From GoPdf.C03 Require Import PSyntax.
Import ListNotations.
Open Scope N_scope.

(* ================= byte classes ================= *)

Definition lt256 (b : byte) : Prop := b < 256.

(* what a formatted value may start with *)
Definition hdok (b : byte) : bool :=
  negb (vws b) && negb (b =? 37) && negb (b =? 82) && negb (b =? 93).

Lemma numch_hdok b : vnumch b = true -> hdok b = true.
Proof. unfold vnumch, vdigit, hdok, vws. lia. Qed.

Lemma numch_cases b : vnumch b = true ->
  b = 43 \/ b = 45 \/ b = 46 \/ b = 48 \/ b = 49 \/ b = 50 \/ b = 51 \/ b = 52 \/ b = 53 \/
  b = 54 \/ b = 55 \/ b = 56 \/ b = 57.
Proof. unfold vnumch, vdigit. lia. Qed.

Lemma digit_cases b : vdigit b = true ->
  b = 48 \/ b = 49 \/ b = 50 \/ b = 51 \/ b = 52 \/ b = 53 \/ b = 54 \/ b = 55 \/ b = 56 \/ b = 57.
Proof. unfold vdigit. lia. Qed.

Lemma digit_numch b : vdigit b = true -> vnumch b = true.
Proof. unfold vnumch. intros ->. reflexivity. Qed.

Lemma numch_regular b : vnumch b = true -> vregular b = true.
Proof. unfold vnumch, vdigit, vregular, vws, vdelim. lia. Qed.

Lemma alnum_regular b : is_alnum b = true -> vregular b = true /\ (b =? 35) = false.
Proof. unfold is_alnum, vregular, vws, vdelim. lia. Qed.

Lemma hdok_skipws b s : hdok b = true -> skipws (b :: s) = b :: s.
Proof.
  unfold hdok, skipws. intros H. cbn [vsk].
  destruct (vws b); [discriminate H|]. destruct (b =? 37); [discriminate H|]. reflexivity.
Qed.

(* what may follow a token *)
Definition starts_nonnum (s : bytes) : Prop :=
  match s with [] => True | b :: _ => vnumch b = false end.

Lemma vends_nonnum s : vends s = true -> starts_nonnum s.
Proof.
  destruct s as [|b s]; cbn; [trivial|]. intros H.
  destruct (vnumch b) eqn:E; [|reflexivity]. apply numch_regular in E. rewrite E in H. discriminate H.
Qed.

Lemma nonnum_nondigit b : vnumch b = false -> vdigit b = false.
Proof. unfold vnumch. destruct (vdigit b); [discriminate|reflexivity]. Qed.

(* ================= hexadecimal digits ================= *)

Lemma lt16_cases n : n < 16 ->
  n = 0 \/ n = 1 \/ n = 2 \/ n = 3 \/ n = 4 \/ n = 5 \/ n = 6 \/ n = 7 \/ n = 8 \/ n = 9 \/
  n = 10 \/ n = 11 \/ n = 12 \/ n = 13 \/ n = 14 \/ n = 15.
Proof. lia. Qed.

Ltac cases16 H :=
  apply lt16_cases in H;
  repeat (destruct H as [H|H]; [subst|]); [..|subst].

Lemma vhex_hexd n : n < 16 -> vhex (hexd n) = Some n.
Proof. intros H. cases16 H; reflexivity. Qed.

Lemma nibbles b : b < 256 -> b / 16 < 16 /\ b mod 16 < 16 /\ 16 * (b / 16) + b mod 16 = b.
Proof.
  intros H. split; [|split].
  - apply N.div_lt_upper_bound; lia.
  - apply N.mod_lt. lia.
  - symmetry. apply N.div_mod. lia.
Qed.

Lemma app1 {A} (a : A) l : [a] ++ l = a :: l.
Proof. reflexivity. Qed.
Lemma app2 {A} (a b : A) l : [a; b] ++ l = a :: b :: l.
Proof. reflexivity. Qed.
Lemma app3 {A} (a b c : A) l : [a; b; c] ++ l = a :: b :: c :: l.
Proof. reflexivity. Qed.

(* ================= names ================= *)

Definition esc (b : byte) : bytes :=
  if is_alnum b then [b] else [35; hexd (b / 16); hexd (b mod 16)].

Lemma fmt_name_esc n : fmt_name n = 47 :: flat_map esc n.
Proof. reflexivity. Qed.

Lemma vname_hash h1 h2 r :
  vname (35 :: h1 :: h2 :: r) =
  match vhex h1, vhex h2 with
  | Some a, Some c =>
    match vname r with Some (n, rest) => Some ((16 * a + c) :: n, rest) | None => None end
  | _, _ => None
  end.
Proof. reflexivity. Qed.

Lemma vname_reg b r : vregular b = true -> (b =? 35) = false ->
  vname (b :: r) = match vname r with Some (n, rest) => Some (b :: n, rest) | None => None end.
Proof. intros H1 H2. cbn [vname]. rewrite H1, H2. reflexivity. Qed.

Lemma vname_stop s : vends s = true -> vname s = Some ([], s).
Proof.
  destruct s as [|b s]; [reflexivity|]. cbn [vends vname]. intros H.
  destruct (vregular b); [discriminate H|reflexivity].
Qed.

Lemma vname_esc n : forall rest, Forall lt256 n -> vends rest = true ->
  vname (flat_map esc n ++ rest) = Some (n, rest).
Proof.
  unfold bytes, byte in *. induction n as [|b n IH]; intros rest W E.
  - apply vname_stop, E.
  - inversion W as [|? ? Wb Wn]; subst. cbn [flat_map]. rewrite <- app_assoc.
    unfold esc at 1. destruct (is_alnum b) eqn:A.
    + apply alnum_regular in A. destruct A as [A1 A2].
      rewrite app1, (vname_reg _ _ A1 A2), (IH rest Wn E). reflexivity.
    + destruct (nibbles b Wb) as (H1 & H2 & H3).
      rewrite app3, vname_hash, (vhex_hexd _ H1), (vhex_hexd _ H2), (IH rest Wn E), H3.
      reflexivity.
Qed.

(* ================= hexadecimal strings ================= *)

Lemma vhexstr_digit n r pend : n < 16 ->
  vhexstr (hexd n :: r) pend =
  match pend with
  | None => vhexstr r (Some n)
  | Some a => match vhexstr r None with Some (t, rest) => Some ((16 * a + n) :: t, rest) | None => None end
  end.
Proof. intros H. cases16 H; reflexivity. Qed.

Lemma hex_bytes_cons b s : hex_bytes (b :: s) = hexd (b / 16) :: hexd (b mod 16) :: hex_bytes s.
Proof. reflexivity. Qed.

Lemma vhexstr_hex s : forall rest, Forall lt256 s ->
  vhexstr (hex_bytes s ++ 62 :: rest) None = Some (s, rest).
Proof.
  unfold bytes, byte in *. induction s as [|b s IH]; intros rest W.
  - reflexivity.
  - inversion W as [|? ? Wb Ws]; subst. destruct (nibbles b Wb) as (H1 & H2 & H3).
    rewrite hex_bytes_cons, <- !app_comm_cons.
    rewrite (vhexstr_digit _ _ None H1), (vhexstr_digit _ _ (Some (b / 16)) H2).
    unfold bytes, byte in *. rewrite (IH rest Ws), H3.
    reflexivity.
Qed.

(* ================= decimal text ================= *)

(* positional value of a Decimal.uint, most significant digit first, with an accumulator *)
Fixpoint uval (u : Decimal.uint) (acc : N) : N :=
  match u with
  | Nil => acc
  | D0 u => uval u (acc * 10 + 0)
  | D1 u => uval u (acc * 10 + 1)
  | D2 u => uval u (acc * 10 + 2)
  | D3 u => uval u (acc * 10 + 3)
  | D4 u => uval u (acc * 10 + 4)
  | D5 u => uval u (acc * 10 + 5)
  | D6 u => uval u (acc * 10 + 6)
  | D7 u => uval u (acc * 10 + 7)
  | D8 u => uval u (acc * 10 + 8)
  | D9 u => uval u (acc * 10 + 9)
  end.

Definition starts_nodigit (s : bytes) : Prop :=
  match s with [] => True | b :: _ => vdigit b = false end.

Lemma digits_val_stop r acc : starts_nodigit r -> digits_val r acc = (acc, r, O).
Proof. destruct r as [|b r]; [reflexivity|]. cbn. intros ->. reflexivity. Qed.

Lemma digits_val_uint u : forall r acc, starts_nodigit r ->
  digits_val (uint_bytes u ++ r) acc = (uval u acc, r, length (uint_bytes u)).
Proof.
  unfold bytes, byte in *.
  induction u; intros r acc Hr; cbn [uint_bytes uval length];
    try (rewrite <- app_comm_cons; cbn [digits_val];
         match goal with |- context [vdigit ?k] => change (vdigit k) with true end;
         cbv iota;
         match goal with |- context [?k - 48] =>
           let v := eval vm_compute in (k - 48) in change (k - 48) with v end;
         rewrite IHu by exact Hr; reflexivity).
  apply digits_val_stop, Hr.
Qed.

Lemma uval_pos u : forall acc, uval u (Npos acc) = Npos (Pos.of_uint_acc u acc).
Proof.
  induction u; intros acc; cbn [uval Pos.of_uint_acc]; try reflexivity;
    rewrite <- IHu; f_equal; lia.
Qed.

Lemma uval_0 u : uval u 0 = N.of_uint u.
Proof.
  induction u; cbn [uval]; try reflexivity;
    try (change (0 * 10 + 0) with 0; exact IHu);
    match goal with |- uval _ (0 * 10 + ?k) = _ =>
      let v := eval vm_compute in (0 * 10 + k) in change (0 * 10 + k) with v end;
    match goal with |- uval _ (Npos ?p) = _ => rewrite (uval_pos u p) end; reflexivity.
Qed.

Lemma digits_val_dec n r : starts_nodigit r ->
  digits_val (dec n ++ r) 0 = (n, r, length (dec n)).
Proof.
  intros Hr. unfold dec. rewrite (digits_val_uint _ _ _ Hr), uval_0, DecimalN.Unsigned.of_to.
  reflexivity.
Qed.

Lemma to_uint_nonnil n : N.to_uint n <> Nil.
Proof. destruct n; cbn; [discriminate | apply Unsigned.to_uint_nonnil]. Qed.

Lemma uint_bytes_digits u : forallb vdigit (uint_bytes u) = true.
Proof. induction u; cbn [uint_bytes forallb]; try reflexivity; exact IHu. Qed.

Lemma dec_digits n : forallb vdigit (dec n) = true.
Proof. apply uint_bytes_digits. Qed.

Lemma dec_cons n : exists b t, dec n = b :: t /\ vdigit b = true.
Proof.
  unfold dec. pose proof (to_uint_nonnil n) as H.
  destruct (N.to_uint n); try contradiction; cbn [uint_bytes]; eexists; eexists; split; reflexivity.
Qed.

Lemma vnat_dec n r : starts_nodigit r -> vnat (dec n ++ r) = Some (n, r).
Proof.
  intros Hr. unfold vnat. rewrite (digits_val_dec _ _ Hr).
  destruct (dec_cons n) as (b & t & E & _). rewrite E. reflexivity.
Qed.

(* number tokens *)
Lemma vnumtok_app t : forall rest, forallb vnumch t = true -> starts_nonnum rest ->
  vnumtok (t ++ rest) = (t, rest).
Proof.
  unfold bytes, byte in *. induction t as [|b t IH]; intros rest F Hr.
  - destruct rest as [|c rest]; [reflexivity|]. cbn in Hr |- *. rewrite Hr. reflexivity.
  - cbn [forallb] in F. apply andb_true_iff in F as [F1 F2].
    rewrite <- app_comm_cons. cbn [vnumtok]. rewrite F1, (IH rest F2 Hr). reflexivity.
Qed.

Lemma digits_numch t : forallb vdigit t = true -> forallb vnumch t = true.
Proof.
  induction t as [|b t IH]; cbn [forallb]; [reflexivity|]. intros H.
  apply andb_true_iff in H as [H1 H2]. rewrite (digit_numch _ H1), (IH H2). reflexivity.
Qed.

Lemma unsigned_digit b t : vdigit b = true -> unsigned_part (b :: t) = b :: t.
Proof.
  intros H. apply digit_cases in H.
  repeat (destruct H as [H|H]; [subst; reflexivity|]). subst; reflexivity.
Qed.

Lemma sign_digit {A} b t (x y : A) : vdigit b = true ->
  match b :: t with 45 :: _ => x | _ => y end = y.
Proof.
  intros H. apply digit_cases in H.
  repeat (destruct H as [H|H]; [subst; reflexivity|]). subst; reflexivity.
Qed.

Lemma alldig_dec n : alldig (dec n) = true.
Proof.
  unfold alldig. rewrite dec_digits. destruct (dec_cons n) as (b & t & E & _). rewrite E. reflexivity.
Qed.

Lemma vint_dec n : vint (dec n) = Some (Z.of_N n).
Proof.
  destruct (dec_cons n) as (b & t & E & D).
  unfold vint. rewrite E, (unsigned_digit _ _ D), <- E, alldig_dec.
  pose proof (digits_val_dec n [] I) as H. rewrite app_nil_r in H. rewrite H.
  cbv beta iota zeta. f_equal. rewrite ?E. apply (sign_digit b t _ _ D).
Qed.

Lemma vint_neg_dec n : vint (45 :: dec n) = Some (- Z.of_N n)%Z.
Proof.
  unfold vint. change (unsigned_part (45 :: dec n)) with (dec n). rewrite alldig_dec.
  pose proof (digits_val_dec n [] I) as H. rewrite app_nil_r in H. rewrite H. reflexivity.
Qed.

Lemma vint_dec_z z : vint (dec_z z) = Some z.
Proof.
  destruct z as [|p|p]; cbn [dec_z].
  - reflexivity.
  - apply (vint_dec (Npos p)).
  - apply (vint_neg_dec (Npos p)).
Qed.

Lemma dec_z_numch z : forallb vnumch (dec_z z) = true.
Proof.
  destruct z as [|p|p]; cbn [dec_z]; [reflexivity| |].
  - apply digits_numch, dec_digits.
  - cbn [forallb]. change (vnumch 45) with true. apply digits_numch, dec_digits.
Qed.

Lemma dec_z_cons z : exists b t, dec_z z = b :: t /\ vnumch b = true.
Proof.
  destruct z as [|p|p]; cbn [dec_z].
  - eexists; eexists; split; reflexivity.
  - destruct (dec_cons (Npos p)) as (b & t & E & D). exists b, t. split; [exact E|apply digit_numch, D].
  - eexists; eexists; split; reflexivity.
Qed.

(* ================= keywords ================= *)

Lemma vprefix_app p r : vprefix p (p ++ r) = true.
Proof. induction p; cbn; [reflexivity|]. rewrite N.eqb_refl. exact IHp. Qed.

Lemma skipn_app_len {A} (p r : list A) : skipn (length p) (p ++ r) = r.
Proof. induction p; cbn; auto. Qed.

Lemma kwd_app l rest : vends rest = true -> kwd l (l ++ rest) = Some rest.
Proof. intros H. unfold kwd. rewrite vprefix_app, skipn_app_len, H. reflexivity. Qed.

(* ================= one step of [vobj], by the first byte ================= *)

Lemma vobj_sp f s : vobj f (32 :: s) = vobj f s.
Proof. destruct f; reflexivity. Qed.

Lemma vobj_lf f s : vobj f (10 :: s) = vobj f s.
Proof. destruct f; reflexivity. Qed.

Lemma vobj_name f r :
  vobj (S f) (47 :: r) = match vname r with Some (n, rest) => Some (OName n, rest) | None => None end.
Proof. reflexivity. Qed.

Lemma vobj_arr f r :
  vobj (S f) (91 :: r) =
  match varr (vobj f) f r with Some (l, rest) => Some (OArr l, rest) | None => None end.
Proof. reflexivity. Qed.

Lemma vobj_dict f r :
  vobj (S f) (60 :: 60 :: r) =
  match vdict (vobj f) f r with
  | Some (l, rest) => match vdict_norm l with Some d => Some (d, rest) | None => None end
  | None => None
  end.
Proof. reflexivity. Qed.

Lemma vobj_hexd f n r : n < 16 ->
  vobj (S f) (60 :: hexd n :: r) =
  match vhexstr (hexd n :: r) None with Some (x, rest) => Some (OStr x, rest) | None => None end.
Proof. intros H. cases16 H; reflexivity. Qed.

Lemma vobj_hex_empty f r : vobj (S f) (60 :: 62 :: r) = Some (OStr [], r).
Proof. reflexivity. Qed.

Lemma vobj_num f b r : vnumch b = true ->
  vobj (S f) (b :: r) =
  (let '(t, rest) := vnumtok (b :: r) in
   if negb (vends rest) then None
   else match vint t with
        | Some z => match vref z rest with Some x => Some x | None => Some (OInt z, rest) end
        | None => if vreal t then Some (OReal t, rest) else None
        end).
Proof.
  intros H. apply numch_cases in H.
  repeat (destruct H as [H|H]; [subst; reflexivity|]). subst; reflexivity.
Qed.

Lemma vobj_kw f b r : b = 110 \/ b = 116 \/ b = 102 ->
  vobj (S f) (b :: r) =
  match kwd w_null (b :: r) with
  | Some rest => Some (ONull, rest)
  | None =>
    match kwd w_true (b :: r) with
    | Some rest => Some (OBool true, rest)
    | None =>
      match kwd w_false (b :: r) with
      | Some rest => Some (OBool false, rest)
      | None => None
      end
    end
  end.
Proof. intros [->|[->| ->]]; reflexivity. Qed.

Lemma vobj_null f rest : vends rest = true -> vobj (S f) (kw_null ++ rest) = Some (ONull, rest).
Proof.
  intros H. change (kw_null ++ rest) with (110 :: [117; 108; 108] ++ rest).
  rewrite vobj_kw by auto. change (110 :: [117; 108; 108] ++ rest) with (w_null ++ rest).
  rewrite (kwd_app _ _ H). reflexivity.
Qed.

Lemma vobj_true f rest : vends rest = true -> vobj (S f) (kw_true ++ rest) = Some (OBool true, rest).
Proof.
  intros H. change (kw_true ++ rest) with (116 :: [114; 117; 101] ++ rest).
  rewrite vobj_kw by auto. change (116 :: [114; 117; 101] ++ rest) with (w_true ++ rest).
  change (kwd w_null (w_true ++ rest)) with (@None bytes).
  rewrite (kwd_app _ _ H). reflexivity.
Qed.

Lemma vobj_false f rest : vends rest = true -> vobj (S f) (kw_false ++ rest) = Some (OBool false, rest).
Proof.
  intros H. change (kw_false ++ rest) with (102 :: [97; 108; 115; 101] ++ rest).
  rewrite vobj_kw by auto. change (102 :: [97; 108; 115; 101] ++ rest) with (w_false ++ rest).
  change (kwd w_null (w_false ++ rest)) with (@None bytes).
  change (kwd w_true (w_false ++ rest)) with (@None bytes).
  rewrite (kwd_app _ _ H). reflexivity.
Qed.

(* ================= the reference look-ahead ================= *)

(* no reference starts after an integer that is followed by [s] *)
Definition noref (s : bytes) : Prop := forall a, vref a s = None.

(* after the second integer and white space: not the keyword R *)
Definition notR (s : bytes) : Prop :=
  match skipws s with 82 :: _ => False | _ => True end.

Lemma vref_nonat a s : vnat (skipws s) = None -> vref a s = None.
Proof.
  intros H. unfold vref. destruct a; try reflexivity;
    (destruct s as [|b s]; [reflexivity|]); destruct (vws b); try reflexivity; rewrite H; reflexivity.
Qed.

Lemma vref_nows a s g c r : vnat (skipws s) = Some (g, c :: r) -> vws c = false -> vref a s = None.
Proof.
  intros H W. unfold vref. destruct a; try reflexivity;
    (destruct s as [|b s]; [reflexivity|]); destruct (vws b); try reflexivity; rewrite H, W; reflexivity.
Qed.

Lemma matchR_none {A} (s : bytes) (x : bytes -> option A) :
  match s with 82 :: _ => False | _ => True end ->
  match s with 82 :: s2 => x s2 | _ => None end = None.
Proof.
  intros W. destruct s as [|c s2]; [reflexivity|].
  destruct c as [|q]; [reflexivity|].
  repeat (match goal with q : positive |- _ => destruct q; try reflexivity end).
  contradiction.
Qed.

Lemma vref_notR a s g r : vnat (skipws s) = Some (g, 32 :: r) -> notR r -> vref a s = None.
Proof.
  intros H W. unfold vref. destruct a; try reflexivity;
    (destruct s as [|b s]; [reflexivity|]); destruct (vws b); try reflexivity; rewrite H;
    change (vws 32) with true; cbv iota; change (skipws (32 :: r)) with (skipws r);
    apply matchR_none; exact W.
Qed.

Lemma vnat_nodigit b s : vdigit b = false -> vnat (b :: s) = None.
Proof. intros H. unfold vnat. cbn [digits_val]. rewrite H. reflexivity. Qed.

Lemma noref_nil : noref [].
Proof. intros a. destruct a; reflexivity. Qed.

Lemma noref_nodigit s :
  match skipws s with [] => True | b :: _ => vdigit b = false end -> noref s.
Proof.
  intros H a. apply vref_nonat. destruct (skipws s) as [|b r]; [reflexivity|]. apply vnat_nodigit, H.
Qed.

(* a reference itself *)
Lemma vref_ref n g rest : vends rest = true ->
  vref (Z.of_N n) (32 :: dec g ++ 32 :: 82 :: rest) = Some (ORef n g, rest).
Proof.
  intros H. unfold vref.
  assert (E : vnat (skipws (32 :: dec g ++ 32 :: 82 :: rest)) = Some (g, 32 :: 82 :: rest)).
  { change (skipws (32 :: dec g ++ 32 :: 82 :: rest)) with (skipws (dec g ++ 32 :: 82 :: rest)).
    destruct (dec_cons g) as (b & t & E & D). rewrite E, <- app_comm_cons.
    rewrite hdok_skipws by (apply numch_hdok, digit_numch, D).
    rewrite app_comm_cons, <- E. apply vnat_dec. reflexivity. }
  destruct n as [|p]; cbn [Z.of_N]; change (vws 32) with true; cbv iota; rewrite E;
    change (skipws (32 :: 82 :: rest)) with (82 :: rest); cbv iota; rewrite H; reflexivity.
Qed.

(* ================= well-formed values ================= *)

Definition nonnull (kv : bytes * obj) : bool := negb (is_null (snd kv)).

(* names, strings and the keys of the entries that are written consist of bytes; a real is a
   token the validator accepts as a real; the keys of the entries that are written (those whose
   value is not null) are pairwise distinct *)
Fixpoint wf_objb (o : obj) : bool :=
  match o with
  | OReal t => vreal t
  | OName n => wfbs n
  | OStr s => wfbs s
  | OArr l => forallb wf_objb l
  | ODict l =>
    forallb (fun kv => match kv with (k, v) => is_null v || (wfbs k && wf_objb v) end) l &&
    negb (dup_keys (filter nonnull l))
  | _ => true
  end.

Definition wf_obj (o : obj) : Prop := wf_objb o = true.

Lemma wfbs_spec s : wfbs s = true <-> Forall lt256 s.
Proof.
  unfold wfbs. rewrite forallb_forall, Forall_forall. unfold wfb, lt256.
  split; intros H x Hx; specialize (H x Hx); [apply N.ltb_lt|apply N.ltb_lt]; exact H.
Qed.

Lemma has_key_in k l : has_key k l = true <-> In k (map fst l).
Proof.
  induction l as [|[k' v] l IH]; cbn [has_key map fst In]; [split; [discriminate|tauto]|].
  rewrite orb_true_iff, IH, bytes_eqb_eq. split; intros [H|H]; auto.
Qed.

Lemma dup_keys_nodup l : dup_keys l = false <-> NoDup (map fst l).
Proof.
  induction l as [|[k v] l IH]; cbn [dup_keys map fst].
  - split; [constructor|reflexivity].
  - rewrite orb_false_iff, IH. split.
    + intros [H1 H2]. constructor; [|exact H2]. intros H. apply has_key_in in H. congruence.
    + intros H. inversion H as [|? ? H1 H2]; subst. split; [|exact H2].
      destruct (has_key k l) eqn:E; [|reflexivity]. apply has_key_in in E. contradiction.
Qed.

(* the propositional reading of [wf_obj] *)
Lemma wf_obj_real t : wf_obj (OReal t) <-> vreal t = true.
Proof. reflexivity. Qed.
Lemma wf_obj_name n : wf_obj (OName n) <-> Forall lt256 n.
Proof. apply wfbs_spec. Qed.
Lemma wf_obj_str s : wf_obj (OStr s) <-> Forall lt256 s.
Proof. apply wfbs_spec. Qed.
Lemma wf_obj_arr l : wf_obj (OArr l) <-> Forall wf_obj l.
Proof. unfold wf_obj. cbn [wf_objb]. rewrite forallb_forall, Forall_forall. reflexivity. Qed.
Lemma wf_obj_dict l :
  wf_obj (ODict l) <->
  Forall (fun kv => is_null (snd kv) = false -> Forall lt256 (fst kv) /\ wf_obj (snd kv)) l /\
  NoDup (map fst (filter nonnull l)).
Proof.
  unfold wf_obj. cbn [wf_objb]. rewrite andb_true_iff, negb_true_iff, dup_keys_nodup.
  rewrite forallb_forall, Forall_forall.
  split; intros [H1 H2]; (split; [|exact H2]); intros [k v] Hx; specialize (H1 (k, v) Hx); cbn [fst snd] in *.
  - intros N. rewrite N in H1. cbn [orb] in H1. apply andb_true_iff in H1 as [A B].
    split; [apply wfbs_spec, A|exact B].
  - destruct (is_null v); [reflexivity|]. destruct (H1 eq_refl) as [A B]. cbn [orb].
    apply andb_true_iff. split; [apply wfbs_spec, A|exact B].
Qed.
(* the simpler sufficient condition: all keys are byte strings and pairwise distinct *)
Lemma wf_obj_dict_strong l :
  Forall (fun kv => Forall lt256 (fst kv) /\ wf_obj (snd kv)) l -> NoDup (map fst l) ->
  wf_obj (ODict l).
Proof.
  intros H N. apply wf_obj_dict. split.
  - eapply Forall_impl; [|exact H]. cbn beta. intros a Ha _. exact Ha.
  - clear H. induction l as [|[k v] l IH]; cbn [filter map fst]; [constructor|].
    cbn [map fst] in N. inversion N as [|? ? N1 N2]; subst.
    destruct (nonnull (k, v)); [|apply IH, N2].
    cbn [map fst]. constructor; [|apply IH, N2].
    intros HI. apply N1. clear -HI. induction l as [|[k' v'] l IHl]; [exact HI|].
    cbn [filter] in HI. cbn [map fst In]. destruct (nonnull (k', v')); cbn [map fst In] in HI; tauto.
Qed.

(* induction over values, through the lists of arrays and dictionaries *)
Lemma obj_ind' (P : obj -> Prop) :
  P ONull -> (forall b, P (OBool b)) -> (forall z, P (OInt z)) -> (forall t, P (OReal t)) ->
  (forall n, P (OName n)) -> (forall s, P (OStr s)) ->
  (forall l, Forall P l -> P (OArr l)) ->
  (forall l, Forall (fun kv => P (snd kv)) l -> P (ODict l)) ->
  (forall n g, P (ORef n g)) ->
  forall o, P o.
Proof.
  intros H1 H2 H3 H4 H5 H6 H7 H8 H9. fix IH 1. intros o. destruct o.
  - exact H1.
  - apply H2.
  - apply H3.
  - apply H4.
  - apply H5.
  - apply H6.
  - apply H7. induction l as [|x l IHl]; constructor; [apply IH|exact IHl].
  - apply H8. induction l as [|[k v] l IHl]; constructor; [apply IH|exact IHl].
  - apply H9.
Qed.

Lemma is_null_norm o : is_null (norm o) = is_null o.
Proof. destruct o; reflexivity. Qed.

(* ================= reals ================= *)

Lemma filter_nonnil_existsb {A} (f : A -> bool) l : filter f l <> [] -> existsb f l = true.
Proof.
  induction l as [|x l IH]; cbn [filter existsb]; [congruence|].
  destruct (f x); [reflexivity|exact IH].
Qed.

Lemma unsigned_cases t : unsigned_part t = t \/ (exists c, (c = 43 \/ c = 45) /\ t = c :: unsigned_part t).
Proof.
  destruct t as [|c t]; [left; reflexivity|].
  destruct (N.eq_dec c 43) as [->|N1]; [right; exists 43; split; [auto|reflexivity]|].
  destruct (N.eq_dec c 45) as [->|N2]; [right; exists 45; split; [auto|reflexivity]|].
  left. destruct c as [|q]; [reflexivity|].
  repeat (match goal with q : positive |- _ => destruct q; try reflexivity end); congruence.
Qed.

Lemma vreal_facts t : vreal t = true ->
  forallb vnumch t = true /\ existsb (fun b => negb (vdigit b)) t = true /\ vint t = None /\
  exists b t', t = b :: t'.
Proof.
  unfold vreal. intros H. apply andb_true_iff in H as [H H3]. apply andb_true_iff in H as [H1 H2].
  remember (unsigned_part t) as d eqn:Hd.
  assert (Ed : existsb (N.eqb 46) d = true).
  { apply filter_nonnil_existsb. intros E. rewrite E in H1. discriminate H1. }
  assert (Fd : forallb vnumch d = true).
  { clear -H2. induction d as [|b d IH]; [reflexivity|]. cbn [forallb] in *.
    apply andb_true_iff in H2 as [A B]. rewrite (IH B), andb_true_r.
    unfold vnumch. destruct (vdigit b); [reflexivity|]. cbn [orb] in *. rewrite A. apply orb_true_r. }
  assert (Nd : existsb (fun b => negb (vdigit b)) d = true).
  { clear -Ed. induction d as [|b d IH]; [discriminate Ed|]. cbn [existsb] in *.
    apply orb_true_iff in Ed as [A|A].
    - apply N.eqb_eq in A. subst b. reflexivity.
    - rewrite (IH A). apply orb_true_r. }
  assert (Ad : alldig d = false).
  { unfold alldig. apply andb_false_iff. right.
    clear -Nd. induction d as [|b d IH]; [discriminate Nd|]. cbn [existsb forallb] in *.
    destruct (vdigit b); cbn [negb orb andb] in *; [apply IH, Nd|reflexivity]. }
  assert (V : vint t = None). { unfold vint. rewrite <- Hd, Ad. reflexivity. }
  destruct (unsigned_cases t) as [E|(c & Hc & E)]; rewrite <- Hd in E.
  - subst t. split; [exact Fd|]. split; [exact Nd|]. split; [exact V|].
    destruct d as [|b d']; [discriminate Ed|]. eauto.
  - split; [|split; [|split; [exact V|]]].
    + rewrite E. cbn [forallb]. rewrite Fd. destruct Hc as [->| ->]; reflexivity.
    + rewrite E. cbn [existsb]. rewrite Nd. apply orb_true_r.
    + rewrite E. eauto.
Qed.

(* a token that is not all digits: the digit run stops inside it, before a non-space byte *)
Lemma digits_val_token t : forall s acc, forallb vnumch t = true ->
  existsb (fun b => negb (vdigit b)) t = true ->
  exists v c r k, digits_val (t ++ s) acc = (v, c :: r, k) /\ vws c = false.
Proof.
  unfold bytes, byte in *. induction t as [|b t IH]; intros s acc F E; [discriminate E|].
  cbn [forallb existsb] in *. apply andb_true_iff in F as [F1 F2].
  rewrite <- app_comm_cons. cbn [digits_val]. destruct (vdigit b) eqn:D.
  - cbn [negb orb] in E. destruct (IH s (acc * 10 + (b - 48)) F2 E) as (v & c & r & k & Q & W).
    rewrite Q. exists v, c, r, (S k). split; [reflexivity|exact W].
  - exists acc, b, (t ++ s), O. split; [reflexivity|].
    apply numch_hdok in F1. unfold hdok in F1. destruct (vws b); [discriminate F1|reflexivity].
Qed.

(* ================= what a formatted value starts with ================= *)

Lemma fmt_obj_head o : wf_obj o -> exists b t, fmt_obj o = b :: t /\ hdok b = true.
Proof.
  intros W. destruct o as [| [|] |z|t|n|s|l|l|n g]; cbn [fmt_obj];
    try (eexists; eexists; split; reflexivity).
  - destruct (dec_z_cons z) as (b & t & E & H). exists b, t. split; [exact E|apply numch_hdok, H].
  - apply vreal_facts in W. destruct W as (F & _ & _ & b & t' & ->).
    exists b, t'. split; [reflexivity|]. cbn [forallb] in F. apply andb_true_iff in F as [F _].
    apply numch_hdok, F.
  - destruct (dec_cons n) as (b & t & E & D). rewrite E. exists b. eexists. split; [reflexivity|].
    apply numch_hdok, digit_numch, D.
Qed.

Lemma fmt_obj_head' o : wf_obj o -> exists b t, fmt_obj o = b :: t /\ b <> 82 /\ vws b = false.
Proof.
  intros W. destruct (fmt_obj_head o W) as (b & t & E & H). exists b, t. split; [exact E|].
  unfold hdok in H. split; [intros ->; discriminate H|]. destruct (vws b); [discriminate H|reflexivity].
Qed.

Lemma notR_hdok b s : hdok b = true -> notR (b :: s).
Proof.
  intros H. unfold notR. rewrite (hdok_skipws _ _ H).
  assert (N : b <> 82) by (intros ->; discriminate H).
  destruct b as [|q]; [exact I|].
  repeat (match goal with q : positive |- _ => destruct q; try exact I end). congruence.
Qed.

Lemma notR_fmt o s : wf_obj o -> notR (fmt_obj o ++ s).
Proof.
  intros W. destruct (fmt_obj_head o W) as (b & t & E & H). rewrite E, <- app_comm_cons.
  apply notR_hdok, H.
Qed.

Lemma fmt_ref_app n g r :
  (dec n ++ SP :: dec g ++ [SP; 82]) ++ r = dec n ++ 32 :: dec g ++ 32 :: 82 :: r.
Proof. rewrite <- app_assoc, <- app_comm_cons, <- app_assoc. reflexivity. Qed.

(* an element followed by a space and something that is not R: no reference after an integer
   that precedes it *)
Lemma noref_before o s : wf_obj o -> notR s -> noref (32 :: fmt_obj o ++ 32 :: s).
Proof.
  intros W Hs a.
  assert (Sk : skipws (32 :: fmt_obj o ++ 32 :: s) = fmt_obj o ++ 32 :: s).
  { change (skipws (32 :: fmt_obj o ++ 32 :: s)) with (skipws (fmt_obj o ++ 32 :: s)).
    destruct (fmt_obj_head o W) as (b & t & E & H). rewrite E, <- app_comm_cons. apply hdok_skipws, H. }
  destruct o as [| [|] |z|t|n|st|l|l|n g]; cbn [fmt_obj] in Sk |- *;
    try (apply vref_nonat; rewrite Sk; reflexivity).
  - (* integer *)
    destruct z as [|p|p].
    + eapply vref_notR; [|exact Hs]. rewrite Sk. reflexivity.
    + eapply vref_notR; [|exact Hs]. rewrite Sk. cbn [dec_z]. apply vnat_dec. reflexivity.
    + apply vref_nonat. rewrite Sk. reflexivity.
  - (* real *)
    apply vreal_facts in W. destruct W as (F & E & _ & _).
    destruct (digits_val_token t (32 :: s) 0 F E) as (v & c & r & k & Q & Wc).
    destruct k as [|k].
    + apply vref_nonat. rewrite Sk. unfold vnat. rewrite Q. reflexivity.
    + eapply vref_nows; [|exact Wc]. rewrite Sk. unfold vnat. rewrite Q. reflexivity.
  - (* reference *)
    apply (vref_notR a _ n (dec g ++ 32 :: 82 :: 32 :: s)).
    + rewrite Sk, fmt_ref_app. apply vnat_dec. reflexivity.
    + destruct (dec_cons g) as (b & t & E & D). rewrite E, <- app_comm_cons.
      apply notR_hdok, numch_hdok, digit_numch, D.
Qed.

Definition fmt_elt (x : obj) : bytes := fmt_obj x ++ [32].
Definition fmt_ent (kv : bytes * obj) : bytes :=
  match kv with (k, v) => if is_null v then [] else fmt_name k ++ 32 :: fmt_obj v ++ [32] end.

Lemma fmt_obj_arr l : fmt_obj (OArr l) = 91 :: flat_map fmt_elt l ++ [93].
Proof. reflexivity. Qed.
Lemma fmt_obj_dict l : fmt_obj (ODict l) = 60 :: 60 :: flat_map fmt_ent l ++ [62; 62].
Proof. reflexivity. Qed.

Lemma flat_elt_cons x l s : flat_map fmt_elt (x :: l) ++ s = fmt_obj x ++ 32 :: flat_map fmt_elt l ++ s.
Proof. cbn [flat_map]. unfold fmt_elt at 1. rewrite <- !app_assoc. reflexivity. Qed.

Lemma noref_elts l s : Forall wf_obj l -> noref (32 :: flat_map fmt_elt l ++ 93 :: s).
Proof.
  intros W. destruct l as [|x l].
  - intros a. apply vref_nonat. reflexivity.
  - inversion W as [|? ? Wx Wl]; subst. rewrite flat_elt_cons. apply noref_before; [exact Wx|].
    destruct l as [|y l].
    + exact I.
    + inversion Wl; subst. rewrite flat_elt_cons. apply notR_fmt. assumption.
Qed.

Lemma flat_ent_head l s :
  exists t, flat_map fmt_ent l ++ 62 :: 62 :: s = 47 :: t \/ flat_map fmt_ent l ++ 62 :: 62 :: s = 62 :: t.
Proof.
  induction l as [|[k v] l IH]; [eexists; right; reflexivity|].
  cbn [flat_map fmt_ent]. destruct (is_null v); [exact IH|].
  rewrite fmt_name_esc. eexists. left. reflexivity.
Qed.

Lemma noref_ents l s : noref (32 :: flat_map fmt_ent l ++ 62 :: 62 :: s).
Proof.
  intros a. destruct (flat_ent_head l s) as (t & [E|E]); rewrite E; apply vref_nonat; reflexivity.
Qed.

(* ================= arrays and dictionaries ================= *)

Lemma varr_sp p f s : varr p f (32 :: s) = varr p f s.
Proof. destruct f; reflexivity. Qed.

Lemma vdict_sp p f s : vdict p f (32 :: s) = vdict p f s.
Proof. destruct f; reflexivity. Qed.

Lemma varr_close p f s : varr p (S f) (93 :: s) = Some ([], s).
Proof. reflexivity. Qed.

Lemma vdict_close p f s : vdict p (S f) (62 :: 62 :: s) = Some ([], s).
Proof. reflexivity. Qed.

Lemma varr_step p f b s : hdok b = true ->
  varr p (S f) (b :: s) =
  match p (b :: s) with
  | Some (o, r) => match varr p f r with Some (l, r') => Some (o :: l, r') | None => None end
  | None => None
  end.
Proof.
  intros H. cbn [varr]. rewrite (hdok_skipws _ _ H).
  destruct b as [|q]; [reflexivity|].
  repeat (match goal with q : positive |- _ => destruct q; try reflexivity end).
  discriminate H.
Qed.

Lemma vdict_step p f r :
  vdict p (S f) (47 :: r) =
  match vname r with
  | Some (k, r1) =>
    match p r1 with
    | Some (v, r2) =>
      match vdict p f r2 with Some (l, r3) => Some ((k, v) :: l, r3) | None => None end
    | None => None
    end
  | None => None
  end.
Proof. reflexivity. Qed.

Lemma vends_sp s : vends (32 :: s) = true.
Proof. reflexivity. Qed.

Definition isint (o : obj) : bool := match o with OInt _ => true | _ => false end.

(* the round trip for one value, with what may follow it *)
Definition rt (o : obj) : Prop :=
  forall rest fuel, vends rest = true -> (isint o = true -> noref rest) ->
    (length (fmt_obj o ++ rest) < fuel)%nat ->
    vobj fuel (fmt_obj o ++ rest) = Some (norm o, rest).

Lemma varr_fmt f l : Forall wf_obj l -> Forall rt l ->
  forall rest fuel,
    (length (flat_map fmt_elt l ++ 93%N :: rest) < f)%nat ->
    (length (flat_map fmt_elt l ++ 93%N :: rest) < fuel)%nat ->
    varr (vobj f) fuel (flat_map fmt_elt l ++ 93 :: rest) = Some (map norm l, rest).
Proof.
  unfold bytes, byte in *.
  induction l as [|x l IH]; intros W R rest fuel L1 L2.
  - destruct fuel; [cbn in L2; lia|]. reflexivity.
  - inversion W as [|? ? Wx Wl]; inversion R as [|? ? Rx Rl]; subst.
    rewrite flat_elt_cons in *. rewrite app_length in L1, L2. cbn [length] in L1, L2.
    destruct fuel as [|fu]; [lia|].
    destruct (fmt_obj_head x Wx) as (b & t & E & H).
    rewrite E, <- app_comm_cons, (varr_step _ _ _ _ H), app_comm_cons, <- E.
    unfold rt in Rx. unfold bytes, byte in *.
    rewrite Rx; [|apply vends_sp|intros _; apply noref_elts, Wl|rewrite app_length; cbn [length]; lia].
    rewrite varr_sp, (IH Wl Rl rest fu) by lia. reflexivity.
Qed.

Definition normkv (kv : bytes * obj) : bytes * obj := match kv with (k, v) => (k, norm v) end.

Lemma flat_ent_cons k v l s : is_null v = false ->
  flat_map fmt_ent ((k, v) :: l) ++ s =
  47 :: flat_map esc k ++ 32 :: fmt_obj v ++ 32 :: flat_map fmt_ent l ++ s.
Proof.
  intros N. cbn [flat_map fmt_ent]. rewrite N, fmt_name_esc.
  repeat (rewrite <- app_assoc || rewrite <- app_comm_cons). reflexivity.
Qed.

Lemma flat_ent_null k v l : is_null v = true -> flat_map fmt_ent ((k, v) :: l) = flat_map fmt_ent l.
Proof. intros N. cbn [flat_map fmt_ent]. rewrite N. reflexivity. Qed.

Lemma filter_nonnull_cons k v l :
  filter nonnull ((k, v) :: l) = if is_null v then filter nonnull l else (k, v) :: filter nonnull l.
Proof. cbn [filter]. unfold nonnull at 1. cbn [snd]. destruct (is_null v); reflexivity. Qed.

(* rewriting modulo the aliases byte = N, bytes = list byte *)
Tactic Notation "rwb" constr(H) :=
  (let Q := fresh "Q" in pose proof H as Q; unfold bytes, byte in Q |- *; rewrite Q; clear Q).
Tactic Notation "rwb" constr(H) "in" hyp(L) :=
  (let Q := fresh "Q" in pose proof H as Q; unfold bytes, byte in Q, L; rewrite Q in L; clear Q).

Lemma vdict_fmt f l :
  Forall (fun kv => is_null (snd kv) = false -> Forall lt256 (fst kv) /\ wf_obj (snd kv)) l ->
  Forall (fun kv => is_null (snd kv) = false -> rt (snd kv)) l ->
  forall rest fuel,
    (length (flat_map fmt_ent l ++ 62%N :: 62%N :: rest) < f)%nat ->
    (length (flat_map fmt_ent l ++ 62%N :: 62%N :: rest) < fuel)%nat ->
    vdict (vobj f) fuel (flat_map fmt_ent l ++ 62 :: 62 :: rest) =
    Some (map normkv (filter nonnull l), rest).
Proof.
  unfold bytes, byte in *.
  induction l as [|[k v] l IH]; intros W R rest fuel L1 L2.
  - destruct fuel; [cbn in L2; lia|]. reflexivity.
  - inversion W as [|? ? Wx Wl]; inversion R as [|? ? Rx Rl]; subst. cbn [fst snd] in Wx, Rx.
    destruct (is_null v) eqn:Nv.
    + rwb (flat_ent_null k v l Nv) in L1. rwb (flat_ent_null k v l Nv) in L2. rwb (flat_ent_null k v l Nv).
      rwb (filter_nonnull_cons k v l). rewrite Nv.
      apply (IH Wl Rl rest fuel L1 L2).
    + destruct (Wx eq_refl) as [Wk Wv]. specialize (Rx eq_refl).
      rwb (flat_ent_cons k v l (62 :: 62 :: rest) Nv) in L1. rwb (flat_ent_cons k v l (62 :: 62 :: rest) Nv) in L2.
      rwb (flat_ent_cons k v l (62 :: 62 :: rest) Nv).
      rwb (filter_nonnull_cons k v l). rewrite Nv. cbn [map normkv].
      cbn [length] in L1, L2. rewrite app_length in L1, L2. cbn [length] in L1, L2.
      rewrite app_length in L1, L2. cbn [length] in L1, L2.
      destruct fuel as [|fu]; [lia|].
      rewrite vdict_step. unfold bytes, byte in *. rewrite (vname_esc k _ Wk (vends_sp _)).
      rewrite vobj_sp. unfold rt in Rx. unfold bytes, byte in *.
      rewrite Rx; [|apply vends_sp|intros _; apply noref_ents|rewrite app_length; cbn [length]; lia].
      rewrite vdict_sp, (IH Wl Rl rest fu) by lia. reflexivity.
Qed.

Lemma has_key_normkv k l : has_key k (map normkv l) = has_key k l.
Proof. induction l as [|[k' v] l IH]; cbn [map normkv has_key]; [reflexivity|]. rewrite IH. reflexivity. Qed.

Lemma dup_keys_normkv l : dup_keys (map normkv l) = dup_keys l.
Proof.
  induction l as [|[k v] l IH]; cbn [map normkv dup_keys]; [reflexivity|].
  rewrite has_key_normkv, IH. reflexivity.
Qed.

Lemma filter_normkv l :
  filter nonnull (map normkv (filter nonnull l)) = filter nonnull (map normkv l).
Proof.
  induction l as [|[k v] l IH]; [reflexivity|].
  rewrite filter_nonnull_cons. cbn [map normkv]. destruct (is_null v) eqn:N.
  - rewrite filter_nonnull_cons, is_null_norm, N. exact IH.
  - cbn [map normkv]. rewrite !filter_nonnull_cons, is_null_norm, N, IH. reflexivity.
Qed.

Lemma norm_dict l : norm (ODict l) = ODict (dict_sort (filter nonnull (map normkv l))).
Proof. reflexivity. Qed.

(* ================= the round trip ================= *)

Lemma rt_all : forall o, wf_obj o -> rt o.
Proof.
  induction o using obj_ind'; intros W rest fuel E NR L;
    (destruct fuel as [|f]; [lia|]).
  - (* null *) apply vobj_null, E.
  - (* booleans *) destruct b; [apply vobj_true, E|apply vobj_false, E].
  - (* integers *)
    cbn [fmt_obj norm]. destruct (dec_z_cons z) as (b & t & Ez & Hb).
    rewrite Ez, <- app_comm_cons, (vobj_num _ _ _ Hb), app_comm_cons, <- Ez.
    rewrite (vnumtok_app _ _ (dec_z_numch z) (vends_nonnum _ E)). cbv beta iota zeta.
    rewrite E. cbn [negb]. rewrite vint_dec_z, (NR eq_refl z). reflexivity.
  - (* reals *)
    cbn [fmt_obj norm]. destruct (vreal_facts t W) as (F & _ & V & b & t' & Et).
    assert (Hb : vnumch b = true).
    { rewrite Et in F. cbn [forallb] in F. apply andb_true_iff in F as [F _]. exact F. }
    rewrite Et, <- app_comm_cons, (vobj_num _ _ _ Hb), app_comm_cons, <- Et.
    rewrite (vnumtok_app _ _ F (vends_nonnum _ E)). cbv beta iota zeta.
    rewrite E. cbn [negb]. rewrite V. unfold wf_obj in W. cbn [wf_objb] in W. rewrite W. reflexivity.
  - (* names *)
    cbn [fmt_obj norm]. rewrite fmt_name_esc, <- app_comm_cons, vobj_name.
    apply wf_obj_name in W. rwb (vname_esc n rest W E). reflexivity.
  - (* strings *)
    cbn [fmt_obj norm]. apply wf_obj_str in W.
    rewrite <- app_comm_cons, <- app_assoc, app1.
    destruct s as [|b s].
    + apply vobj_hex_empty.
    + pose proof W as W'. inversion W' as [|? ? Wb Ws]; subst. destruct (nibbles b Wb) as (H1 & _ & _).
      rewrite hex_bytes_cons, <- !app_comm_cons, (vobj_hexd _ _ _ H1).
      rewrite !app_comm_cons, <- hex_bytes_cons.
      rwb (vhexstr_hex (b :: s) rest W). reflexivity.
  - (* arrays *)
    apply wf_obj_arr in W.
    assert (R : Forall rt l).
    { apply Forall_forall. intros x Hx. rewrite Forall_forall in H, W. apply (H x Hx), (W x Hx). }
    rewrite fmt_obj_arr in *. rewrite <- app_comm_cons, <- app_assoc, app1 in *.
    cbn [length] in L. rewrite vobj_arr.
    assert (L' : (length (flat_map fmt_elt l ++ 93%N :: rest) < f)%nat) by (unfold bytes, byte in *; lia).
    rwb (varr_fmt f l W R rest f L' L'). reflexivity.
  - (* dictionaries *)
    pose proof W as Wd. apply wf_obj_dict in W. destruct W as [W1 W2].
    assert (R : Forall (fun kv => is_null (snd kv) = false -> rt (snd kv)) l).
    { apply Forall_forall. intros x Hx N. rewrite Forall_forall in H, W1. apply (H x Hx), (W1 x Hx N). }
    rewrite fmt_obj_dict in *. rewrite <- !app_comm_cons, <- app_assoc, app2 in *.
    cbn [length] in L. rewrite vobj_dict.
    assert (L' : (length (flat_map fmt_ent l ++ 62%N :: 62%N :: rest) < f)%nat) by (unfold bytes, byte in *; lia).
    rwb (vdict_fmt f l W1 R rest f L' L').
    unfold vdict_norm. rwb (dup_keys_normkv (filter nonnull l)).
    apply dup_keys_nodup in W2. rwb W2.
    change (fun kv : list N * obj => negb (is_null (snd kv))) with nonnull.
    rwb (filter_normkv l). rwb (norm_dict l). reflexivity.
  - (* references *)
    cbn [fmt_obj norm]. rewrite fmt_ref_app.
    destruct (dec_cons n) as (b & t & En & D).
    rewrite En, <- app_comm_cons, (vobj_num _ _ _ (digit_numch _ D)), app_comm_cons, <- En.
    rewrite (vnumtok_app (dec n) (32 :: dec g ++ 32 :: 82 :: rest) (digits_numch _ (dec_digits n)) eq_refl).
    cbv beta iota zeta. rewrite vends_sp. cbn [negb]. rewrite vint_dec, (vref_ref _ _ _ E). reflexivity.
Qed.

(* what may follow a value: nothing, or white space / a delimiter, and - this matters after an
   integer only - not "<ws> int <ws> R", which would make the integer the start of a reference *)
Definition follow_ok (rest : bytes) : Prop := vends rest = true /\ noref rest.

Theorem vobj_fmt_obj : forall o, wf_obj o -> forall rest fuel, follow_ok rest ->
  (length (fmt_obj o ++ rest) < fuel)%nat ->
  vobj fuel (fmt_obj o ++ rest) = Some (norm o, rest).
Proof. intros o W rest fuel [E N] L. apply (rt_all o W rest fuel E (fun _ => N) L). Qed.

(* for a value that is not an integer, [vends rest] is enough *)
Theorem vobj_fmt_obj_nonint : forall o, wf_obj o -> isint o = false -> forall rest fuel,
  vends rest = true -> (length (fmt_obj o ++ rest) < fuel)%nat ->
  vobj fuel (fmt_obj o ++ rest) = Some (norm o, rest).
Proof.
  intros o W I rest fuel E L. apply (rt_all o W rest fuel E); [|exact L].
  intros I'. rewrite I in I'. discriminate I'.
Qed.

Theorem vvalue_fmt_obj : forall o rest, wf_obj o -> follow_ok rest ->
  vvalue (fmt_obj o ++ rest) = Some (norm o, rest).
Proof. intros o rest W F. unfold vvalue. apply vobj_fmt_obj; [exact W|exact F|lia]. Qed.

Theorem vvalue_fmt_obj_nonint : forall o rest, wf_obj o -> isint o = false -> vends rest = true ->
  vvalue (fmt_obj o ++ rest) = Some (norm o, rest).
Proof. intros o rest W I E. unfold vvalue. apply vobj_fmt_obj_nonint; [exact W|exact I|exact E|lia]. Qed.

Lemma follow_ok_nil : follow_ok [].
Proof. split; [reflexivity|apply noref_nil]. Qed.

(* sufficient: after white space and comments, no digit *)
Definition no_digit_next (s : bytes) : Prop :=
  match skipws s with [] => True | b :: _ => vdigit b = false end.

Lemma follow_ok_lf rest : no_digit_next rest -> follow_ok (10 :: rest).
Proof. intros H. split; [reflexivity|]. apply noref_nodigit. exact H. Qed.

(* a value after LF (as after "N G obj" LF), followed by LF *)
Theorem vvalue_fmt_obj_lf_gen : forall o rest, wf_obj o -> (isint o = true -> noref (10 :: rest)) ->
  vvalue (10 :: fmt_obj o ++ 10 :: rest) = Some (norm o, 10 :: rest).
Proof.
  intros o rest W N. unfold vvalue. rewrite vobj_lf.
  apply (rt_all o W (10 :: rest) _ eq_refl N). cbn [length]. lia.
Qed.

Theorem vvalue_fmt_obj_lf : forall o rest, wf_obj o -> no_digit_next rest ->
  vvalue (10 :: fmt_obj o ++ 10 :: rest) = Some (norm o, 10 :: rest).
Proof.
  intros o rest W H. apply vvalue_fmt_obj_lf_gen; [exact W|]. intros _. apply noref_nodigit. exact H.
Qed.

(* ================= examples ================= *)

Example wf_sample_value : wf_obj sample_value.
Proof. vm_compute. reflexivity. Qed.

Example no_digit_next_endobj : no_digit_next b_endobj.
Proof. vm_compute. reflexivity. Qed.

(* the theorem, instantiated, and the same equation by computation *)
Example vvalue_sample_thm :
  vvalue (10 :: fmt_obj sample_value ++ 10 :: b_endobj) = Some (norm sample_value, 10 :: b_endobj).
Proof. exact (vvalue_fmt_obj_lf sample_value b_endobj wf_sample_value no_digit_next_endobj). Qed.

Example vvalue_sample_run :
  vvalue (10 :: fmt_obj sample_value ++ 10 :: b_endobj) =
  Some (ODict [([65; 32; 98], OName [110; 35; 47]);
               ([68], ODict [([75], OBool true)]);
               ([90], OArr [OInt (-5); OReal [49; 46; 53]; ONull; ORef 1 0; OInt 3; OInt 4;
                            OStr [0; 40; 41; 255]])],
        10 :: b_endobj).
Proof. vm_compute. reflexivity. Qed.

(* why [follow_ok] asks for more than [vends]: an integer followed by "0 R" is a reference *)
Example int_then_gen_R :
  vends [32; 48; 32; 82] = true /\
  vvalue (fmt_obj (OInt 5) ++ [32; 48; 32; 82]) = Some (ORef 5 0, []) /\
  vvalue (10 :: fmt_obj (OInt 5) ++ 10 :: [48; 32; 82]) = Some (ORef 5 0, []).
Proof. vm_compute. auto. Qed.

(* why [wf_obj] asks for distinct keys: [norm] lets one entry win, the validator refuses *)
Example duplicate_keys_refused :
  vvalue (fmt_obj (ODict [([65], OInt 1); ([65], OInt 2)]) ++ []) = None /\
  norm (ODict [([65], OInt 1); ([65], OInt 2)]) = ODict [([65], OInt 1)].
Proof. vm_compute. auto. Qed.

(* ================= stream dictionaries with their /Length ================= *)

Lemma dec_dec_z n : dec n = dec_z (Z.of_N n).
Proof. destruct n; reflexivity. Qed.

Lemma skipws_spaces k s : skipws (repeat 32 k ++ s) = skipws s.
Proof. induction k as [|k IH]; [reflexivity|]. cbn [repeat app]. exact IH. Qed.

Lemma vdict_spaces p f k s : vdict p f (repeat 32 k ++ s) = vdict p f s.
Proof. induction k as [|k IH]; [reflexivity|]. cbn [repeat]. rewrite <- app_comm_cons, vdict_sp. exact IH. Qed.

Lemma vends_spaces k s : vends (repeat 32 k ++ 32 :: s) = true.
Proof. destruct k; reflexivity. Qed.

Lemma noref_spaces_ents k l s : noref (repeat 32 k ++ 32 :: flat_map fmt_ent l ++ 62 :: 62 :: s).
Proof.
  intros a. apply vref_nonat. rewrite skipws_spaces.
  change (skipws (32 :: flat_map fmt_ent l ++ 62 :: 62 :: s)) with (skipws (flat_map fmt_ent l ++ 62 :: 62 :: s)).
  destruct (flat_ent_head l s) as (t & [E|E]); rewrite E; reflexivity.
Qed.

Lemma fmt_sd_app d lr s :
  fmt_sd_concrete d lr ++ s =
  60 :: 60 :: 47 :: flat_map esc k_Length ++ 32 :: len_text lr ++ 32 :: flat_map fmt_ent d ++ 62 :: 62 :: s.
Proof.
  unfold fmt_sd_concrete. rewrite fmt_obj_dict, fmt_name_esc. cbn [skipn].
  repeat (rewrite <- app_assoc || rewrite <- app_comm_cons). reflexivity.
Qed.

(* the value of /Length, and the padding that is left before the next entry *)
Lemma len_value lr l s f :
  (length (len_text lr ++ 32%N :: flat_map fmt_ent l ++ 62%N :: 62%N :: s) < f)%nat ->
  exists k, vobj f (len_text lr ++ 32 :: flat_map fmt_ent l ++ 62 :: 62 :: s) =
            Some (lenval lr, repeat 32 k ++ 32 :: flat_map fmt_ent l ++ 62 :: 62 :: s).
Proof.
  intros L. destruct lr as [n|n|r]; cbn [len_text lenval] in *.
  - exists O. rewrite dec_dec_z in *.
    apply (rt_all (OInt (Z.of_N n)) eq_refl _ f (vends_sp _) (fun _ => noref_ents l s) L).
  - exists (12 - length (dec n))%nat. rewrite <- app_assoc in *. rewrite dec_dec_z in *.
    apply (rt_all (OInt (Z.of_N n)) eq_refl _ f (vends_spaces _ _) (fun _ => noref_spaces_ents _ l s) L).
  - exists O.
    change (dec r ++ [SP; 48; SP; 82]) with (fmt_obj (ORef r 0)) in *.
    apply (rt_all (ORef r 0) eq_refl _ f (vends_sp _)); [discriminate|exact L].
Qed.

Lemma has_key_insert k k' v l : has_key k (dict_insert k' v l) = bytes_eqb k k' || has_key k l.
Proof.
  induction l as [|[k2 v2] l IH]; cbn [dict_insert has_key]; [reflexivity|].
  destruct (bytes_ltb k' k2); [reflexivity|]. destruct (bytes_eqb k' k2) eqn:E.
  - apply bytes_eqb_eq in E. subst k2. cbn [has_key]. destruct (bytes_eqb k k'); reflexivity.
  - cbn [has_key]. rewrite IH. destruct (bytes_eqb k k2), (bytes_eqb k k'); reflexivity.
Qed.

Lemma has_key_sort k l : has_key k (dict_sort l) = has_key k l.
Proof.
  induction l as [|[k' v] l IH]; cbn [dict_sort has_key]; [reflexivity|].
  rewrite has_key_insert, IH. reflexivity.
Qed.

Lemma dict_get_insert k v l : dict_get k (dict_insert k v l) = Some v.
Proof.
  induction l as [|[k2 v2] l IH]; cbn [dict_insert dict_get]; [rewrite bytes_eqb_refl; reflexivity|].
  destruct (bytes_ltb k k2); [cbn [dict_get]; rewrite bytes_eqb_refl; reflexivity|].
  destruct (bytes_eqb k k2) eqn:E; cbn [dict_get]; [rewrite bytes_eqb_refl; reflexivity|].
  rewrite E. exact IH.
Qed.

Lemma dict_del_absent k l : has_key k l = false -> dict_del k l = l.
Proof.
  induction l as [|[k2 v2] l IH]; cbn [has_key dict_del]; [reflexivity|]. intros H.
  apply orb_false_iff in H as [H1 H2]. rewrite H1, (IH H2). reflexivity.
Qed.

Lemma dict_del_insert k v l : has_key k l = false -> dict_del k (dict_insert k v l) = l.
Proof.
  induction l as [|[k2 v2] l IH]; cbn [dict_insert dict_del has_key]; intros H.
  - rewrite bytes_eqb_refl. reflexivity.
  - apply orb_false_iff in H as [H1 H2]. destruct (bytes_ltb k k2).
    + cbn [dict_del]. rewrite bytes_eqb_refl, H1, (dict_del_absent _ _ H2). reflexivity.
    + rewrite H1. cbn [dict_del]. rewrite H1, (IH H2). reflexivity.
Qed.

Lemma filter_map_normkv l : filter nonnull (map normkv l) = map normkv (filter nonnull l).
Proof.
  induction l as [|[k v] l IH]; [reflexivity|]. cbn [map normkv].
  rewrite !filter_nonnull_cons, is_null_norm, IH. destruct (is_null v); reflexivity.
Qed.

Lemma is_null_lenval lr : is_null (lenval lr) = false.
Proof. destruct lr; reflexivity. Qed.

Theorem vvalue_fmt_sd : forall d lr rest,
  wf_obj (ODict d) -> has_key k_Length (filter nonnull d) = false ->
  exists d', vvalue (10 :: fmt_sd_concrete d lr ++ 10 :: rest) = Some (ODict d', 10 :: rest) /\
             dict_get k_Length d' = Some (lenval lr) /\
             ODict (dict_del k_Length d') = norm (ODict d).
Proof.
  intros d lr rest W HK.
  set (body := dict_sort (filter nonnull (map normkv d))).
  exists (dict_insert k_Length (lenval lr) body).
  assert (HB : has_key k_Length body = false).
  { unfold body. rewrite has_key_sort, filter_map_normkv, has_key_normkv. exact HK. }
  split; [|split].
  2:{ apply dict_get_insert. }
  2:{ rewrite (dict_del_insert _ _ _ HB). symmetry. apply norm_dict. }
  apply wf_obj_dict in W. destruct W as [W1 W2].
  assert (R : Forall (fun kv => is_null (snd kv) = false -> rt (snd kv)) d).
  { apply Forall_forall. intros x Hx N. rewrite Forall_forall in W1. apply rt_all, (W1 x Hx N). }
  unfold vvalue. rewrite vobj_lf, fmt_sd_app. cbn [length].
  set (tail := flat_map fmt_ent d ++ 62 :: 62 :: 10 :: rest).
  set (f := S (length (flat_map esc k_Length ++ 32 :: len_text lr ++ 32 :: tail))).
  change (vobj (S (S (S (S f))))
            (60 :: 60 :: 47 :: flat_map esc k_Length ++ 32 :: len_text lr ++ 32 :: tail) =
          Some (ODict (dict_insert k_Length (lenval lr) body), 10 :: rest)).
  rewrite vobj_dict, vdict_step.
  assert (WL : Forall lt256 k_Length) by (apply wfbs_spec; reflexivity).
  rwb (vname_esc k_Length (32 :: len_text lr ++ 32 :: tail) WL (vends_sp _)).
  rewrite vobj_sp.
  destruct (len_value lr d (10 :: rest) (S (S (S f)))) as (k & LV).
  { unfold f, tail. unfold bytes, byte in *. repeat (rewrite app_length; cbn [length]). lia. }
  fold tail in LV. rwb LV.
  rewrite vdict_spaces, vdict_sp.
  assert (LT : (length tail < S (S (S f)))%nat /\ (length tail < S (S f))%nat).
  { unfold f. unfold bytes, byte in *. repeat (rewrite app_length; cbn [length]). lia. }
  destruct LT as [LT1 LT2].
  unfold tail in *. rwb (vdict_fmt (S (S (S f))) d W1 R (10 :: rest) (S (S f)) LT1 LT2).
  unfold vdict_norm. cbn [dup_keys]. rwb (has_key_normkv k_Length (filter nonnull d)). rwb HK.
  rwb (dup_keys_normkv (filter nonnull d)). apply dup_keys_nodup in W2. rwb W2. cbn [orb].
  cbn [filter snd]. rewrite is_null_lenval. cbn [negb dict_sort].
  change (fun kv : list N * obj => negb (is_null (snd kv))) with nonnull.
  rwb (filter_normkv d). reflexivity.
Qed.

(* the same, for a dictionary without any Length entry *)
Lemma dict_get_none_has_key k l : dict_get k l = None -> has_key k (filter nonnull l) = false.
Proof.
  induction l as [|[k2 v2] l IH]; [reflexivity|]. cbn [dict_get]. rewrite filter_nonnull_cons.
  destruct (bytes_eqb k k2) eqn:E; [discriminate|]. intros H.
  destruct (is_null v2); [exact (IH H)|]. cbn [has_key]. rewrite E. exact (IH H).
Qed.

Corollary vvalue_fmt_sd_nolength : forall d lr rest,
  wf_obj (ODict d) -> dict_get k_Length d = None ->
  exists d', vvalue (10 :: fmt_sd_concrete d lr ++ 10 :: rest) = Some (ODict d', 10 :: rest) /\
             dict_get k_Length d' = Some (lenval lr) /\
             ODict (dict_del k_Length d') = norm (ODict d).
Proof. intros d lr rest W H. apply vvalue_fmt_sd; [exact W|apply dict_get_none_has_key, H]. Qed.

Example vvalue_fmt_sd_sample :
  vvalue (10 :: fmt_sd_concrete [(b_K, OInt 1)] (LPadded 1500) ++ 10 :: b_stream) =
  Some (ODict [(b_K, OInt 1); (k_Length, OInt 1500)], 10 :: b_stream).
Proof. vm_compute. reflexivity. Qed.


(* the syntax hypotheses of the C02 theorems, for the canonical formatter and this parser *)
Lemma syntax_hypotheses_lemma :
  (forall o rest, (wf_obj o /\ (forall d, o = ODict d -> dict_get k_Length d = None)) ->
     vvalue (LF :: fmt_obj o ++ LF :: kw_endobj ++ rest) = Some (norm o, LF :: kw_endobj ++ rest)) /\
  (forall sd lr rest, (wf_obj (ODict sd) /\ (forall d, ODict sd = ODict d -> dict_get k_Length d = None)) -> exists d',
     vvalue (LF :: fmt_sd_concrete sd lr ++ LF :: kw_stream ++ rest) = Some (ODict d', LF :: kw_stream ++ rest) /\
     dict_get k_Length d' = Some (lenval lr) /\ ODict (dict_del k_Length d') = norm (ODict sd)).
Proof.
  split.
  - intros o rest [W _]. apply (vvalue_fmt_obj_lf o (kw_endobj ++ rest) W). reflexivity.
  - intros sd lr rest [W L]. apply (vvalue_fmt_sd_nolength sd lr (kw_stream ++ rest) W). apply L. reflexivity.
Qed.
