(* What the Writer encrypts, which entries it puts into /Encrypt, and how initialisation vectors
   are drawn.  The handler itself (key derivation, per-object keys, ciphers) is GoPdf.C09.StdSec:
   written from ISO 32000, it is the independent implementation C10 compares the Writer with. *)
From Coq Require Import List NArith ZArith Bool.
From GoPdf.Base Require Import Bytes.
From GoPdf.Gen Require Import Gen_Perm.
From GoPdf.Base Require Import Res.
From GoPdf.C09 Require Import StdSec.
Import ListNotations.
Open Scope nat_scope.

(* ---- exemptions --------------------------------------------------------------------------- *)

Inductive okind :=
| KDirect        (* an indirect object written on its own *)
| KMember        (* an object stored inside an object stream *)
| KContainer     (* the object stream itself *)
| KXRefStream    (* the cross-reference stream (and its dictionary = the trailer) *)
| KEncryptDict   (* the /Encrypt dictionary (direct object in the trailer) *)
| KTrailerID     (* the /ID array of the trailer *)
| KMetadata      (* the document-level XMP metadata stream of the catalog *)
| KCryptIdentity. (* a stream that declares /Filter /Crypt with the Identity filter (V >= 4 documents) *)

(* (strings of the object are encrypted individually, stream data is encrypted) *)
Definition encrypts (k : okind) (plain_meta : bool) : bool * bool :=
  match k with
  | KDirect => (true, true)
  | KContainer => (true, true)
  | KMember => (false, false)      (* protected by the container's stream encryption only *)
  | KXRefStream => (false, false)
  | KEncryptDict => (false, false)
  | KTrailerID => (false, false)
  | KMetadata => (true, negb plain_meta)
  | KCryptIdentity => (true, false)  (* ISO 32000-1 7.6.5: its data is not encrypted, its strings are *)
  end.

(* the documented exemptions of ISO 32000-1 7.6.1 / 7.5.8.2 / 7.6.3.2 (EncryptMetadata) *)
Definition exempt_strings (k : okind) : bool :=
  match k with KMember | KXRefStream | KEncryptDict | KTrailerID => true | _ => false end.
Definition exempt_stream (k : okind) (plain_meta : bool) : bool :=
  match k with
  | KXRefStream => true
  | KMetadata => plain_meta
  | KCryptIdentity => true
  | KMember | KEncryptDict | KTrailerID => true   (* these have no stream data of their own *)
  | _ => false
  end.

Definition all_kinds : list okind := [KDirect; KMember; KContainer; KXRefStream; KEncryptDict; KTrailerID; KMetadata; KCryptIdentity].

(* ---- initialisation vectors ------------------------------------------------------------------ *)

Record wobj := { wk : okind; wstrings : nat; wstream : bool }.

(* number of IVs the Writer draws for an object: one per encrypted string, one per encrypted stream *)
Definition draws (aes plain_meta : bool) (o : wobj) : nat :=
  if aes then
    (if fst (encrypts (wk o) plain_meta) then wstrings o else 0)
    + (if wstream o && snd (encrypts (wk o) plain_meta) then 1 else 0)
  else 0.

(* IVs come from a source indexed by the number of draws made so far (crypto/rand in the Writer) *)
Fixpoint assign_ivs (src : nat -> bytes) (c : nat) (aes plain_meta : bool) (objs : list wobj) : list (list bytes) :=
  match objs with
  | [] => []
  | o :: r => let n := draws aes plain_meta o in map src (seq c n) :: assign_ivs src (c + n) aes plain_meta r
  end.

(* ---- /Encrypt -------------------------------------------------------------------------------- *)

Definition ekey_eqb (a b : ekey) : bool :=
  match a, b with
  | KFilter, KFilter | KV, KV | KR, KR | KO, KO | KU, KU | KP, KP | KLength, KLength | KCF, KCF
  | KStmF, KStmF | KStrF, KStrF | KEncryptMetadata, KEncryptMetadata | KOE, KOE | KUE, KUE | KPerms, KPerms => true
  | _, _ => false
  end.
Definition mem (k : ekey) (l : list ekey) : bool := existsb (ekey_eqb k) l.
Definition subset (a b : list ekey) : bool := forallb (fun k => mem k b) a.
Fixpoint nodup_b (l : list ekey) : bool := match l with [] => true | k :: r => negb (mem k r) && nodup_b r end.

(* ISO 32000-1 Table 20/21, ISO 32000-2 Table 20/21: entries a conforming reader needs to find *)
Definition iso_required (V R : Z) (plain_meta : bool) : list ekey :=
  [KFilter; KV; KR; KO; KU; KP]
  ++ (if (V =? 2)%Z then [KLength] else [])             (* otherwise the key would be taken as 40 bits *)
  ++ (if (4 <=? V)%Z then [KCF; KStmF; KStrF] else [])  (* otherwise the Identity filter would apply *)
  ++ (if (R =? 6)%Z then [KOE; KUE; KPerms] else [])
  ++ (if plain_meta then [KEncryptMetadata] else []).   (* the default is true *)
(* entries that may be present in addition *)
Definition iso_optional (V : Z) : list ekey := if (V =? 5)%Z then [KLength] else [].

(* V, R and the key length must fit together *)
Definition vr_consistent (V R bits : Z) : bool :=
  ((V =? 1) && ((R =? 2) || (R =? 3)) && (bits =? 40)
   || (V =? 2) && (R =? 3) && (40 <=? bits) && (bits <=? 128) && (bits mod 8 =? 0)
   || (V =? 4) && (R =? 4) && (bits =? 128)
   || (V =? 5) && (R =? 6) && (bits =? 256))%Z.

(* one configuration of NewWriter: version 1 (= PDF 1.1) .. 8 (= PDF 2.0), permission set, metadata mode *)
Definition dict_ok (version perm : Z) (plain_meta : bool) : bool :=
  let '(aes, bits, V) := writer_cipher version in
  match choose_R V perm, as_dict_V aes bits version, as_dict_keys aes bits version
                                                      (match choose_R V perm with Some r => r | None => 0%Z end) plain_meta with
  | Some R, Some V', Some ks =>
    (V' =? V)%Z && vr_consistent V R bits && nodup_b ks
    && subset (iso_required V R plain_meta) ks
    && subset ks (iso_required V R plain_meta ++ iso_optional V)
    && (if (R =? 2)%Z then canR2 perm else true)
  | _, _, _ => false
  end.

Definition versions : list Z := map Z.of_nat (seq 1 8).
Definition perms : list Z := map Z.of_nat (seq 0 128).
(* plaintext metadata is accepted by NewWriter from PDF 1.6 on *)
Definition meta_modes (version : Z) : list bool := if (6 <=? version)%Z then [false; true] else [false].

(* ---- exemption goes by object identity, not by what a dictionary looks like ------------------------- *)

Definition oref := (N * N)%type.   (* object number, generation *)
Definition oref_eqb (a b : oref) : bool := N.eqb (fst a) (fst b) && N.eqb (snd a) (snd b).

(* what the dictionary of an object looks like *)
Inductive shape :=
| ShPlain | ShMetadataXML | ShXRef | ShObjStm | ShEmbeddedFile | ShEncryptLike | ShIDLike | ShSigLike.

(* the facts about a document that decide exemption: which object IS the catalog's /Metadata, which IS the
   cross-reference stream, which ARE object streams (containers) and their members *)
Record docinfo := {
  di_meta : option oref;
  di_xref : option oref;
  di_containers : list oref;
  di_members : list oref;
  di_identity : list oref   (* streams declaring the Identity crypt filter *)
}.

Definition is_some_ref (o : option oref) (r : oref) : bool := match o with Some x => oref_eqb x r | None => false end.

(* the shape argument is deliberately unused *)
Definition kind_of (di : docinfo) (r : oref) (sh : shape) : okind :=
  if is_some_ref (di_meta di) r then KMetadata
  else if is_some_ref (di_xref di) r then KXRefStream
  else if existsb (oref_eqb r) (di_containers di) then KContainer
  else if existsb (oref_eqb r) (di_members di) then KMember
  else if existsb (oref_eqb r) (di_identity di) then KCryptIdentity
  else KDirect.

Definition ordinary (di : docinfo) (r : oref) : bool :=
  negb (is_some_ref (di_meta di) r) && negb (is_some_ref (di_xref di) r)
  && negb (existsb (oref_eqb r) (di_containers di)) && negb (existsb (oref_eqb r) (di_members di))
  && negb (existsb (oref_eqb r) (di_identity di)).

(* ---- one object written and read back ------------------------------------------------------------------ *)

Record cfg := { c_aes : bool; c_R : Z; c_kb : nat; c_fkey : bytes; c_plain_meta : bool; c_doc : docinfo }.

Record dobj := { o_ref : oref; o_shape : shape; o_strings : list bytes; o_stream : option (list bytes) }.

Fixpoint enc_strings (aes : bool) (okey : bytes) (ivs : list bytes) (ss : list bytes) : list bytes :=
  match ss, ivs with
  | s :: ss', iv :: ivs' => encrypt_bytes aes okey iv s :: enc_strings aes okey ivs' ss'
  | s :: ss', [] => encrypt_bytes aes okey [] s :: enc_strings aes okey [] ss'
  | [], _ => []
  end.

Fixpoint dec_strings (aes : bool) (okey : bytes) (cs : list bytes) : res (list bytes) :=
  match cs with
  | [] => Ok []
  | c :: r => bind (decrypt_bytes aes okey c) (fun p => bind (dec_strings aes okey r) (fun ps => Ok (p :: ps)))
  end.

(* stored form: strings and stream data of the object as they appear in the file *)
Definition write_obj (c : cfg) (ivs : list bytes) (siv : bytes) (o : dobj) : list bytes * option bytes :=
  let k := kind_of (c_doc c) (o_ref o) (o_shape o) in
  let '(es, et) := encrypts k (c_plain_meta c) in
  let okey := key_for_ref (c_R c) (c_kb c) (c_fkey c) (c_aes c) (fst (o_ref o)) (snd (o_ref o)) in
  (if es then enc_strings (c_aes c) okey ivs (o_strings o) else o_strings o,
   match o_stream o with
   | None => None
   | Some writes => Some (if et then encrypt_stream (c_aes c) okey siv writes else concat writes)
   end).

Definition read_obj (c : cfg) (r : oref) (sh : shape) (stored : list bytes * option bytes) : res (list bytes * option bytes) :=
  let k := kind_of (c_doc c) r sh in
  let '(es, et) := encrypts k (c_plain_meta c) in
  let okey := key_for_ref (c_R c) (c_kb c) (c_fkey c) (c_aes c) (fst r) (snd r) in
  bind (if es then dec_strings (c_aes c) okey (fst stored) else Ok (fst stored)) (fun ss =>
  match snd stored with
  | None => Ok (ss, None)
  | Some data => bind (if et then decrypt_stream (c_aes c) okey data else Ok data) (fun d => Ok (ss, Some d))
  end).

(* ---- objects are encrypted as what they RENDER as ---------------------------------------------------------- *)

(* the built-in (Native) values, as far as encryption is concerned *)
Inductive native :=
| NvStr (b : bytes)
| NvOther                       (* numbers, names, booleans, null, references *)
| NvArr (l : list native)
| NvDict (l : list (N * native)).

(* the strings of a value in the order the Writer formats (and so encrypts) them *)
Fixpoint strings_of (v : native) : list bytes :=
  match v with
  | NvStr b => [b]
  | NvOther => []
  | NvArr l => (fix go (l : list native) := match l with [] => [] | x :: r => strings_of x ++ go r end) l
  | NvDict l => (fix go (l : list (N * native)) := match l with [] => [] | (_, x) :: r => strings_of x ++ go r end) l
  end.

(* A pdf.Object of any Go type (pdf.String, pdf.TextString, pdf.Date, a user-defined type, ...) is given to
   the Writer together with its rendering AsPDF; what is written - and encrypted - is the rendering, in
   Put, WriteCompressed, stream dictionaries and placeholder values alike. *)
Definition dobj_of {A : Type} (render : A -> native) (r : oref) (sh : shape) (o : A) (stream : option (list bytes)) : dobj :=
  {| o_ref := r; o_shape := sh; o_strings := strings_of (render o); o_stream := stream |}.
