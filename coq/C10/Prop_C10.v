(* C10 - Encrypted files follow the standard algorithms and leak no plaintext.
   The handler model of coq/C09 (written from ISO 32000) is the independent implementation;
   the theorems here concern Algorithm 1's key input, the /Encrypt dictionary, the
   exemptions from encryption and the freshness of initialisation vectors. *)
From Coq Require Import List NArith ZArith Bool.
From GoPdf.Base Require Import Bytes Res.
From GoPdf.Gen Require Import Gen_Perm.
From GoPdf.C09 Require Import StdSec StdSecProofs AESCorrect.
From GoPdf.C10 Require Import WriterModel WriterProofs.
Import ListNotations.

(* the five bytes Algorithm 1 hashes after the file key determine the reference, for the object
   numbers and generations NewReference admits *)
Theorem key_input_inj : forall n g n' g' : N, (n < 2^24)%N -> (n' < 2^24)%N -> (g <= 65535)%N -> (g' <= 65535)%N ->
  key_input n g = key_input n' g' -> n = n' /\ g = g'.
Proof. exact key_input_inj_l. Qed.
Print Assumptions key_input_inj.

(* without the bound two references share a key: the reason NewReference caps object numbers *)
Theorem key_input_collides_refuted : exists n g n' g' : N, (n, g) <> (n', g') /\ key_input n g = key_input n' g'.
Proof. exact key_input_collides. Qed.
Print Assumptions key_input_collides_refuted.

(* for every version 1.1 (=1) .. 2.0 (=8), permission set and metadata mode NewWriter accepts:
   AsDict writes the V the cipher calls for, V/R/key length fit together, no entry twice, every
   entry ISO 32000 requires for that V/R is present, nothing beyond the required and optional ones;
   revision 2 only for permission sets it can express *)
Theorem encrypt_dict_wf : forall (version perm : Z) (plain_meta : bool),
  (1 <= version <= 8)%Z -> (0 <= perm < 128)%Z -> (plain_meta = true -> (6 <= version)%Z) ->
  dict_ok version perm plain_meta = true.
Proof. exact encrypt_dict_wf_l. Qed.
Print Assumptions encrypt_dict_wf.

(* if the IV source never repeats, no two strings/streams of a file share an IV *)
Theorem iv_fresh : forall (src : nat -> bytes) (c : nat) (aes plain_meta : bool) (objs : list wobj),
  (forall i j, src i = src j -> i = j) -> NoDup (concat (assign_ivs src c aes plain_meta objs)).
Proof. exact iv_fresh_l. Qed.
Print Assumptions iv_fresh.

(* the writer model leaves unencrypted exactly the documented exemptions *)
Theorem exempt_only : forall (k : okind) (plain_meta : bool),
  (fst (encrypts k plain_meta) = false <-> exempt_strings k = true) /\
  (snd (encrypts k plain_meta) = false <-> exempt_stream k plain_meta = true).
Proof. exact exempt_only_l. Qed.
Print Assumptions exempt_only.

(* exemption is decided by object identity: an object that IS NOT the catalog's /Metadata stream, the
   cross-reference stream, an object stream or a member of one has its strings and its stream data encrypted,
   whatever its dictionary looks like (/Type /Metadata /Subtype /XML, /Type /XRef, /Type /ObjStm,
   /Type /EmbeddedFile, an /Encrypt-like or signature-like dictionary, /ID-like strings) *)
Theorem lookalike_encrypted : forall (di : docinfo) (r : oref) (sh : shape) (plain_meta : bool),
  ordinary di r = true -> encrypts (kind_of di r sh) plain_meta = (true, true).
Proof. exact lookalike_encrypted_l. Qed.
Print Assumptions lookalike_encrypted.

(* read (write o) = o for every object of every document, look-alikes included: the writer decides by the
   object's identity while seeing shape [o_shape o], the reader by the same identity while seeing ANY shape [sh];
   strings and stream data come back as written, under every cipher, key, reference, IVs and write chunking
   ([obj_ok]: in the AES case 16-byte IVs, bytes < 256 and a 128-bit key length resp. a 16/32-byte file key) *)
Theorem obj_rt : forall (c : cfg) (ivs : list bytes) (siv : bytes) (o : dobj) (sh : shape),
  obj_ok c ivs siv o ->
  read_obj c (o_ref o) sh (write_obj c ivs siv o) = Ok (o_strings o, option_map (@concat _) (o_stream o)).
Proof. exact obj_rt_l. Qed.
Print Assumptions obj_rt.

(* the encryption traversal is defined on the RENDERED value: for objects of any type A with any rendering
   function (pdf.TextString, pdf.Date, user-defined Objects whose AsPDF yields strings, arrays or dictionaries
   with strings), what comes back is the list of strings of the rendering *)
Theorem obj_rt_rendered : forall (A : Type) (render : A -> native) (c : cfg) (ivs : list bytes) (siv : bytes)
    (r : oref) (sh sh' : shape) (o : A) (stream : option (list bytes)),
  obj_ok c ivs siv (dobj_of render r sh o stream) ->
  read_obj c r sh' (write_obj c ivs siv (dobj_of render r sh o stream))
  = Ok (strings_of (render o), option_map (@concat _) stream).
Proof. exact obj_rt_rendered_l. Qed.
Print Assumptions obj_rt_rendered.

(* hypotheses are satisfiable *)
Example ex_strings_of : strings_of (NvArr [NvStr [65]%N; NvDict [(1%N, NvStr [66]%N); (2%N, NvOther)]; NvArr [NvStr []]]) = [[65]; [66]; []]%N.
Proof. reflexivity. Qed.
Example ex_ordinary :
  let di := {| di_meta := Some (5, 0)%N; di_xref := Some (9, 0)%N; di_containers := [(7, 0)%N]; di_members := [(3, 0)%N]; di_identity := [(8, 0)%N] |} in
  ordinary di (6, 0)%N = true /\ kind_of di (6, 0)%N ShMetadataXML = KDirect /\ kind_of di (5, 0)%N ShPlain = KMetadata.
Proof. repeat split. Qed.
Example ex_obj_ok :
  let c := {| c_aes := false; c_R := 3; c_kb := 16; c_fkey := [1; 2; 3]%N; c_plain_meta := true;
              c_doc := {| di_meta := None; di_xref := None; di_containers := []; di_members := []; di_identity := [] |} |} in
  obj_ok c [[]] [] {| o_ref := (6, 0)%N; o_shape := ShMetadataXML; o_strings := [[65; 66]%N]; o_stream := Some [[1]%N; [2]%N] |}.
Proof. split; [constructor; [intros H; discriminate H|constructor]|intros H; discriminate H]. Qed.

Example ex_key_input : (70000 < 2^24)%N /\ (3 <= 65535)%N /\ key_input 70000 3 = [112; 17; 1; 3; 0]%N.
Proof. split; [reflexivity|]. split; [discriminate|reflexivity]. Qed.
Example ex_dict : dict_ok 8 12 true = true /\ dict_ok 3 12 false = true.
Proof. split; reflexivity. Qed.
(* an injective IV source exists: the counter itself, written in unary *)
Example ex_iv_src : forall i j : nat, repeat 0%N i = repeat 0%N j -> i = j.
Proof. intros i j H. apply (f_equal (@length _)) in H. now rewrite !repeat_length in H. Qed.
