From Coq Require Import List NArith ZArith Bool Lia.
From GoPdf.Base Require Import Bytes.
From GoPdf.Gen Require Import Gen_Perm.
From GoPdf.C09 Require Import StdSec.
From GoPdf.C10 Require Import WriterModel.
Import ListNotations.
Open Scope nat_scope.

Lemma exempt_only_l : forall k pm,
  (fst (encrypts k pm) = false <-> exempt_strings k = true) /\
  (snd (encrypts k pm) = false <-> exempt_stream k pm = true).
Proof. intros [] []; cbn; split; split; congruence. Qed.

Lemma dict_ok_b : forallb (fun v => forallb (fun p => forallb (dict_ok v p) (meta_modes v)) perms) versions = true.
Proof. vm_compute. reflexivity. Qed.

Lemma in_range lo n x : (Z.of_nat lo <= x < Z.of_nat (lo + n))%Z -> In x (map Z.of_nat (seq lo n)).
Proof. intros H. apply in_map_iff. exists (Z.to_nat x). split; [lia|]. apply in_seq. lia. Qed.

Lemma encrypt_dict_wf_l : forall version perm pm, (1 <= version <= 8)%Z -> (0 <= perm < 128)%Z ->
  (pm = true -> (6 <= version)%Z) -> dict_ok version perm pm = true.
Proof.
  intros v p pm Hv Hp Hpm. pose proof dict_ok_b as H. rewrite forallb_forall in H.
  specialize (H v (in_range 1 8 v ltac:(cbn; lia))). rewrite forallb_forall in H.
  specialize (H p (in_range 0 128 p ltac:(cbn; lia))). rewrite forallb_forall in H.
  apply H. unfold meta_modes. destruct pm.
  - replace (6 <=? v)%Z with true by (symmetry; apply Z.leb_le; auto). cbn; auto.
  - destruct (6 <=? v)%Z; cbn; auto.
Qed.

(* IVs *)
Lemma nodup_map_seq (src : nat -> bytes) c n : (forall i j, src i = src j -> i = j) -> NoDup (map src (seq c n)).
Proof.
  intros Hinj. pose proof (seq_NoDup n c) as H. induction H as [|x l Hx Hl IH]; cbn [map]; constructor; [|assumption].
  intros Hin. apply in_map_iff in Hin as (y & Hy & Hyl). apply Hinj in Hy. subst y. contradiction.
Qed.

Lemma assign_concat src c aes pm objs :
  exists n, concat (assign_ivs src c aes pm objs) = map src (seq c n).
Proof.
  revert c. induction objs as [|o r IH]; intros c; cbn [assign_ivs concat].
  - exists 0. reflexivity.
  - destruct (IH (c + draws aes pm o)) as [m Hm]. exists (draws aes pm o + m).
    rewrite Hm, seq_app, map_app. reflexivity.
Qed.

Lemma iv_fresh_l src c aes pm objs : (forall i j, src i = src j -> i = j) ->
  NoDup (concat (assign_ivs src c aes pm objs)).
Proof. intros H. destruct (assign_concat src c aes pm objs) as [n ->]. now apply nodup_map_seq. Qed.

Lemma iv_count_l src c aes pm objs :
  length (concat (assign_ivs src c aes pm objs)) = fold_right (fun o acc => draws aes pm o + acc) 0 objs.
Proof.
  revert c. induction objs as [|o r IH]; intros c; cbn [assign_ivs concat fold_right]; [reflexivity|].
  now rewrite app_length, map_length, seq_length, IH.
Qed.

(* ---- exemption by identity; one object written and read back ------------------------------------------- *)
From GoPdf.Base Require Import Res.
From GoPdf.C09 Require Import StdSecProofs AESCorrect.

Lemma kind_shape_irrelevant_l di r sh1 sh2 : kind_of di r sh1 = kind_of di r sh2.
Proof. reflexivity. Qed.

Lemma lookalike_encrypted_l di r sh pm : ordinary di r = true -> encrypts (kind_of di r sh) pm = (true, true).
Proof.
  unfold ordinary, kind_of. intros H.
  repeat (apply andb_true_iff in H; destruct H as [H ?]).
  apply negb_true_iff in H, H0, H1, H2, H3. now rewrite H, H3, H2, H1, H0.
Qed.

Lemma strings_rt R kb fkey aes num gen ivs ss :
  Forall2 (fun iv s => obj_side R kb fkey aes iv s) ivs ss ->
  dec_strings aes (key_for_ref R kb fkey aes num gen)
    (enc_strings aes (key_for_ref R kb fkey aes num gen) ivs ss) = Ok ss.
Proof.
  induction 1 as [|iv s ivs ss H F IH]; [reflexivity|].
  cbn [enc_strings dec_strings]. rewrite object_string_rt_l by assumption. cbn [bind]. rewrite IH. reflexivity.
Qed.

Definition obj_ok (c : cfg) (ivs : list bytes) (siv : bytes) (o : dobj) : Prop :=
  Forall2 (fun iv s => obj_side (c_R c) (c_kb c) (c_fkey c) (c_aes c) iv s) ivs (o_strings o) /\
  match o_stream o with
  | None => True
  | Some writes => obj_side (c_R c) (c_kb c) (c_fkey c) (c_aes c) siv (concat writes)
  end.

(* whatever the dictionary looks like - to the writer ([o_shape o]) and to the reader ([sh]) *)
Lemma obj_rt_l c ivs siv o sh : obj_ok c ivs siv o ->
  read_obj c (o_ref o) sh (write_obj c ivs siv o) = Ok (o_strings o, option_map (@concat _) (o_stream o)).
Proof.
  intros [Hs Ht]. unfold read_obj, write_obj.
  rewrite (kind_shape_irrelevant_l (c_doc c) (o_ref o) sh (o_shape o)).
  destruct (encrypts (kind_of (c_doc c) (o_ref o) (o_shape o)) (c_plain_meta c)) as [es et].
  cbn [fst snd].
  assert (E1 : (if es then dec_strings (c_aes c) (key_for_ref (c_R c) (c_kb c) (c_fkey c) (c_aes c) (fst (o_ref o)) (snd (o_ref o)))
                  (if es then enc_strings (c_aes c) (key_for_ref (c_R c) (c_kb c) (c_fkey c) (c_aes c) (fst (o_ref o)) (snd (o_ref o))) ivs (o_strings o) else o_strings o)
                else Ok (if es then enc_strings (c_aes c) (key_for_ref (c_R c) (c_kb c) (c_fkey c) (c_aes c) (fst (o_ref o)) (snd (o_ref o))) ivs (o_strings o) else o_strings o))
               = Ok (o_strings o)).
  { destruct es; [now apply strings_rt|reflexivity]. }
  rewrite E1. cbn [bind].
  destruct (o_stream o) as [writes|]; [|reflexivity]. cbn [option_map].
  destruct et; [|reflexivity]. rewrite object_stream_rt_l by assumption. reflexivity.
Qed.

(* objects of any type: the traversal is defined on the rendered value *)
Lemma obj_rt_rendered_l (A : Type) (render : A -> native) c ivs siv r sh sh' (o : A) stream :
  obj_ok c ivs siv (dobj_of render r sh o stream) ->
  read_obj c r sh' (write_obj c ivs siv (dobj_of render r sh o stream))
  = Ok (strings_of (render o), option_map (@concat _) stream).
Proof. intros H. exact (obj_rt_l c ivs siv (dobj_of render r sh o stream) sh' H). Qed.
