(* C07: the decoders of the model (coq/C06, written from ISO 32000-2 7.4 and the PNG specification,
   and tied to the Go decoders by correspondence) are correct for EVERY conforming encoding, not only
   for the output of the encoders modelled in C06.  Property theorems only. *)
From Coq Require Import List NArith ZArith Bool.
From GoPdf.Base Require Import Bytes Res.
From GoPdf.C06 Require Import Machine AHx A85 RunLen Predict Conform
  AHxProofs A85Proofs RunLenProofs PredictProofs.
Import ListNotations.

Definition wf (x : bytes) : Prop := Forall (fun b => (b < 256)%N) x.

(* any split into literal and repeat records, anything after the EOD byte *)
Theorem rl_accepts_all : forall e x, rl_conforming e x -> rl_dec e = Ok x.
Proof. exact rl_accepts_all_proof. Qed.
Print Assumptions rl_accepts_all.

Example rl_conforming_ex : rl_conforming [1; 65; 66; 254; 67; 0; 68; 128; 99]%N [65; 66; 67; 67; 67; 68]%N.
Proof.
  exists [RLit [65; 66]; RRep 3 67; RLit [68]]%N, [99%N]. split; [|split; reflexivity].
  repeat constructor; cbn; try apply N.leb_le; reflexivity.
Qed.

(* either digit case, white space anywhere, odd number of digits *)
Theorem ahx_accepts_all : forall e x, ahx_conforming e x -> ahx_dec e = Ok x.
Proof. exact ahx_accepts_all_proof. Qed.
Print Assumptions ahx_accepts_all.

Example ahx_conforming_ex : ahx_conforming [52; 32; 49; 10; 97; 70; 55; 62; 0]%N [65; 175; 112]%N.
Proof.
  exists [52; 32; 49; 10; 97; 70; 55]%N, [0%N]. split; [reflexivity|].
  cbn. constructor; try reflexivity. constructor; try reflexivity. apply AHB_odd; reflexivity.
Qed.

(* 'z' or "!!!!!" for a zero group, white space anywhere, a short final group *)
Theorem a85_accepts_all : forall e x, a85_conforming e x -> a85_dec e = Ok x.
Proof. exact a85_accepts_all_proof. Qed.
Print Assumptions a85_accepts_all.

Example a85_conforming_ex : a85_conforming [122; 10; 33; 33; 32; 33; 33; 33; 126; 62]%N [0; 0; 0; 0; 0; 0; 0; 0]%N.
Proof.
  exists [122; 10; 33; 33; 32; 33; 33; 33]%N, []. split; [reflexivity|]. cbn.
  apply A85B_z. apply (A85B_grp 0 0 0 0 [] [])%N; try reflexivity. constructor.
Qed.

(* the encoders of the library (as modelled) are conforming encoders *)
Theorem encoders_conforming : forall x, wf x ->
  rl_conforming (rl_enc x) x /\ ahx_conforming (ahx_enc x) x /\ a85_conforming (a85_enc x) x.
Proof. exact (fun x H => conj (rl_enc_conforming x) (conj (ahx_enc_conforming x H) (a85_enc_conforming x H))). Qed.
Print Assumptions encoders_conforming.

(* PNG 9.2-9.4: filter types 0..4 are None, Sub, Up, Average (floor of the mean), Paeth; the Paeth
   predictor takes a = left, b = above, c = upper left and breaks ties in the order a, b, c; the byte
   at index i of a filtered row is Orig(i) - predictor, modulo 256, with a = Orig(i - bpp) (0 before the
   first pixel), b = Prior(i), c = Prior(i - bpp). *)
Theorem png_spec :
  (forall a b c, png_pred 0 a b c = 0 /\ png_pred 1 a b c = a /\ png_pred 2 a b c = b /\
                 png_pred 3 a b c = ((a + b) / 2) /\ png_pred 4 a b c = paeth a b c)%N /\
  (forall a b c,
     let p := (Z.of_N a + Z.of_N b - Z.of_N c)%Z in
     let pa := Z.abs (p - Z.of_N a) in let pb := Z.abs (p - Z.of_N b) in let pc := Z.abs (p - Z.of_N c) in
     (paeth a b c = a /\ (pa <= pb)%Z /\ (pa <= pc)%Z) \/
     (paeth a b c = b /\ ~ ((pa <= pb)%Z /\ (pa <= pc)%Z) /\ (pb <= pc)%Z) \/
     (paeth a b c = c /\ ~ ((pa <= pb)%Z /\ (pa <= pc)%Z) /\ ~ (pb <= pc)%Z)) /\
  (forall t row q pq prev i,
     (i < length row)%nat -> (length row <= length prev)%nat -> length q = length pq -> (0 < length q)%nat ->
     nth i (png_filt t q pq row prev) 0%N =
     ((nth i row 0 + 256 - png_pred t (nth i (q ++ row) 0) (nth i prev 0) (nth i (pq ++ prev) 0) mod 256) mod 256)%N) /\
  (forall t row q pq prev, wf row -> (length row <= length prev)%nat ->
     png_unfilt t q pq (png_filt t q pq row prev) prev = row).
Proof.
  exact (conj (fun a b c => conj eq_refl (conj eq_refl (conj eq_refl (conj eq_refl eq_refl))))
        (conj paeth_spec (conj png_filt_nth png_row_rt))).
Qed.
Print Assumptions png_spec.
