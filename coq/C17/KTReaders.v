(* C17 - the readers on valid trees: lookup by /Limits = assoc on the flattening (for every key),
   enumeration = flattening, in-memory reader = streaming reader; soundness of the validator. *)
From Coq Require Import List Arith Bool Lia.
From GoPdf.Base Require Import Res.
From GoPdf.C17 Require Import KeyTree KTOrder.
Import ListNotations.

Section Readers.
Context {K V : Type}.
Variables (ltb eqb : K -> K -> bool).
Variables (F maxd : nat).
Hypothesis HO : key_order ltb eqb.

Notation node := (@node K V).
Notation sorted := (@sorted K V ltb).
Notation assoc := (@assoc K V eqb).
Notation sub_valid := (@sub_valid K V F).
Notation lookup_node := (@lookup_node K V ltb eqb maxd).
Notation all_node := (@all_node K V maxd).
Notation extract_node := (@extract_node K V eqb maxd).

Lemma node_ind' (P : node -> Prop) :
  (forall l es, P (Leaf l es)) ->
  (forall l kids, Forall P kids -> P (Inner l kids)) -> forall t, P t.
Proof.
  intros HL HI. fix IH 1. intros [l es|l kids]; [apply HL|apply HI].
  induction kids as [|c r IHr]; constructor; [apply IH|exact IHr].
Qed.

Definition kids_height (kids : list node) : nat := fold_right (fun c d => Nat.max (height c) d) 0 kids.

Lemma sub_valid_lim t : sub_valid t -> node_lim t = limits_of (flat t) /\ flat t <> [].
Proof.
  intros H. inversion H; subst; cbn [node_lim flat]; split; try congruence;
    eapply limits_of_some; eauto.
Qed.

(* the loop over the kids of an intermediate node *)
Definition go_kids (depth : nat) (k : K) :=
  fix go (l : list node) : res (option V) :=
    match l with
    | [] => Ok None
    | c :: r =>
      match node_lim c with
      | Some (lo, hi) =>
        if negb (ltb k lo) && negb (ltb hi k) then lookup_node (S depth) c k else go r
      | None => go r
      end
    end.

Lemma lookup_node_inner depth l kids k :
  lookup_node depth (Inner l kids) k = if maxd <=? depth then Err Malformed else go_kids depth k kids.
Proof. reflexivity. Qed.

Lemma go_kids_spec depth k kids :
  Forall sub_valid kids ->
  Forall (fun c => sorted (flat c) -> forall d, d + height c <= maxd -> lookup_node d c k = Ok (assoc k (flat c))) kids ->
  sorted (flat_map flat kids) -> S depth + kids_height kids <= maxd ->
  go_kids depth k kids = Ok (assoc k (flat_map flat kids)).
Proof.
  induction kids as [|c r IHr]; intros Hv HP Hs Hh; [reflexivity|].
  inversion Hv as [|? ? Hc Hr]; subst. inversion HP as [|? ? Pc Pr]; subst.
  cbn [flat_map] in Hs |- *. cbn [kids_height fold_right] in Hh. fold (kids_height r) in Hh.
  destruct (sorted_app_inv ltb _ _ Hs) as [Hsc Hsr].
  rewrite (assoc_app eqb). cbn [go_kids]. fold (go_kids depth k).
  destruct (sub_valid_lim _ Hc) as [Hl Hne]. rewrite Hl.
  destruct (flat c) as [|[k0 v0] cr] eqn:Ec; [congruence|]. cbn [limits_of].
  destruct (negb (ltb k k0) && negb (ltb (fst (last cr (k0, v0))) k)) eqn:Eb.
  - rewrite Pc; [|exact Hsc|lia].
    destruct (assoc k ((k0, v0) :: cr)) eqn:Ea; [reflexivity|].
    f_equal. symmetry. apply (assoc_notin _ _ HO).
    intros k' v' Hin. apply andb_prop in Eb. destruct Eb as [_ E2]. apply negb_true_iff in E2.
    (* k <= last key of c < k' *)
    assert (In (last ((k0, v0) :: cr) (k0, v0)) ((k0, v0) :: cr)) as Hl' by (apply last_in; discriminate).
    rewrite last_cons_self in Hl'. destruct (last cr (k0, v0)) as [kl vl] eqn:El. cbn [fst] in E2.
    assert (ltb kl k' = true) as Hlt by (eapply (sorted_app_lt _ _ HO); eauto).
    intros ->. pose proof (ltb_asym _ _ HO _ _ Hlt). congruence.
  - assert (assoc k ((k0, v0) :: cr) = None) as ->.
    { destruct (assoc k ((k0, v0) :: cr)) as [v|] eqn:Ea; [|reflexivity].
      apply (assoc_in _ _ HO) in Ea. destruct (sorted_bounds _ _ HO _ _ _ _ _ Hsc Ea) as [B1 B2].
      rewrite B1, B2 in Eb. discriminate. }
    apply IHr; auto. lia.
Qed.

Lemma lookup_sub t : sub_valid t -> sorted (flat t) -> forall d k, d + height t <= maxd ->
  lookup_node d t k = Ok (assoc k (flat t)).
Proof.
  induction t as [l es|l kids IH] using node_ind'; intros Hv Hs d k Hh.
  - cbn [KeyTree.lookup_node height] in *. destruct (maxd <=? d) eqn:E; [apply Nat.leb_le in E; lia|reflexivity].
  - rewrite lookup_node_inner. cbn [height] in Hh. fold (kids_height kids) in Hh.
    destruct (maxd <=? d) eqn:E; [apply Nat.leb_le in E; lia|].
    inversion Hv; subst. cbn [flat] in *. apply go_kids_spec; auto; [|lia].
    rewrite Forall_forall in *. intros c Hc Hsc d' Hd'. apply IH; auto.
Qed.

(* every key: lookup on a valid tree is assoc on its flattening *)
Lemma lookup_valid (t : node) : tree_valid ltb F maxd t -> forall k, lookup ltb eqb maxd t k = Ok (assoc k (flat t)).
Proof.
  intros (Hl & Hf & Hk & Hs & Hh) k. unfold lookup. destruct t as [l es|l kids].
  - cbn [KeyTree.lookup_node height] in *. destruct (maxd <=? 0) eqn:E; [apply Nat.leb_le in E; lia|reflexivity].
  - rewrite lookup_node_inner. cbn [height] in Hh. fold (kids_height kids) in Hh.
    destruct (maxd <=? 0) eqn:E; [apply Nat.leb_le in E; lia|].
    cbn [flat] in *. apply go_kids_spec; auto.
    rewrite Forall_forall in *. intros c Hc Hsc d' Hd'. apply lookup_sub; auto.
Qed.

(* enumeration *)
Lemma all_node_flat t : forall d, d + height t <= maxd -> all_node d t = flat t.
Proof.
  induction t as [l es|l kids IH] using node_ind'; intros d Hh; cbn [KeyTree.all_node height flat] in *.
  - destruct (maxd <=? d) eqn:E; [apply Nat.leb_le in E; lia|reflexivity].
  - destruct (maxd <=? d) eqn:E; [apply Nat.leb_le in E; lia|]. fold (kids_height kids) in Hh.
    induction kids as [|c r IHr]; [reflexivity|]. cbn [flat_map]. inversion IH; subst.
    cbn [kids_height fold_right] in Hh. fold (kids_height r) in Hh. f_equal; [apply H1; lia|apply IHr; auto; lia].
Qed.

Lemma all_valid (t : node) : height t <= maxd -> all maxd t = flat t.
Proof. intros H. apply all_node_flat. lia. Qed.

(* the in-memory reader walks the same nodes *)
Definition set_all (es data : list (K * V)) := fold_left (fun d e => map_set eqb (fst e) (snd e) d) es data.

Lemma set_all_app a b data : set_all (a ++ b) data = set_all b (set_all a data).
Proof. apply fold_left_app. Qed.

Lemma extract_node_all t : forall d data, extract_node d t data = set_all (all_node d t) data.
Proof.
  induction t as [l es|l kids IH] using node_ind'; intros d data; cbn [KeyTree.extract_node KeyTree.all_node].
  - destruct (maxd <=? d); reflexivity.
  - destruct (maxd <=? d); [reflexivity|]. revert data.
    induction kids as [|c r IHr]; intros data; [reflexivity|]. inversion IH; subst.
    cbn [fold_left flat_map]. rewrite set_all_app. rewrite <- H1. apply IHr. exact H2.
Qed.

Lemma map_set_new k (v : V) m : (forall k' v', In (k', v') m -> k' <> k) -> map_set eqb k v m = m ++ [(k, v)].
Proof.
  induction m as [|[k1 v1] m IH]; intros H; [reflexivity|]. cbn [map_set app].
  assert (eqb k1 k = false) as -> by (apply (eqb_neq _ _ HO); eapply H; left; reflexivity).
  f_equal. apply IH. intros. eapply H. right. eassumption.
Qed.

Lemma set_all_sorted es : forall data, sorted (data ++ es) -> set_all es data = data ++ es.
Proof.
  induction es as [|[k v] es IH]; intros data Hs; [rewrite app_nil_r; reflexivity|].
  cbn [set_all fold_left fst snd]. fold (set_all es (map_set eqb k v data)).
  rewrite map_set_new.
  - rewrite IH; rewrite <- app_assoc; [reflexivity|exact Hs].
  - intros k' v' Hin. apply (ltb_neq _ _ HO). eapply (sorted_app_lt _ _ HO); eauto. left. reflexivity.
Qed.

Lemma ins_sorted e r : sorted (e :: r) -> ins ltb e r = e :: r.
Proof.
  destruct r as [|x r]; [reflexivity|]. destruct e as [k v], x as [k' v']. intros [H _].
  cbn [ins fst]. rewrite (ltb_asym _ _ HO _ _ H). reflexivity.
Qed.

Lemma sort_sorted es : sorted es -> sort_entries ltb es = es.
Proof.
  induction es as [|e es IH]; intros Hs; [reflexivity|]. cbn [sort_entries fold_right]. fold (sort_entries ltb es).
  rewrite IH by (eapply sorted_tail; eauto). apply ins_sorted. exact Hs.
Qed.

Lemma extract_valid (t : node) : tree_valid ltb F maxd t -> extract eqb maxd t = flat t.
Proof.
  intros (Hl & Hf & Hk & Hs & Hh). unfold extract. rewrite extract_node_all, all_node_flat by lia.
  apply (set_all_sorted (flat t) []). exact Hs.
Qed.

(* ---- the boolean validator *)

Lemma lim_eqb_eq a b : lim_eqb eqb a b = true -> a = b /\ a <> None.
Proof.
  destruct a as [[lo hi]|], b as [[lo' hi']|]; cbn; try discriminate.
  intros H. apply andb_prop in H as [H1 H2]. apply (eqb_eq _ _ HO) in H1, H2. subst. split; congruence.
Qed.

Lemma sub_ok_sound t : sub_ok eqb F t = true -> sub_valid t.
Proof.
  induction t as [l es|l kids IH] using node_ind'; cbn [sub_ok node_lim fan flat]; intros H;
    apply andb_prop in H as [H H3]; apply andb_prop in H as [H1 H2];
    apply lim_eqb_eq in H1 as [H1 H1']; apply Nat.leb_le in H2;
    destruct l as [[lo hi]|]; try congruence.
  - constructor; auto.
  - constructor; auto. rewrite forallb_forall in H3. rewrite Forall_forall in *. intros c Hc. apply IH; auto.
Qed.

Lemma tree_ok_sound (t : node) : tree_ok ltb eqb F maxd t = true -> tree_valid ltb F maxd t.
Proof.
  unfold tree_ok, tree_valid, no_lim. intros H.
  repeat (apply andb_prop in H as [H ?]).
  destruct (node_lim t) eqn:El; [discriminate|].
  split; [reflexivity|]. split; [apply Nat.leb_le; assumption|]. split.
  - destruct t as [|l kids]; [exact I|]. rewrite forallb_forall in H2. rewrite Forall_forall. intros c Hc. apply sub_ok_sound. auto.
  - split; [apply (sortedb_sorted ltb); assumption|apply Nat.leb_le; assumption].
Qed.

End Readers.
