(* C17 - the theorems of Prop_C17, assembled from the reader and writer lemmas. *)
From Coq Require Import List Arith Bool Lia NArith.
From Coq Require Import ZifyN ZifyNat ZifyBool.
From GoPdf.Base Require Import Res.
From GoPdf.C17 Require Import KeyTree KTOrder KTReaders KTDepths KTWriter.
Import ListNotations.

Section Main.
Context {K V : Type}.
Variables (ltb eqb : K -> K -> bool) (F maxd : nat).
Hypothesis HO : key_order ltb eqb.
Hypothesis HF : 2 <= F.

Notation node := (@node K V).
Notation sorted := (@sorted K V ltb).
Notation write := (@write K V ltb F).
Notation tree_valid := (@tree_valid K V ltb F maxd).

(* the size below which the written tree stays within the readers' nesting cap *)
Definition size_ok (n : nat) : Prop := (N.of_nat n < N.of_nat F ^ N.of_nat (maxd - 2))%N.

Lemma write_valid es : sorted es -> es <> [] -> size_ok (length es) ->
  exists t, write es = Ok (Some t) /\ flat t = es /\ tree_valid t /\
    (N.of_nat F ^ N.of_nat (height t - 3) <= N.of_nat (length es))%N.
Proof.
  intros Hs Hne Hsz. destruct (write_spec ltb eqb F HO HF es Hs Hne) as (t & Hw & Hfl & (S1 & S2 & S3) & Hh).
  exists t. split; [exact Hw|]. split; [exact Hfl|]. split; [|exact Hh].
  unfold KeyTree.tree_valid. rewrite Hfl. repeat split; auto.
  unfold size_ok in Hsz.
  assert (N.of_nat F ^ N.of_nat (height t - 3) < N.of_nat F ^ N.of_nat (maxd - 2))%N as Hlt by lia.
  apply N.pow_lt_mono_r_iff in Hlt; lia.
Qed.

Theorem lookup_write_l es : sorted es -> size_ok (length es) ->
  forall k, lookup_written ltb eqb maxd (write es) k = Ok (assoc eqb k es).
Proof.
  intros Hs Hsz k. destruct es as [|e es'] eqn:E; [reflexivity|]. rewrite <- E in *.
  destruct (write_valid es Hs ltac:(subst; discriminate) Hsz) as (t & Hw & Hfl & Hv & _).
  rewrite Hw. cbn [lookup_written]. rewrite (lookup_valid ltb eqb F maxd HO t Hv). rewrite Hfl. reflexivity.
Qed.

Theorem all_write_l es : sorted es -> size_ok (length es) -> all_written maxd (write es) = Ok es.
Proof.
  intros Hs Hsz. destruct es as [|e es'] eqn:E; [reflexivity|]. rewrite <- E in *.
  destruct (write_valid es Hs ltac:(subst; discriminate) Hsz) as (t & Hw & Hfl & Hv & _).
  rewrite Hw. cbn [all_written]. rewrite all_valid; [rewrite Hfl; reflexivity|]. apply Hv.
Qed.

Theorem unsorted_rejected_l es : sortedb ltb es = false -> write es = Err Other.
Proof.
  intros H. apply (write_unsorted ltb eqb F HO HF). intros Hs. apply (sortedb_sorted ltb) in Hs. congruence.
Qed.

Theorem empty_no_tree_l : write [] = Ok None /\
  forall es, sorted es -> es <> [] -> exists t, write es = Ok (Some t).
Proof.
  split; [reflexivity|]. intros es Hs Hne.
  destruct (write_spec ltb eqb F HO HF es Hs Hne) as (t & Hw & _). exists t. exact Hw.
Qed.

Theorem readers_agree_l (t : node) : tree_valid t ->
  (forall k, lookup ltb eqb maxd t k = Ok (mem_lookup eqb (extract eqb maxd t) k)) /\
  mem_all ltb (extract eqb maxd t) = all maxd t.
Proof.
  intros Hv. pose proof (extract_valid ltb eqb F maxd HO t Hv) as He. split.
  - intros k. rewrite (lookup_valid ltb eqb F maxd HO t Hv), He. reflexivity.
  - rewrite He. unfold mem_all. rewrite (sort_sorted ltb eqb HO) by apply Hv.
    symmetry. apply all_valid. apply Hv.
Qed.

(* what validity says about every node below the root *)
Lemma sorted_flat_map_in (kids : list node) c : sorted (flat_map flat kids) -> In c kids -> sorted (flat c).
Proof.
  induction kids as [|x r IH]; intros Hs Hin; [destruct Hin|].
  cbn [flat_map] in Hs. apply (sorted_app_inv ltb) in Hs. destruct Hin as [<-|Hin]; tauto.
Qed.

Lemma sub_valid_desc (t : node) : sub_valid F t -> sorted (flat t) ->
  Forall (fun c => node_lim c = limits_of (flat c) /\ flat c <> [] /\ fan c <= F /\ sorted (flat c)) (t :: descendants t).
Proof.
  induction t as [l es|l kids IH] using node_ind'; intros Hv Hs.
  - constructor; [|constructor]. destruct (sub_valid_lim F _ Hv) as [H1 H2]. inversion Hv; subst. auto.
  - constructor.
    + destruct (sub_valid_lim F _ Hv) as [H1 H2]. inversion Hv; subst. cbn [fan]. auto.
    + inversion Hv as [|lo hi kids' Hlim Hlen Hk]; subst. cbn [descendants flat] in *.
      rewrite Forall_forall in *. intros c Hc. apply in_flat_map in Hc. destruct Hc as (x & Hx & Hc).
      specialize (IH x Hx (Hk x Hx) (sorted_flat_map_in kids x Hs Hx)). rewrite Forall_forall in IH. apply IH. exact Hc.
Qed.

Theorem valid_nodes_l (t : node) : tree_valid t ->
  node_lim t = None /\ fan t <= F /\ sorted (flat t) /\ height t <= maxd /\
  Forall (fun c => node_lim c = limits_of (flat c) /\ flat c <> [] /\ fan c <= F /\ sorted (flat c)) (descendants t).
Proof.
  intros (H1 & H2 & H3 & H4 & H5). repeat split; auto.
  destruct t as [l es|l kids]; [constructor|]. cbn [descendants flat] in *.
  rewrite Forall_forall in *. intros c Hc. apply in_flat_map in Hc. destruct Hc as (x & Hx & Hc).
  pose proof (sub_valid_desc x (H3 x Hx) (sorted_flat_map_in kids x H4 Hx)) as Hd.
  rewrite Forall_forall in Hd. apply Hd. exact Hc.
Qed.

Theorem tree_ok_sound_l (t : node) : tree_ok ltb eqb F maxd t = true ->
  tree_valid t /\ (forall k, lookup ltb eqb maxd t k = Ok (assoc eqb k (flat t))) /\ all maxd t = flat t.
Proof.
  intros H. pose proof (tree_ok_sound ltb eqb F maxd HO t H) as Hv. split; [exact Hv|]. split.
  - apply (lookup_valid ltb eqb F maxd HO t Hv).
  - apply all_valid. apply Hv.
Qed.

End Main.

(* the translator's constants satisfy what the theorems need *)
From GoPdf.C17 Require Import KeyTreeInst.
Lemma fanout_ge2 : 2 <= fanout.
Proof. apply Nat.leb_le. vm_compute. reflexivity. Qed.
