(* C17 - the readers on graphs: every node is entered at most once and the work is bounded by the
   size of the file whatever the sharing or the cycles; on a tree laid out in the heap with distinct
   references the graph readers are the tree readers. *)
From Coq Require Import List Arith Bool Lia.
From GoPdf.Base Require Import Res.
From GoPdf.C17 Require Import KeyTree KTOrder KTReaders KeyGraph.
Import ListNotations.

Definition sum (f : nat -> nat) (l : list nat) : nat := fold_right (fun r s => f r + s) 0 l.

Lemma sum_app f a b : sum f (a ++ b) = sum f a + sum f b.
Proof. unfold sum. induction a; cbn [app fold_right]; lia. Qed.

(* distinct indices: the sum over them is at most the sum over a universe containing the non-zero ones *)
Lemma sum_nodup_le f : forall l u, NoDup l -> NoDup u -> (forall r, In r l -> f r <> 0 -> In r u) -> sum f l <= sum f u.
Proof.
  induction l as [|a l IH]; intros u Hl Hu Hin; [cbn; lia|].
  inversion Hl as [|? ? Ha Hl']; subst. cbn [sum fold_right]. fold (sum f l).
  destruct (Nat.eq_dec (f a) 0) as [E|E].
  - rewrite E. apply IH; auto. intros r Hr. apply Hin. right. exact Hr.
  - assert (In a u) as Hau by (apply Hin; [left; reflexivity|exact E]).
    apply in_split in Hau as (u1 & u2 & ->). rewrite sum_app. cbn [sum fold_right]. fold (sum f u2).
    assert (sum f l <= sum f (u1 ++ u2)) as H.
    { apply IH; [exact Hl'|eapply NoDup_remove_1; eauto|].
      intros r Hr Hf. assert (In r (u1 ++ a :: u2)) as H by (apply Hin; [right; exact Hr|exact Hf]).
      apply in_app_or in H. apply in_or_app. destruct H as [H|[H|H]]; auto. subst. contradiction. }
    rewrite sum_app in H. lia.
Qed.

Lemma NoDup_app_intro {A} (a b : list A) : NoDup a -> NoDup b -> (forall x, In x a -> ~ In x b) -> NoDup (a ++ b).
Proof.
  induction a as [|x a IH]; intros Ha Hb Hd; [exact Hb|]. inversion Ha; subst. cbn. constructor.
  - intros Hin. apply in_app_or in Hin. destruct Hin as [Hin|Hin]; [contradiction|]. apply (Hd x); [left; reflexivity|exact Hin].
  - apply IH; auto. intros y Hy. apply Hd. right. exact Hy.
Qed.

Section Graph.
Context {K V : Type}.
Variables (ltb eqb : K -> K -> bool).
Variable H : @heap K V.

Notation gnode := (@gnode K V).
Notation get := (@get K V H).

Definition szr (r : nat) : nat := match get r with Some c => gsize c | None => 0 end.

Lemma mem_in r seen : mem r seen = true <-> In r seen.
Proof.
  unfold mem. rewrite existsb_exists. split.
  - intros (x & Hx & E). apply Nat.eqb_eq in E. subst. exact Hx.
  - intros Hin. exists r. split; [exact Hin|apply Nat.eqb_refl].
Qed.
Lemma mem_not_in r seen : mem r seen = false <-> ~ In r seen.
Proof. rewrite <- mem_in. destruct (mem r seen); split; intros; congruence. Qed.

(* what a traversal does to [seen]: it adds distinct references that were not in it *)
Definition grows (seen' seen added : list nat) : Prop :=
  seen' = added ++ seen /\ NoDup added /\ (forall r, In r added -> ~ In r seen).

Lemma grows_refl seen : grows seen seen [].
Proof. split; [reflexivity|]. split; [constructor|]. intros r []. Qed.

Lemma grows_step r seen seen' added : ~ In r seen -> grows seen' (r :: seen) added -> grows seen' seen (added ++ [r]).
Proof.
  intros Hr (E & Hn & Hd). split; [rewrite <- app_assoc; exact E|]. split.
  - apply NoDup_app_intro; [exact Hn|constructor; [intros []|constructor]|]. intros x Hx [Ex|[]]. subst x. apply (Hd r Hx). left. reflexivity.
  - intros x Hx Hs. apply in_app_or in Hx. destruct Hx as [Hx|[<-|[]]]; [|contradiction].
    apply (Hd x Hx). right. exact Hs.
Qed.

Lemma grows_trans s0 s1 s2 a1 a2 : grows s1 s0 a1 -> grows s2 s1 a2 -> grows s2 s0 (a2 ++ a1).
Proof.
  intros (E1 & N1 & D1) (E2 & N2 & D2). subst. split; [rewrite app_assoc; reflexivity|]. split.
  - apply NoDup_app_intro; auto. intros x Hx2 Hx1. apply (D2 x Hx2). apply in_or_app. left. exact Hx1.
  - intros x Hx Hs. apply in_app_or in Hx. destruct Hx as [Hx|Hx]; [apply (D2 x Hx); apply in_or_app; right; exact Hs|apply (D1 x Hx Hs)].
Qed.

(* the loops over the kids, named (the recursive call is a parameter) *)
Section Loops.
Variable rec_all : list nat -> gnode -> list (K * V) * list nat * nat.
Fixpoint all_go (l : list nat) (seen : list nat) (acc : list (K * V)) (work : nat) : list (K * V) * list nat * nat :=
  match l with
  | [] => (acc, seen, work)
  | r :: rest =>
    if mem r seen then all_go rest seen acc (S work) else
    let seen := r :: seen in
    match get r with
    | None => all_go rest seen acc (S work)
    | Some c => let '(es, seen', w) := rec_all seen c in all_go rest seen' (acc ++ es) (S work + w)
    end
  end.

Variable rec_look : list nat -> gnode -> res (option V) * list nat * nat.
Variable k : K.
Fixpoint look_go (l : list nat) (seen : list nat) (work : nat) : res (option V) * list nat * nat :=
  match l with
  | [] => (Ok None, seen, work)
  | r :: rest =>
    if mem r seen then look_go rest seen (S work) else
    let seen := r :: seen in
    match get r with
    | None => look_go rest seen (S work)
    | Some c =>
      match gnode_lim c with
      | Some (lo, hi) =>
        if negb (ltb k lo) && negb (ltb hi k)
        then let '(res, seen', w) := rec_look seen c in (res, seen', S work + w)
        else look_go rest seen (S work)
      | None => look_go rest seen (S work)
      end
    end
  end.
End Loops.

Lemma g_all_inner fuel seen lim kids :
  g_all (S fuel) H seen (GInner lim kids) = all_go (g_all fuel H) kids seen [] 1.
Proof. reflexivity. Qed.

Lemma g_lookup_inner fuel seen lim kids k :
  g_lookup ltb eqb (S fuel) H seen (GInner lim kids) k = look_go (fun s c => g_lookup ltb eqb fuel H s c k) k kids seen 1.
Proof. reflexivity. Qed.

(* ---- bounded work, every node at most once: All *)
Lemma g_all_bound fuel : forall seen (n : gnode) es seen' w, g_all fuel H seen n = (es, seen', w) ->
  exists added, grows seen' seen added /\ w <= gsize n + sum szr added.
Proof.
  induction fuel as [|fuel IH]; intros seen n es seen' w Hg.
  - injection Hg as _ <- <-. exists []. split; [apply grows_refl|cbn; lia].
  - destruct n as [lim les|lim kids].
    + injection Hg as _ <- <-. exists []. split; [apply grows_refl|cbn; lia].
    + rewrite g_all_inner in Hg. cbn [gsize].
      assert (forall l seen0 acc work0 es seen' w, all_go (g_all fuel H) l seen0 acc work0 = (es, seen', w) ->
                exists added, grows seen' seen0 added /\ w <= work0 + length l + sum szr added) as Hloop.
      { clear - IH. induction l as [|r rest IHr]; intros seen0 acc work0 es seen' w Hg; cbn [all_go] in Hg.
        - injection Hg as _ <- <-. exists []. split; [apply grows_refl|cbn; lia].
        - destruct (mem r seen0) eqn:Em.
          + destruct (IHr _ _ _ _ _ _ Hg) as (added & G & Hw). exists added. split; [exact G|cbn [length]; lia].
          + apply mem_not_in in Em. destruct (get r) as [c|] eqn:Eg.
            * destruct (g_all fuel H (r :: seen0) c) as [[es1 seen1] w1] eqn:E1.
              destruct (IH _ _ _ _ _ E1) as (a1 & G1 & W1).
              destruct (IHr _ _ _ _ _ _ Hg) as (a2 & G2 & W2).
              exists ((a2 ++ a1) ++ [r]). split.
              -- apply grows_step; [exact Em|]. eapply grows_trans; eauto.
              -- rewrite !sum_app. cbn [sum fold_right length]. unfold szr at 3. rewrite Eg. lia.
            * destruct (IHr _ _ _ _ _ _ Hg) as (a2 & G2 & W2). exists (a2 ++ [r]). split.
              -- apply grows_step; assumption.
              -- rewrite sum_app. cbn [sum fold_right length]. unfold szr at 2. rewrite Eg. lia. }
      destruct (Hloop _ _ _ _ _ _ _ Hg) as (added & G & Hw). exists added. split; [exact G|lia].
Qed.

(* ---- the same for Lookup *)
Lemma g_lookup_bound fuel : forall seen (n : gnode) k res seen' w, g_lookup ltb eqb fuel H seen n k = (res, seen', w) ->
  exists added, grows seen' seen added /\ w <= gsize n + sum szr added.
Proof.
  induction fuel as [|fuel IH]; intros seen n k res seen' w Hg.
  - injection Hg as _ <- <-. exists []. split; [apply grows_refl|cbn; lia].
  - destruct n as [lim les|lim kids].
    + injection Hg as _ <- <-. exists []. split; [apply grows_refl|cbn; lia].
    + rewrite g_lookup_inner in Hg. cbn [gsize].
      assert (forall l seen0 work0 res seen' w, look_go (fun s c => g_lookup ltb eqb fuel H s c k) k l seen0 work0 = (res, seen', w) ->
                exists added, grows seen' seen0 added /\ w <= work0 + length l + sum szr added) as Hloop.
      { clear - IH. induction l as [|r rest IHr]; intros seen0 work0 res seen' w Hg; cbn [look_go] in Hg.
        - injection Hg as _ <- <-. exists []. split; [apply grows_refl|cbn; lia].
        - destruct (mem r seen0) eqn:Em.
          + destruct (IHr _ _ _ _ _ Hg) as (added & G & Hw). exists added. split; [exact G|cbn [length]; lia].
          + apply mem_not_in in Em.
            assert ((exists a2, grows seen' (r :: seen0) a2 /\ w <= S work0 + length rest + sum szr a2) ->
                    exists added, grows seen' seen0 added /\ w <= work0 + length (r :: rest) + sum szr added) as Hskip.
            { intros (a2 & G2 & W2). exists (a2 ++ [r]). split; [apply grows_step; assumption|].
              rewrite sum_app. cbn [sum fold_right length]. lia. }
            destruct (get r) as [c|] eqn:Eg; [|apply Hskip; apply (IHr _ _ _ _ _ Hg)].
            destruct (gnode_lim c) as [[lo hi]|]; [|apply Hskip; apply (IHr _ _ _ _ _ Hg)].
            destruct (negb (ltb k lo) && negb (ltb hi k)); [|apply Hskip; apply (IHr _ _ _ _ _ Hg)].
            destruct (g_lookup ltb eqb fuel H (r :: seen0) c k) as [[res1 seen1] w1] eqn:E1.
            injection Hg as _ <- <-. destruct (IH _ _ _ _ _ _ E1) as (a1 & G1 & W1).
            exists (a1 ++ [r]). split; [apply grows_step; assumption|].
            rewrite sum_app. cbn [sum fold_right length]. unfold szr at 2. rewrite Eg. lia. }
      destruct (Hloop _ _ _ _ _ _ Hg) as (added & G & Hw). exists added. split; [exact G|lia].
Qed.

(* the sum over distinct references is at most the size of the heap *)
Lemma szr_zero r : length H <= r -> szr r = 0.
Proof. intros Hr. unfold szr, KeyGraph.get. rewrite (proj2 (nth_error_None H r) Hr). reflexivity. Qed.

End Graph.

Lemma heap_size_sum {K V} (H : @heap K V) : heap_size H = sum (szr H) (seq 0 (length H)).
Proof.
  induction H as [|o H IH]; [reflexivity|]. cbn [length seq heap_size fold_right sum].
  fold (heap_size H). fold (sum (szr (o :: H)) (seq 1 (length H))).
  rewrite <- seq_shift. assert (sum (szr (o :: H)) (map S (seq 0 (length H))) = sum (szr H) (seq 0 (length H))) as ->.
  { generalize (seq 0 (length H)). unfold sum. induction l as [|a l IHl]; [reflexivity|]. cbn [map fold_right]. rewrite IHl. reflexivity. }
  rewrite <- IH. unfold szr at 1, get. cbn. destruct o; reflexivity.
Qed.

Lemma sum_added_le {K V} (H : @heap K V) added : NoDup added -> sum (szr H) added <= heap_size H.
Proof.
  intros Hn. rewrite heap_size_sum. apply sum_nodup_le; [exact Hn|apply seq_NoDup|].
  intros r _ Hf. apply in_seq. split; [lia|]. cbn. destruct (Nat.lt_ge_cases r (length H)); [assumption|].
  exfalso. apply Hf. apply szr_zero. assumption.
Qed.

(* ---- a tree laid out in the heap with distinct references: the graph readers are the tree readers *)
Lemma rtree_ind' {K V} (P : @rtree K V -> Prop) :
  (forall r l es, P (RLeaf r l es)) ->
  (forall r l kids, Forall P kids -> P (RInner r l kids)) -> forall t, P t.
Proof.
  intros HL HI. fix IH 1. intros [r l es|r l kids]; [apply HL|apply HI].
  induction kids as [|c cs IHc]; constructor; [apply IH|exact IHc].
Qed.

Section Embedded.
Context {K V : Type}.
Variables (ltb eqb : K -> K -> bool).
Variable maxd : nat.
Variable H : @heap K V.

Notation rtree := (@rtree K V).

Definition below (t : rtree) : list nat :=
  match t with RLeaf _ _ _ => [] | RInner _ _ kids => flat_map rrefs kids end.

Lemma rrefs_eq (t : rtree) : rrefs t = rref t :: below t.
Proof. destruct t; reflexivity. Qed.

Lemma embeds_get (t : rtree) : embeds H t -> get H (rref t) = Some (gnode_of t).
Proof. intros E. inversion E; subst; assumption. Qed.

Lemma lim_of (t : rtree) : gnode_lim (gnode_of t) = node_lim (erase t).
Proof. destruct t; reflexivity. Qed.

Lemma NoDup_app_l {A} (a b : list A) : NoDup (a ++ b) -> NoDup a /\ NoDup b /\ (forall x, In x a -> ~ In x b).
Proof.
  induction a as [|x a IH]; intros Hn; [split; [constructor|split; [exact Hn|intros ? []]]|].
  inversion Hn as [|? ? Hx Hn']; subst. destruct (IH Hn') as (A1 & A2 & A3). split; [|split; [exact A2|]].
  - constructor; [|exact A1]. intros Hin. apply Hx. apply in_or_app. left. exact Hin.
  - intros y [<-|Hy]; [intros Hb; apply Hx; apply in_or_app; right; exact Hb|apply A3; exact Hy].
Qed.

(* All *)
Lemma all_embedded t : forall fuel depth seen, embeds H t -> NoDup (rrefs t) ->
  (forall r, In r (below t) -> ~ In r seen) -> fuel + depth = maxd ->
  fst (fst (g_all fuel H seen (gnode_of t))) = all_node maxd depth (erase t) /\
  (forall x, In x (snd (fst (g_all fuel H seen (gnode_of t)))) -> In x seen \/ In x (below t)).
Proof.
  induction t as [r l es|r l kids IH] using rtree_ind'; intros fuel depth seen He Hn Hd Hf.
  - destruct fuel as [|fuel]; cbn [g_all gnode_of erase all_node fst snd below].
    + assert (maxd <=? depth = true) as -> by (apply Nat.leb_le; lia). auto.
    + assert (maxd <=? depth = false) as -> by (apply Nat.leb_gt; lia). auto.
  - destruct fuel as [|fuel]; cbn [gnode_of erase all_node].
    + cbn [g_all fst snd]. assert (maxd <=? depth = true) as -> by (apply Nat.leb_le; lia). auto.
    + assert (maxd <=? depth = false) as -> by (apply Nat.leb_gt; lia).
      rewrite g_all_inner. cbn [below]. inversion He as [|r0 l0 kids0 Hg Hk]; subst r0 l0 kids0.
      rewrite rrefs_eq in Hn. cbn [below] in Hn. inversion Hn as [|x0 l1 _ Hnk]; subst x0 l1. clear Hn Hg He.
      rewrite flat_map_concat_map, map_map, <- flat_map_concat_map.
      assert (forall ks seen0 acc work0, Forall (embeds H) ks ->
                Forall (fun t => forall fuel depth seen, embeds H t -> NoDup (rrefs t) ->
                          (forall r, In r (below t) -> ~ In r seen) -> fuel + depth = maxd ->
                          fst (fst (g_all fuel H seen (gnode_of t))) = all_node maxd depth (erase t) /\
                          (forall x, In x (snd (fst (g_all fuel H seen (gnode_of t)))) -> In x seen \/ In x (below t))) ks ->
                NoDup (flat_map rrefs ks) -> (forall r, In r (flat_map rrefs ks) -> ~ In r seen0) ->
                fst (fst (all_go H (g_all fuel H) (map rref ks) seen0 acc work0)) =
                  acc ++ flat_map (fun c => all_node maxd (S depth) (erase c)) ks /\
                (forall x, In x (snd (fst (all_go H (g_all fuel H) (map rref ks) seen0 acc work0))) ->
                   In x seen0 \/ In x (flat_map rrefs ks))) as Hloop.
      { clear IH Hk Hnk Hd. induction ks as [|c ks IHk]; intros seen0 acc work0 Hemb HP Hnd Hdis.
        - cbn. rewrite app_nil_r. auto.
        - inversion Hemb as [|c0 ks0 Ec Eks]; subst c0 ks0. inversion HP as [|c0 ks0 Pc Pks]; subst c0 ks0.
          cbn [flat_map] in Hnd, Hdis. apply NoDup_app_l in Hnd as (Nc & Nks & Ncks).
          cbn [map all_go flat_map].
          assert (~ In (rref c) seen0) as Hr by (apply Hdis; apply in_or_app; left; rewrite rrefs_eq; left; reflexivity).
          apply mem_not_in in Hr. rewrite Hr. apply mem_not_in in Hr. rewrite (embeds_get c Ec).
          destruct (Pc fuel (S depth) (rref c :: seen0) Ec Nc) as [Q1 Q2]; [|lia|].
          { intros x Hx [<-|Hs].
            - rewrite rrefs_eq in Nc. inversion Nc as [|x1 l2 Hx1 _]; subst x1 l2. contradiction.
            - apply (Hdis x); [apply in_or_app; left; rewrite rrefs_eq; right; exact Hx|exact Hs]. }
          destruct (g_all fuel H (rref c :: seen0) (gnode_of c)) as [[es1 seen1] w1]. cbn [fst snd] in Q1, Q2.
          destruct (IHk seen1 (acc ++ es1) (S work0 + w1) Eks Pks Nks) as [R1 R2].
          { intros x Hx Hs. destruct (Q2 x Hs) as [[<-|Hs0]|Hb].
            - apply (Ncks (rref c)); [rewrite rrefs_eq; left; reflexivity|exact Hx].
            - apply (Hdis x); [apply in_or_app; right; exact Hx|exact Hs0].
            - apply (Ncks x); [rewrite rrefs_eq; right; exact Hb|exact Hx]. }
          split.
          + rewrite R1, Q1, <- app_assoc. reflexivity.
          + intros x Hx. destruct (R2 x Hx) as [Hs|Hk]; [|right; apply in_or_app; right; exact Hk].
            destruct (Q2 x Hs) as [[<-|Hs0]|Hb]; [right; apply in_or_app; left; rewrite rrefs_eq; left; reflexivity|left; exact Hs0|].
            right. apply in_or_app. left. rewrite rrefs_eq. right. exact Hb. }
      destruct (Hloop kids seen [] 1 Hk IH Hnk Hd) as [L1 L2]. split; [exact L1|exact L2].
Qed.

(* Lookup *)
Lemma look_embedded t : forall fuel depth seen k, embeds H t -> NoDup (rrefs t) ->
  (forall r, In r (below t) -> ~ In r seen) -> fuel + depth = maxd ->
  fst (fst (g_lookup ltb eqb fuel H seen (gnode_of t) k)) = lookup_node ltb eqb maxd depth (erase t) k.
Proof.
  induction t as [r l es|r l kids IH] using rtree_ind'; intros fuel depth seen k He Hn Hd Hf.
  - destruct fuel as [|fuel]; cbn [g_lookup gnode_of erase lookup_node fst].
    + assert (maxd <=? depth = true) as -> by (apply Nat.leb_le; lia). reflexivity.
    + assert (maxd <=? depth = false) as -> by (apply Nat.leb_gt; lia). reflexivity.
  - cbn [erase]. rewrite (lookup_node_inner ltb eqb maxd). destruct fuel as [|fuel]; cbn [gnode_of].
    + cbn [g_lookup fst]. assert (maxd <=? depth = true) as -> by (apply Nat.leb_le; lia). reflexivity.
    + assert (maxd <=? depth = false) as -> by (apply Nat.leb_gt; lia).
      rewrite g_lookup_inner. inversion He as [|r0 l0 kids0 Hg Hk]; subst r0 l0 kids0.
      rewrite rrefs_eq in Hn. cbn [below] in Hn, Hd. inversion Hn as [|x0 l1 _ Hnk]; subst x0 l1. clear Hn Hg He.
      generalize 1 as work0. revert seen Hd.
      induction kids as [|c ks IHk]; intros seen0 Hdis work0; [reflexivity|].
      inversion Hk as [|c0 ks0 Ec Eks]; subst c0 ks0. inversion IH as [|c0 ks0 Pc Pks]; subst c0 ks0.
      cbn [flat_map] in Hnk, Hdis. apply NoDup_app_l in Hnk as (Nc & Nks & Ncks).
      cbn [map look_go go_kids]. fold (@go_kids K V ltb eqb maxd depth k).
      assert (~ In (rref c) seen0) as Hr by (apply Hdis; apply in_or_app; left; rewrite rrefs_eq; left; reflexivity).
      apply mem_not_in in Hr. rewrite Hr. apply mem_not_in in Hr. rewrite (embeds_get c Ec), lim_of.
      assert (forall work1, fst (fst (look_go ltb H (fun s c0 => g_lookup ltb eqb fuel H s c0 k) k (map rref ks) (rref c :: seen0) work1)) =
                go_kids ltb eqb maxd depth k (map erase ks)) as Hrest.
      { intros work1. apply IHk; auto. intros x Hx [<-|Hs].
        - apply (Ncks (rref c)); [rewrite rrefs_eq; left; reflexivity|exact Hx].
        - apply (Hdis x); [apply in_or_app; right; exact Hx|exact Hs]. }
      destruct (node_lim (erase c)) as [[lo hi]|]; [|apply Hrest].
      destruct (negb (ltb k lo) && negb (ltb hi k)); [|apply Hrest].
      specialize (Pc fuel (S depth) (rref c :: seen0) k Ec Nc).
      destruct (g_lookup ltb eqb fuel H (rref c :: seen0) (gnode_of c) k) as [[res1 seen1] w1]. cbn [fst] in *.
      apply Pc; [|lia]. intros x Hx [<-|Hs].
      * rewrite rrefs_eq in Nc. inversion Nc as [|x1 l2 Hx1 _]; subst x1 l2. contradiction.
      * apply (Hdis x); [apply in_or_app; left; rewrite rrefs_eq; right; exact Hx|exact Hs].
Qed.

End Embedded.

(* ---- the statements *)
Section Top.
Context {K V : Type}.
Variables (ltb eqb : K -> K -> bool).
Variable maxd : nat.
Variable H : @heap K V.

Theorem graph_lookup_tree_l (t : @rtree K V) k : embeds H t -> NoDup (rrefs t) ->
  fst (g_lookup_root ltb eqb maxd H (rref t) k) = lookup ltb eqb maxd (erase t) k.
Proof.
  intros He Hn. unfold g_lookup_root. rewrite (embeds_get H t He).
  pose proof (look_embedded ltb eqb maxd H t maxd 0 [rref t] k He Hn) as Hl.
  destruct (g_lookup ltb eqb maxd H [rref t] (gnode_of t) k) as [[res seen'] w]. cbn [fst] in *.
  apply Hl; [|lia]. intros r Hr [<-|[]]. rewrite rrefs_eq in Hn. inversion Hn; subst. contradiction.
Qed.

Theorem graph_all_tree_l (t : @rtree K V) : embeds H t -> NoDup (rrefs t) ->
  fst (g_all_root maxd H (rref t)) = all maxd (erase t).
Proof.
  intros He Hn. unfold g_all_root. rewrite (embeds_get H t He).
  pose proof (all_embedded maxd H t maxd 0 [rref t] He Hn) as Hl.
  destruct (g_all maxd H [rref t] (gnode_of t)) as [[es seen'] w]. cbn [fst snd] in *.
  apply Hl; [|lia]. intros r Hr [<-|[]]. rewrite rrefs_eq in Hn. inversion Hn; subst. contradiction.
Qed.

Lemma root_size r n : get H r = Some n -> gsize n <= heap_size H.
Proof.
  intros Hg. pose proof (sum_added_le H [r] ltac:(constructor; [intros []|constructor])) as Hs.
  cbn [sum fold_right] in Hs. unfold szr in Hs. rewrite Hg in Hs. lia.
Qed.

(* whatever the graph (shared kids, cycles, dangling references): the work of one Lookup and of
   one enumeration is at most twice the size of the file's tree objects, and no node is entered twice *)
Theorem graph_work_bound_l root k :
  snd (g_lookup_root ltb eqb maxd H root k) <= 2 * heap_size H /\
  snd (g_all_root maxd H root) <= 2 * heap_size H.
Proof.
  unfold g_lookup_root, g_all_root. destruct (get H root) as [n|] eqn:Eg; [|cbn; lia].
  pose proof (root_size root n Eg) as Hr. split.
  - destruct (g_lookup ltb eqb maxd H [root] n k) as [[res seen'] w] eqn:E.
    destruct (g_lookup_bound ltb eqb H maxd _ _ _ _ _ _ E) as (added & (_ & Hn & _) & Hw).
    pose proof (sum_added_le H added Hn). cbn [snd]. lia.
  - destruct (g_all maxd H [root] n) as [[es seen'] w] eqn:E.
    destruct (g_all_bound H maxd _ _ _ _ _ E) as (added & (_ & Hn & _) & Hw).
    pose proof (sum_added_le H added Hn). cbn [snd]. lia.
Qed.

Theorem graph_each_node_once_l fuel seen (n : @gnode K V) : NoDup seen ->
  NoDup (snd (fst (g_all fuel H seen n))) /\ forall k, NoDup (snd (fst (g_lookup ltb eqb fuel H seen n k))).
Proof.
  intros Hs. split.
  - destruct (g_all fuel H seen n) as [[es seen'] w] eqn:E.
    destruct (g_all_bound H fuel _ _ _ _ _ E) as (added & (-> & Hn & Hd) & _). cbn [fst snd].
    apply NoDup_app_intro; assumption.
  - intros k. destruct (g_lookup ltb eqb fuel H seen n k) as [[res seen'] w] eqn:E.
    destruct (g_lookup_bound ltb eqb H fuel _ _ _ _ _ _ E) as (added & (-> & Hn & Hd) & _). cbn [fst snd].
    apply NoDup_app_intro; assumption.
Qed.

End Top.
