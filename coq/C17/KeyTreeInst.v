(* C17 - the two instances of the key-tree model: name trees (byte strings,
   lexicographic order as Go compares strings) and number trees (integers).
   Fan-out and depth caps are the translator's constants.  Values are integers
   (the harness stores pdf.Integer values).  Definitions only. *)
From Coq Require Import List ZArith NArith Bool.
From GoPdf.Base Require Import Bytes Res.
From GoPdf.Gen Require Import Gen_C17.
From GoPdf.C17 Require Import KeyTree.
Import ListNotations.

Definition fanout : nat := Z.to_nat maxChildren.
Definition name_maxd : nat := Z.to_nat MaxNameTreeDepth.
Definition num_maxd : nat := Z.to_nat MaxNumberTreeDepth.

Definition nnode := @node bytes Z.
Definition znode := @node Z Z.

Definition name_write (es : list (bytes * Z)) : res (option nnode) := write bytes_ltb fanout es.
Definition name_lookup (t : nnode) (k : bytes) : res (option Z) := lookup bytes_ltb bytes_eqb name_maxd t k.
Definition name_all (t : nnode) : list (bytes * Z) := all name_maxd t.
Definition name_extract (t : nnode) : list (bytes * Z) := extract bytes_eqb name_maxd t.
Definition name_mem_lookup (d : list (bytes * Z)) (k : bytes) : option Z := mem_lookup bytes_eqb d k.
Definition name_mem_all (d : list (bytes * Z)) : list (bytes * Z) := mem_all bytes_ltb d.
Definition name_tree_ok (t : nnode) : bool := tree_ok bytes_ltb bytes_eqb fanout name_maxd t.

Definition num_write (es : list (Z * Z)) : res (option znode) := write Z.ltb fanout es.
Definition num_lookup (t : znode) (k : Z) : res (option Z) := lookup Z.ltb Z.eqb num_maxd t k.
Definition num_all (t : znode) : list (Z * Z) := all num_maxd t.
Definition num_extract (t : znode) : list (Z * Z) := extract Z.eqb num_maxd t.
Definition num_mem_lookup (d : list (Z * Z)) (k : Z) : option Z := mem_lookup Z.eqb d k.
Definition num_mem_all (d : list (Z * Z)) : list (Z * Z) := mem_all Z.ltb d.
Definition num_tree_ok (t : znode) : bool := tree_ok Z.ltb Z.eqb fanout num_maxd t.
