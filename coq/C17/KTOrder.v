(* C17 - lemmas on ordered keys, sorted entry lists, assoc and /Limits. *)
From Coq Require Import List Arith Bool Lia ZArith NArith.
From GoPdf.Base Require Import Bytes Res.
From GoPdf.C17 Require Import KeyTree.
Import ListNotations.

Section Order.
Context {K V : Type}.
Variables (ltb eqb : K -> K -> bool).
Hypothesis HO : key_order ltb eqb.

Lemma eqb_eq a b : eqb a b = true <-> a = b.
Proof. destruct HO as [H _]. apply H. Qed.
Lemma eqb_refl a : eqb a a = true.
Proof. apply eqb_eq. reflexivity. Qed.
Lemma eqb_neq a b : eqb a b = false <-> a <> b.
Proof. split; intros H. intros E. apply eqb_eq in E. congruence. destruct (eqb a b) eqn:E; [apply eqb_eq in E; contradiction|reflexivity]. Qed.
Lemma ltb_irrefl a : ltb a a = false.
Proof. destruct HO as [_ [H _]]. apply H. Qed.
Lemma ltb_trans a b c : ltb a b = true -> ltb b c = true -> ltb a c = true.
Proof. destruct HO as [_ [_ [H _]]]. apply H. Qed.
Lemma ltb_total a b : ltb a b = false -> ltb b a = false -> a = b.
Proof. destruct HO as [_ [_ [_ H]]]. apply H. Qed.
Lemma ltb_asym a b : ltb a b = true -> ltb b a = false.
Proof. intros H. destruct (ltb b a) eqn:E; [|reflexivity]. pose proof (ltb_trans _ _ _ H E) as T. rewrite ltb_irrefl in T. discriminate. Qed.
Lemma ltb_neq a b : ltb a b = true -> a <> b.
Proof. intros H E. subst. rewrite ltb_irrefl in H. discriminate. Qed.
(* le a b := ltb b a = false *)
Lemma le_lt_trans a b c : ltb b a = false -> ltb b c = true -> ltb a c = true.
Proof.
  intros H1 H2. destruct (ltb a b) eqn:E. eapply ltb_trans; eauto.
  assert (a = b) by (apply ltb_total; assumption). subst. assumption.
Qed.
Lemma lt_le_trans a b c : ltb a b = true -> ltb c b = false -> ltb a c = true.
Proof.
  intros H1 H2. destruct (ltb b c) eqn:E. eapply ltb_trans; eauto.
  assert (b = c) by (apply ltb_total; assumption). subst. assumption.
Qed.

Notation sorted := (@sorted K V ltb).
Notation assoc := (@assoc K V eqb).

Lemma sorted_tail e r : sorted (e :: r) -> sorted r.
Proof. destruct e. cbn. tauto. Qed.

Lemma sorted_app_inv a b : sorted (a ++ b) -> sorted a /\ sorted b.
Proof.
  induction a as [|[k v] a IH]; cbn [app]; intros H; [split; [exact I|exact H]|].
  cbn [KeyTree.sorted] in H |- *. destruct H as [H1 H2]. destruct (IH H2) as [Ha Hb].
  split; [|exact Hb]. split; [|exact Ha].
  destruct a as [|[k' v'] a]; [exact I|]. exact H1.
Qed.

Lemma sorted_all_gt k v r : sorted ((k, v) :: r) -> forall k' v', In (k', v') r -> ltb k k' = true.
Proof.
  revert k v. induction r as [|[k1 v1] r IH]; intros k v H k' v' Hin; [destruct Hin|].
  cbn [KeyTree.sorted] in H. destruct H as [H1 H2]. destruct Hin as [E|Hin].
  - injection E as -> ->. exact H1.
  - specialize (IH k1 v1 H2 k' v' Hin). eapply ltb_trans; eauto.
Qed.

(* every key of [a] is below every key of [b] *)
Lemma sorted_app_lt a b : sorted (a ++ b) -> forall k v k' v', In (k, v) a -> In (k', v') b -> ltb k k' = true.
Proof.
  induction a as [|[k0 v0] a IH]; intros Hs k v k' v' Ha Hb; [destruct Ha|].
  cbn [app] in Hs. destruct Ha as [E|Ha].
  - injection E as -> ->. eapply sorted_all_gt; [exact Hs|]. apply in_or_app. right. exact Hb.
  - eapply IH; eauto. eapply sorted_tail; eauto.
Qed.

Lemma sorted_app a b : sorted a -> sorted b ->
  (forall k v k' v', In (k, v) a -> In (k', v') b -> ltb k k' = true) -> sorted (a ++ b).
Proof.
  induction a as [|[k v] a IH]; intros Ha Hb H; [exact Hb|].
  cbn [app KeyTree.sorted]. cbn [KeyTree.sorted] in Ha. destruct Ha as [H1 H2]. split.
  - destruct a as [|[k1 v1] a]; cbn [app].
    + destruct b as [|[k1 v1] b]; [exact I|]. eapply H; left; reflexivity.
    + exact H1.
  - apply IH; auto. intros. eapply H; eauto. right. eassumption.
Qed.

Lemma assoc_notin k es : (forall k' v', In (k', v') es -> k' <> k) -> assoc k es = None.
Proof.
  induction es as [|[k1 v1] es IH]; intros H; [reflexivity|]. cbn [KeyTree.assoc].
  assert (eqb k1 k = false) as -> by (apply eqb_neq; eapply H; left; reflexivity).
  apply IH. intros. eapply H. right. eassumption.
Qed.

Lemma assoc_app k a b : assoc k (a ++ b) = match assoc k a with Some v => Some v | None => assoc k b end.
Proof. induction a as [|[k' v] a IH]; cbn; [reflexivity|]. destruct (eqb k' k); [reflexivity|exact IH]. Qed.

Lemma assoc_in k v es : assoc k es = Some v -> In (k, v) es.
Proof.
  induction es as [|[k' v'] es IH]; cbn; [discriminate|].
  destruct (eqb k' k) eqn:E; [apply eqb_eq in E; intros [= ->]; subst; now left| intros H; right; auto].
Qed.

Lemma in_assoc k v es : sorted es -> In (k, v) es -> assoc k es = Some v.
Proof.
  induction es as [|[k' v'] es IH]; intros Hs Hin; [destruct Hin|].
  cbn [KeyTree.assoc]. destruct Hin as [E|Hin].
  - injection E as -> ->. rewrite eqb_refl. reflexivity.
  - assert (eqb k' k = false) as ->.
    { apply eqb_neq. apply ltb_neq. eapply sorted_all_gt; eauto. }
    apply IH; [eapply sorted_tail; eauto|exact Hin].
Qed.

Lemma last_default {A} (x : A) l d d' : last (x :: l) d = last (x :: l) d'.
Proof. revert x. induction l as [|y l IH]; intros x; [reflexivity|]. cbn [last] in *. apply IH. Qed.

Lemma last_in {A} (l : list A) d : l <> [] -> In (last l d) l.
Proof. induction l as [|x [|y l] IH]; intros H; [congruence|now left|]. right. apply IH. discriminate. Qed.

Lemma last_cons_self {A} (x : A) l : last (x :: l) x = last l x.
Proof. destruct l; [reflexivity|]. reflexivity. Qed.

Lemma last_app_ne {A} (a b : list A) d : b <> [] -> last (a ++ b) d = last b d.
Proof.
  intros Hb. induction a as [|x a IH]; [reflexivity|]. cbn [app]. 
  remember (a ++ b) as l eqn:E. destruct l; [symmetry in E; apply app_eq_nil in E; tauto|]. exact IH.
Qed.

(* keys of a sorted list lie between the first and the last key *)
Lemma sorted_bounds k0 v0 r k v : sorted ((k0, v0) :: r) -> In (k, v) ((k0, v0) :: r) ->
  ltb k k0 = false /\ ltb (fst (last r (k0, v0))) k = false.
Proof.
  revert k0 v0. induction r as [|[k1 v1] r IH]; intros k0 v0 Hs Hin.
  - destruct Hin as [[= <- <-]|[]]. cbn. split; apply ltb_irrefl.
  - destruct Hin as [[= <- <-]|Hin].
    + split; [apply ltb_irrefl|]. pose proof (sorted_all_gt _ _ _ Hs) as Hgt.
      assert (In (last ((k1, v1) :: r) (k0, v0)) ((k1, v1) :: r)) as Hl by (apply last_in; discriminate).
      destruct (last ((k1, v1) :: r) (k0, v0)) as [kl vl] eqn:E. specialize (Hgt kl vl Hl). cbn [fst].
      apply ltb_asym. exact Hgt.
    + pose proof (sorted_tail _ _ Hs) as H2. specialize (IH k1 v1 H2 Hin). destruct IH as [I1 I2].
      assert (ltb k0 k1 = true) as H01 by (cbn in Hs; tauto).
      split.
      * destruct (ltb k k0) eqn:E; [|reflexivity]. pose proof (ltb_trans _ _ _ E H01). congruence.
      * rewrite (last_default (k1, v1) r (k0, v0) (k1, v1)). rewrite last_cons_self. exact I2.
Qed.

Notation limits_of := (@limits_of K V).

Lemma limits_of_app a b lo1 hi1 lo2 hi2 :
  limits_of a = Some (lo1, hi1) -> limits_of b = Some (lo2, hi2) -> limits_of (a ++ b) = Some (lo1, hi2).
Proof.
  destruct a as [|[k0 v0] ra]; [discriminate|]. destruct b as [|[k1 v1] rb]; [discriminate|].
  cbn [KeyTree.limits_of app]. intros [= <- <-] [= <- <-]. f_equal. f_equal.
  rewrite last_app_ne by discriminate. rewrite (last_default (k1, v1) rb (k0, v0) (k1, v1)). rewrite last_cons_self. reflexivity.
Qed.

Lemma limits_of_some es lo hi : limits_of es = Some (lo, hi) -> es <> [].
Proof. destruct es; [discriminate|discriminate]. Qed.

Lemma limits_of_last e0 r : limits_of (e0 :: r) = Some (fst e0, fst (last (e0 :: r) e0)).
Proof. destruct e0 as [k0 v0]. cbn [KeyTree.limits_of fst]. rewrite last_cons_self. reflexivity. Qed.

(* sortedb reflects sorted *)
Lemma sortedb_sorted es : sortedb ltb es = true <-> sorted es.
Proof.
  induction es as [|[k v] es IH]; cbn [sortedb KeyTree.sorted]; [tauto|].
  rewrite andb_true_iff, IH. destruct es as [|[k' v'] es]; intuition.
Qed.

End Order.

(* ---- the two key types *)

Lemma bytes_ltb_irrefl a : bytes_ltb a a = false.
Proof. induction a as [|x a IH]; [reflexivity|]. cbn. rewrite N.ltb_irrefl, N.eqb_refl, IH. reflexivity. Qed.

Lemma bytes_ltb_trans a : forall b c, bytes_ltb a b = true -> bytes_ltb b c = true -> bytes_ltb a c = true.
Proof.
  induction a as [|x a IH]; intros [|y b] [|z c]; cbn; try discriminate; try reflexivity.
  intros H1 H2. apply orb_true_iff in H1, H2. apply orb_true_iff.
  destruct H1 as [H1|H1], H2 as [H2|H2]; try apply andb_true_iff in H1 as [E1 L1]; try apply andb_true_iff in H2 as [E2 L2];
    try apply N.ltb_lt in H1; try apply N.ltb_lt in H2; try apply N.eqb_eq in E1; try apply N.eqb_eq in E2; subst.
  - left. apply N.ltb_lt. lia.
  - left. apply N.ltb_lt. lia.
  - left. apply N.ltb_lt. lia.
  - right. rewrite N.eqb_refl. cbn. eapply IH; eauto.
Qed.

Lemma bytes_ltb_total a : forall b, bytes_ltb a b = false -> bytes_ltb b a = false -> a = b.
Proof.
  induction a as [|x a IH]; intros [|y b]; cbn; try discriminate; try reflexivity.
  intros H1 H2. apply orb_false_iff in H1 as [A1 B1], H2 as [A2 B2].
  apply N.ltb_ge in A1, A2. assert (x = y) by lia. subst. rewrite N.eqb_refl in B1, B2. cbn in B1, B2.
  f_equal. apply IH; assumption.
Qed.

Lemma bytes_key_order : key_order bytes_ltb bytes_eqb.
Proof.
  split; [exact bytes_eqb_eq|]. split; [exact bytes_ltb_irrefl|]. split; [exact bytes_ltb_trans|exact bytes_ltb_total].
Qed.

Lemma Z_key_order : key_order Z.ltb Z.eqb.
Proof.
  split; [exact Z.eqb_eq|]. split; [exact Z.ltb_irrefl|]. split.
  - intros a b c H1 H2. apply Z.ltb_lt in H1, H2. apply Z.ltb_lt. lia.
  - intros a b H1 H2. apply Z.ltb_ge in H1, H2. lia.
Qed.
