(* C17 - name and number trees (internal/pdftree/{write,streaming,memory}.go).

   Executable model, definitions only.  Generic in the key type [K] with the
   two operations Go's cmp.Ordered keys are used with ([<] and [==]); the
   instances (byte strings ordered lexicographically, integers) are in
   KeyTreeInst.v.  [F] is the writer's fan-out (maxChildren), [maxd] the
   reader's nesting cap (codec.maxDepth); both come from the translator.

   A node is what the readers see of a node dictionary:
     Leaf  lim es    a dictionary with /Names (or /Nums): the key-value pairs
     Inner lim kids  a dictionary with /Kids
   [lim] is the /Limits entry as stored (None: absent or not a 2-element array
   of keys).  The indirect references between nodes are not modelled: a tree is
   an inductive value, so the readers' [seen] set (protection against cycles and
   shared nodes in malformed files) has nothing to do. *)
From Coq Require Import List Arith Bool.
From GoPdf.Base Require Import Res.
Import ListNotations.

(* what the theorems assume of the key type: [eqb] decides equality and [ltb] is a strict total order *)
Definition key_order {K : Type} (ltb eqb : K -> K -> bool) : Prop :=
  (forall a b, eqb a b = true <-> a = b) /\
  (forall a, ltb a a = false) /\
  (forall a b c, ltb a b = true -> ltb b c = true -> ltb a c = true) /\
  (forall a b, ltb a b = false -> ltb b a = false -> a = b).

Section KeyTree.
Context {K V : Type}.
Variable ltb : K -> K -> bool.   (* Go: a < b *)
Variable eqb : K -> K -> bool.   (* Go: a == b *)
Variable F : nat.                (* maxChildren *)
Variable maxd : nat.             (* kc.maxDepth() *)

Inductive node :=
| Leaf (lim : option (K * K)) (es : list (K * V))
| Inner (lim : option (K * K)) (kids : list node).

Definition node_lim (t : node) : option (K * K) :=
  match t with Leaf l _ => l | Inner l _ => l end.

(* in-order flattening: the finite map a tree denotes *)
Fixpoint flat (t : node) : list (K * V) :=
  match t with
  | Leaf _ es => es
  | Inner _ kids => flat_map flat kids
  end.

Fixpoint height (t : node) : nat :=
  match t with
  | Leaf _ _ => 1
  | Inner _ kids => S (fold_right (fun c d => Nat.max (height c) d) 0 kids)
  end.

(* first match of a linear search, as in the leaf loop of lookupInNode *)
Fixpoint assoc (k : K) (es : list (K * V)) : option V :=
  match es with
  | [] => None
  | (k', v) :: r => if eqb k' k then Some v else assoc k r
  end.

(* ---------------------------------------------------------------- readers *)

(* streaming.go lookupInNode: Ok None = ErrKeyNotFound, Err Malformed = nesting depth exceeded.
   [key >= minKey && key <= maxKey] is written with [<] only. *)
Fixpoint lookup_node (depth : nat) (t : node) (k : K) : res (option V) :=
  if maxd <=? depth then Err Malformed else
  match t with
  | Leaf _ es => Ok (assoc k es)
  | Inner _ kids =>
    (fix go (l : list node) : res (option V) :=
       match l with
       | [] => Ok None
       | c :: r =>
         match node_lim c with
         | Some (lo, hi) =>
           if negb (ltb k lo) && negb (ltb hi k) then lookup_node (S depth) c k else go r
         | None => go r
         end
       end) kids
  end.

Definition lookup (t : node) (k : K) : res (option V) := lookup_node 0 t k.

(* streaming.go yieldFromNode: over-deep subtrees are silently skipped *)
Fixpoint all_node (depth : nat) (t : node) : list (K * V) :=
  if maxd <=? depth then [] else
  match t with
  | Leaf _ es => es
  | Inner _ kids => flat_map (all_node (S depth)) kids
  end.

Definition all (t : node) : list (K * V) := all_node 0 t.
Definition size (t : node) : nat := length (all t).

(* memory.go: the Go map as an association list with replacement *)
Fixpoint map_set (k : K) (v : V) (m : list (K * V)) : list (K * V) :=
  match m with
  | [] => [(k, v)]
  | (k', v') :: r => if eqb k' k then (k, v) :: r else (k', v') :: map_set k v r
  end.

Fixpoint extract_node (depth : nat) (t : node) (data : list (K * V)) : list (K * V) :=
  if maxd <=? depth then data else
  match t with
  | Leaf _ es => fold_left (fun d e => map_set (fst e) (snd e) d) es data
  | Inner _ kids => fold_left (fun d c => extract_node (S depth) c d) kids data
  end.

Definition extract (t : node) : list (K * V) := extract_node 0 t [].
Definition mem_lookup (data : list (K * V)) (k : K) : option V := assoc k data.

(* InMemory.All: slices.Sort of the keys (insertion sort here) *)
Fixpoint ins (e : K * V) (l : list (K * V)) : list (K * V) :=
  match l with
  | [] => [e]
  | x :: r => if ltb (fst x) (fst e) then x :: ins e r else e :: l
  end.
Definition sort_entries (l : list (K * V)) : list (K * V) := fold_right ins [] l.
Definition mem_all (data : list (K * V)) : list (K * V) := sort_entries data.

(* ----------------------------------------------------------------- writer *)

Record info := mkInfo {
  i_node : node;      (* the node written under nodeInfo.ref *)
  i_depth : nat;
  i_min : K;
  i_max : K;
  i_count : nat }.

Record wstate := mkW {
  w_tail : list info;          (* completed nodes, in key order *)
  w_pending : list (K * V);    (* pendingLeaf *)
  w_last : option K }.         (* hasEntries / lastKey *)

Definition w_init : wstate := mkW [] [] None.

Definition depth_at (i : nat) (tail : list info) : nat := nth i (map i_depth tail) 0.

(* mergeNodes(start, stop): callers always have start <= stop <= len(tail), so
   the slice expressions of the Go code cannot panic *)
Definition merge_nodes (start stop : nat) (tail : list info) : list info :=
  if stop <=? start then tail else
  let children := firstn (stop - start) (skipn start tail) in
  match children with
  | [] => tail
  | c0 :: _ =>
    let cl := last children c0 in
    let nd := Inner (Some (i_min c0, i_max cl)) (map i_node children) in
    firstn start tail
      ++ [mkInfo nd (S (i_depth c0)) (i_min c0) (i_max cl) (length children)]
      ++ skipn stop tail
  end.

Fixpoint merge_tail (fuel : nat) (tail : list info) : res (list info) :=
  match fuel with
  | O => Err OutOfFuel
  | S fuel =>
    let n := length tail in
    if n <? F then Ok tail
    else if negb (depth_at (n - 1) tail =? depth_at (n - F) tail) then Ok tail
    else merge_tail fuel (merge_nodes (n - F) n tail)
  end.

Definition complete_leaf (st : wstate) : res wstate :=
  match w_pending st with
  | [] => Ok st
  | e0 :: _ =>
    let el := last (w_pending st) e0 in
    let nd := Leaf (Some (fst e0, fst el)) (w_pending st) in
    let tail := w_tail st ++ [mkInfo nd 0 (fst e0) (fst el) (length (w_pending st))] in
    bind (merge_tail (S (length tail)) tail) (fun t => Ok (mkW t [] (w_last st)))
  end.

(* addEntry; [key <= lastKey] is [not (lastKey < key)] *)
Definition add_entry (st : wstate) (k : K) (v : V) : res wstate :=
  let bad := match w_last st with Some l => negb (ltb l k) | None => false end in
  if bad then Err Other else
  let st' := mkW (w_tail st) (w_pending st ++ [(k, v)]) (Some k) in
  if F <=? length (w_pending st') then complete_leaf st' else Ok st'.

Fixpoint add_all (st : wstate) (es : list (K * V)) : res wstate :=
  match es with
  | [] => Ok st
  | (k, v) :: r => bind (add_entry st k v) (fun st' => add_all st' r)
  end.

(* number of leading elements equal to d *)
Fixpoint lead_run (d : nat) (ds : list nat) : nat :=
  match ds with
  | x :: r => if x =? d then S (lead_run d r) else 0
  | [] => 0
  end.

Fixpoint collapse (fuel : nat) (tail : list info) : res (list info) :=
  match fuel with
  | O => Err OutOfFuel
  | S fuel =>
    let n := length tail in
    if n <=? 1 then Ok tail else
    let d := depth_at (n - 1) tail in
    let start := n - lead_run d (rev (map i_depth tail)) in
    let start := if F <? n - start then n - F else start in
    collapse fuel (merge_nodes start n tail)
  end.

Definition collapse_fuel (tail : list info) : nat := S (length tail + depth_at 0 tail).

(* finish: None = the null reference (no tree) *)
Definition finish (st : wstate) : res (option node) :=
  match w_pending st, w_tail st with
  | _ :: _, [] => Ok (Some (Leaf None (w_pending st)))                (* writeRootWithEntries *)
  | _, _ =>
    bind (complete_leaf st) (fun st =>
      match w_tail st with
      | [] => Ok None
      | x :: rest =>
        if match rest with [] => i_depth x =? 0 | _ => false end
        then Ok (Some (Inner None [i_node x]))                        (* writeRootFromSingleLeaf *)
        else
          bind (collapse (collapse_fuel (w_tail st)) (w_tail st)) (fun t =>
            match t with
            | [root] =>
              if 0 <? i_depth root
              then Ok (Some (Inner None [i_node root]))               (* writeRootWithKids *)
              else Ok (Some (i_node root))
            | _ => Err Other                                          (* "failed to collapse" *)
            end)
      end)
  end.

Definition write (es : list (K * V)) : res (option node) :=
  bind (add_all w_init es) finish.

(* ------------------------------------------------------- validity of trees *)

Fixpoint sortedb (es : list (K * V)) : bool :=
  match es with
  | [] => true
  | (k, _) :: r => match r with [] => true | (k', _) :: _ => ltb k k' end && sortedb r
  end.

(* /Limits as they must be: least and greatest key below *)
Definition limits_of (es : list (K * V)) : option (K * K) :=
  match es with
  | [] => None
  | (k0, v0) :: r => Some (k0, fst (last r (k0, v0)))
  end.

Definition lim_eqb (a b : option (K * K)) : bool :=
  match a, b with
  | Some (lo, hi), Some (lo', hi') => eqb lo lo' && eqb hi hi'
  | _, _ => false
  end.

Definition fan (t : node) : nat :=
  match t with Leaf _ es => length es | Inner _ kids => length kids end.

(* a node below the root: stored /Limits = computed limits (so non-empty), fan-out bounded *)
Fixpoint sub_ok (t : node) : bool :=
  lim_eqb (node_lim t) (limits_of (flat t)) && (fan t <=? F) &&
  match t with
  | Leaf _ _ => true
  | Inner _ kids => forallb sub_ok kids
  end.

Definition no_lim (t : node) : bool := match node_lim t with None => true | Some _ => false end.

(* the certified validator: run on the raw node dictionaries of a written tree *)
Definition tree_ok (t : node) : bool :=
  no_lim t && (fan t <=? F) &&
  match t with Leaf _ _ => true | Inner _ kids => forallb sub_ok kids end &&
  sortedb (flat t) && (height t <=? maxd).

(* the same as a proposition *)
Fixpoint sorted (es : list (K * V)) : Prop :=
  match es with
  | [] => True
  | (k, _) :: r => match r with [] => True | (k', _) :: _ => ltb k k' = true end /\ sorted r
  end.

Inductive sub_valid : node -> Prop :=
| sv_leaf lo hi es :
    limits_of es = Some (lo, hi) -> length es <= F -> sub_valid (Leaf (Some (lo, hi)) es)
| sv_inner lo hi kids :
    limits_of (flat_map flat kids) = Some (lo, hi) -> length kids <= F ->
    Forall sub_valid kids -> sub_valid (Inner (Some (lo, hi)) kids).

(* all nodes strictly below t *)
Fixpoint descendants (t : node) : list node :=
  match t with
  | Leaf _ _ => []
  | Inner _ kids => flat_map (fun c => c :: descendants c) kids
  end.

(* reading what Write returned: the null reference gives a nil tree, on which
   Lookup reports "not found" and All yields nothing *)
Definition lookup_written (r : res (option node)) (k : K) : res (option V) :=
  match r with Ok (Some t) => lookup t k | Ok None => Ok None | Err c => Err c end.
Definition all_written (r : res (option node)) : res (list (K * V)) :=
  match r with Ok (Some t) => Ok (all t) | Ok None => Ok [] | Err c => Err c end.

Definition tree_valid (t : node) : Prop :=
  node_lim t = None /\ fan t <= F /\
  match t with Leaf _ _ => True | Inner _ kids => Forall sub_valid kids end /\
  sorted (flat t) /\ height t <= maxd.

End KeyTree.
