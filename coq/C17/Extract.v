Require Extraction.
Require Import ExtrOcamlBasic.
From GoPdf.Base Require Import WireAnchor.
From GoPdf.C17 Require Import KeyTree KeyTreeInst KeyGraph KeyGraphInst.
Separate Extraction wire_anchor
  name_write name_lookup name_all name_extract name_mem_lookup name_mem_all name_tree_ok
  num_write num_lookup num_all num_extract num_mem_lookup num_mem_all num_tree_ok
  name_g_lookup name_g_all name_g_extract num_g_lookup num_g_all num_g_extract name_heap_size num_heap_size.
