(* C17 - the arithmetic of the writer's [tail]: the list of depths is weakly decreasing with fewer
   than F nodes per depth; mergeTail and collapse replace a trailing run of equal depth d by one
   node of depth d+1 (DESIGN.md Appendix C). *)
From Coq Require Import List Arith Bool Lia Sorted.
From GoPdf.C17 Require Import KeyTree.
Import ListNotations.

Definition wdec (ds : list nat) : Prop := StronglySorted ge ds.
Definition cnt (d : nat) (ds : list nat) : nat := count_occ Nat.eq_dec ds d.
Definition lastd (ds : list nat) : nat := last ds 0.

(* loop invariant: only the trailing depth may occur F times *)
Definition LI (F : nat) (ds : list nat) : Prop :=
  wdec ds /\ forall e, cnt e ds <= F /\ (e <> lastd ds -> cnt e ds < F).
Definition Inv (F : nat) (ds : list nat) : Prop :=
  wdec ds /\ forall e, cnt e ds < F.

Lemma wdec_app a b : wdec (a ++ b) <-> wdec a /\ wdec b /\ (forall x y, In x a -> In y b -> x >= y).
Proof.
  unfold wdec. induction a as [|x a IH]; cbn [app].
  - split; [intros H; repeat split; [constructor|exact H|intros ? ? []]|tauto].
  - split.
    + intros H. inversion H as [|? ? Hs Hf]; subst. apply IH in Hs as (Ha & Hb & Hab).
      rewrite Forall_app in Hf. destruct Hf as [Hfa Hfb]. repeat split; auto.
      * constructor; auto.
      * intros u y [<-|Hu] Hy; [rewrite Forall_forall in Hfb; auto|auto].
    + intros (Ha & Hb & Hab). inversion Ha as [|? ? Hs Hf]; subst. constructor.
      * apply IH. repeat split; auto. intros. apply Hab; [right|]; assumption.
      * rewrite Forall_app. split; [exact Hf|]. rewrite Forall_forall. intros y Hy. apply Hab; [left; reflexivity|exact Hy].
Qed.

Lemma cnt_app e a b : cnt e (a ++ b) = cnt e a + cnt e b.
Proof. apply count_occ_app. Qed.

Lemma cnt_le_length e l : cnt e l <= length l.
Proof. induction l as [|x l IH]; cbn; [lia|]. unfold cnt in IH. destruct (Nat.eq_dec x e); lia. Qed.

Lemma cnt_all d l : Forall (eq d) l -> cnt d l = length l.
Proof.
  induction 1 as [|x l Hx _ IH]; [reflexivity|]. subst x. unfold cnt in *. cbn.
  destruct (Nat.eq_dec d d); [lia|congruence].
Qed.

Lemma cnt_all_other d e l : Forall (eq d) l -> e <> d -> cnt e l = 0.
Proof.
  induction 1 as [|x l Hx _ IH]; intros Hne; [reflexivity|]. subst x. unfold cnt in *. cbn.
  destruct (Nat.eq_dec d e); [congruence|auto].
Qed.

Lemma cnt_notin e l : ~ In e l <-> cnt e l = 0.
Proof. apply count_occ_not_In. Qed.

Lemma lastd_snoc a x : lastd (a ++ [x]) = x.
Proof. unfold lastd. apply last_last. Qed.

Lemma lastd_app a b : b <> [] -> lastd (a ++ b) = lastd b.
Proof.
  intros Hb. unfold lastd. induction a as [|x a IH]; [reflexivity|]. cbn [app].
  remember (a ++ b) as l eqn:E. destruct l; [symmetry in E; apply app_eq_nil in E; tauto|]. exact IH.
Qed.

Lemma lastd_all d l : l <> [] -> Forall (eq d) l -> lastd l = d.
Proof.
  intros Hne H. assert (In (lastd l) l) as Hin.
  { unfold lastd. clear H. induction l as [|x [|y l] IH]; [congruence|now left|]. right. apply IH. discriminate. }
  rewrite Forall_forall in H. symmetry. auto.
Qed.

Lemma lastd_in l : l <> [] -> In (lastd l) l.
Proof. unfold lastd. induction l as [|x [|y l] IH]; intros H; [congruence|now left|]. right. apply IH. discriminate. Qed.

(* the step common to mergeTail and collapse *)
Lemma LI_step F pre mid d : 0 < F ->
  LI F (pre ++ mid) -> mid <> [] -> Forall (eq d) mid -> ~ In d pre -> LI F (pre ++ [S d]).
Proof.
  intros HF [Hw Hc] Hne Hall Hnot.
  apply wdec_app in Hw as (Hwp & Hwm & Hpm).
  assert (In d mid) as Hdm.
  { destruct mid as [|x mid]; [congruence|]. inversion Hall; subst. left. reflexivity. }
  assert (lastd (pre ++ mid) = d) as Hlast by (rewrite lastd_app by exact Hne; apply lastd_all; assumption).
  split.
  - apply wdec_app. repeat split; auto.
    + constructor; constructor.
    + intros x y Hx [<-|[]]. specialize (Hpm x d Hx Hdm). assert (x <> d) by (intros ->; contradiction). lia.
  - intros e. rewrite lastd_snoc, cnt_app. destruct (Hc e) as [Hc1 Hc2]. rewrite Hlast in Hc2.
    rewrite cnt_app in Hc1, Hc2. unfold cnt at 2. unfold cnt at 3. cbn [count_occ].
    destruct (Nat.eq_dec (S d) e) as [<-|Hne'].
    + rewrite (cnt_all_other d (S d) mid) in Hc2 by (auto; lia). split; [|congruence].
      assert (S d <> d) as Hx by lia. specialize (Hc2 Hx). lia.
    + destruct (Nat.eq_dec e d) as [->|Hed].
      * apply cnt_notin in Hnot. rewrite Hnot. split; [lia|intros; lia].
      * specialize (Hc2 Hed). split; [lia|intros; lia].
Qed.

Lemma LI_exit_short F ds : LI F ds -> length ds < F -> Inv F ds.
Proof. intros [Hw Hc] Hl. split; [exact Hw|]. intros e. pose proof (cnt_le_length e ds). lia. Qed.

Lemma hd_ge_all x l : wdec (x :: l) -> forall y, In y (x :: l) -> x >= y.
Proof.
  intros H y [<-|Hy]; [lia|]. inversion H as [|? ? _ Hf]; subst. rewrite Forall_forall in Hf. auto.
Qed.

Lemma LI_exit_ne F pre mid : LI F (pre ++ mid) -> length mid = F -> mid <> [] ->
  hd 0 mid <> lastd (pre ++ mid) -> Inv F (pre ++ mid).
Proof.
  intros [Hw Hc] Hlen Hne Hhd. split; [exact Hw|]. intros e. destruct (Hc e) as [Hc1 Hc2].
  destruct (Nat.eq_dec e (lastd (pre ++ mid))) as [->|He]; [|auto].
  rewrite lastd_app in * by exact Hne. set (d := lastd mid) in *.
  apply wdec_app in Hw as (Hwp & Hwm & Hpm).
  destruct mid as [|h mid']; [congruence|]. cbn [hd] in Hhd.
  assert (In d (h :: mid')) as Hd by (apply lastd_in; discriminate).
  assert (h > d) as Hgt by (pose proof (hd_ge_all _ _ Hwm d Hd); lia).
  assert (cnt d pre = 0) as Hp.
  { apply cnt_notin. intros Hin. specialize (Hpm d h Hin (or_introl eq_refl)). lia. }
  rewrite cnt_app, Hp. unfold cnt. cbn [count_occ]. destruct (Nat.eq_dec h d); [lia|].
  pose proof (cnt_le_length d mid') as Hb. unfold cnt in Hb. cbn [length] in Hlen. lia.
Qed.

Lemma Inv_LI F ds : Inv F ds -> LI F ds.
Proof. intros [Hw Hc]. split; [exact Hw|]. intros e. specialize (Hc e). split; [lia|intros; exact Hc]. Qed.

Lemma Inv_snoc0 F ds : Inv F ds -> LI F (ds ++ [0]).
Proof.
  intros [Hw Hc]. split.
  - apply wdec_app. repeat split; auto; [constructor; constructor|]. intros x y _ [<-|[]]. lia.
  - intros e. rewrite lastd_snoc, cnt_app. specialize (Hc e). unfold cnt at 2. unfold cnt at 3. cbn [count_occ].
    destruct (Nat.eq_dec 0 e); split; try lia; intros; try lia.
Qed.

Lemma Inv_nil F : 0 < F -> Inv F [].
Proof. intros. split; [constructor|]. intros e. cbn. exact H. Qed.

(* equal end points of a weakly decreasing segment: all equal *)
Lemma mid_all_eq mid : wdec mid -> mid <> [] -> hd 0 mid = lastd mid -> Forall (eq (hd 0 mid)) mid.
Proof.
  intros Hw Hne Heq. destruct mid as [|h mid]; [congruence|]. cbn [hd] in *.
  rewrite Forall_forall. intros y Hy. pose proof (hd_ge_all _ _ Hw y Hy) as H1.
  (* y >= last *)
  assert (y >= lastd (h :: mid)) as H2.
  { clear Heq H1. revert y Hy. induction (h :: mid) as [|a l IH]; intros y Hy; [destruct Hy|].
    destruct l as [|b l].
    - destruct Hy as [<-|[]]. cbn. lia.
    - assert (lastd (a :: b :: l) = lastd (b :: l)) as -> by reflexivity.
      destruct Hy as [<-|Hy].
      + pose proof (hd_ge_all _ _ Hw (lastd (b :: l))) as H. apply H. right. apply lastd_in. discriminate.
      + apply IH; [inversion Hw; assumption|discriminate|exact Hy]. }
  lia.
Qed.

(* a segment of F equal depths: the depth does not occur before it *)
Lemma full_run_notin F pre mid d : LI F (pre ++ mid) -> Forall (eq d) mid -> length mid = F -> ~ In d pre.
Proof.
  intros [_ Hc] Hall Hlen. destruct (Hc d) as [Hc1 _]. rewrite cnt_app, (cnt_all d mid Hall), Hlen in Hc1.
  apply cnt_notin. lia.
Qed.

(* collapse: the trailing run of the last depth *)
Lemma lead_run_split d l : exists a b, l = a ++ b /\ length a = lead_run d l /\ Forall (eq d) a /\
  (forall x, hd_error b = Some x -> x <> d).
Proof.
  induction l as [|x l (a & b & E & Hl & Ha & Hb)].
  - exists [], []. repeat split; auto. intros x. discriminate.
  - cbn [lead_run]. destruct (Nat.eqb_spec x d) as [->|Hne].
    + exists (d :: a), b. subst l. repeat split; auto. cbn. lia.
    + exists [], (x :: l). repeat split; auto. intros y [= <-]. exact Hne.
Qed.

Lemma trailing_run ds : ds <> [] -> wdec ds ->
  exists pre mid, ds = pre ++ mid /\ length mid = lead_run (lastd ds) (rev ds) /\ mid <> [] /\
    Forall (eq (lastd ds)) mid /\ ~ In (lastd ds) pre.
Proof.
  intros Hne Hw. set (d := lastd ds).
  destruct (lead_run_split d (rev ds)) as (a & b & E & Hl & Ha & Hb).
  exists (rev b), (rev a).
  assert (ds = rev b ++ rev a) as Eds by (rewrite <- rev_app_distr, <- E, rev_involutive; reflexivity).
  assert (a <> []) as Hane.
  { intros ->. cbn in E. destruct ds as [|x ds] using rev_ind; [congruence|].
    rewrite rev_app_distr in E. cbn in E. subst b. specialize (Hb x eq_refl).
    unfold d in Hb. rewrite lastd_snoc in Hb. congruence. }
  repeat split.
  - exact Eds.
  - rewrite rev_length. exact Hl.
  - intros H. apply (f_equal (@rev nat)) in H. rewrite rev_involutive in H. cbn in H. congruence.
  - rewrite Forall_forall in *. intros x Hx. apply Ha. apply in_rev. exact Hx.
  - intros Hin. rewrite Eds in Hw. apply wdec_app in Hw as (Hwb & _ & Hba).
    destruct b as [|y b]; [destruct Hin|]. specialize (Hb y eq_refl).
    (* y is the last element of rev (y :: b) *)
    cbn [rev] in Hwb, Hin, Hba.
    assert (In d (rev a)) as Hda.
    { destruct a as [|z a]; [congruence|]. inversion Ha as [|? ? Hz _]. rewrite <- in_rev. left. symmetry. exact Hz. }
    assert (y >= d) as H1 by (apply Hba; [apply in_or_app; right; left; reflexivity|exact Hda]).
    apply in_app_or in Hin. destruct Hin as [Hin|[Hy|[]]]; [|exact (Hb Hy)].
    apply wdec_app in Hwb as (_ & _ & Hby). specialize (Hby d y Hin (or_introl eq_refl)). lia.
Qed.
