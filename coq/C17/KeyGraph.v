(* C17 - the readers on what a FILE holds: node dictionaries connected by indirect references,
   i.e. a graph that may share nodes or contain cycles (internal/pdftree/{streaming,memory}.go
   with their [seen] sets).  Executable model, definitions only.

   A heap maps object numbers to node dictionaries; the kids of an intermediate node are
   references.  The readers keep ONE set [seen] for the whole traversal (not one per path):
   a kid whose reference is in the set is skipped, every other kid is entered into the set
   before it is loaded.  The recursion is bounded by the nesting cap: [fuel] = maxDepth - depth,
   so fuel 0 is exactly the "depth >= maxDepth" branch of the Go code - no other fuel is needed. *)
From Coq Require Import List Arith Bool.
From GoPdf.Base Require Import Res.
From GoPdf.C17 Require Import KeyTree.
Import ListNotations.

Section KeyGraph.
Context {K V : Type}.
Variable ltb : K -> K -> bool.
Variable eqb : K -> K -> bool.

Inductive gnode :=
| GLeaf (lim : option (K * K)) (es : list (K * V))
| GInner (lim : option (K * K)) (kids : list nat).

(* None: the object is missing or not a dictionary (the readers skip such a kid) *)
Definition heap := list (option gnode).

Definition get (H : heap) (r : nat) : option gnode :=
  match nth_error H r with Some (Some n) => Some n | _ => None end.

Definition gnode_lim (n : gnode) : option (K * K) :=
  match n with GLeaf l _ => l | GInner l _ => l end.

Definition mem (r : nat) (seen : list nat) : bool := existsb (Nat.eqb r) seen.

(* cost of entering a node: itself plus one step per kid reference examined *)
Definition gsize (n : gnode) : nat :=
  match n with GLeaf _ _ => 1 | GInner _ kids => S (length kids) end.

(* lookupInNode on the graph: result, the set seen afterwards, and the work done *)
Fixpoint g_lookup (fuel : nat) (H : heap) (seen : list nat) (n : gnode) (k : K)
  : res (option V) * list nat * nat :=
  match fuel with
  | O => (Err Malformed, seen, 0)
  | S fuel =>
    match n with
    | GLeaf _ es => (Ok (assoc eqb k es), seen, 1)
    | GInner _ kids =>
      (fix go (l : list nat) (seen : list nat) (work : nat) : res (option V) * list nat * nat :=
         match l with
         | [] => (Ok None, seen, work)
         | r :: rest =>
           if mem r seen then go rest seen (S work) else
           let seen := r :: seen in
           match get H r with
           | None => go rest seen (S work)
           | Some c =>
             match gnode_lim c with
             | Some (lo, hi) =>
               if negb (ltb k lo) && negb (ltb hi k)
               then let '(res, seen', w) := g_lookup fuel H seen c k in (res, seen', S work + w)
               else go rest seen (S work)
             | None => go rest seen (S work)
             end
           end
         end) kids seen 1
    end
  end.

(* yieldFromNode on the graph *)
Fixpoint g_all (fuel : nat) (H : heap) (seen : list nat) (n : gnode) : list (K * V) * list nat * nat :=
  match fuel with
  | O => ([], seen, 0)
  | S fuel =>
    match n with
    | GLeaf _ es => (es, seen, 1)
    | GInner _ kids =>
      (fix go (l : list nat) (seen : list nat) (acc : list (K * V)) (work : nat) : list (K * V) * list nat * nat :=
         match l with
         | [] => (acc, seen, work)
         | r :: rest =>
           if mem r seen then go rest seen acc (S work) else
           let seen := r :: seen in
           match get H r with
           | None => go rest seen acc (S work)
           | Some c => let '(es, seen', w) := g_all fuel H seen c in go rest seen' (acc ++ es) (S work + w)
           end
         end) kids seen [] 1
    end
  end.

(* extractFromNode on the graph: the map is filled in the order of the traversal *)
Fixpoint g_extract (fuel : nat) (H : heap) (seen : list nat) (n : gnode) (data : list (K * V))
  : list (K * V) * list nat :=
  match fuel with
  | O => (data, seen)
  | S fuel =>
    match n with
    | GLeaf _ es => (fold_left (fun d e => map_set eqb (fst e) (snd e) d) es data, seen)
    | GInner _ kids =>
      (fix go (l : list nat) (seen : list nat) (data : list (K * V)) : list (K * V) * list nat :=
         match l with
         | [] => (data, seen)
         | r :: rest =>
           if mem r seen then go rest seen data else
           let seen := r :: seen in
           match get H r with
           | None => go rest seen data
           | Some c => let '(data', seen') := g_extract fuel H seen c data in go rest seen' data'
           end
         end) kids seen data
    end
  end.

Variable maxd : nat.

(* the entry points: the root is given as a reference *)
Definition g_lookup_root (H : heap) (root : nat) (k : K) : res (option V) * nat :=
  match get H root with
  | None => (Ok None, 0)
  | Some n => let '(r, _, w) := g_lookup maxd H [root] n k in (r, w)
  end.

Definition g_all_root (H : heap) (root : nat) : list (K * V) * nat :=
  match get H root with
  | None => ([], 0)
  | Some n => let '(es, _, w) := g_all maxd H [root] n in (es, w)
  end.

Definition g_extract_root (H : heap) (root : nat) : list (K * V) :=
  match get H root with
  | None => []
  | Some n => fst (g_extract maxd H [root] n [])
  end.

(* the size of the whole file, as far as trees are concerned *)
Definition heap_size (H : heap) : nat :=
  fold_right (fun o s => match o with Some n => gsize n + s | None => s end) 0 H.

(* ---- a tree laid out in the heap *)
Inductive rtree :=
| RLeaf (r : nat) (lim : option (K * K)) (es : list (K * V))
| RInner (r : nat) (lim : option (K * K)) (kids : list rtree).

Definition rref (t : rtree) : nat := match t with RLeaf r _ _ => r | RInner r _ _ => r end.

Fixpoint erase (t : rtree) : @node K V :=
  match t with
  | RLeaf _ lim es => Leaf lim es
  | RInner _ lim kids => Inner lim (map erase kids)
  end.

Definition gnode_of (t : rtree) : gnode :=
  match t with
  | RLeaf _ lim es => GLeaf lim es
  | RInner _ lim kids => GInner lim (map rref kids)
  end.

(* references strictly below t / of t and below *)
Fixpoint rrefs (t : rtree) : list nat :=
  rref t :: match t with RLeaf _ _ _ => [] | RInner _ _ kids => flat_map rrefs kids end.

Inductive embeds (H : heap) : rtree -> Prop :=
| em_leaf r lim es : get H r = Some (GLeaf lim es) -> embeds H (RLeaf r lim es)
| em_inner r lim kids : get H r = Some (GInner lim (map rref kids)) -> Forall (embeds H) kids ->
    embeds H (RInner r lim kids).

End KeyGraph.
