(* C17 - the writer: mergeTail / collapse / finish build a valid tree whose flattening is the input. *)
From Coq Require Import List Arith Bool Lia NArith.
From Coq Require Import ZifyN ZifyNat ZifyBool.
From GoPdf.Base Require Import Res.
From GoPdf.C17 Require Import KeyTree KTOrder KTReaders KTDepths.
Import ListNotations.

Ltac splits := repeat match goal with |- _ /\ _ => split end.

(* ---- list helpers *)
Lemma split_at {A} n (l : list A) : n <= length l ->
  l = firstn n l ++ skipn n l /\ length (firstn n l) = n /\ length (skipn n l) = length l - n.
Proof. intros H. rewrite firstn_skipn, firstn_length, skipn_length. repeat split; lia. Qed.

Lemma nth_last {A} (l : list A) d : nth (length l - 1) l d = last l d.
Proof.
  induction l as [|x [|y l] IH]; [reflexivity|reflexivity|].
  cbn [length last] in *. replace (S (S (length l)) - 1) with (S (length l)) by lia.
  cbn [nth]. replace (S (length l) - 1) with (length l) in IH by lia. exact IH.
Qed.

Lemma nth_app_hd {A} (a b : list A) d : nth (length a) (a ++ b) d = hd d b.
Proof. rewrite app_nth2 by lia. rewrite Nat.sub_diag. destruct b; reflexivity. Qed.

Lemma app_inv_length {A} (a b c d : list A) : a ++ b = c ++ d -> length b = length d -> a = c /\ b = d.
Proof.
  revert c. induction a as [|x a IH]; intros [|y c] H Hl.
  - auto.
  - apply (f_equal (@length A)) in H. cbn [app length] in H. rewrite app_length in H. lia.
  - apply (f_equal (@length A)) in H. cbn [app length] in H. rewrite app_length in H. lia.
  - cbn [app] in H. injection H as -> H. destruct (IH _ H Hl) as [-> ->]. auto.
Qed.

Lemma hd_map {A B} (f : A -> B) l d : hd (f d) (map f l) = f (hd d l).
Proof. destruct l; reflexivity. Qed.

Section Writer.
Context {K V : Type}.
Variables (ltb eqb : K -> K -> bool) (F : nat).
Hypothesis HO : key_order ltb eqb.
Hypothesis HF : 2 <= F.

Notation node := (@node K V).
Notation info := (@info K V).
Notation sorted := (@sorted K V ltb).
Notation sub_valid := (@sub_valid K V F).
Notation limits_of := (@limits_of K V).

Definition tflat (tail : list info) : list (K * V) := flat_map (fun i => flat (i_node i)) tail.
Definition depths (tail : list info) : list nat := map i_depth tail.
Definition nsize (t : node) : N := N.of_nat (length (flat t)).

Definition info_ok (i : info) : Prop :=
  sub_valid (i_node i) /\ limits_of (flat (i_node i)) = Some (i_min i, i_max i) /\
  height (i_node i) <= S (i_depth i).

(* a node of depth d holds at least F^d entries (only exactly-F-fold merges happen before finish) *)
Definition wfull (i : info) : Prop := (N.of_nat F ^ N.of_nat (i_depth i) <= nsize (i_node i))%N.

Definition merged (mid : list info) (c0 : info) : info :=
  let cl := last mid c0 in
  mkInfo (Inner (Some (i_min c0, i_max cl)) (map i_node mid)) (S (i_depth c0)) (i_min c0) (i_max cl) (length mid).

Lemma tflat_app a b : tflat (a ++ b) = tflat a ++ tflat b.
Proof. apply flat_map_app. Qed.

Lemma flat_map_nodes mid : flat_map flat (map i_node mid) = tflat mid.
Proof. induction mid as [|c r IH]; [reflexivity|]. cbn. rewrite IH. reflexivity. Qed.

Lemma merge_nodes_split (pre mid : list info) c0 r : mid = c0 :: r ->
  merge_nodes (length pre) (length (pre ++ mid)) (pre ++ mid) = pre ++ [merged mid c0].
Proof.
  intros ->. unfold merge_nodes. rewrite app_length. cbn [length].
  destruct (length pre + S (length r) <=? length pre) eqn:El; [apply Nat.leb_le in El; lia|].
  replace (length pre + S (length r) - length pre) with (S (length r)) by lia.
  rewrite skipn_app, skipn_all, Nat.sub_diag. cbn [skipn app firstn]. rewrite firstn_all. cbv iota.
  rewrite firstn_app, firstn_all, Nat.sub_diag. cbn [firstn]. rewrite app_nil_r.
  replace (length pre + S (length r)) with (length (pre ++ c0 :: r)) by (rewrite app_length; reflexivity).
  rewrite skipn_all. reflexivity.
Qed.

Lemma limits_tflat mid c0 r : mid = c0 :: r -> Forall info_ok mid ->
  limits_of (tflat mid) = Some (i_min c0, i_max (last mid c0)).
Proof.
  revert c0 mid. induction r as [|c1 r IH]; intros c0 mid -> H.
  - inversion H as [|? ? (_ & Hl & _) _]; subst. cbn. rewrite app_nil_r. exact Hl.
  - inversion H as [|? ? (_ & Hl & _) Hr]; subst.
    change (tflat (c0 :: c1 :: r)) with (flat (i_node c0) ++ tflat (c1 :: r)).
    specialize (IH c1 (c1 :: r) eq_refl Hr).
    rewrite (limits_of_app _ _ _ _ _ _ Hl IH). f_equal. f_equal. f_equal.
    change (last (c0 :: c1 :: r) c0) with (last (c1 :: r) c0). apply last_default.
Qed.

Definition kheight (kids : list node) : nat := fold_right (fun c d => Nat.max (height c) d) 0 kids.

Lemma kheight_le kids h : Forall (fun c => height c <= h) kids -> kheight kids <= h.
Proof. induction 1; cbn; [lia|]. fold (kheight l). lia. Qed.

Lemma merged_ok mid c0 r : mid = c0 :: r -> Forall info_ok mid -> length mid <= F ->
  Forall (fun i => i_depth i <= i_depth c0) mid ->
  info_ok (merged mid c0) /\ flat (i_node (merged mid c0)) = tflat mid.
Proof.
  intros E Hok Hlen Hd. unfold info_ok, merged. cbn [i_node i_min i_max i_depth flat height].
  rewrite flat_map_nodes. pose proof (limits_tflat mid c0 r E Hok) as Hl. repeat split; auto.
  - constructor; [rewrite flat_map_nodes; exact Hl|rewrite map_length; exact Hlen|].
    rewrite Forall_map. eapply Forall_impl; [|exact Hok]. intros i (H & _). exact H.
  - fold (kheight (map i_node mid)). apply le_n_S. apply kheight_le. rewrite Forall_map.
    rewrite Forall_forall in *. intros i Hi. destruct (Hok i Hi) as (_ & _ & Hh). specialize (Hd i Hi). lia.
Qed.

Lemma nsize_tflat (X : N) mid : Forall (fun i => (X <= nsize (i_node i))%N) mid ->
  (N.of_nat (length mid) * X <= N.of_nat (length (tflat mid)))%N.
Proof.
  induction 1 as [|c r Hc _ IH]; [cbn; lia|].
  change (tflat (c :: r)) with (flat (i_node c) ++ tflat r). rewrite app_length.
  cbn [length]. unfold nsize in Hc. rewrite Nat2N.inj_succ, Nat2N.inj_add, N.mul_succ_l. lia.
Qed.

Lemma merged_wfull mid c0 r : mid = c0 :: r -> length mid = F ->
  Forall (fun i => i_depth i = i_depth c0) mid -> Forall wfull mid -> wfull (merged mid c0).
Proof.
  intros E Hlen Hd Hw. unfold wfull, merged, nsize. cbn [i_node i_depth flat]. rewrite flat_map_nodes.
  rewrite Nat2N.inj_succ, N.pow_succ_r'. rewrite <- Hlen at 1.
  apply nsize_tflat. rewrite Forall_forall in *. intros i Hi. specialize (Hw i Hi). unfold wfull in Hw.
  rewrite (Hd i Hi) in Hw. exact Hw.
Qed.

Lemma depths_app a b : depths (a ++ b) = depths a ++ depths b.
Proof. apply map_app. Qed.

Lemma depth_at_last tail : depth_at (length tail - 1) tail = lastd (depths tail).
Proof. unfold depth_at, lastd, depths. rewrite <- (map_length i_depth tail). apply nth_last. Qed.

Lemma Forall_depths (P : nat -> Prop) tail : Forall P (depths tail) <-> Forall (fun i => P (i_depth i)) tail.
Proof. unfold depths. apply Forall_map. Qed.

(* one step shared by both loops: replace the trailing segment [mid] (all of depth d, d not before) *)
Lemma step_ok pre mid c0 r d : mid = c0 :: r -> length mid <= F ->
  Forall info_ok (pre ++ mid) -> LI F (depths (pre ++ mid)) ->
  Forall (eq d) (depths mid) -> ~ In d (depths pre) ->
  Forall info_ok (pre ++ [merged mid c0]) /\ LI F (depths (pre ++ [merged mid c0])) /\
  tflat (pre ++ [merged mid c0]) = tflat (pre ++ mid) /\ i_depth (merged mid c0) = S d.
Proof.
  intros E Hlen Hok HLI Hall Hnot.
  apply Forall_app in Hok as [Hokp Hokm].
  assert (i_depth c0 = d) as Hd0.
  { subst mid. cbn in Hall. inversion Hall; subst. reflexivity. }
  destruct (merged_ok mid c0 r E Hokm Hlen) as [Hm Hfl].
  { apply Forall_depths in Hall. eapply Forall_impl; [|exact Hall]. intros i <-. lia. }
  split; [|split; [|split]].
  - apply Forall_app. split; [exact Hokp|]. constructor; [exact Hm|constructor].
  - rewrite depths_app in *. cbn [depths map merged i_depth]. rewrite Hd0.
    apply (LI_step F (depths pre) (depths mid) d); [lia|exact HLI|subst mid; discriminate|exact Hall|exact Hnot].
  - rewrite !tflat_app. f_equal. cbn [tflat flat_map]. rewrite app_nil_r. exact Hfl.
  - cbn. rewrite Hd0. reflexivity.
Qed.

Lemma merge_tail_spec fuel : forall tail,
  length tail < fuel -> Forall info_ok tail -> Forall wfull tail -> LI F (depths tail) ->
  exists t', merge_tail F fuel tail = Ok t' /\ Forall info_ok t' /\ Forall wfull t' /\
             Inv F (depths t') /\ tflat t' = tflat tail.
Proof.
  induction fuel as [|fuel IH]; intros tail Hfuel Hok Hw HLI; [lia|].
  cbn [merge_tail]. destruct (length tail <? F) eqn:En.
  - apply Nat.ltb_lt in En. exists tail. splits; auto. apply LI_exit_short; auto.
    unfold depths. rewrite map_length. exact En.
  - apply Nat.ltb_ge in En.
    destruct (split_at (length tail - F) tail ltac:(lia)) as (Esp & Hlp & Hlm).
    set (pre := firstn (length tail - F) tail) in *. set (mid := skipn (length tail - F) tail) in *.
    assert (length mid = F) as HlmF by lia.
    destruct mid as [|c0 r] eqn:Emid; [cbn in HlmF; lia|]. rewrite <- Emid in *.
    assert (depth_at (length tail - F) tail = hd 0 (depths mid)) as Hhd.
    { unfold depth_at. fold (depths tail). rewrite Esp at 2. rewrite depths_app.
      replace (length tail - F) with (length (depths pre)) by (unfold depths; rewrite map_length; exact Hlp).
      apply nth_app_hd. }
    rewrite depth_at_last, Hhd.
    assert (lastd (depths tail) = lastd (depths mid)) as Hlast.
    { rewrite Esp at 1. rewrite depths_app. apply lastd_app. rewrite Emid. discriminate. }
    destruct (lastd (depths tail) =? hd 0 (depths mid)) eqn:Eq; cbn [negb].
    + apply Nat.eqb_eq in Eq.
      (* all F trailing nodes have the same depth: merge them *)
      assert (wdec (depths mid)) as Hwm.
      { destruct HLI as [Hwd _]. rewrite Esp, depths_app in Hwd. apply wdec_app in Hwd. tauto. }
      assert (Forall (eq (hd 0 (depths mid))) (depths mid)) as Hall.
      { apply mid_all_eq; [exact Hwm|rewrite Emid; discriminate|congruence]. }
      assert (~ In (hd 0 (depths mid)) (depths pre)) as Hnot.
      { eapply full_run_notin; [rewrite <- depths_app, <- Esp; exact HLI|exact Hall|].
        unfold depths. rewrite map_length. exact HlmF. }
      pose proof (merge_nodes_split pre mid c0 r Emid) as Hmn. rewrite <- Esp in Hmn.
      replace (length pre) with (length tail - F) in Hmn by lia. rewrite Hmn.
      rewrite Esp in Hok, HLI.
      destruct (step_ok pre mid c0 r _ Emid ltac:(lia) Hok HLI Hall Hnot) as (Hok' & HLI' & Hfl' & Hd').
      destruct (IH (pre ++ [merged mid c0])) as (t' & Ht' & R1 & R2 & R3 & R4); auto.
      * rewrite app_length. cbn [length]. lia.
      * rewrite Esp in Hw. apply Forall_app in Hw as [Hwp Hwmid]. apply Forall_app. split; [exact Hwp|].
        constructor; [|constructor]. eapply merged_wfull; eauto.
        apply Forall_depths in Hall. eapply Forall_impl; [|exact Hall]. intros i <-.
        rewrite Emid. cbn. reflexivity.
      * exists t'. splits; auto. rewrite R4, Hfl', <- Esp. reflexivity.
    + apply Nat.eqb_neq in Eq. exists tail. splits; auto.
      rewrite Esp, depths_app. apply LI_exit_ne.
      * rewrite <- depths_app, <- Esp. exact HLI.
      * unfold depths. rewrite map_length. exact HlmF.
      * rewrite Emid. discriminate.
      * rewrite <- depths_app, <- Esp. congruence.
Qed.

Lemma all_eq_hd mid c0 r d : mid = c0 :: r -> Forall (eq d) (depths mid) -> i_depth c0 = d.
Proof. intros -> H. cbn in H. inversion H as [|? ? Hx _]. symmetry. exact Hx. Qed.

Lemma collapse_spec fuel : forall tail,
  tail <> [] -> Forall info_ok tail -> LI F (depths tail) ->
  length tail + (hd 0 (depths tail) - lastd (depths tail)) < fuel ->
  exists root, collapse F fuel tail = Ok [root] /\ info_ok root /\ flat (i_node root) = tflat tail /\
    i_depth root <= S (hd 0 (depths tail)) /\ (2 <= length tail -> 0 < i_depth root) /\
    (forall x, tail = [x] -> root = x).
Proof.
  induction fuel as [|fuel IH]; intros tail Hne Hok HLI Hfuel; [lia|].
  cbn [collapse]. destruct (length tail <=? 1) eqn:En.
  - apply Nat.leb_le in En. destruct tail as [|x [|y tail]]; [congruence| |cbn in En; lia].
    exists x. inversion Hok; subst. splits.
    + reflexivity.
    + assumption.
    + cbn. rewrite app_nil_r. reflexivity.
    + cbn. lia.
    + cbn. lia.
    + intros ? [= <-]. reflexivity.
  - apply Nat.leb_gt in En. rewrite depth_at_last.
    assert (depths tail <> []) as Hdne by (destruct tail; [congruence|discriminate]).
    destruct (trailing_run (depths tail) Hdne (proj1 HLI)) as (dpre & dmid & Eds & Hrun & Hmne & Hall & Hnot).
    fold (depths tail). rewrite <- Hrun. remember (lastd (depths tail)) as d eqn:Ed.
    assert (length dmid <= length tail) as Hle.
    { apply (f_equal (@length nat)) in Eds. unfold depths in Eds. rewrite map_length, app_length in Eds. lia. }
    assert (length dmid <= F) as HleF.
    { destruct HLI as [_ Hc]. destruct (Hc d) as [Hc1 _]. rewrite Eds, cnt_app, (cnt_all d dmid Hall) in Hc1. lia. }
    replace (length tail - (length tail - length dmid)) with (length dmid) by lia.
    destruct (F <? length dmid) eqn:Ecap; [apply Nat.ltb_lt in Ecap; lia|].
    destruct (split_at (length tail - length dmid) tail ltac:(lia)) as (Esp & Hlp & Hlm).
    remember (firstn (length tail - length dmid) tail) as pre eqn:Xp.
    remember (skipn (length tail - length dmid) tail) as mid eqn:Xm. clear Xp Xm.
    assert (length mid = length dmid) as Hlmid by lia.
    assert (depths pre = dpre /\ depths mid = dmid) as [Edp Edm].
    { apply app_inv_length; [rewrite <- depths_app, <- Esp; exact Eds|]. unfold depths. rewrite map_length. exact Hlmid. }
    assert (length dmid >= 1) as Hr1 by (destruct dmid; [congruence|cbn; lia]).
    destruct mid as [|c0 r] eqn:Emid; [cbn in Hlmid; lia|]. rewrite <- Emid in *.
    pose proof (merge_nodes_split pre mid c0 r Emid) as Hmn. rewrite <- Esp in Hmn.
    replace (length pre) with (length tail - length dmid) in Hmn by lia. rewrite Hmn.
    rewrite <- Edm in Hall. rewrite <- Edp in Hnot.
    pose proof (all_eq_hd mid c0 r d Emid Hall) as Hd0.
    assert (Forall info_ok (pre ++ mid)) as Hok2 by (rewrite <- Esp; exact Hok).
    assert (LI F (depths (pre ++ mid))) as HLI2 by (rewrite <- Esp; exact HLI).
    destruct (step_ok pre mid c0 r d Emid ltac:(lia) Hok2 HLI2 Hall Hnot) as (Hok' & HLI' & Hfl' & Hd').
    rewrite <- Esp in Hfl'.
    destruct pre as [|p0 pre'] eqn:Epre.
    + (* everything merges into one node *)
      cbn [app] in *.
      destruct (IH [merged mid c0]) as (root & Hc & R1 & R2 & R3 & R4 & R5); auto; [discriminate|cbn; lia|].
      specialize (R5 _ eq_refl). subst root. exists (merged mid c0). splits; try assumption.
      * rewrite R2. exact Hfl'.
      * rewrite Hd'. apply le_n_S. rewrite Esp, Emid. cbn [depths map hd]. lia.
      * intros _. rewrite Hd'. lia.
      * intros x Hx. rewrite Hx in En. cbn in En. lia.
    + rewrite <- Epre in *.
      assert (hd 0 (depths (pre ++ [merged mid c0])) = hd 0 (depths tail)) as Hhd.
      { rewrite Esp, Epre. reflexivity. }
      assert (hd 0 (depths tail) > d) as Hgt.
      { rewrite Esp, Epre. cbn [app depths map hd].
        assert (In (i_depth p0) (depths pre)) as Hin by (rewrite Epre; left; reflexivity).
        destruct HLI2 as [Hwd _]. rewrite depths_app in Hwd. apply wdec_app in Hwd as (_ & _ & Hpm).
        assert (In d (depths mid)) as Hdm by (rewrite Emid; left; exact Hd0).
        specialize (Hpm _ _ Hin Hdm).
        assert (i_depth p0 <> d) by (intros Hx; apply Hnot; rewrite <- Hx; exact Hin). lia. }
      destruct (IH (pre ++ [merged mid c0])) as (root & Hc & R1 & R2 & R3 & R4 & R5); auto.
      * rewrite Epre. discriminate.
      * rewrite Hhd. rewrite depths_app. change (depths [merged mid c0]) with [i_depth (merged mid c0)].
        rewrite lastd_snoc. cbn [merged i_depth].
        rewrite app_length. cbn [length]. rewrite Hd0. lia.
      * exists root. splits; try assumption.
        -- rewrite R2. exact Hfl'.
        -- rewrite Hhd in R3. exact R3.
        -- intros _. apply R4. rewrite app_length, Epre. cbn. lia.
        -- intros x Hx. rewrite Hx in En. cbn in En. lia.
Qed.

(* ---- completePendingLeaf *)
Lemma complete_leaf_spec tail pending lst : pending <> [] -> length pending <= F ->
  Forall info_ok tail -> Forall wfull tail -> Inv F (depths tail) ->
  exists t', complete_leaf F (mkW tail pending lst) = Ok (mkW t' [] lst) /\
    Forall info_ok t' /\ Forall wfull t' /\ Inv F (depths t') /\ tflat t' = tflat tail ++ pending.
Proof.
  intros Hne Hlen Hok Hw HI. unfold complete_leaf. cbn [w_pending w_tail w_last].
  destruct pending as [|e0 pr] eqn:Ep; [congruence|]. rewrite <- Ep in *.
  set (leaf := mkInfo (Leaf (Some (fst e0, fst (last pending e0))) pending) 0 (fst e0) (fst (last pending e0)) (length pending)).
  assert (info_ok leaf) as Hl.
  { unfold info_ok, leaf. cbn [i_node i_min i_max i_depth flat height].
    assert (limits_of pending = Some (fst e0, fst (last pending e0))) as Hlim by (rewrite Ep; apply limits_of_last).
    splits; [constructor; assumption|assumption|lia]. }
  assert (wfull leaf) as Hwl.
  { unfold wfull, leaf, nsize. cbn [i_node i_depth flat]. rewrite Ep. cbn [length]. rewrite N.pow_0_r. lia. }
  destruct (merge_tail_spec (S (length (tail ++ [leaf]))) (tail ++ [leaf])) as (t' & Ht & R1 & R2 & R3 & R4).
  - lia.
  - apply Forall_app. split; [exact Hok|constructor; [exact Hl|constructor]].
  - apply Forall_app. split; [exact Hw|constructor; [exact Hwl|constructor]].
  - rewrite depths_app. apply Inv_snoc0. exact HI.
  - exists t'. fold leaf. rewrite Ht. cbn [bind]. splits; auto.
    rewrite R4, tflat_app. cbn [tflat flat_map leaf i_node flat]. rewrite app_nil_r. reflexivity.
Qed.

(* ---- the state while entries are added *)
Definition last_key (l : list (K * V)) : option K :=
  match l with [] => None | e :: _ => Some (fst (last l e)) end.

Record WI (st : @wstate K V) (done : list (K * V)) : Prop := {
  wi_flat : tflat (w_tail st) ++ w_pending st = done;
  wi_ok : Forall info_ok (w_tail st);
  wi_full : Forall wfull (w_tail st);
  wi_inv : Inv F (depths (w_tail st));
  wi_pend : length (w_pending st) < F;
  wi_last : w_last st = last_key done;
  wi_sorted : sorted done }.

Lemma WI_init : WI w_init [].
Proof.
  constructor; [reflexivity|constructor|constructor|apply Inv_nil; lia|cbn; lia|reflexivity|exact I].
Qed.

Lemma last_key_snoc l k v : last_key (l ++ [(k, v)]) = Some k.
Proof.
  unfold last_key. destruct (l ++ [(k, v)]) eqn:E; [apply app_eq_nil in E; destruct E; discriminate|].
  rewrite <- E. rewrite last_last. reflexivity.
Qed.

Lemma sorted_snoc done k v : sorted done ->
  (sorted (done ++ [(k, v)]) <-> match last_key done with None => True | Some l => ltb l k = true end).
Proof.
  intros Hs. unfold last_key. destruct done as [|e0 r] eqn:Ed; [cbn; tauto|]. rewrite <- Ed in *.
  assert (In (last done e0) done) as Hin by (apply last_in; rewrite Ed; discriminate).
  split.
  - intros H. destruct (last done e0) as [kl vl] eqn:El. cbn [fst].
    eapply (sorted_app_lt _ _ HO); [exact H|exact Hin|left; reflexivity].
  - intros H. apply (sorted_app ltb); [exact Hs|cbn; auto|].
    intros k1 v1 k' v' Hin1 [[= <- <-]|[]].
    rewrite Ed in Hs, Hin1. destruct e0 as [k0 v0].
    destruct (sorted_bounds _ _ HO _ _ _ _ _ Hs Hin1) as [_ B].
    rewrite Ed in H. rewrite last_cons_self in H.
    eapply (le_lt_trans _ _ HO); eauto.
Qed.

Lemma add_entry_ok st done k v : WI st done -> sorted (done ++ [(k, v)]) ->
  exists st', add_entry ltb F st k v = Ok st' /\ WI st' (done ++ [(k, v)]).
Proof.
  intros [Hfl Hok Hw HI Hp Hl Hs] Hs'. unfold add_entry.
  pose proof (proj1 (sorted_snoc done k v Hs) Hs') as Hlt. rewrite <- Hl in Hlt.
  assert ((match w_last st with Some l => negb (ltb l k) | None => false end) = false) as Hbad.
  { destruct (w_last st); [rewrite Hlt; reflexivity|reflexivity]. }
  rewrite Hbad. cbn [w_pending w_tail]. rewrite app_length. cbn [length].
  destruct (F <=? length (w_pending st) + 1) eqn:Efull.
  - apply Nat.leb_le in Efull.
    destruct (complete_leaf_spec (w_tail st) (w_pending st ++ [(k, v)]) (Some k)) as (t' & Ht & R1 & R2 & R3 & R4).
    + intros E. apply app_eq_nil in E. destruct E. discriminate.
    + rewrite app_length. cbn [length]. lia.
    + assumption.
    + assumption.
    + assumption.
    + exists (mkW t' [] (Some k)). split; [exact Ht|]. constructor; cbn [w_tail w_pending w_last].
      * rewrite app_nil_r, R4, app_assoc, Hfl. reflexivity.
      * exact R1.
      * exact R2.
      * exact R3.
      * cbn. lia.
      * symmetry. apply last_key_snoc.
      * exact Hs'.
  - apply Nat.leb_gt in Efull. eexists. split; [reflexivity|]. constructor; cbn [w_tail w_pending w_last].
    + rewrite app_assoc, Hfl. reflexivity.
    + exact Hok.
    + exact Hw.
    + exact HI.
    + rewrite app_length. cbn [length]. lia.
    + symmetry. apply last_key_snoc.
    + exact Hs'.
Qed.

Lemma add_entry_bad st done k v : WI st done -> ~ sorted (done ++ [(k, v)]) ->
  add_entry ltb F st k v = Err Other.
Proof.
  intros [Hfl Hok Hw HI Hp Hl Hs] Hs'. unfold add_entry. rewrite Hl.
  pose proof (sorted_snoc done k v Hs) as Hiff.
  destruct (last_key done) as [l|]; [|tauto].
  destruct (ltb l k); [tauto|reflexivity].
Qed.

Lemma sorted_dec es : {sorted es} + {~ sorted es}.
Proof.
  destruct (sortedb ltb es) eqn:E; [left; apply (sortedb_sorted ltb); exact E|right].
  intros H. apply (sortedb_sorted ltb) in H. congruence.
Qed.

Lemma add_all_spec es : forall st done, WI st done ->
  (sorted (done ++ es) -> exists st', add_all ltb F st es = Ok st' /\ WI st' (done ++ es)) /\
  (~ sorted (done ++ es) -> add_all ltb F st es = Err Other).
Proof.
  induction es as [|[k v] es IH]; intros st done HW.
  - rewrite app_nil_r. split; [intros _; exists st; split; [reflexivity|exact HW]|].
    intros H. destruct HW. contradiction.
  - cbn [add_all]. replace (done ++ (k, v) :: es) with ((done ++ [(k, v)]) ++ es) by (rewrite <- app_assoc; reflexivity).
    destruct (sorted_dec (done ++ [(k, v)])) as [Hs1|Hs1].
    + destruct (add_entry_ok st done k v HW Hs1) as (st' & E & HW'). rewrite E. cbn [bind].
      apply IH. exact HW'.
    + rewrite (add_entry_bad st done k v HW Hs1). cbn [bind]. split; [|reflexivity].
      intros H. apply (sorted_app_inv ltb) in H. tauto.
Qed.

(* ---- finish *)
Definition struct_ok (t : node) : Prop :=
  node_lim t = None /\ fan t <= F /\ match t with Leaf _ _ => True | Inner _ kids => Forall sub_valid kids end.

Lemma wrap_ok x : info_ok x -> struct_ok (Inner None [i_node x]) /\ flat (Inner None [i_node x]) = flat (i_node x) /\
  height (Inner None [i_node x]) <= S (S (i_depth x)).
Proof.
  intros (H1 & H2 & H3). unfold struct_ok. cbn [node_lim fan length flat flat_map height fold_right].
  splits; auto; [lia|apply app_nil_r|lia].
Qed.

Lemma tflat_size_hd x rest : (nsize (i_node x) <= N.of_nat (length (tflat (x :: rest))))%N.
Proof. unfold nsize. change (tflat (x :: rest)) with (flat (i_node x) ++ tflat rest). rewrite app_length. lia. Qed.

Lemma finish_spec st done : WI st done -> done <> [] ->
  exists t, finish F st = Ok (Some t) /\ flat t = done /\ struct_ok t /\
    (N.of_nat F ^ N.of_nat (height t - 3) <= N.of_nat (length done))%N.
Proof.
  intros [Hfl Hok Hw HI Hp Hl Hs] Hne. unfold finish.
  assert (forall tail', tail' <> [] -> Forall info_ok tail' -> Forall wfull tail' -> Inv F (depths tail') ->
            tflat tail' = done ->
          exists t, match tail' with
            | [] => Ok None
            | x :: rest =>
              if match rest with [] => i_depth x =? 0 | _ => false end
              then Ok (Some (Inner None [i_node x]))
              else bind (collapse F (collapse_fuel tail') tail') (fun t =>
                match t with
                | [root] => if 0 <? i_depth root then Ok (Some (Inner None [i_node root])) else Ok (Some (i_node root))
                | _ => Err Other
                end)
            end = Ok (Some t) /\ flat t = done /\ struct_ok t /\
            (N.of_nat F ^ N.of_nat (height t - 3) <= N.of_nat (length done))%N) as Hmain.
  { intros tail' Hne' Hok' Hw' HI' Hfl'. destruct tail' as [|x rest] eqn:Et; [congruence|]. rewrite <- Et in *.
    assert (info_ok x) as Hx by (rewrite Et in Hok'; inversion Hok'; assumption).
    assert (N.of_nat F ^ N.of_nat (i_depth x) <= N.of_nat (length done))%N as Hsz.
    { assert (wfull x) as Hwx by (rewrite Et in Hw'; inversion Hw'; assumption).
      unfold wfull in Hwx. pose proof (tflat_size_hd x rest) as Hh. rewrite <- Et, Hfl' in Hh. lia. }
    assert (forall h, h - 3 <= i_depth x -> (N.of_nat F ^ N.of_nat (h - 3) <= N.of_nat (length done))%N) as Hpow.
    { intros h Hh. etransitivity; [|exact Hsz]. apply N.pow_le_mono_r; lia. }
    destruct (match rest with [] => i_depth x =? 0 | _ :: _ => false end) eqn:Esingle.
    - destruct rest; [|discriminate]. apply Nat.eqb_eq in Esingle.
      destruct (wrap_ok x Hx) as (W1 & W2 & W3). eexists. splits; [reflexivity| | |].
      + rewrite W2. rewrite Et in Hfl'. cbn in Hfl'. rewrite app_nil_r in Hfl'. exact Hfl'.
      + exact W1.
      + apply Hpow. lia.
    - destruct (collapse_spec (collapse_fuel tail') tail') as (root & Hc & R1 & R2 & R3 & R4 & R5); auto.
      + apply Inv_LI. exact HI'.
      + unfold collapse_fuel, depth_at. fold (depths tail'). rewrite Et. cbn [depths map nth hd length]. lia.
      + rewrite Hc. cbn [bind]. assert (hd 0 (depths tail') = i_depth x) as Hhd by (rewrite Et; reflexivity).
        rewrite Hhd in R3.
        destruct (0 <? i_depth root) eqn:Epos.
        * destruct (wrap_ok root R1) as (W1 & W2 & W3). eexists. splits; [reflexivity| | |].
          -- rewrite W2, R2. exact Hfl'.
          -- exact W1.
          -- apply Hpow. lia.
        * apply Nat.ltb_ge in Epos. exfalso.
          destruct rest as [|y rest].
          -- specialize (R5 x Et). subst root. assert (i_depth x = 0) as E0 by lia.
             rewrite E0 in Esingle. cbn in Esingle. discriminate.
          -- assert (2 <= length tail') as H2 by (rewrite Et; cbn; lia). specialize (R4 H2). lia. }
  destruct (w_pending st) as [|p ps] eqn:Ep.
  - (* nothing pending *)
    cbn [complete_leaf]. unfold complete_leaf. rewrite Ep. cbn [bind].
    rewrite app_nil_r in Hfl.
    assert (w_tail st <> []) as Htne by (intros E; rewrite E in Hfl; cbn in Hfl; congruence).
    apply Hmain; auto.
  - destruct (w_tail st) as [|x0 rest0] eqn:Etail.
    + (* writeRootWithEntries *)
      cbn in Hfl. eexists. splits; [reflexivity| | |].
      * cbn [flat]. exact Hfl.
      * unfold struct_ok. cbn [node_lim fan]. splits; auto. cbn [length] in *. lia.
      * cbn [height]. cbn [Nat.sub]. rewrite N.pow_0_r. destruct done; [congruence|cbn [length]; lia].
    + rewrite <- Etail in *. rewrite <- Ep in *.
      destruct (complete_leaf_spec (w_tail st) (w_pending st) (w_last st)) as (t' & Ht & R1 & R2 & R3 & R4); auto.
      * rewrite Ep. discriminate.
      * lia.
      * replace (mkW (w_tail st) (w_pending st) (w_last st)) with st in Ht by (destruct st; reflexivity).
        rewrite Ht. cbn [bind w_tail].
        apply Hmain; auto.
        -- intros E. rewrite E in R4. cbn in R4. symmetry in R4. apply app_eq_nil in R4. destruct R4 as [_ R4].
           rewrite Ep in R4. discriminate.
        -- rewrite R4. exact Hfl.
Qed.

Theorem write_spec es : sorted es -> es <> [] ->
  exists t, write ltb F es = Ok (Some t) /\ flat t = es /\ struct_ok t /\
    (N.of_nat F ^ N.of_nat (height t - 3) <= N.of_nat (length es))%N.
Proof.
  intros Hs Hne. unfold write.
  destruct (proj1 (add_all_spec es w_init [] WI_init) Hs) as (st & E & HW). rewrite E. cbn [bind].
  apply finish_spec; assumption.
Qed.

Theorem write_unsorted es : ~ sorted es -> write ltb F es = Err Other.
Proof.
  intros Hs. unfold write. rewrite (proj2 (add_all_spec es w_init [] WI_init) Hs). reflexivity.
Qed.

End Writer.
