(* C17 - the graph readers for name trees and number trees (definitions only). *)
From Coq Require Import List ZArith NArith Bool.
From GoPdf.Base Require Import Bytes Res.
From GoPdf.C17 Require Import KeyTree KeyTreeInst KeyGraph.
Import ListNotations.

Definition nheap := @heap bytes Z.
Definition zheap := @heap Z Z.

Definition name_g_lookup (H : nheap) (root : nat) (k : bytes) : res (option Z) * nat := g_lookup_root bytes_ltb bytes_eqb name_maxd H root k.
Definition name_g_all (H : nheap) (root : nat) : list (bytes * Z) * nat := g_all_root name_maxd H root.
Definition name_g_extract (H : nheap) (root : nat) : list (bytes * Z) := g_extract_root bytes_eqb name_maxd H root.
Definition num_g_lookup (H : zheap) (root : nat) (k : Z) : res (option Z) * nat := g_lookup_root Z.ltb Z.eqb num_maxd H root k.
Definition num_g_all (H : zheap) (root : nat) : list (Z * Z) * nat := g_all_root num_maxd H root.
Definition num_g_extract (H : zheap) (root : nat) : list (Z * Z) := g_extract_root Z.eqb num_maxd H root.
Definition name_heap_size (H : nheap) : nat := heap_size H.
Definition num_heap_size (H : zheap) : nat := heap_size H.
