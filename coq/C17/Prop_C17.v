(* C17: property theorems only; each closed by [exact] and followed by Print Assumptions.
   Generic statements quantify over every key type with a decidable strict total order
   ([key_order]), every fan-out F >= 2 and every reader depth cap maxd; the name_/num_
   corollaries instantiate them with Go's byte-wise string order / integer order and the
   translator's constants maxChildren, MaxNameTreeDepth, MaxNumberTreeDepth. *)
From Coq Require Import List NArith ZArith Bool.
From GoPdf.Base Require Import Bytes Res.
From GoPdf.C17 Require Import KeyTree KeyTreeInst KTOrder KTMain KeyGraph KGProofs.
Import ListNotations.
Local Open Scope nat_scope.

(* for EVERY strictly sorted entry list and EVERY key: looking the key up in the written tree
   gives the stored value, or not-found for every other key *)
Theorem lookup_write : forall (K V : Type) (ltb eqb : K -> K -> bool) (F maxd : nat),
  key_order ltb eqb -> 2 <= F ->
  forall es : list (K * V), sorted ltb es ->
  (N.of_nat (length es) < N.of_nat F ^ N.of_nat (maxd - 2))%N ->
  forall k, lookup_written ltb eqb maxd (write ltb F es) k = Ok (assoc eqb k es).
Proof. exact (@lookup_write_l). Qed.
Print Assumptions lookup_write.

(* enumeration = the entries, once each, in ascending order *)
Theorem all_write : forall (K V : Type) (ltb eqb : K -> K -> bool) (F maxd : nat),
  key_order ltb eqb -> 2 <= F ->
  forall es : list (K * V), sorted ltb es ->
  (N.of_nat (length es) < N.of_nat F ^ N.of_nat (maxd - 2))%N ->
  all_written maxd (write ltb F es) = Ok es.
Proof. exact (@all_write_l). Qed.
Print Assumptions all_write.

(* the written tree is structurally valid, denotes the input, and its height is logarithmic *)
Theorem tree_valid_write : forall (K V : Type) (ltb eqb : K -> K -> bool) (F maxd : nat),
  key_order ltb eqb -> 2 <= F ->
  forall es : list (K * V), sorted ltb es -> es <> [] ->
  (N.of_nat (length es) < N.of_nat F ^ N.of_nat (maxd - 2))%N ->
  exists t, write ltb F es = Ok (Some t) /\ flat t = es /\ tree_valid ltb F maxd t /\
    (N.of_nat F ^ N.of_nat (height t - 3) <= N.of_nat (length es))%N.
Proof. exact (@write_valid). Qed.
Print Assumptions tree_valid_write.

(* what tree_valid means node by node: root without /Limits; every node below it has
   /Limits = (least, greatest) key below it, is non-empty, has at most F kids or entries,
   and its keys are strictly sorted *)
Theorem tree_valid_nodes : forall (K V : Type) (ltb : K -> K -> bool) (F maxd : nat),
  forall t : @node K V, tree_valid ltb F maxd t ->
  node_lim t = None /\ fan t <= F /\ sorted ltb (flat t) /\ height t <= maxd /\
  Forall (fun c => node_lim c = limits_of (flat c) /\ flat c <> [] /\ fan c <= F /\ sorted ltb (flat c))
         (descendants t).
Proof. exact (@valid_nodes_l). Qed.
Print Assumptions tree_valid_nodes.

Theorem unsorted_rejected : forall (K V : Type) (ltb eqb : K -> K -> bool) (F : nat),
  key_order ltb eqb -> 2 <= F ->
  forall es : list (K * V), sortedb ltb es = false -> write ltb F es = Err Other.
Proof. exact (@unsorted_rejected_l). Qed.
Print Assumptions unsorted_rejected.

Theorem empty_no_tree : forall (K V : Type) (ltb eqb : K -> K -> bool) (F : nat),
  key_order ltb eqb -> 2 <= F ->
  @write K V ltb F [] = Ok None /\
  forall es : list (K * V), sorted ltb es -> es <> [] -> exists t, write ltb F es = Ok (Some t).
Proof. exact (@empty_no_tree_l). Qed.
Print Assumptions empty_no_tree.

(* in-memory and streaming readers agree on every valid tree, for every key *)
Theorem readers_agree : forall (K V : Type) (ltb eqb : K -> K -> bool) (F maxd : nat),
  key_order ltb eqb ->
  forall t : @node K V, tree_valid ltb F maxd t ->
  (forall k, lookup ltb eqb maxd t k = Ok (mem_lookup eqb (extract eqb maxd t) k)) /\
  mem_all ltb (extract eqb maxd t) = all maxd t.
Proof. exact (@readers_agree_l). Qed.
Print Assumptions readers_agree.

(* the certified validator: run (extracted) on the raw node dictionaries of the real writer;
   acceptance gives the reader guarantees for ALL keys, on any tree whatever built it *)
Theorem tree_ok_sound : forall (K V : Type) (ltb eqb : K -> K -> bool) (F maxd : nat),
  key_order ltb eqb ->
  forall t : @node K V, tree_ok ltb eqb F maxd t = true ->
  tree_valid ltb F maxd t /\
  (forall k, lookup ltb eqb maxd t k = Ok (assoc eqb k (flat t))) /\ all maxd t = flat t.
Proof. exact (@tree_ok_sound_l). Qed.
Print Assumptions tree_ok_sound.

(* ---- name trees and number trees as the library instantiates them *)
Theorem name_lookup_write : forall es : list (bytes * Z), sorted bytes_ltb es ->
  (N.of_nat (length es) < N.of_nat fanout ^ N.of_nat (name_maxd - 2))%N ->
  forall k, lookup_written bytes_ltb bytes_eqb name_maxd (name_write es) k = Ok (assoc bytes_eqb k es).
Proof. exact (lookup_write_l bytes_ltb bytes_eqb fanout name_maxd bytes_key_order fanout_ge2). Qed.
Print Assumptions name_lookup_write.

Theorem num_lookup_write : forall es : list (Z * Z), sorted Z.ltb es ->
  (N.of_nat (length es) < N.of_nat fanout ^ N.of_nat (num_maxd - 2))%N ->
  forall k, lookup_written Z.ltb Z.eqb num_maxd (num_write es) k = Ok (assoc Z.eqb k es).
Proof. exact (lookup_write_l Z.ltb Z.eqb fanout num_maxd Z_key_order fanout_ge2). Qed.
Print Assumptions num_lookup_write.

Theorem name_tree_ok_sound : forall t : nnode, name_tree_ok t = true ->
  (forall k, name_lookup t k = Ok (assoc bytes_eqb k (flat t))) /\ name_all t = flat t.
Proof. exact (fun t H => proj2 (tree_ok_sound_l bytes_ltb bytes_eqb fanout name_maxd bytes_key_order t H)). Qed.
Print Assumptions name_tree_ok_sound.

Theorem num_tree_ok_sound : forall t : znode, num_tree_ok t = true ->
  (forall k, num_lookup t k = Ok (assoc Z.eqb k (flat t))) /\ num_all t = flat t.
Proof. exact (fun t H => proj2 (tree_ok_sound_l Z.ltb Z.eqb fanout num_maxd Z_key_order t H)). Qed.
Print Assumptions num_tree_ok_sound.

(* ---- the key orders of the two instances.  Every generic theorem above has [key_order ltb eqb] as
   a hypothesis; these are the instances the library is held to.  Number trees: the order of the
   integers themselves - on int64 values there is no wrap-around, MinInt64 < -1 < 0 < MaxInt64, whatever
   the distance between two keys.  Name trees: byte-wise lexicographic, a proper prefix first. *)
Theorem num_key_order : key_order Z.ltb Z.eqb /\
  (forall a b : Z, Z.ltb a b = true <-> (a < b)%Z) /\ (forall a b : Z, Z.eqb a b = true <-> a = b).
Proof. exact (conj Z_key_order (conj Z.ltb_lt Z.eqb_eq)). Qed.
Print Assumptions num_key_order.

Theorem name_key_order : key_order bytes_ltb bytes_eqb.
Proof. exact bytes_key_order. Qed.
Print Assumptions name_key_order.

(* hence EVERY strictly ascending non-empty key sequence is written, none is refused (the harness
   holds the real writers to this on keys of extreme magnitude and distance: a refused sorted
   sequence is a failing input, signature sorted-rejected) *)
Theorem num_sorted_accepted : forall es : list (Z * Z), sorted Z.ltb es -> es <> [] ->
  exists t, num_write es = Ok (Some t).
Proof. exact (proj2 (empty_no_tree_l Z.ltb Z.eqb fanout Z_key_order fanout_ge2)). Qed.
Print Assumptions num_sorted_accepted.

Theorem name_sorted_accepted : forall es : list (bytes * Z), sorted bytes_ltb es -> es <> [] ->
  exists t, name_write es = Ok (Some t).
Proof. exact (proj2 (empty_no_tree_l bytes_ltb bytes_eqb fanout bytes_key_order fanout_ge2)). Qed.
Print Assumptions name_sorted_accepted.

(* the extremes of int64 and the gaps that overflow a 64-bit difference are ordinary keys *)
Example ex_extreme_keys :
  sorted Z.ltb [((-9223372036854775808)%Z, 0%Z); ((-1)%Z, 1%Z); (0%Z, 2%Z); (9223372036854775807%Z, 3%Z)] /\
  exists t, num_write [((-9223372036854775808)%Z, 0%Z); ((-1)%Z, 1%Z); (0%Z, 2%Z); (9223372036854775807%Z, 3%Z)] = Ok (Some t) /\
    num_lookup t (9223372036854775807)%Z = Ok (Some 3%Z) /\ num_lookup t (-9223372036854775808)%Z = Ok (Some 0%Z) /\
    num_lookup t 9223372036854775806%Z = Ok None.
Proof. split; [vm_compute; auto|]. eexists. split; [vm_compute; reflexivity|]. vm_compute. auto. Qed.

(* ---- the readers on a FILE: node dictionaries connected by references - a graph with possibly
   shared or cyclic kids and dangling references.  The recursion of the model is bounded by the
   nesting cap alone (fuel = maxDepth - depth), so every traversal terminates. *)

(* whatever the graph: one Lookup and one enumeration cost at most twice the size of the tree
   objects in the file - independent of the number of paths (a chain of diamonds has 2^levels) *)
Theorem graph_work_bound : forall (K V : Type) (ltb eqb : K -> K -> bool) (maxd : nat) (H : @heap K V) root k,
  snd (g_lookup_root ltb eqb maxd H root k) <= 2 * heap_size H /\
  snd (g_all_root maxd H root) <= 2 * heap_size H.
Proof. exact (@graph_work_bound_l). Qed.
Print Assumptions graph_work_bound.

(* no node is entered twice: the set of seen references never gets a duplicate *)
Theorem graph_each_node_once : forall (K V : Type) (ltb eqb : K -> K -> bool) (H : @heap K V) fuel seen (n : @gnode K V),
  NoDup seen ->
  NoDup (snd (fst (g_all fuel H seen n))) /\ forall k, NoDup (snd (fst (g_lookup ltb eqb fuel H seen n k))).
Proof. exact (@graph_each_node_once_l). Qed.
Print Assumptions graph_each_node_once.

(* a tree laid out in the file with distinct references: the graph readers are the tree readers
   (to which lookup_write / tree_ok_sound apply) *)
Theorem graph_lookup_tree : forall (K V : Type) (ltb eqb : K -> K -> bool) (maxd : nat) (H : @heap K V) (t : @rtree K V) k,
  embeds H t -> NoDup (rrefs t) ->
  fst (g_lookup_root ltb eqb maxd H (rref t) k) = lookup ltb eqb maxd (erase t) k.
Proof. exact (@graph_lookup_tree_l). Qed.
Print Assumptions graph_lookup_tree.

Theorem graph_all_tree : forall (K V : Type) (maxd : nat) (H : @heap K V) (t : @rtree K V),
  embeds H t -> NoDup (rrefs t) ->
  fst (g_all_root maxd H (rref t)) = all maxd (erase t).
Proof. exact (@graph_all_tree_l). Qed.
Print Assumptions graph_all_tree.

(* a chain of 40 diamonds (each node lists the next one twice) and a cycle: the work stays linear *)
Definition ex_diamonds : @heap Z Z :=
  map (fun i => Some (GInner (Some (0, 9)%Z) [S i; S i])) (seq 0 40) ++ [Some (GLeaf (Some (0, 9)%Z) [(5, 1)]%Z)].
Example ex_diamonds_work :
  g_lookup_root Z.ltb Z.eqb 256 ex_diamonds 0 5%Z = (Ok (Some 1%Z), 81) /\ snd (g_all_root 256 ex_diamonds 0) = 121.
Proof. vm_compute. auto. Qed.
Example ex_cycle : g_all_root 256 [Some (GInner None [1; 0]); Some (GInner (Some (0, 9)%Z) [0; 1; 2]); Some (GLeaf None [(5, 1)]%Z)] 0
                   = ([(5, 1)%Z], 8).
Proof. vm_compute. reflexivity. Qed.

(* ---- the hypotheses are satisfiable, the statements are not vacuous *)
Example bytes_order_ok : key_order bytes_ltb bytes_eqb.
Proof. exact bytes_key_order. Qed.
Example int_order_ok : key_order Z.ltb Z.eqb.
Proof. exact Z_key_order. Qed.
Example constants : fanout = 64 /\ name_maxd = 256 /\ num_maxd = 256.
Proof. vm_compute. auto. Qed.

Definition ex_names : list (bytes * Z) :=
  [([], 0%Z); ([0%N], 1%Z); ([0%N; 255%N], 2%Z); ([40%N; 41%N], 3%Z); ([97%N], 4%Z); ([97%N; 0%N], 5%Z); ([255%N], 6%Z)].
Example ex_names_hyps : sorted bytes_ltb ex_names /\
  (N.of_nat (length ex_names) < N.of_nat fanout ^ N.of_nat (name_maxd - 2))%N.
Proof. split; [cbn; repeat split|vm_compute; reflexivity]. Qed.
Example ex_names_lookup :
  lookup_written bytes_ltb bytes_eqb name_maxd (name_write ex_names) [97%N] = Ok (Some 4%Z) /\
  lookup_written bytes_ltb bytes_eqb name_maxd (name_write ex_names) [97%N; 1%N] = Ok None.
Proof. vm_compute. auto. Qed.

(* 200 integer keys -5*100 .. : a three-level tree accepted by the validator; an unsorted list is refused *)
Definition ex_nums : list (Z * Z) := map (fun i => ((Z.of_nat i - 100) * 5, Z.of_nat i)%Z) (seq 0 200).
Example ex_nums_valid :
  match num_write ex_nums with Ok (Some t) => num_tree_ok t && (height t =? 3) | _ => false end = true.
Proof. vm_compute. reflexivity. Qed.
Example ex_unsorted : sortedb Z.ltb [(1, 0); (1, 1)]%Z = false /\ num_write [(1, 0); (1, 1)]%Z = Err Other.
Proof. vm_compute. auto. Qed.
