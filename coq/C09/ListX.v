(* List lemmas: chunks, firstn/skipn, xor_bytes, wfbs. *)
From Coq Require Import List NArith Bool Lia PeanoNat Wf_nat.
From GoPdf.Base Require Import Bytes.
From GoPdf.C09 Require Import Word.
Import ListNotations.

Lemma chunks_fuel_irrel n : (0 < n)%nat -> forall f1 f2 l,
  (length l <= f1)%nat -> (length l <= f2)%nat -> chunks_fuel f1 n l = chunks_fuel f2 n l.
Proof.
  intros Hn. induction f1 as [|f1 IH]; intros f2 l H1 H2.
  - destruct l; [|cbn in H1; lia]. destruct f2; reflexivity.
  - destruct l as [|x l]; [destruct f2; reflexivity|].
    destruct f2 as [|f2]; [cbn in H2; lia|].
    cbn [chunks_fuel]. f_equal. apply IH; rewrite skipn_length; cbn [length] in *; lia.
Qed.

Lemma chunks_nil n : chunks n [] = [].
Proof. reflexivity. Qed.

Lemma chunks_cons_app n a r : (0 < n)%nat -> length a = n -> chunks n (a ++ r) = a :: chunks n r.
Proof.
  intros Hn Ha. unfold chunks. destruct a as [|x a]; [cbn in Ha; lia|].
  cbn [app length chunks_fuel]. change (x :: a ++ r) with ((x :: a) ++ r).
  rewrite firstn_app, Ha, Nat.sub_diag, firstn_O, app_nil_r, firstn_all2 by lia.
  f_equal. rewrite skipn_app, Ha, Nat.sub_diag, skipn_O, skipn_all2 by lia. cbn [app].
  apply chunks_fuel_irrel; [lia| |lia]. rewrite app_length. cbn in Ha. lia.
Qed.

Lemma chunks_concat n bs last : (0 < n)%nat -> Forall (fun b => length b = n) bs ->
  (0 < length last <= n)%nat -> chunks n (concat bs ++ last) = bs ++ [last].
Proof.
  intros Hn Hbs Hl. induction Hbs as [|b bs Hb Hbs IH]; cbn [concat app].
  - unfold chunks. destruct last as [|x l]; [cbn in Hl; lia|]. cbn [length chunks_fuel].
    rewrite firstn_all2, skipn_all2 by lia. destruct (length l); reflexivity.
  - rewrite <- app_assoc, chunks_cons_app by assumption. now rewrite IH.
Qed.

Lemma chunks_concat0 n bs : (0 < n)%nat -> Forall (fun b => length b = n) bs -> chunks n (concat bs) = bs.
Proof.
  intros Hn Hbs. induction Hbs as [|b bs Hb Hbs IH]; cbn [concat]; [reflexivity|].
  rewrite chunks_cons_app by assumption. now rewrite IH.
Qed.

(* every list is a sequence of full blocks followed by a short tail *)
Lemma split_blocks n : (0 < n)%nat -> forall l : bytes,
  exists bs tail, l = concat bs ++ tail /\ Forall (fun b => length b = n) bs /\ (length tail < n)%nat.
Proof.
  intros Hn l. remember (length l) as m eqn:Hm. revert l Hm.
  induction m as [m IH] using lt_wf_ind. intros l Hm.
  destruct (Nat.lt_ge_cases (length l) n) as [Hlt|Hge].
  - exists [], l. repeat split; [constructor|assumption].
  - destruct (IH (length (skipn n l))) with (l := skipn n l) as (bs & tail & E & F & T).
    + rewrite skipn_length. lia.
    + reflexivity.
    + exists (firstn n l :: bs), tail. repeat split; [|constructor; [rewrite firstn_length; lia|assumption]|assumption].
      cbn [concat]. rewrite <- app_assoc, <- E. symmetry. apply firstn_skipn.
Qed.

Lemma xor_bytes_length a b : length (xor_bytes a b) = Nat.min (length a) (length b).
Proof. revert b. induction a as [|x a IH]; intros [|y b]; cbn [xor_bytes length]; try reflexivity. now rewrite IH. Qed.

Lemma xor_bytes_twice a k : (length a <= length k)%nat -> xor_bytes (xor_bytes a k) k = a.
Proof.
  revert k. induction a as [|x a IH]; intros [|y k] H; cbn [xor_bytes length] in *; try reflexivity; try lia.
  rewrite IH by lia. f_equal. rewrite N.lxor_assoc, N.lxor_nilpotent, N.lxor_0_r. reflexivity.
Qed.

Lemma wfb_lxor x y : wfb x = true -> wfb y = true -> wfb (N.lxor x y) = true.
Proof.
  unfold wfb. rewrite !N.ltb_lt. intros Hx Hy.
  change 256%N with (2 ^ 8)%N in *.
  destruct (N.eq_dec (N.lxor x y) 0) as [E|NE]; [rewrite E; reflexivity|].
  apply N.log2_lt_pow2; [lia|].
  eapply N.le_lt_trans; [apply N.log2_lxor|].
  destruct (N.eq_dec x 0) as [->|Nx]; destruct (N.eq_dec y 0) as [->|Ny]; cbn [N.log2 N.max];
    try (apply N.max_lub_lt); try (apply N.log2_lt_pow2; lia); try reflexivity.
Qed.

Lemma wfbs_xor a b : wfbs a = true -> wfbs b = true -> wfbs (xor_bytes a b) = true.
Proof.
  revert b. induction a as [|x a IH]; intros [|y b] Ha Hb; try reflexivity.
  cbn [xor_bytes wfbs forallb] in *. apply andb_true_iff in Ha as [? ?]. apply andb_true_iff in Hb as [? ?].
  apply andb_true_iff. split; [now apply wfb_lxor|now apply IH].
Qed.

Lemma wfbs_app a b : wfbs (a ++ b) = wfbs a && wfbs b.
Proof. unfold wfbs. apply forallb_app. Qed.

Lemma wfbs_concat bs : wfbs (concat bs) = true <-> Forall (fun b => wfbs b = true) bs.
Proof.
  induction bs as [|b bs IH]; cbn [concat]; [split; [constructor|reflexivity]|].
  rewrite wfbs_app, andb_true_iff, IH. split; [intros [? ?]; now constructor|inversion 1; now split].
Qed.

Lemma wfbs_repeat x n : wfb x = true -> wfbs (repeat x n) = true.
Proof. intros H. induction n; cbn [repeat wfbs forallb]; [reflexivity|]. now rewrite H. Qed.
