(* Reader.parseEncryptDict + openStdSecHandler + getCryptFilter (crypto.go) on an abstract /Encrypt
   dictionary, and the dictionary AsDict writes (with its values).  Entry names are [StdSec.ekey];
   values carry just the types these functions distinguish. *)
From Coq Require Import List NArith ZArith Bool.
From GoPdf.Base Require Import Bytes Res.
From GoPdf.Gen Require Import Gen_Perm.
From GoPdf.C09 Require Import Word StdSec.
Import ListNotations.
Open Scope Z_scope.

Inductive ename := NStandard | NStdCF | NIdentity | NV2 | NAESV2 | NAESV3 | NOther.

Inductive evalue :=
| VInt (z : Z)
| VName (n : ename)
| VStr (b : bytes)
| VBool (b : bool)
| VCF (stdcf : option (option ename)).  (* /CF: has it a /StdCF dictionary, and that one a /CFM name *)

Definition edict := list (ekey * evalue).

Definition ekey_eqb (a b : ekey) : bool :=
  match a, b with
  | KFilter, KFilter | KV, KV | KR, KR | KO, KO | KU, KU | KP, KP | KLength, KLength | KCF, KCF
  | KStmF, KStmF | KStrF, KStrF | KEncryptMetadata, KEncryptMetadata | KOE, KOE | KUE, KUE | KPerms, KPerms => true
  | _, _ => false
  end.

Fixpoint lookup (d : edict) (k : ekey) : option evalue :=
  match d with [] => None | (k', v) :: r => if ekey_eqb k k' then Some v else lookup r k end.

(* Cursor.Integer/Name/String/Boolean: a missing entry yields the zero value, a wrong type is malformed *)
Definition get_int (d : edict) (k : ekey) : res Z :=
  match lookup d k with None => Ok 0 | Some (VInt z) => Ok z | Some _ => Err Malformed end.
Definition get_name (d : edict) (k : ekey) : res (option ename) :=
  match lookup d k with None => Ok None | Some (VName n) => Ok (Some n) | Some _ => Err Malformed end.
Definition get_str (d : edict) (k : ekey) : res bytes :=
  match lookup d k with None => Ok [] | Some (VStr b) => Ok b | Some _ => Err Malformed end.
Definition get_bool (d : edict) (k : ekey) : res bool :=
  match lookup d k with None => Ok false | Some (VBool b) => Ok b | Some _ => Err Malformed end.
(* Optional(c.Name(..)) / Optional(c.Dict(..)): malformed counts as absent *)
Definition opt_name (d : edict) (k : ekey) : option ename :=
  match lookup d k with Some (VName n) => Some n | _ => None end.
Definition opt_cf (d : edict) : option (option (option ename)) :=
  match lookup d KCF with Some (VCF x) => Some x | _ => None end.

(* (is AES, key length in bits) *)
Definition cfilter := (bool * Z)%type.

(* getCryptFilter; its errors are plain errors (class Other) *)
Definition get_crypt_filter (name : ename) (cf : option (option (option ename))) : res (option cfilter) :=
  match name with
  | NIdentity => Ok None
  | NStdCF =>
    match cf with
    | None => Err Other                      (* missing CF dictionary *)
    | Some None => Err Other                 (* missing StdCF entry *)
    | Some (Some None) => Err Other          (* unknown cipher *)
    | Some (Some (Some NV2)) => Ok (Some (false, 128))
    | Some (Some (Some NAESV2)) => Ok (Some (true, 128))
    | Some (Some (Some NAESV3)) => Ok (Some (true, 256))
    | Some (Some (Some _)) => Err Other
    end
  | _ => Err Other                           (* unknown crypt filter *)
  end.

Record params := {
  pR : Z; pKeyBytes : Z; pO : bytes; pU : bytes; pOE : bytes; pUE : bytes; pPerms : bytes;
  pP : Z; pPlain : bool; pStm : option cfilter; pStr : option cfilter
}.

Fixpoint all_zero (l : bytes) : bool := match l with [] => true | b :: r => N.eqb b 0 && all_zero r end.

(* tryCrop *)
Definition try_crop (s : bytes) (l : nat) : bytes :=
  if Nat.leb (length s) l then s else if all_zero (skipn l s) then firstn l s else s.

Definition has (d : edict) (k : ekey) : bool := match lookup d k with Some _ => true | None => false end.

(* openStdSecHandler *)
Definition open_std (d : edict) (V keybytes : Z) (stm str : option cfilter) : res params :=
  bind (get_int d KR) (fun R =>
  if (R <? 2) || (6 <? R) then Err Malformed else
  if negb (Bool.eqb (V =? 5) ((R =? 5) || (R =? 6))) then Err Malformed else
  let oulen := if 5 <=? R then 48%nat else 32%nat in
  bind (get_str d KO) (fun o => let o := try_crop o oulen in
  if negb (Nat.eqb (length o) oulen) then Err Malformed else
  bind (get_str d KU) (fun u => let u := try_crop u oulen in
  if negb (Nat.eqb (length u) oulen) then Err Malformed else
  if negb (has d KP) then Err Malformed else
  bind (get_int d KP) (fun P =>
  bind (if has d KEncryptMetadata && (4 <=? V) then get_bool d KEncryptMetadata else Ok true) (fun emd =>
  let base oe ue perms :=
    {| pR := R; pKeyBytes := keybytes; pO := o; pU := u; pOE := oe; pUE := ue; pPerms := perms;
       pP := uwrap 32 P; pPlain := negb emd; pStm := stm; pStr := str |} in
  if 5 <=? R then
    bind (get_str d KOE) (fun oe => if negb (Nat.eqb (length oe) 32) then Err Malformed else
    bind (get_str d KUE) (fun ue => if negb (Nat.eqb (length ue) 32) then Err Malformed else
    bind (get_str d KPerms) (fun pe => if negb (Nat.eqb (length pe) 16) then Err Malformed else
    Ok (base oe ue pe))))
  else Ok (base [] [] [])))))).

(* parseEncryptDict up to (not including) the eager authentication; [two_ids] = (len(ID) == 2) *)
Definition parse_encrypt (d : edict) (two_ids : bool) : res params :=
  if negb two_ids then Err Malformed else
  bind (get_name d KFilter) (fun filter =>
  bind (get_int d KV) (fun V =>
  bind
    (if V =? 1 then Ok (5, Some (false, 40), Some (false, 40))
     else if V =? 2 then
       bind (if has d KLength then get_int d KLength else Ok 40) (fun len =>
       if (len <? 40) || (128 <? len) || negb (len mod 8 =? 0) then Err Malformed
       else Ok (len / 8, Some (false, len), Some (false, len)))
     else if (V =? 4) || (V =? 5) then
       let cf := opt_cf d in
       bind (match opt_name d KStmF with None => Ok None | Some n => get_crypt_filter n cf end) (fun stm =>
       bind (match opt_name d KStrF with None => Ok None | Some n => get_crypt_filter n cf end) (fun str =>
       Ok (if V =? 4 then 16 else 32, stm, str)))
     else Err Malformed)
    (fun '(kb, stm, str) =>
     match filter with
     | Some NStandard => open_std d V kb stm str
     | _ => Err Malformed
     end))).

Definition handler_of (p : params) (id : bytes) : handler :=
  {| hR := pR p; hID := id; hO := pO p; hU := pU p; hOE := pOE p; hUE := pUE p; hPerms := pPerms p;
     hP := pP p; hKeyBytes := Z.to_nat (pKeyBytes p); hPlainMeta := pPlain p |}.

(* parse, then authenticate as parseEncryptDict does (the empty password first) *)
Definition parse_and_open (d : edict) (id : bytes) (supplied : bool) (pw : bytes) : res (params * (Z * bytes)) :=
  bind (parse_encrypt d true) (fun p =>
  bind (open_handler (handler_of p id) supplied pw) (fun r => Ok (p, r))).

(* ---- AsDict with values ----------------------------------------------------------------------- *)

Definition as_dict (h : handler) (aes : bool) (bits version : Z) : option edict :=
  match as_dict_V aes bits version with
  | None => None
  | Some V =>
    Some ([(KFilter, VName NStandard); (KV, VInt V)]
          ++ (if V =? 5 then [(KStmF, VName NStdCF); (KStrF, VName NStdCF); (KLength, VInt 256); (KCF, VCF (Some (Some NAESV3)))]
              else if V =? 4 then [(KStmF, VName NStdCF); (KStrF, VName NStdCF); (KCF, VCF (Some (Some NAESV2)))]
              else if V =? 2 then [(KLength, VInt bits)] else [])
          ++ [(KR, VInt (hR h)); (KO, VStr (hO h)); (KU, VStr (hU h)); (KP, VInt (swrap 32 (hP h)))]
          ++ (if hPlainMeta h then [(KEncryptMetadata, VBool false)] else [])
          ++ (if hR h =? 6 then [(KOE, VStr (hOE h)); (KUE, VStr (hUE h)); (KPerms, VStr (hPerms h))] else []))
  end.

Definition params_of (h : handler) (aes : bool) (bits : Z) : params :=
  {| pR := hR h; pKeyBytes := bits / 8; pO := hO h; pU := hU h; pOE := hOE h; pUE := hUE h; pPerms := hPerms h;
     pP := hP h; pPlain := hPlainMeta h; pStm := Some (aes, bits); pStr := Some (aes, bits) |}.
