From Coq Require Import List NArith ZArith Bool Lia.
From GoPdf.Base Require Import Bytes Res.
From GoPdf.Gen Require Import Gen_Perm.
From GoPdf.C09 Require Import Word StdSec ParseModel ApiProofs.
Import ListNotations.
Open Scope Z_scope.
Set Default Timeout 120.

Lemma swrap_uwrap P : 0 <= P < 2^32 -> uwrap 32 (swrap 32 P) = P.
Proof.
  intros H. unfold uwrap, swrap. change (2 ^ (32 - 1)) with 2147483648. change (2 ^ 32) with 4294967296 in *.
  destruct (Z_lt_ge_dec P 2147483648).
  - rewrite (Z.mod_small (P + 2147483648)) by lia. replace (P + 2147483648 - 2147483648) with P by lia.
    apply Z.mod_small. lia.
  - replace (P + 2147483648) with ((P - 2147483648) + 1 * 4294967296) by lia.
    rewrite Z.mod_add by lia. rewrite (Z.mod_small (P - 2147483648)) by lia.
    replace (P - 2147483648 - 2147483648) with (P + (-1) * 4294967296) by lia.
    rewrite Z.mod_add by lia. apply Z.mod_small. lia.
Qed.

Lemma try_crop_id s l : length s = l -> try_crop s l = s.
Proof. intros H. unfold try_crop. now rewrite H, Nat.leb_refl. Qed.

(* the entry names of the full dictionary are those of [as_dict_keys] (the subject of C10's encrypt_dict_wf) *)
Lemma as_dict_names h aes bits version :
  option_map (map fst) (as_dict h aes bits version) = as_dict_keys aes bits version (hR h) (hPlainMeta h).
Proof.
  unfold as_dict, as_dict_keys. destruct (as_dict_V aes bits version) as [V|]; [|reflexivity]. cbn [option_map].
  f_equal. rewrite !map_app. cbn [map fst].
  destruct (V =? 5); [|destruct (V =? 4); [|destruct (V =? 2)]]; destruct (hPlainMeta h); destruct (hR h =? 6); reflexivity.
Qed.

Arguments uwrap : simpl never.
Arguments swrap : simpl never.
Arguments try_crop : simpl never.
Arguments Nat.eqb : simpl never.
Arguments length : simpl never.

Definition oulen (R : Z) : nat := if 5 <=? R then 48%nat else 32%nat.

(* what createStdSecHandler guarantees about a handler (R2-R4: create_legacy; R6: create6 with r6_inputs) *)
Definition handler_shape (h : handler) : Prop :=
  0 <= hP h < 2^32 /\ length (hO h) = oulen (hR h) /\ length (hU h) = oulen (hR h) /\
  (if hR h =? 6 then length (hOE h) = 32%nat /\ length (hUE h) = 32%nat /\ length (hPerms h) = 16%nat
   else hOE h = [] /\ hUE h = [] /\ hPerms h = []).

Lemma parse_asdict_rt_l version perm h :
  1 <= version <= 8 -> 0 <= perm < 128 -> (hPlainMeta h = true -> 6 <= version) ->
  choose_R (writer_V version) perm = Some (hR h) -> handler_shape h ->
  let aes := fst (fst (writer_cipher version)) in
  let bits := snd (fst (writer_cipher version)) in
  exists d, as_dict h aes bits version = Some d /\ parse_encrypt d true = Ok (params_of h aes bits).
Proof.
  intros Hv Hp Hpm HR (HP & HO & HU & HX).
  destruct h as [R id O U OE UE Pe P kb pm]. cbn [hR hO hU hOE hUE hPerms hP hPlainMeta] in *.
  assert (Hcases : version = 1 \/ version = 2 \/ version = 3 \/ version = 4 \/ version = 5 \/ version = 6 \/ version = 7 \/ version = 8) by lia.
  unfold writer_V, choose_R in HR. destruct (canR2 perm); destruct pm.
  all: destruct Hcases as [->|[->|[->|[->|[->|[->|[->| ->]]]]]]]; cbn in HR; injection HR as <-; cbn in HX; destruct HX as (H1 & H2 & H3);
    try (specialize (Hpm eq_refl); lia);
    eexists; (split; [reflexivity|]);
    unfold oulen in *; cbn in HO, HU; unfold bytes, byte in *;
    cbv - [uwrap swrap try_crop Nat.eqb length];
    repeat (rewrite ?try_crop_id by assumption; rewrite ?HO, ?HU, ?H1, ?H2, ?H3, ?PeanoNat.Nat.eqb_refl;
            cbv - [uwrap swrap try_crop Nat.eqb length]);
    rewrite ?swrap_uwrap by assumption; subst; reflexivity.
Qed.
