(* AES-128 / AES-256 block cipher (FIPS 197), executable.  A block is a list of 16 bytes in
   input order (column-major state).  Internally bytes are pairs of 4-bit digits and the
   S-box and the GF(2^8) multiplications are tables (AESTab.v); the interface is on [bytes]. *)
From Coq Require Import List NArith.
From GoPdf.Base Require Import Bytes.
From GoPdf.C09 Require Import Word Nib AESTab.
Import ListNotations.
Open Scope N_scope.

Definition bx (a b : byte2) : byte2 := (nxor (fst a) (fst b), nxor (snd a) (snd b)).
Definition b2_of_N (n : N) : byte2 := (nib_of_N (N.shiftr n 4), nib_of_N n).
Definition b2_to_N (b : byte2) : N := 16 * nib_to_N (fst b) + nib_to_N (snd b).
Definition b2zero : byte2 := (X0, X0).

Definition block2 := list byte2.

Fixpoint xor_block (a b : block2) : block2 :=
  match a, b with x :: a', y :: b' => bx x y :: xor_block a' b' | _, _ => [] end.

Definition bx4 (a b c d : byte2) : byte2 := bx a (bx b (bx c d)).

Definition mix_col (a b c d : byte2) : block2 :=
  [bx4 (gmul2 a) (gmul3 b) c d; bx4 a (gmul2 b) (gmul3 c) d;
   bx4 a b (gmul2 c) (gmul3 d); bx4 (gmul3 a) b c (gmul2 d)].
Definition imix_col (a b c d : byte2) : block2 :=
  [bx4 (gmul14 a) (gmul11 b) (gmul13 c) (gmul9 d); bx4 (gmul9 a) (gmul14 b) (gmul11 c) (gmul13 d);
   bx4 (gmul13 a) (gmul9 b) (gmul14 c) (gmul11 d); bx4 (gmul11 a) (gmul13 b) (gmul9 c) (gmul14 d)].

Definition on_cols (f : byte2 -> byte2 -> byte2 -> byte2 -> block2) (st : block2) : block2 :=
  match st with
  | [a0; a1; a2; a3; b0; b1; b2; b3; c0; c1; c2; c3; d0; d1; d2; d3] =>
    f a0 a1 a2 a3 ++ f b0 b1 b2 b3 ++ f c0 c1 c2 c3 ++ f d0 d1 d2 d3
  | _ => st
  end.
Definition mix_columns := on_cols mix_col.
Definition imix_columns := on_cols imix_col.

Definition shift_rows (st : block2) : block2 :=
  match st with
  | [a0; a1; a2; a3; b0; b1; b2; b3; c0; c1; c2; c3; d0; d1; d2; d3] =>
    [a0; b1; c2; d3; b0; c1; d2; a3; c0; d1; a2; b3; d0; a1; b2; c3]
  | _ => st
  end.
Definition ishift_rows (st : block2) : block2 :=
  match st with
  | [a0; a1; a2; a3; b0; b1; b2; b3; c0; c1; c2; c3; d0; d1; d2; d3] =>
    [a0; d1; c2; b3; b0; a1; d2; c3; c0; b1; a2; d3; d0; c1; b2; a3]
  | _ => st
  end.

Definition sub_bytes (st : block2) : block2 := map sbox2 st.
Definition isub_bytes (st : block2) : block2 := map isbox2 st.

(* key expansion: words are 4-byte lists; [acc] holds the words so far in reverse order *)
Definition rot_word (w : block2) : block2 := match w with a :: r => r ++ [a] | [] => [] end.
Definition rcon_list : list N := [1; 2; 4; 8; 16; 32; 64; 128; 27; 54].

Fixpoint expand (n : nat) (i nk : nat) (acc : list block2) : list block2 :=
  match n with
  | O => acc
  | S n' =>
    let prev := nth 0 acc [] in
    let old := nth (nk - 1) acc [] in
    let t := if Nat.eqb (Nat.modulo i nk) 0
             then xor_block (map sbox2 (rot_word prev))
                            [b2_of_N (nth (Nat.div i nk - 1) rcon_list 0); b2zero; b2zero; b2zero]
             else if andb (Nat.ltb 6 nk) (Nat.eqb (Nat.modulo i nk) 4) then map sbox2 prev
             else prev in
    expand n' (S i) nk (xor_block old t :: acc)
  end.

Fixpoint chunks2_fuel (fuel n : nat) (l : block2) : list block2 :=
  match fuel with
  | O => []
  | S f => match l with [] => [] | _ => firstn n l :: chunks2_fuel f n (skipn n l) end
  end.
Definition chunks2 (n : nat) (l : block2) : list block2 := chunks2_fuel (length l) n l.

(* round keys as 16-byte blocks, first round first *)
Definition round_keys (key : bytes) : list block2 :=
  let nk := Nat.div (length key) 4 in
  let nr := (nk + 6)%nat in
  let w0 := rev (chunks2 4 (map b2_of_N key)) in
  let ws := rev (expand (4 * (nr + 1) - nk) nk nk w0) in
  chunks2 16 (concat ws).

Definition enc_round (st rk : block2) : block2 :=
  xor_block (mix_columns (shift_rows (sub_bytes st))) rk.
Definition dec_round (st rk : block2) : block2 :=
  isub_bytes (ishift_rows (imix_columns (xor_block st rk))).

(* rks = k0 :: middle ++ [klast] *)
Definition encrypt2 (rks : list block2) (blk : block2) : block2 :=
  match rks with
  | [] => blk
  | k0 :: rest =>
    let mid := removelast rest in
    let kl := last rest [] in
    let st := fold_left enc_round mid (xor_block blk k0) in
    xor_block (shift_rows (sub_bytes st)) kl
  end.
Definition decrypt2 (rks : list block2) (blk : block2) : block2 :=
  match rks with
  | [] => blk
  | k0 :: rest =>
    let mid := removelast rest in
    let kl := last rest [] in
    let st := isub_bytes (ishift_rows (xor_block blk kl)) in
    xor_block (fold_left dec_round (rev mid) st) k0
  end.

Definition encrypt_with (rks : list block2) (blk : bytes) : bytes :=
  map b2_to_N (encrypt2 rks (map b2_of_N blk)).
Definition decrypt_with (rks : list block2) (blk : bytes) : bytes :=
  map b2_to_N (decrypt2 rks (map b2_of_N blk)).

Definition aes_encrypt_block (key blk : bytes) : bytes := encrypt_with (round_keys key) blk.
Definition aes_decrypt_block (key blk : bytes) : bytes := decrypt_with (round_keys key) blk.
