(* The premise [AES_correct] of the round-trip and revision-6 lemmas is a theorem. *)
From Coq Require Import List NArith Bool.
From GoPdf.Base Require Import Bytes.
From GoPdf.C09 Require Import AES AESProofs StdSecProofs.

Lemma aes_correct_l : AES_correct.
Proof.
  unfold AES_correct, aes_key_len. repeat split.
  - exact aes_with_inv.
  - exact aes_enc_length.
  - intros key b. apply aes_enc_wf.
Qed.

(* ---- strings and streams under the per-object key of Algorithm 1 ---------------------------------- *)
From Coq Require Import ZArith Lia.
From GoPdf.Base Require Import Res.
From GoPdf.C09 Require Import MD5 MD5Proofs StdSec.
Import ListNotations.

(* AES is used with 128-bit keys in revision 4 (so keybytes + 5 >= 16) and with the 256-bit file key in revision 6 *)
Definition obj_side (R : Z) (kb : nat) (fkey : bytes) (aes : bool) (iv data : bytes) : Prop :=
  aes = true ->
  (((R <? 5)%Z = true /\ (11 <= kb)%nat) \/ ((R <? 5)%Z = false /\ aes_key_len fkey))
  /\ length iv = 16%nat /\ wfbs iv = true /\ wfbs data = true.

Lemma key_for_ref_len R kb fkey num gen iv data : obj_side R kb fkey true iv data ->
  aes_key_len (key_for_ref R kb fkey true num gen).
Proof.
  intros H. destruct (H eq_refl) as ([[HR Hk]|[HR Hk]] & _); unfold key_for_ref; rewrite HR.
  - left. rewrite firstn_length, md5_length. lia.
  - exact Hk.
Qed.

Lemma object_string_rt_l R kb fkey aes num gen iv data : obj_side R kb fkey aes iv data ->
  decrypt_bytes aes (key_for_ref R kb fkey aes num gen)
    (encrypt_bytes aes (key_for_ref R kb fkey aes num gen) iv data) = Ok data.
Proof.
  intros H. apply (bytes_rt_s aes_correct_l). intros ->. destruct (H eq_refl) as (_ & Hi & Hw & Hd).
  repeat split; try assumption. eapply key_for_ref_len; eassumption.
Qed.

Lemma object_stream_rt_l R kb fkey aes num gen iv writes : obj_side R kb fkey aes iv (concat writes) ->
  decrypt_stream aes (key_for_ref R kb fkey aes num gen)
    (encrypt_stream aes (key_for_ref R kb fkey aes num gen) iv writes) = Ok (concat writes).
Proof.
  intros H. apply (stream_rt_s aes_correct_l). intros ->. destruct (H eq_refl) as (_ & Hi & Hw & Hd).
  repeat split; try assumption. eapply key_for_ref_len; eassumption.
Qed.
