(* Fixed-width words on N and byte-string conversions. *)
From Coq Require Import List NArith.
From GoPdf.Base Require Import Bytes.
Import ListNotations.
Open Scope N_scope.

Definition mask (w : N) : N := N.ones w.
Definition addw (w a b : N) : N := N.land (a + b) (mask w).
Definition notw (w a : N) : N := N.lxor (N.land a (mask w)) (mask w).
Definition rotl (w x n : N) : N := N.land (N.lor (N.shiftl x n) (N.shiftr x (w - n))) (mask w).
Definition rotr (w x n : N) : N := N.land (N.lor (N.shiftr x n) (N.shiftl x (w - n))) (mask w).

(* little endian / big endian, k bytes *)
Fixpoint le_bytes (k : nat) (x : N) : bytes :=
  match k with O => [] | S k' => N.land x 255 :: le_bytes k' (N.shiftr x 8) end.
Fixpoint be_bytes (k : nat) (x : N) : bytes :=
  match k with O => [] | S k' => N.land (N.shiftr x (8 * N.of_nat k')) 255 :: be_bytes k' x end.
Fixpoint le_word (l : bytes) : N :=
  match l with [] => 0 | b :: r => b + 256 * le_word r end.
Definition be_word (l : bytes) : N := fold_left (fun acc b => 256 * acc + b) l 0.

(* split into chunks of n (n > 0); a short tail is kept as last chunk *)
Fixpoint chunks_fuel (fuel : nat) (n : nat) (l : bytes) : list bytes :=
  match fuel with
  | O => []
  | S f => match l with [] => [] | _ => firstn n l :: chunks_fuel f n (skipn n l) end
  end.
Definition chunks (n : nat) (l : bytes) : list bytes := chunks_fuel (length l) n l.

Fixpoint zeros (n : nat) : bytes := match n with O => [] | S k => 0 :: zeros k end.

Fixpoint xor_bytes (a b : bytes) : bytes :=
  match a, b with x :: a', y :: b' => N.lxor x y :: xor_bytes a' b' | _, _ => [] end.
