(* SHA-256, SHA-384, SHA-512 (FIPS 180-4), executable; one generic core. *)
From Coq Require Import List NArith.
From GoPdf.Base Require Import Bytes.
From GoPdf.C09 Require Import Word Nib NWord.
Import ListNotations.
Open Scope N_scope.

Definition k256 : list N := [
   1116352408; 1899447441; 3049323471; 3921009573; 961987163; 1508970993; 2453635748; 2870763221;
   3624381080; 310598401; 607225278; 1426881987; 1925078388; 2162078206; 2614888103; 3248222580;
   3835390401; 4022224774; 264347078; 604807628; 770255983; 1249150122; 1555081692; 1996064986;
   2554220882; 2821834349; 2952996808; 3210313671; 3336571891; 3584528711; 113926993; 338241895;
   666307205; 773529912; 1294757372; 1396182291; 1695183700; 1986661051; 2177026350; 2456956037;
   2730485921; 2820302411; 3259730800; 3345764771; 3516065817; 3600352804; 4094571909; 275423344;
   430227734; 506948616; 659060556; 883997877; 958139571; 1322822218; 1537002063; 1747873779;
   1955562222; 2024104815; 2227730452; 2361852424; 2428436474; 2756734187; 3204031479; 3329325298].
Definition iv256 : list N := [
   1779033703; 3144134277; 1013904242; 2773480762; 1359893119; 2600822924; 528734635; 1541459225].
Definition k512 : list N := [
   4794697086780616226; 8158064640168781261; 13096744586834688815; 16840607885511220156;
   4131703408338449720; 6480981068601479193; 10538285296894168987; 12329834152419229976;
   15566598209576043074; 1334009975649890238; 2608012711638119052; 6128411473006802146;
   8268148722764581231; 9286055187155687089; 11230858885718282805; 13951009754708518548;
   16472876342353939154; 17275323862435702243; 1135362057144423861; 2597628984639134821;
   3308224258029322869; 5365058923640841347; 6679025012923562964; 8573033837759648693;
   10970295158949994411; 12119686244451234320; 12683024718118986047; 13788192230050041572;
   14330467153632333762; 15395433587784984357; 489312712824947311; 1452737877330783856;
   2861767655752347644; 3322285676063803686; 5560940570517711597; 5996557281743188959;
   7280758554555802590; 8532644243296465576; 9350256976987008742; 10552545826968843579;
   11727347734174303076; 12113106623233404929; 14000437183269869457; 14369950271660146224;
   15101387698204529176; 15463397548674623760; 17586052441742319658; 1182934255886127544;
   1847814050463011016; 2177327727835720531; 2830643537854262169; 3796741975233480872;
   4115178125766777443; 5681478168544905931; 6601373596472566643; 7507060721942968483;
   8399075790359081724; 8693463985226723168; 9568029438360202098; 10144078919501101548;
   10430055236837252648; 11840083180663258601; 13761210420658862357; 14299343276471374635;
   14566680578165727644; 15097957966210449927; 16922976911328602910; 17689382322260857208;
   500013540394364858; 748580250866718886; 1242879168328830382; 1977374033974150939;
   2944078676154940804; 3659926193048069267; 4368137639120453308; 4836135668995329356;
   5532061633213252278; 6448918945643986474; 6902733635092675308; 7801388544844847127].
Definition iv512 : list N := [
   7640891576956012808; 13503953896175478587; 4354685564936845355; 11912009170470909681;
   5840696475078001361; 11170449401992604703; 2270897969802886507; 6620516959819538809].
Definition iv384 : list N := [
   14680500436340154072; 7105036623409894663; 10473403895298186519; 1526699215303891257;
   7436329637833083697; 10282925794625328401; 15784041429090275239; 5167115440072839076].

Record sha_params := {
  sp_digits : nat;     (* word size in 4-bit digits *)
  sp_wbytes : nat;
  sp_k : list word;
  sp_S0 : (nat * nat) * (nat * nat) * (nat * nat);   (* rotations of Sigma0 *)
  sp_S1 : (nat * nat) * (nat * nat) * (nat * nat);
  sp_s0 : (nat * nat) * (nat * nat) * (nat * nat);   (* rot, rot, shift of sigma0 *)
  sp_s1 : (nat * nat) * (nat * nat) * (nat * nat)
}.

Definition rots (r : nat * nat * nat) := let '(a, b, c) := r in (qr a, qr b, qr c).

Definition p256 : sha_params :=
  {| sp_digits := 8; sp_wbytes := 4; sp_k := map (word_of_N 8) k256;
     sp_S0 := rots (2, 13, 22)%nat; sp_S1 := rots (6, 11, 25)%nat; sp_s0 := rots (7, 18, 3)%nat; sp_s1 := rots (17, 19, 10)%nat |}.
Definition p512 : sha_params :=
  {| sp_digits := 16; sp_wbytes := 8; sp_k := map (word_of_N 16) k512;
     sp_S0 := rots (28, 34, 39)%nat; sp_S1 := rots (14, 18, 41)%nat; sp_s0 := rots (1, 8, 7)%nat; sp_s1 := rots (19, 61, 6)%nat |}.

Definition bigS (r : (nat * nat) * (nat * nat) * (nat * nat)) (x : word) : word :=
  let '(a, b, c) := r in wxor (wrotr_qr a x) (wxor (wrotr_qr b x) (wrotr_qr c x)).
Definition smallS (r : (nat * nat) * (nat * nat) * (nat * nat)) (x : word) : word :=
  let '(a, b, c) := r in wxor (wrotr_qr a x) (wxor (wrotr_qr b x) (wshr_qr c x)).

Definition nthW (l : list word) (i : nat) : word := nth i l [].

(* state: 8 working variables and the window W[t..t+15] *)
Definition sha_round (p : sha_params) (st : list word * list word) (k : word) : list word * list word :=
  let '(v, win) := st in
  match v with
  | [a; b; c; d; e; f; g; h] =>
    let wt := nthW win 0 in
    let ch := wxor g (wand e (wxor f g)) in           (* = (e and f) xor (not e and g) *)
    let maj := wor (wand a b) (wand c (wor a b)) in     (* = majority of a, b, c *)
    let t1 := wadd (wadd (wadd (wadd h (bigS (sp_S1 p) e)) ch) k) wt in
    let t2 := wadd (bigS (sp_S0 p) a) maj in
    let nw := wadd (wadd (wadd (smallS (sp_s1 p) (nthW win 14)) (nthW win 9))
                         (smallS (sp_s0 p) (nthW win 1))) wt in
    ([wadd t1 t2; a; b; c; wadd d t1; e; f; g], tl win ++ [nw])
  | _ => st
  end.

Definition sha_block (p : sha_params) (h : list word) (blk : bytes) : list word :=
  let win := map word_of_be (chunks (sp_wbytes p) blk) in
  let '(v, _) := fold_left (sha_round p) (sp_k p) (h, win) in
  map (fun xy => wadd (fst xy) (snd xy)) (combine h v).

Definition sha_pad (p : sha_params) (msg : bytes) : bytes :=
  let len := N.of_nat (length msg) in
  let blk := 16 * N.of_nat (sp_wbytes p) in
  let lf := 2 * N.of_nat (sp_wbytes p) in
  msg ++ 128 :: zeros (N.to_nat ((blk - lf + blk - ((len + 1) mod blk)) mod blk))
      ++ be_bytes (N.to_nat lf) (8 * len).

Definition sha_core (p : sha_params) (iv : list N) (msg : bytes) : bytes :=
  let h := fold_left (sha_block p) (chunks (16 * sp_wbytes p) (sha_pad p msg))
                     (map (word_of_N (sp_digits p)) iv) in
  concat (map be_of_word h).

Definition sha256 (msg : bytes) : bytes := sha_core p256 iv256 msg.
Definition sha512 (msg : bytes) : bytes := sha_core p512 iv512 msg.
Definition sha384 (msg : bytes) : bytes := firstn 48 (sha_core p512 iv384 msg).
