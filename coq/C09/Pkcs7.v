(* PKCS#7 padding to 16-byte blocks as used by the AES crypt filters (crypto.go: EncryptBytes,
   encryptWriter.Close, unpadPKCS7) and CBC chaining over a block cipher given as parameter. *)
From Coq Require Import List NArith Bool.
From GoPdf.Base Require Import Bytes Res.
From GoPdf.C09 Require Import Word.
Import ListNotations.
Open Scope N_scope.

Definition pad_len (n : nat) : nat := 16 - Nat.modulo n 16.

Definition pad (x : bytes) : bytes :=
  let k := pad_len (length x) in x ++ repeat (N.of_nat k) k.

Definition lastn (k : nat) (l : bytes) : bytes := skipn (length l - k) l.

(* unpadPKCS7: the length must be a non-zero multiple of 16, the last byte p must satisfy
   1 <= p <= 16 and each of the last p bytes must equal p; the error is errCorrupted. *)
Definition unpad (buf : bytes) : res bytes :=
  let n := length buf in
  if Nat.ltb n 16 || negb (Nat.eqb (Nat.modulo n 16) 0) then Err Other else
  let p := last buf 0 in
  if (1 <=? p) && (p <=? 16) && forallb (fun x => x =? p) (lastn (N.to_nat p) buf)
  then Ok (firstn (n - N.to_nat p) buf)
  else Err Other.

Section CBC.
  Variable enc dec : bytes -> bytes.   (* the block cipher under a fixed key *)

  Fixpoint cbc_enc_blocks (prev : bytes) (blocks : list bytes) : bytes :=
    match blocks with
    | [] => []
    | b :: r => let c := enc (xor_bytes b prev) in c ++ cbc_enc_blocks c r
    end.

  Fixpoint cbc_dec_blocks (prev : bytes) (blocks : list bytes) : bytes :=
    match blocks with
    | [] => []
    | c :: r => xor_bytes (dec c) prev ++ cbc_dec_blocks c r
    end.

  Definition cbc_enc (iv data : bytes) : bytes := cbc_enc_blocks iv (chunks 16 data).
  Definition cbc_dec (iv data : bytes) : bytes := cbc_dec_blocks iv (chunks 16 data).

  (* encryptWriter: [pend] holds the bytes of the incomplete block (fewer than 16),
     [prev] the last ciphertext block (initially the IV).  Write copies the caller's bytes into
     the block buffer and emits a block whenever it is full; this is the same as feeding the
     bytes one at a time. *)
  Fixpoint ew_feed (prev pend data : bytes) : bytes * (bytes * bytes) :=
    match data with
    | [] => ([], (prev, pend))
    | b :: r =>
      let pend' := pend ++ [b] in
      if Nat.leb 16 (length pend') then
        let c := enc (xor_bytes pend' prev) in
        let '(out, st) := ew_feed c [] r in (c ++ out, st)
      else ew_feed prev pend' r
    end.

  (* a sequence of Write calls *)
  Fixpoint ew_writes (prev pend : bytes) (writes : list bytes) : bytes * (bytes * bytes) :=
    match writes with
    | [] => ([], (prev, pend))
    | w :: r =>
      let '(o1, (prev', pend')) := ew_feed prev pend w in
      let '(o2, st) := ew_writes prev' pend' r in (o1 ++ o2, st)
    end.

  (* Close: pad the incomplete block with kPad = 16 - pos and emit it *)
  Definition ew_close (prev pend : bytes) : bytes :=
    let k := (16 - length pend)%nat in
    enc (xor_bytes (pend ++ repeat (N.of_nat k) k) prev).

  (* EncryptStream: IV, then what the writes emit, then the final block *)
  Definition encrypt_stream_aes (iv : bytes) (writes : list bytes) : bytes :=
    let '(out, (prev, pend)) := ew_writes iv [] writes in
    iv ++ out ++ ew_close prev pend.

  (* EncryptBytes (AES branch): iv | cbc(data | padding) *)
  Definition encrypt_bytes_aes (iv data : bytes) : bytes := iv ++ cbc_enc iv (pad data).

  (* DecryptBytes (AES branch) *)
  Definition decrypt_bytes_aes (buf : bytes) : res bytes :=
    let n := length buf in
    if Nat.ltb n 32 || negb (Nat.eqb (Nat.modulo n 16) 0) then Err Other
    else unpad (cbc_dec (firstn 16 buf) (skipn 16 buf)).

  (* DecryptStream + decryptReader read to the end: a short IV is an I/O level error
     (io.ErrUnexpectedEOF / io.EOF from ReadFull), a body that is not a multiple of 16 is
     errCorrupted, an empty body yields no data at all. *)
  Definition decrypt_stream_aes (buf : bytes) : res bytes :=
    if Nat.ltb (length buf) 16 then Err EOF else
    let body := skipn 16 buf in
    match body with
    | [] => Ok []
    | _ => if negb (Nat.eqb (Nat.modulo (length body) 16) 0) then Err Other
           else unpad (cbc_dec (firstn 16 buf) body)
    end.
End CBC.
