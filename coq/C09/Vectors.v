(* Known-answer tests of the executable primitives (vm_compute on closed terms):
   RFC 1321 (MD5), RFC 6229-style RC4 vectors, FIPS 180-4 (SHA-2), FIPS 197 (AES),
   NIST SP 800-38A (CBC). *)
From Coq Require Import List NArith Bool String Ascii.
From GoPdf.Base Require Import Bytes.
From GoPdf.C09 Require Import Word MD5 RC4 SHA2 AES Pkcs7.
Import ListNotations.
Open Scope N_scope.

Fixpoint ascii_bytes (s : string) : bytes :=
  match s with EmptyString => [] | String c r => N_of_ascii c :: ascii_bytes r end.

Definition hexval (c : ascii) : N :=
  let n := N_of_ascii c in
  if (48 <=? n) && (n <=? 57) then n - 48 else if (97 <=? n) && (n <=? 102) then n - 87 else n - 55.
Fixpoint hex (s : string) : bytes :=
  match s with
  | String a (String b r) => 16 * hexval a + hexval b :: hex r
  | _ => []
  end.

(* RFC 1321, A.5 *)
Example md5_empty : md5 [] = hex "d41d8cd98f00b204e9800998ecf8427e". Proof. vm_compute. reflexivity. Qed.
Example md5_a : md5 (ascii_bytes "a") = hex "0cc175b9c0f1b6a831c399e269772661". Proof. vm_compute. reflexivity. Qed.
Example md5_abc : md5 (ascii_bytes "abc") = hex "900150983cd24fb0d6963f7d28e17f72". Proof. vm_compute. reflexivity. Qed.
Example md5_md : md5 (ascii_bytes "message digest") = hex "f96b697d7cb7938d525a2f31aaf161d0". Proof. vm_compute. reflexivity. Qed.
Example md5_alpha : md5 (ascii_bytes "abcdefghijklmnopqrstuvwxyz") = hex "c3fcd3d76192e4007dfb496cca67e13b".
Proof. vm_compute. reflexivity. Qed.
Example md5_62 : md5 (ascii_bytes "ABCDEFGHIJKLMNOPQRSTUVWXYZabcdefghijklmnopqrstuvwxyz0123456789")
  = hex "d174ab98d277d9f5a5611c2c9f419d9f". Proof. vm_compute. reflexivity. Qed.
Example md5_80 : md5 (ascii_bytes "12345678901234567890123456789012345678901234567890123456789012345678901234567890")
  = hex "57edf4a22be3c955ac49da2e2107b67a". Proof. vm_compute. reflexivity. Qed.

(* RC4: the classic test vectors *)
Example rc4_key : rc4 (ascii_bytes "Key") (ascii_bytes "Plaintext") = hex "bbf316e8d940af0ad3".
Proof. vm_compute. reflexivity. Qed.
Example rc4_wiki : rc4 (ascii_bytes "Wiki") (ascii_bytes "pedia") = hex "1021bf0420". Proof. vm_compute. reflexivity. Qed.
Example rc4_secret : rc4 (ascii_bytes "Secret") (ascii_bytes "Attack at dawn") = hex "45a01f645fc35b383552544b9bf5".
Proof. vm_compute. reflexivity. Qed.
(* RFC 6229, 40-bit key 0102030405, first 16 bytes of the key stream *)
Example rc4_rfc6229_40 : rc4 (hex "0102030405") (zeros 16) = hex "b2396305f03dc027ccc3524a0a1118a8".
Proof. vm_compute. reflexivity. Qed.
(* RFC 6229, 128-bit key *)
Example rc4_rfc6229_128 : rc4 (hex "0102030405060708090a0b0c0d0e0f10") (zeros 16) = hex "9ac7cc9a609d1ef7b2932899cde41b97".
Proof. vm_compute. reflexivity. Qed.

(* FIPS 180-4 / NIST example values *)
Example sha256_abc : sha256 (ascii_bytes "abc") = hex "ba7816bf8f01cfea414140de5dae2223b00361a396177a9cb410ff61f20015ad".
Proof. vm_compute. reflexivity. Qed.
Example sha256_empty : sha256 [] = hex "e3b0c44298fc1c149afbf4c8996fb92427ae41e4649b934ca495991b7852b855".
Proof. vm_compute. reflexivity. Qed.
Example sha256_448 : sha256 (ascii_bytes "abcdbcdecdefdefgefghfghighijhijkijkljklmklmnlmnomnopnopq")
  = hex "248d6a61d20638b8e5c026930c3e6039a33ce45964ff2167f6ecedd419db06c1". Proof. vm_compute. reflexivity. Qed.
Example sha384_abc : sha384 (ascii_bytes "abc")
  = hex "cb00753f45a35e8bb5a03d699ac65007272c32ab0eded1631a8b605a43ff5bed8086072ba1e7cc2358baeca134c825a7".
Proof. vm_compute. reflexivity. Qed.
Example sha384_empty : sha384 []
  = hex "38b060a751ac96384cd9327eb1b1e36a21fdb71114be07434c0cc7bf63f6e1da274edebfe76f65fbd51ad2f14898b95b".
Proof. vm_compute. reflexivity. Qed.
Example sha512_abc : sha512 (ascii_bytes "abc")
  = hex "ddaf35a193617abacc417349ae20413112e6fa4e89a97ea20a9eeee64b55d39a2192992a274fc1a836ba3c23a3feebbd454d4423643ce80e2a9ac94fa54ca49f".
Proof. vm_compute. reflexivity. Qed.
Example sha512_896 : sha512 (ascii_bytes "abcdefghbcdefghicdefghijdefghijkefghijklfghijklmghijklmnhijklmnoijklmnopjklmnopqklmnopqrlmnopqrsmnopqrstnopqrstu")
  = hex "8e959b75dae313da8cf4f72814fc143f8f7779c6eb9f7fa17299aeadb6889018501d289e4900f7e4331b99dec4b5433ac7d329eeb6dd26545e96e55b874be909".
Proof. vm_compute. reflexivity. Qed.
Example sha384_896 : sha384 (ascii_bytes "abcdefghbcdefghicdefghijdefghijkefghijklfghijklmghijklmnhijklmnoijklmnopjklmnopqklmnopqrlmnopqrsmnopqrstnopqrstu")
  = hex "09330c33f71147e83d192fc782cd1b4753111b173b3b05d22fa08086e3b0f712fcc7c71a557e2db966c3e9fa91746039".
Proof. vm_compute. reflexivity. Qed.

(* FIPS 197, Appendix C.1 and C.3 *)
Example aes128_c1 : aes_encrypt_block (hex "000102030405060708090a0b0c0d0e0f") (hex "00112233445566778899aabbccddeeff")
  = hex "69c4e0d86a7b0430d8cdb78070b4c55a". Proof. vm_compute. reflexivity. Qed.
Example aes128_c1_dec : aes_decrypt_block (hex "000102030405060708090a0b0c0d0e0f") (hex "69c4e0d86a7b0430d8cdb78070b4c55a")
  = hex "00112233445566778899aabbccddeeff". Proof. vm_compute. reflexivity. Qed.
Example aes256_c3 : aes_encrypt_block (hex "000102030405060708090a0b0c0d0e0f101112131415161718191a1b1c1d1e1f")
  (hex "00112233445566778899aabbccddeeff") = hex "8ea2b7ca516745bfeafc49904b496089". Proof. vm_compute. reflexivity. Qed.
Example aes256_c3_dec : aes_decrypt_block (hex "000102030405060708090a0b0c0d0e0f101112131415161718191a1b1c1d1e1f")
  (hex "8ea2b7ca516745bfeafc49904b496089") = hex "00112233445566778899aabbccddeeff". Proof. vm_compute. reflexivity. Qed.
(* FIPS 197, Appendix B *)
Example aes128_b : aes_encrypt_block (hex "2b7e151628aed2a6abf7158809cf4f3c") (hex "3243f6a8885a308d313198a2e0370734")
  = hex "3925841d02dc09fbdc118597196a0b32". Proof. vm_compute. reflexivity. Qed.

(* NIST SP 800-38A, F.2.1 (CBC-AES128.Encrypt), F.2.5 (CBC-AES256.Encrypt), first two blocks *)
Definition sp_iv := hex "000102030405060708090a0b0c0d0e0f".
Definition sp_pt := hex "6bc1bee22e409f96e93d7e117393172aae2d8a571e03ac9c9eb76fac45af8e51".
Example cbc128 : cbc_enc (aes_encrypt_block (hex "2b7e151628aed2a6abf7158809cf4f3c")) sp_iv sp_pt
  = hex "7649abac8119b246cee98e9b12e9197d5086cb9b507219ee95db113a917678b2". Proof. vm_compute. reflexivity. Qed.
Example cbc128_dec : cbc_dec (aes_decrypt_block (hex "2b7e151628aed2a6abf7158809cf4f3c")) sp_iv
  (hex "7649abac8119b246cee98e9b12e9197d5086cb9b507219ee95db113a917678b2") = sp_pt. Proof. vm_compute. reflexivity. Qed.
Example cbc256 : cbc_enc (aes_encrypt_block (hex "603deb1015ca71be2b73aef0857d77811f352c073b6108d72d9810a30914dff4")) sp_iv sp_pt
  = hex "f58c4c04d6e5f1ba779eabfb5f7bfbd69cfc4e967edb808d679f777bc6702c7d". Proof. vm_compute. reflexivity. Qed.

(* constants for the Examples of Prop_C09 / Prop_C10 *)
Definition ex_block := hex "00112233445566778899aabbccddeeff".
Definition ex_user_pw := ascii_bytes "user".
Definition ex_owner_pw := ascii_bytes "owner".
Definition ex_wrong_pw := ascii_bytes "wrong".
Definition ex_key256 := hex "000102030405060708090a0b0c0d0e0f101112131415161718191a1b1c1d1e1f".
Definition ex_key128 := hex "000102030405060708090a0b0c0d0e0f".
Definition ex_iv := hex "0f0e0d0c0b0a09080706050403020100".
Definition ex_text := ascii_bytes "secret text".
