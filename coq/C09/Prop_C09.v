(* C09 - Encryption: correct passwords recover everything, wrong ones nothing.
   Statements only; proofs are in PermProofs, RC4Proofs, Pkcs7Proofs, StdSecProofs. *)
From Coq Require Import List NArith ZArith Bool.
From GoPdf.Base Require Import Bytes Res.
From GoPdf.Gen Require Import Gen_Consts Gen_Perm.
From GoPdf.C09 Require Import Word MD5 RC4 SHA2 AES Pkcs7 StdSec Perm Vectors
  PermProofs RC4Proofs Pkcs7Proofs StdSecProofs AESProofs AESCorrect ReadModel ReadProofs ApiProofs ParseModel ParseProofs.
Import ListNotations.

(* ---- permission algebra (over the functions translated from crypto.go) ------------------- *)

Theorem perm_exact : forall R perm : Z, In R [2; 3; 4; 6]%Z -> (0 <= perm < 128)%Z ->
  (R = 2%Z -> canR2 perm = true) ->
  stdSecPToPerm R (stdSecPermToP perm) = close perm.
Proof. exact perm_exact_l. Qed.
Print Assumptions perm_exact.

(* /P clears bits 1-2, sets every reserved bit, fits 32 bits, and each meaningful bit says what
   ISO 32000 Table 22 assigns to it *)
Theorem perm_p_shape : forall perm : Z, (0 <= perm < 128)%Z ->
  p_shape_ok (stdSecPermToP perm) = true /\ p_bits_ok perm (stdSecPermToP perm) = true.
Proof. exact p_shape_l. Qed.
Print Assumptions perm_p_shape.

(* the implications form a closure: idempotent, extensive, inside [0,128) *)
Theorem perm_close : forall p : Z, (0 <= p < 128)%Z ->
  close (close p) = close p /\ Z.land (close p) p = p /\ (0 <= close p < 128)%Z.
Proof. exact close_props_l. Qed.
Print Assumptions perm_close.

(* ---- PKCS#7 ----------------------------------------------------------------------------------- *)

Theorem pkcs7 : forall x : bytes, unpad (pad x) = Ok x.
Proof. exact unpad_pad_l. Qed.
Print Assumptions pkcs7.

(* unpad rejects every string that is not a padded string *)
Theorem pkcs7_rejects : forall b x : bytes, unpad b = Ok x -> b = pad x.
Proof. exact unpad_only_pad_l. Qed.
Print Assumptions pkcs7_rejects.

(* ---- RC4 -------------------------------------------------------------------------------------- *)

Theorem rc4_involution : forall key data : bytes, rc4 key (rc4 key data) = data.
Proof. exact rc4_involution_l. Qed.
Print Assumptions rc4_involution.

(* ---- strings and streams ------------------------------------------------------------------------ *)

(* the executable AES of AES.v (FIPS 197 structure, table-driven): on 16-byte blocks of bytes < 256 and
   16- or 32-byte keys decryption inverts encryption; ciphertext blocks are 16 well-formed bytes *)
Theorem aes_correct :
  (forall key b : bytes, (length key = 16 \/ length key = 32)%nat -> length b = 16%nat -> wfbs b = true ->
     decrypt_with (round_keys key) (encrypt_with (round_keys key) b) = b) /\
  (forall key b : bytes, (length key = 16 \/ length key = 32)%nat -> length b = 16%nat ->
     length (encrypt_with (round_keys key) b) = 16%nat) /\
  (forall key b : bytes, wfbs (encrypt_with (round_keys key) b) = true).
Proof. exact aes_correct_l. Qed.
Print Assumptions aes_correct.

(* [aes_side] asks, in the AES case only, for a 16/32-byte object key, a 16-byte IV, and bytes < 256. *)
Theorem bytes_rt : forall (aes : bool) (okey iv data : bytes), aes_side aes okey iv data ->
  decrypt_bytes aes okey (encrypt_bytes aes okey iv data) = Ok data.
Proof. exact (bytes_rt_s aes_correct_l). Qed.
Print Assumptions bytes_rt.

(* for every sequence of Write calls *)
Theorem stream_rt : forall (aes : bool) (okey iv : bytes) (writes : list bytes),
  aes_side aes okey iv (concat writes) ->
  decrypt_stream aes okey (encrypt_stream aes okey iv writes) = Ok (concat writes).
Proof. exact (stream_rt_s aes_correct_l). Qed.
Print Assumptions stream_rt.

(* the same under the per-object key of Algorithm 1, for every file key, object number and generation:
   [obj_side] asks, in the AES case only, for a 128-bit key length in revisions <= 4 (keybytes + 5 >= 16) or a
   16/32-byte file key in revisions >= 5, a 16-byte IV and bytes < 256 (the model's MD5 is proved to return 16 bytes) *)
Theorem object_string_rt : forall (R : Z) (kb : nat) (fkey : bytes) (aes : bool) (num gen : N) (iv data : bytes),
  obj_side R kb fkey aes iv data ->
  decrypt_bytes aes (key_for_ref R kb fkey aes num gen)
    (encrypt_bytes aes (key_for_ref R kb fkey aes num gen) iv data) = Ok data.
Proof. exact object_string_rt_l. Qed.
Print Assumptions object_string_rt.

Theorem object_stream_rt : forall (R : Z) (kb : nat) (fkey : bytes) (aes : bool) (num gen : N) (iv : bytes) (writes : list bytes),
  obj_side R kb fkey aes iv (concat writes) ->
  decrypt_stream aes (key_for_ref R kb fkey aes num gen)
    (encrypt_stream aes (key_for_ref R kb fkey aes num gen) iv writes) = Ok (concat writes).
Proof. exact object_stream_rt_l. Qed.
Print Assumptions object_stream_rt.

(* the ciphertext depends on the data only, not on how it was cut into writes *)
Theorem stream_chunking : forall (aes : bool) (okey iv : bytes) (w1 w2 : list bytes),
  (aes = true -> length iv = 16%nat) -> concat w1 = concat w2 ->
  encrypt_stream aes okey iv w1 = encrypt_stream aes okey iv w2.
Proof. exact stream_chunking_l. Qed.
Print Assumptions stream_chunking.

(* the read side: DecryptStream read through io.Reader calls.  The source hands out pieces of arbitrary
   positive sizes ([sizes], minus one each; as much as fits once the list is used up) and reports io.EOF
   together with the last piece or on a later call ([early]); the consumer reads with buffers of arbitrary
   positive sizes ([cs]).  The outcome - the plaintext, or the error class - is that of the one-shot
   function of stream_rt, for every input including damaged ones (short IV, length not a multiple of 16,
   bad padding).  Fuel of the model's loops is shown sufficient inside the proof (no OutOfFuel outcome). *)
Theorem stream_read_chunking : forall (aes : bool) (okey buf : bytes) (sizes : list nat) (early : bool) (cs : list nat),
  (aes = true -> (length okey = 16 \/ length okey = 32)%nat) ->
  read_stream aes okey buf sizes early cs = decrypt_stream aes okey buf.
Proof. exact stream_read_chunking_s. Qed.
Print Assumptions stream_read_chunking.

(* ---- the permission algebra at the API level ------------------------------------------------------- *)

(* for every version 1.1 (=1) .. 2.0 (=8) and every permission set: the revision NewWriter selects is one of
   2, 3, 4, 6, it is 2 only if revision 2 can express the set, it is 6 exactly at version 2.0, and reading /P
   back under that revision gives the closed permission set *)
Theorem perm_api_exact : forall version perm : Z, (1 <= version <= 8)%Z -> (0 <= perm < 128)%Z ->
  exists R, choose_R (writer_V version) perm = Some R /\ In R [2; 3; 4; 6]%Z
            /\ (R = 2%Z -> canR2 perm = true)
            /\ ((version <= 7)%Z -> R = 2%Z \/ R = 3%Z \/ R = 4%Z) /\ (version = 8%Z -> R = 6%Z)
            /\ stdSecPToPerm R (stdSecPermToP perm) = close perm.
Proof. exact perm_api_exact_l. Qed.
Print Assumptions perm_api_exact.

(* hence: a file written at any version below 2.0 with any permission set reports exactly close(perm) (and
   yields the file key) when opened with the user password - unless that password also passes as owner password *)
Theorem api_user_perm : forall (version perm : Z) (id user owner : bytes) (pm : bool) (R : Z) (c : cls),
  (1 <= version <= 7)%Z -> (0 <= perm < 128)%Z -> choose_R (writer_V version) perm = Some R ->
  let h := fst (create_legacy R id user owner perm (writer_keybytes version) pm) in
  StdSec.auth_owner h (pad_passwd user) = Err c ->
  authenticate h user = Ok (close perm, snd (create_legacy R id user owner perm (writer_keybytes version) pm)).
Proof. exact api_user_perm_legacy_l. Qed.
Print Assumptions api_user_perm.

(* ---- /Encrypt: what AsDict writes, parseEncryptDict reads back ----------------------------------------- *)

(* for every version, permission set and metadata mode NewWriter accepts and every handler of the shape
   createStdSecHandler produces ([handler_shape]: /P a 32-bit value, /O /U of 32 resp. 48 bytes, /OE /UE /Perms
   of 32/32/16 bytes for revision 6): the dictionary AsDict builds is parsed by parseEncryptDict +
   openStdSecHandler + getCryptFilter into exactly the handler's parameters - revision, key length, /O /U /OE /UE
   /Perms, /P, the EncryptMetadata flag and the crypt filters for strings and streams *)
Theorem parse_asdict_rt : forall (version perm : Z) (h : handler),
  (1 <= version <= 8)%Z -> (0 <= perm < 128)%Z -> (hPlainMeta h = true -> (6 <= version)%Z) ->
  choose_R (writer_V version) perm = Some (hR h) -> handler_shape h ->
  let aes := fst (fst (writer_cipher version)) in
  let bits := snd (fst (writer_cipher version)) in
  exists d, as_dict h aes bits version = Some d /\ parse_encrypt d true = Ok (params_of h aes bits).
Proof. exact parse_asdict_rt_l. Qed.
Print Assumptions parse_asdict_rt.

(* the entry names of that dictionary are the ones C10's encrypt_dict_wf speaks about *)
Theorem as_dict_entry_names : forall (h : handler) (aes : bool) (bits version : Z),
  option_map (map fst) (as_dict h aes bits version) = as_dict_keys aes bits version (hR h) (hPlainMeta h).
Proof. exact as_dict_names. Qed.
Print Assumptions as_dict_entry_names.

(* ---- authentication, revisions 2-4 ------------------------------------------------------------ *)

Theorem auth_owner : forall (R : Z) (id user owner : bytes) (perm : Z) (kb : nat) (pm : bool),
  (R = 2 \/ R = 3 \/ R = 4)%Z ->
  authenticate (fst (create_legacy R id user owner perm kb pm)) owner
  = Ok (PermAll, snd (create_legacy R id user owner perm kb pm)).
Proof. exact auth_owner_legacy_l. Qed.
Print Assumptions auth_owner.

(* the user password always opens the file ... *)
Theorem auth_user_opens : forall (R : Z) (id user owner : bytes) (perm : Z) (kb : nat) (pm : bool),
  (R = 2 \/ R = 3 \/ R = 4)%Z ->
  exists p k, authenticate (fst (create_legacy R id user owner perm kb pm)) user = Ok (p, k).
Proof. exact auth_user_opens_legacy_l. Qed.
Print Assumptions auth_user_opens.

(* ... and unless it also passes as owner password it yields the file key and exactly the closed
   permission set *)
Theorem auth_user : forall (R : Z) (id user owner : bytes) (perm : Z) (kb : nat) (pm : bool) (c : cls),
  (R = 2 \/ R = 3 \/ R = 4)%Z -> (0 <= perm < 128)%Z -> (R = 2%Z -> canR2 perm = true) ->
  StdSec.auth_owner (fst (create_legacy R id user owner perm kb pm)) (pad_passwd user) = Err c ->
  authenticate (fst (create_legacy R id user owner perm kb pm)) user
  = Ok (close perm, snd (create_legacy R id user owner perm kb pm)).
Proof. exact auth_user_legacy_l. Qed.
Print Assumptions auth_user.

(* an empty user password: the empty attempt made first by the Reader succeeds, whatever is supplied *)
Theorem auth_empty_user : forall (R : Z) (id owner : bytes) (perm : Z) (kb : nat) (pm : bool) (supplied : bool) (pw : bytes),
  (R = 2 \/ R = 3 \/ R = 4)%Z ->
  is_ok (open_handler (fst (create_legacy R id [] owner perm kb pm)) supplied pw) = true.
Proof. exact empty_user_legacy_l. Qed.
Print Assumptions auth_empty_user.

(* wrong passwords; the two premises say that the password-to-/U map and the decryption of /O do not
   collide on the candidates the algorithm forms from p (a cryptographic assumption) *)
Theorem wrong_pw : forall (R : Z) (id user owner : bytes) (perm : Z) (kb : nat) (pm : bool) (p : bytes),
  (R = 2 \/ R = 3 \/ R = 4)%Z ->
  let h := fst (create_legacy R id user owner perm kb pm) in
  let uval q := u_cmp R (compute_U R id (file_key h q)) in
  (forall q, q = pad_passwd p \/ q = recover_user h (pad_passwd p) -> uval q = uval (pad_passwd user) -> q = pad_passwd user) ->
  (recover_user h (pad_passwd p) = pad_passwd user -> pad_passwd p = pad_passwd owner) ->
  pad_passwd p <> pad_passwd user -> pad_passwd p <> pad_passwd owner ->
  authenticate h p = Err Auth.
Proof. exact wrong_pw_legacy_l. Qed.
Print Assumptions wrong_pw.

(* wrong passwords, quantified over ALL candidate strings: the preparation (PDFDocEncoding) is a partial function
   [prep : option bytes] of the candidate; where it is undefined the candidate is rejected outright, where it is
   defined the premises of wrong_pw apply.  Hypothesis: the empty password does not already open the file. *)
Theorem wrong_password_rejected : forall (R : Z) (id user owner : bytes) (perm : Z) (kb : nat) (pm : bool) (prep : option bytes) (c : cls),
  (R = 2 \/ R = 3 \/ R = 4)%Z ->
  let h := fst (create_legacy R id user owner perm kb pm) in
  let uval q := u_cmp R (compute_U R id (file_key h q)) in
  authenticate h [] = Err c ->
  (forall p, prep = Some p ->
     (forall q, q = pad_passwd p \/ q = recover_user h (pad_passwd p) -> uval q = uval (pad_passwd user) -> q = pad_passwd user) /\
     (recover_user h (pad_passwd p) = pad_passwd user -> pad_passwd p = pad_passwd owner) /\
     pad_passwd p <> pad_passwd user /\ pad_passwd p <> pad_passwd owner) ->
  open_handler_prep h true prep = Err Auth.
Proof. exact wrong_password_rejected_legacy_l. Qed.
Print Assumptions wrong_password_rejected.

Theorem wrong_password_rejected_r6 : forall (id user owner : bytes) (perm : Z) (pm : bool) (fkey usalt osalt fill : bytes) (h : handler) (prep : option bytes) (c : cls),
  create6 id user owner perm pm fkey usalt osalt fill = Ok (h, fkey) ->
  authenticate h [] = Err c ->
  (forall p, prep = Some p ->
     (forall x, slow_hash (trunc_passwd p) (slice 32 40 (hU h)) [] = Ok x -> bytes_eqb x (firstn 32 (hU h)) = true ->
                trunc_passwd p = trunc_passwd user) /\
     (forall x, slow_hash (trunc_passwd p) (slice 32 40 (hO h)) (hU h) = Ok x -> bytes_eqb x (firstn 32 (hO h)) = true ->
                trunc_passwd p = trunc_passwd owner) /\
     trunc_passwd p <> trunc_passwd user /\ trunc_passwd p <> trunc_passwd owner) ->
  open_handler_prep h true prep = Err Auth.
Proof. exact wrong_password_rejected_r6_l. Qed.
Print Assumptions wrong_password_rejected_r6.

(* ---- authentication, revision 6 ------------------------------------------------------------------- *)

(* Algorithm 2.B always terminates within the fuel of the model and yields 32 bytes *)
Theorem slow_hash_total : forall passwd salt udata : bytes,
  exists r, slow_hash passwd salt udata = Ok r /\ length r = 32%nat.
Proof. exact slow_hash_cases. Qed.
Print Assumptions slow_hash_total.

Theorem create6_succeeds : forall (id user owner : bytes) (perm : Z) (pm : bool) (fkey usalt osalt fill : bytes),
  exists h, create6 id user owner perm pm fkey usalt osalt fill = Ok (h, fkey).
Proof. exact create6_total. Qed.
Print Assumptions create6_succeeds.

(* [r6_inputs]: the random inputs have the sizes crypto/rand delivers (32-byte key, 16-byte salts) *)
Theorem auth_owner_r6 : forall (id user owner : bytes) (perm : Z) (pm : bool) (fkey usalt osalt fill : bytes) (h : handler),
  create6 id user owner perm pm fkey usalt osalt fill = Ok (h, fkey) -> r6_inputs fkey usalt osalt fill ->
  authenticate h owner = Ok (PermAll, fkey).
Proof. exact (auth_owner_r6_s aes_correct_l). Qed.
Print Assumptions auth_owner_r6.

Theorem auth_user_opens_r6 : forall (id user owner : bytes) (perm : Z) (pm : bool) (fkey usalt osalt fill : bytes) (h : handler),
  create6 id user owner perm pm fkey usalt osalt fill = Ok (h, fkey) -> r6_inputs fkey usalt osalt fill ->
  exists p k, authenticate h user = Ok (p, k).
Proof. exact (auth_user_opens_r6_s aes_correct_l). Qed.
Print Assumptions auth_user_opens_r6.

Theorem auth_user_r6 : forall (id user owner : bytes) (perm : Z) (pm : bool) (fkey usalt osalt fill : bytes) (h : handler) (c : cls),
  create6 id user owner perm pm fkey usalt osalt fill = Ok (h, fkey) -> r6_inputs fkey usalt osalt fill ->
  (0 <= perm < 128)%Z -> auth_owner6 h (trunc_passwd user) = Err c ->
  authenticate h user = Ok (close perm, fkey).
Proof. exact (auth_user_r6_s aes_correct_l). Qed.
Print Assumptions auth_user_r6.

Theorem auth_empty_user_r6 : forall (id owner : bytes) (perm : Z) (pm : bool) (fkey usalt osalt fill : bytes) (h : handler) (supplied : bool) (pw : bytes),
  create6 id [] owner perm pm fkey usalt osalt fill = Ok (h, fkey) -> r6_inputs fkey usalt osalt fill ->
  is_ok (open_handler h supplied pw) = true.
Proof. exact (empty_user_r6_s aes_correct_l). Qed.
Print Assumptions auth_empty_user_r6.

(* wrong passwords, revision 6: premise = the validation hashes of Algorithms 11/12 do not collide *)
Theorem wrong_pw_r6 : forall (id user owner : bytes) (perm : Z) (pm : bool) (fkey usalt osalt fill : bytes) (h : handler),
  create6 id user owner perm pm fkey usalt osalt fill = Ok (h, fkey) -> forall p : bytes,
  (forall x, slow_hash (trunc_passwd p) (slice 32 40 (hU h)) [] = Ok x -> bytes_eqb x (firstn 32 (hU h)) = true ->
             trunc_passwd p = trunc_passwd user) ->
  (forall x, slow_hash (trunc_passwd p) (slice 32 40 (hO h)) (hU h) = Ok x -> bytes_eqb x (firstn 32 (hO h)) = true ->
             trunc_passwd p = trunc_passwd owner) ->
  trunc_passwd p <> trunc_passwd user -> trunc_passwd p <> trunc_passwd owner ->
  authenticate h p = Err Auth.
Proof. exact authenticate6_wrong. Qed.
Print Assumptions wrong_pw_r6.

(* ---- password preparation ------------------------------------------------------------------------- *)

Theorem pad_equiv : forall p q : bytes,
  (pad_passwd p = pad_passwd q <-> firstn 32 (p ++ pad_bytes) = firstn 32 (q ++ pad_bytes))
  /\ ((32 <= length p)%nat -> (32 <= length q)%nat -> (pad_passwd p = pad_passwd q <-> firstn 32 p = firstn 32 q))
  /\ ((length p <= 32)%nat -> length q = length p -> (pad_passwd p = pad_passwd q <-> p = q)).
Proof. exact pad_equiv_l. Qed.
Print Assumptions pad_equiv.

Theorem trunc_equiv : forall p q : bytes,
  ((length p <= 127)%nat -> (length q <= 127)%nat -> (trunc_passwd p = trunc_passwd q <-> p = q))
  /\ length (trunc_passwd p) = Nat.min 127 (length p).
Proof. exact trunc_passwd_equiv. Qed.
Print Assumptions trunc_equiv.

(* ---- the hypotheses are satisfiable --------------------------------------------------------------- *)

Definition ex_id := ex_block.
Definition ex_user := ex_user_pw.
Definition ex_owner := ex_owner_pw.
Definition ex_h := fst (create_legacy 2 ex_id ex_user ex_owner 6 5 false).

(* perm_exact / auth_user: 12 = Print + Forms is in range for R = 3 (closure 14);
   6 = Print + PrintDegraded can be expressed by R = 2 *)
Example ex_perm : In 3%Z [2; 3; 4; 6]%Z /\ (0 <= 12 < 128)%Z /\ close 12 = 14%Z /\ canR2 6 = true /\ close 6 = 6%Z.
Proof. repeat split; cbn; auto; discriminate. Qed.

(* auth_user: with different user and owner passwords the owner attempt with the user password fails *)
Example ex_owner_attempt_fails : StdSec.auth_owner ex_h (pad_passwd ex_user) = Err Auth.
Proof. vm_compute. reflexivity. Qed.
Example ex_auth_user : authenticate ex_h ex_user = Ok (6%Z, snd (create_legacy 2 ex_id ex_user ex_owner 6 5 false)).
Proof. vm_compute. reflexivity. Qed.

(* wrong_pw: both premises hold for the candidate "wrong" (decidable on this instance) *)
Example ex_wrong_premises :
  let p := ex_wrong_pw in
  let uval q := u_cmp 2 (compute_U 2 ex_id (file_key ex_h q)) in
  (forall q, q = pad_passwd p \/ q = recover_user ex_h (pad_passwd p) -> uval q = uval (pad_passwd ex_user) -> q = pad_passwd ex_user)
  /\ (recover_user ex_h (pad_passwd p) = pad_passwd ex_user -> pad_passwd p = pad_passwd ex_owner)
  /\ pad_passwd p <> pad_passwd ex_user /\ pad_passwd p <> pad_passwd ex_owner.
Proof.
  cbv zeta. repeat split.
  - intros q [-> | ->] H; exfalso; vm_compute in H; discriminate H.
  - intros H. exfalso. vm_compute in H. discriminate H.
  - intros H. vm_compute in H. discriminate H.
  - intros H. vm_compute in H. discriminate H.
Qed.

(* aes_correct instantiated on the FIPS 197 C.3 key and block *)
Example ex_aes_sample :
  let k := ex_key256 in
  let b := ex_block in
  aes_key_len k /\ decrypt_with (round_keys k) (encrypt_with (round_keys k) b) = b
  /\ length (encrypt_with (round_keys k) b) = 16%nat /\ wfbs (encrypt_with (round_keys k) b) = true.
Proof. cbv zeta. split; [right; reflexivity|]. vm_compute. auto. Qed.

(* aes_side / bytes_rt on an instance: AES-128 object key, IV, data *)
Example ex_bytes_rt :
  let k := ex_key128 in
  let iv := ex_iv in
  aes_side true k iv (ex_text) /\
  decrypt_bytes true k (encrypt_bytes true k iv (ex_text)) = Ok (ex_text).
Proof. cbv zeta. split; [intros _; repeat split; try reflexivity; left; reflexivity|vm_compute; reflexivity]. Qed.

(* obj_side on an instance: revision 4, 16-byte key length *)
Example ex_obj_side : obj_side 4 16 ex_key128 true ex_iv ex_text.
Proof. intros _. repeat split; try reflexivity. left. split; [reflexivity|]. repeat constructor. Qed.

(* handler_shape holds of a handler made by the model's createStdSecHandler *)
Example ex_handler_shape : handler_shape ex_h /\ choose_R (writer_V 2) 6 = Some (hR ex_h).
Proof. split; [|reflexivity]. unfold handler_shape. vm_compute. repeat split; intros; discriminate || reflexivity. Qed.

(* wrong_password_rejected: with a non-empty user password the empty attempt fails, and [None] needs no premise *)
Example ex_empty_attempt_fails : authenticate ex_h [] = Err Auth /\ open_handler_prep ex_h true None = Err Auth.
Proof. split; vm_compute; reflexivity. Qed.

(* r6_inputs / create6 on an instance would need Algorithm 2.B under vm_compute (minutes); the extracted
   model runs exactly this in every check run (cases "c"/"a" with R = 6) *)
Example ex_r6_inputs : r6_inputs (zeros 32) (zeros 16) (zeros 16) (zeros 4).
Proof. repeat split. Qed.
