(* RC4, executable.  The key stream depends on the key only. *)
From Coq Require Import List NArith.
From GoPdf.Base Require Import Bytes.
From GoPdf.C09 Require Import Tab.
Import ListNotations.
Open Scope N_scope.

Fixpoint iota (n : nat) (from : N) : list N :=
  match n with O => [] | S k => from :: iota k (from + 1) end.

Definition rc4_identity : tab := tab_of_list (iota 256 0).

(* key schedule: the key is consumed cyclically *)
Fixpoint rc4_ksa (idx : list N) (key cur : bytes) (j : N) (s : tab) : tab :=
  match idx with
  | [] => s
  | i :: rest =>
    let cur := match cur with [] => key | _ => cur end in
    match cur with
    | [] => s  (* empty key: crypto/rc4 rejects it; never happens (key length 5..16 or 32) *)
    | k :: cur' =>
      let si := tab_get s i in
      let j' := (j + si + k) mod 256 in
      let sj := tab_get s j' in
      rc4_ksa rest key cur' j' (tab_set (tab_set s i sj) j' si)
    end
  end.

Definition rc4_init (key : bytes) : tab := rc4_ksa (iota 256 0) key key 0 rc4_identity.

Fixpoint rc4_prga (s : tab) (i j : N) (data : bytes) : bytes :=
  match data with
  | [] => []
  | x :: rest =>
    let i' := (i + 1) mod 256 in
    let si := tab_get s i' in
    let j' := (j + si) mod 256 in
    let sj := tab_get s j' in
    let s' := tab_set (tab_set s i' sj) j' si in
    N.lxor x (tab_get s' ((si + sj) mod 256)) :: rc4_prga s' i' j' rest
  end.

Definition rc4 (key data : bytes) : bytes := rc4_prga (rc4_init key) 0 0 data.
