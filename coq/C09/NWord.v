(* Fixed-width words as lists of 4-bit digits, least significant digit first. *)
From Coq Require Import List NArith.
From GoPdf.Base Require Import Bytes.
From GoPdf.C09 Require Import Nib.
Import ListNotations.
Open Scope nat_scope.

Definition word := list nib.

Fixpoint wmap2 (f : nib -> nib -> nib) (a b : word) : word :=
  match a, b with x :: a', y :: b' => f x y :: wmap2 f a' b' | _, _ => [] end.

Definition wxor := wmap2 nxor.
Definition wand := wmap2 nand.
Definition wor := wmap2 nor.
Definition wnot (a : word) : word := map nnot a.

(* addition modulo 16^(length) *)
Fixpoint wadd_c (a b : word) (c : bool) : word :=
  match a, b with
  | x :: a', y :: b' => let '(d, c') := if c then nadd1 x y else nadd0 x y in d :: wadd_c a' b' c'
  | _, _ => []
  end.
Definition wadd (a b : word) : word := wadd_c a b false.

(* digit i of the result is ((l[i+1] : l[i]) >> r) mod 16; [top] stands for the digit above the last *)
Fixpoint shr_go (f : nib -> nib -> nib) (top : nib) (l : word) : word :=
  match l with
  | [] => []
  | x :: t => f x (match t with [] => top | y :: _ => y end) :: shr_go f top t
  end.

Definition shr_bits (r : nat) (l : word) (top : nib) : word :=
  match r with
  | 0 => l
  | 1 => shr_go nshr1 top l
  | 2 => shr_go nshr2 top l
  | _ => shr_go nshr3 top l
  end.

(* rotations and shifts by 4*q + r bits (r < 4); the split is precomputed by the callers *)
Definition qr (n : nat) : nat * nat := (Nat.div n 4, Nat.modulo n 4).

Definition wrotr_qr (n : nat * nat) (l : word) : word :=
  let '(q, r) := n in
  match q, r with
  | 0, 0 => l
  | _, _ => let l' := skipn q l ++ firstn q l in shr_bits r l' (hd X0 l')
  end.

Definition wshr_qr (n : nat * nat) (l : word) : word :=
  let '(q, r) := n in
  shr_bits r (skipn q l ++ repeat X0 q) X0.

Definition wrotr (n : nat) (l : word) : word := wrotr_qr (qr n) l.
Definition wshr (n : nat) (l : word) : word := wshr_qr (qr n) l.
Definition wrotl (n : nat) (l : word) : word := wrotr (4 * length l - n) l.

(* conversions *)
Definition byte_digits (b : N) : word := [nib_of_N b; nib_of_N (N.shiftr b 4)].
Definition word_of_le (bs : bytes) : word := concat (map byte_digits bs).
Definition word_of_be (bs : bytes) : word := word_of_le (rev bs).

Fixpoint le_of_word (w : word) : bytes :=
  match w with
  | lo :: hi :: r => (nib_to_N lo + 16 * nib_to_N hi)%N :: le_of_word r
  | _ => []
  end.
Definition be_of_word (w : word) : bytes := rev (le_of_word w).

Fixpoint word_of_N (digits : nat) (n : N) : word :=
  match digits with O => [] | S k => nib_of_N n :: word_of_N k (N.shiftr n 4) end.
