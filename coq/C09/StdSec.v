(* The standard security handler of crypto.go as an executable model:
   padPasswd/utf8Passwd truncation, Algorithms 2-7 (R2-R4), 2.A/2.B and 8-13 (R5/R6),
   KeyForRef (Algorithm 1), authenticate, createStdSecHandler, Encrypt/DecryptBytes,
   Encrypt/DecryptStream, AsDict (entry names).  Password *preparation* (PDFDocEncoding,
   SASLprep) happens outside: passwords arrive here as the prepared byte strings. *)
From Coq Require Import List NArith ZArith Bool.
From GoPdf.Base Require Import Bytes Res.
From GoPdf.Gen Require Import Gen_Consts Gen_Perm.
From GoPdf.C09 Require Import Word Tab MD5 RC4 SHA2 AES Pkcs7 ReadModel.
Import ListNotations.
Open Scope N_scope.

Definition pad_bytes : bytes := map Z.to_N passwdPad.

(* padPasswd: copy the password into 32 bytes, fill with the padding string *)
Definition pad_passwd (p : bytes) : bytes := firstn 32 (p ++ pad_bytes).
(* utf8Passwd after SASLprep: truncate to 127 bytes *)
Definition trunc_passwd (p : bytes) : bytes := firstn 127 p.

Record handler := {
  hR : Z;
  hID : bytes;
  hO : bytes; hU : bytes; hOE : bytes; hUE : bytes; hPerms : bytes;
  hP : Z;                 (* uint32 *)
  hKeyBytes : nat;
  hPlainMeta : bool       (* unencryptedMetadata = not /EncryptMetadata *)
}.

Definition PermAll : Z := Gen_Perm.permNext - 1.

Fixpoint iter {A} (n : nat) (f : A -> A) (x : A) : A :=
  match n with O => x | S k => iter k f (f x) end.

Definition p_bytes (P : Z) : bytes := le_bytes 4 (Z.to_N P).

(* Algorithm 2 *)
Definition file_key (h : handler) (padded : bytes) : bytes :=
  let extra := if hPlainMeta h && (4 <=? hR h)%Z then [255; 255; 255; 255] else [] in
  let k0 := md5 (padded ++ hO h ++ p_bytes (hP h) ++ hID h ++ extra) in
  let k := if (3 <=? hR h)%Z then iter 50 (fun k => md5 (firstn (hKeyBytes h) k)) k0 else k0 in
  firstn (hKeyBytes h) k.

(* the RC4 key derived from the owner password (Algorithms 3 and 7, steps a-d) *)
Definition owner_rc4_key (R : Z) (kb : nat) (padded_owner : bytes) : bytes :=
  let s0 := md5 padded_owner in
  let s := if (3 <=? R)%Z then iter 50 (fun s => md5 (firstn kb s)) s0 else s0 in
  firstn kb s.

Definition xor_key (key : bytes) (i : N) : bytes := map (fun b => N.lxor b i) key.

(* RC4 with key^i for the i of [is], in this order *)
Definition rc4_rounds (key : bytes) (is : list N) (data : bytes) : bytes :=
  fold_left (fun d i => rc4 (xor_key key i) d) is data.

Definition one_to_19 : list N := iota 19 1.
Definition nineteen_to_0 : list N := rev (iota 20 0).

(* Algorithm 3 *)
Definition compute_O (R : Z) (kb : nat) (padded_user padded_owner : bytes) : bytes :=
  let key := owner_rc4_key R kb padded_owner in
  let o := rc4 key padded_user in
  if (3 <=? R)%Z then rc4_rounds key one_to_19 o else o.

(* Algorithms 4 and 5 *)
Definition compute_U (R : Z) (id key : bytes) : bytes :=
  if (R =? 2)%Z then rc4 key pad_bytes
  else
    let u := rc4 key (md5 (pad_bytes ++ id)) in
    firstn 16 (rc4_rounds key one_to_19 u) ++ zeros 16.

(* Algorithm 6; returns the file key *)
Definition auth_user (h : handler) (padded : bytes) : res bytes :=
  let key := file_key h padded in
  let u := compute_U (hR h) (hID h) key in
  let good := if (hR h =? 2)%Z then bytes_eqb u (hU h)
              else bytes_eqb (firstn 16 u) (firstn 16 (hU h)) in
  if good then Ok key else Err Auth.

Definition copy32 (s : bytes) : bytes := firstn 32 (s ++ zeros 32).

(* Algorithm 7 *)
Definition recover_user (h : handler) (padded : bytes) : bytes :=
  let key := owner_rc4_key (hR h) (hKeyBytes h) padded in
  let buf := copy32 (hO h) in
  if (hR h =? 2)%Z then rc4 key buf else rc4_rounds key nineteen_to_0 buf.

Definition auth_owner (h : handler) (padded : bytes) : res bytes :=
  auth_user h (recover_user h padded).

(* ---- revision 5 and 6 ------------------------------------------------------------ *)

Definition aes_cbc_nopad_enc (key iv data : bytes) : bytes :=
  let rks := round_keys key in cbc_enc (encrypt_with rks) iv data.
Definition aes_cbc_nopad_dec (key iv data : bytes) : bytes :=
  let rks := round_keys key in cbc_dec (decrypt_with rks) iv data.

Fixpoint sum_bytes (l : bytes) : N := match l with [] => 0 | b :: r => b + sum_bytes r end.

Definition fix32 (k : bytes) : bytes := firstn 32 (k ++ zeros 32).

(* Algorithm 2.B, steps a-d once *)
Definition slow_round (passwd udata k : bytes) : bytes * bytes :=
  let k1 := concat (repeat (passwd ++ k ++ udata) 64) in
  let e := aes_cbc_nopad_enc (firstn 16 k) (firstn 16 (skipn 16 k)) k1 in
  let rem := sum_bytes (firstn 16 e) mod 3 in
  let k' := if rem =? 0 then sha256 e else if rem =? 1 then sha384 e else sha512 e in
  (k', e).

(* the loop `for i := 0; i < 64 || int(E[last]) > i-32; i++`; [e] is the E of the previous
   round ([] before the first).  288 rounds always suffice (a byte is at most 255). *)
Fixpoint slow_loop (fuel : nat) (i : N) (passwd udata k e : bytes) : res bytes :=
  if (i <? 64) || (i <? N.land (last e 0) 255 + 32) then
    match fuel with
    | O => Err OutOfFuel
    | S f => let '(k', e') := slow_round passwd udata k in slow_loop f (i + 1) passwd udata k' e'
    end
  else Ok (fix32 k).

Definition slow_fuel : nat := 288.

Definition slow_hash (passwd salt udata : bytes) : res bytes :=
  slow_loop slow_fuel 0 passwd udata (sha256 (passwd ++ salt ++ udata)) [].

(* hashRev: revision 5 uses one SHA-256 *)
Definition hash_rev (R : Z) (passwd salt udata : bytes) : res bytes :=
  if (R =? 5)%Z then Ok (sha256 (passwd ++ salt ++ udata)) else slow_hash passwd salt udata.

Definition slice (a b : nat) (l : bytes) : bytes := firstn (b - a) (skipn a l).

Definition zero16 : bytes := zeros 16.

(* checkPerms *)
Definition perms_plain (P : Z) (plain_meta : bool) (fill : bytes) : bytes :=
  p_bytes P ++ [255; 255; 255; 255] ++ [if plain_meta then 70 else 84] ++ [97; 100; 98] ++ firstn 4 (fill ++ zeros 4).

Definition check_perms (h : handler) (fkey : bytes) : bool :=
  let buf := aes_decrypt_block fkey (hPerms h) in
  bytes_eqb (firstn 12 buf) (firstn 12 (perms_plain (hP h) (hPlainMeta h) [])).

(* Algorithms 11 and 12 share their shape: validation salt, key salt, wrapped key *)
Definition auth6 (h : handler) (passwd : bytes) (ou : bytes) (wrapped : bytes) (udata : bytes) : res bytes :=
  bind (hash_rev (hR h) passwd (slice 32 40 ou) udata) (fun hash =>
  if negb (bytes_eqb hash (firstn 32 ou)) then Err Auth else
  bind (hash_rev (hR h) passwd (slice 40 48 ou) udata) (fun key =>
  let fkey := aes_cbc_nopad_dec key zero16 wrapped in
  if check_perms h fkey then Ok fkey else Err Auth)).

Definition auth_user6 (h : handler) (passwd : bytes) : res bytes := auth6 h passwd (hU h) (hUE h) [].
Definition auth_owner6 (h : handler) (passwd : bytes) : res bytes := auth6 h passwd (hO h) (hOE h) (hU h).

(* ---- authenticate ---------------------------------------------------------------- *)

(* [authenticate]: owner first, then user; any failure of both is an AuthenticationError.
   Errors other than Auth (OutOfFuel) are propagated so that they stay visible. *)
Definition try2 (o : res bytes) (u : unit -> res bytes) (P : Z) (R : Z) : res (Z * bytes) :=
  match o with
  | Ok k => Ok (PermAll, k)
  | Err OutOfFuel => Err OutOfFuel
  | Err _ =>
    match u tt with
    | Ok k => Ok (stdSecPToPerm R P, k)
    | Err OutOfFuel => Err OutOfFuel
    | Err _ => Err Auth
    end
  end.

Definition authenticate (h : handler) (prepared : bytes) : res (Z * bytes) :=
  if (hR h <? 5)%Z then
    let padded := pad_passwd prepared in
    try2 (auth_owner h padded) (fun _ => auth_user h padded) (hP h) (hR h)
  else
    let p := trunc_passwd prepared in
    try2 (auth_owner6 h p) (fun _ => auth_user6 h p) (hP h) (hR h).

(* parseEncryptDict: the empty password is always tried first.  [empty]/[prepared] are the
   prepared forms of "" and of the supplied password. *)
Definition open_handler (h : handler) (supplied : bool) (prepared : bytes) : res (Z * bytes) :=
  match authenticate h [] with
  | Ok r => Ok r
  | Err c => if supplied then authenticate h prepared else Err c
  end.

(* the same with the preparation made explicit: PDFDocEncoding (R <= 4) resp. SASLprep (R >= 5) is a
   PARTIAL function of the candidate string; a candidate it is not defined on ([None]) is an
   authentication failure - no file has such a password (crypto.go: authenticate) *)
Definition authenticate_prep (h : handler) (prep : option bytes) : res (Z * bytes) :=
  match prep with None => Err Auth | Some p => authenticate h p end.

(* parseEncryptDict: [empty_first] - the empty password (always preparable, to the empty string) is tried first *)
Definition open_handler_prep (h : handler) (supplied : bool) (prep : option bytes) : res (Z * bytes) :=
  match authenticate h [] with
  | Ok r => Ok r
  | Err c => if supplied then authenticate_prep h prep else Err c
  end.

(* ---- createStdSecHandler --------------------------------------------------------- *)

Definition choose_R (V : Z) (perm : Z) : option Z :=
  if (V <? 2)%Z && canR2 perm then Some 2%Z
  else if (V <=? 3)%Z then Some 3%Z
  else if (V =? 4)%Z then Some 4%Z
  else if (V =? 5)%Z then Some 6%Z
  else None.

Definition owner_or_user (user owner : bytes) (owner_empty : bool) : bytes :=
  if owner_empty then user else owner.

(* R 2-4.  [user]/[owner] are PDFDocEncoded passwords (owner already replaced by user if empty) *)
Definition create_legacy (R : Z) (id user owner : bytes) (perm : Z) (kb : nat) (plain_meta : bool)
  : handler * bytes :=
  let pu := pad_passwd user in
  let po := pad_passwd owner in
  let o := compute_O R kb pu po in
  let h0 := {| hR := R; hID := id; hO := o; hU := []; hOE := []; hUE := []; hPerms := [];
               hP := stdSecPermToP perm; hKeyBytes := kb; hPlainMeta := plain_meta |} in
  let key := file_key h0 pu in
  let u := compute_U R id key in
  ({| hR := R; hID := id; hO := o; hU := u; hOE := []; hUE := []; hPerms := [];
      hP := stdSecPermToP perm; hKeyBytes := kb; hPlainMeta := plain_meta |}, key).

(* R 6.  Randomness is an input: the file key (32 bytes), the user salts (16), the owner
   salts (16) and the Perms fill (4). *)
Definition create6 (id user owner : bytes) (perm : Z) (plain_meta : bool)
           (fkey usalt osalt fill : bytes) : res (handler * bytes) :=
  let pu := trunc_passwd user in
  let po := trunc_passwd owner in
  let P := stdSecPermToP perm in
  bind (slow_hash pu (firstn 8 usalt) []) (fun uh =>
  bind (slow_hash pu (skipn 8 usalt) []) (fun ukey =>
  let u := uh ++ usalt in
  let ue := aes_cbc_nopad_enc ukey zero16 fkey in
  bind (slow_hash po (firstn 8 osalt) u) (fun oh =>
  bind (slow_hash po (skipn 8 osalt) u) (fun okey =>
  let o := oh ++ osalt in
  let oe := aes_cbc_nopad_enc okey zero16 fkey in
  let perms := aes_encrypt_block fkey (perms_plain P plain_meta fill) in
  Ok ({| hR := 6; hID := id; hO := o; hU := u; hOE := oe; hUE := ue; hPerms := perms;
         hP := P; hKeyBytes := 32; hPlainMeta := plain_meta |}, fkey))))).

(* R 5 (the deprecated Adobe extension, read-only in go-pdf): as revision 6 with a single SHA-256 for
   Algorithm 2.B.  Used to produce test files for the Reader. *)
Definition create5 (id user owner : bytes) (perm : Z) (plain_meta : bool)
           (fkey usalt osalt fill : bytes) : handler * bytes :=
  let pu := trunc_passwd user in
  let po := trunc_passwd owner in
  let P := stdSecPermToP perm in
  let u := sha256 (pu ++ firstn 8 usalt) ++ usalt in
  let ue := aes_cbc_nopad_enc (sha256 (pu ++ skipn 8 usalt)) zero16 fkey in
  let o := sha256 (po ++ firstn 8 osalt ++ u) ++ osalt in
  let oe := aes_cbc_nopad_enc (sha256 (po ++ skipn 8 osalt ++ u)) zero16 fkey in
  let perms := aes_encrypt_block fkey (perms_plain P plain_meta fill) in
  ({| hR := 5; hID := id; hO := o; hU := u; hOE := oe; hUE := ue; hPerms := perms;
      hP := P; hKeyBytes := 32; hPlainMeta := plain_meta |}, fkey).

(* ---- Algorithm 1: per-object keys ------------------------------------------------- *)

Definition key_input (num gen : N) : bytes :=
  [num mod 256; (num / 256) mod 256; (num / 65536) mod 256; gen mod 256; (gen / 256) mod 256].

Definition salt_aes : bytes := [115; 65; 108; 84].

Definition key_for_ref (R : Z) (kb : nat) (fkey : bytes) (aes : bool) (num gen : N) : bytes :=
  if (R <? 5)%Z then
    firstn (Nat.min (kb + 5) 16) (md5 (fkey ++ key_input num gen ++ (if aes then salt_aes else [])))
  else fkey.

(* ---- strings and streams ---------------------------------------------------------- *)

Definition encrypt_bytes (aes : bool) (okey iv data : bytes) : bytes :=
  if aes then encrypt_bytes_aes (encrypt_with (round_keys okey)) iv data else rc4 okey data.

Definition decrypt_bytes (aes : bool) (okey buf : bytes) : res bytes :=
  if aes then decrypt_bytes_aes (decrypt_with (round_keys okey)) buf else Ok (rc4 okey buf).

(* the stream is written by a sequence of Write calls; RC4 is a cipher.StreamWriter *)
Definition encrypt_stream (aes : bool) (okey iv : bytes) (writes : list bytes) : bytes :=
  if aes then encrypt_stream_aes (encrypt_with (round_keys okey)) iv writes
  else rc4 okey (concat writes).

Definition decrypt_stream (aes : bool) (okey buf : bytes) : res bytes :=
  if aes then decrypt_stream_aes (decrypt_with (round_keys okey)) buf else Ok (rc4 okey buf).

(* DecryptStream read through its io.Reader: the source delivers pieces of the given sizes (minus one),
   reports EOF early or late, the consumer reads with buffers of the given sizes (minus one).
   RC4 is a cipher.StreamReader: every byte is XORed with the next key stream byte however it arrives. *)
Definition read_stream (aes : bool) (okey buf : bytes) (sizes : list nat) (early : bool) (cs : list nat) : res bytes :=
  if aes then read_stream_aes (decrypt_with (round_keys okey)) buf sizes early cs else Ok (rc4 okey buf).

(* ---- NewWriter's choice and AsDict ------------------------------------------------- *)

(* PDF versions 1.0 .. 1.7, 2.0 are numbered 0 .. 7, 8 *)
(* (aes, key bits, V) chosen by NewWriter *)
Definition writer_cipher (version : Z) : bool * Z * Z :=
  if (8 <=? version)%Z then (true, 256, 5)%Z
  else if (6 <=? version)%Z then (true, 128, 4)%Z
  else if (4 <=? version)%Z then (false, 128, 2)%Z
  else (false, 40, 1)%Z.

(* AsDict: the V written and the entry names, sorted as the model lists them *)
Definition as_dict_V (aes : bool) (bits version : Z) : option Z :=
  if aes && (bits =? 256)%Z && (8 <=? version)%Z then Some 5%Z
  else if aes && (bits =? 128)%Z && (6 <=? version)%Z then Some 4%Z
  else if negb aes && (bits =? 40)%Z && (1 <=? version)%Z then Some 1%Z
  else if negb aes && (4 <=? version)%Z then Some 2%Z
  else None.

Inductive ekey := KFilter | KV | KR | KO | KU | KP | KLength | KCF | KStmF | KStrF
                | KEncryptMetadata | KOE | KUE | KPerms.

Definition as_dict_keys (aes : bool) (bits version : Z) (R : Z) (plain_meta : bool) : option (list ekey) :=
  match as_dict_V aes bits version with
  | None => None
  | Some V =>
    Some ([KFilter; KV]
          ++ (if (V =? 5)%Z then [KStmF; KStrF; KLength; KCF]
              else if (V =? 4)%Z then [KStmF; KStrF; KCF]
              else if (V =? 2)%Z then [KLength] else [])
          ++ [KR; KO; KU; KP]
          ++ (if plain_meta then [KEncryptMetadata] else [])
          ++ (if (R =? 6)%Z then [KOE; KUE; KPerms] else []))
  end.
