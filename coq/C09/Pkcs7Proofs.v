From Coq Require Import List NArith Bool Lia PeanoNat.
From Coq Require Import ZifyN ZifyNat ZifyBool.
From GoPdf.Base Require Import Bytes Res.
From GoPdf.C09 Require Import Word Pkcs7 ListX.
Import ListNotations.

(* ---- PKCS#7 ---------------------------------------------------------------------- *)

Lemma pad_len_range n : (1 <= pad_len n <= 16)%nat /\ Nat.modulo (n + pad_len n) 16 = 0%nat.
Proof.
  unfold pad_len. pose proof (Nat.mod_upper_bound n 16 ltac:(lia)) as Hb. split; [lia|].
  pose proof (Nat.div_mod n 16 ltac:(lia)) as Hd.
  replace (n + (16 - n mod 16))%nat with ((n / 16 + 1) * 16)%nat by lia. apply Nat.mod_mul. lia.
Qed.

Lemma pad_length x : Nat.modulo (length (pad x)) 16 = 0%nat /\ (16 <= length (pad x))%nat.
Proof.
  unfold pad. rewrite app_length, repeat_length.
  destruct (pad_len_range (length x)) as [Hr Hm]. split; [assumption|].
  destruct (Nat.eq_dec (length x + pad_len (length x)) 0) as [E|NE]; [lia|].
  pose proof (Nat.div_mod (length x + pad_len (length x)) 16 ltac:(lia)). rewrite Hm in H.
  destruct ((length x + pad_len (length x)) / 16)%nat; lia.
Qed.

Lemma last_app_repeat (x : bytes) v k : (0 < k)%nat -> last (x ++ repeat v k) 0%N = v.
Proof.
  intros Hk. destruct k; [lia|]. replace (S k) with (k + 1)%nat by lia.
  rewrite repeat_app, app_assoc. cbn [repeat]. apply last_last.
Qed.

Lemma forallb_repeat_eq v k : forallb (fun x => N.eqb x v) (repeat v k) = true.
Proof. induction k; cbn [repeat forallb]; [reflexivity|]. now rewrite N.eqb_refl. Qed.

Lemma unpad_pad_l x : unpad (pad x) = Ok x.
Proof.
  destruct (pad_length x) as [Hm Hl]. destruct (pad_len_range (length x)) as [Hr _].
  unfold unpad. rewrite Hm.
  replace (Nat.ltb (length (pad x)) 16) with false by (symmetry; apply Nat.ltb_ge; lia).
  cbn [orb negb Nat.eqb].
  unfold pad in *. set (k := pad_len (length x)) in *.
  rewrite last_app_repeat by lia.
  replace (N.leb 1 (N.of_nat k)) with true by (symmetry; apply N.leb_le; lia).
  replace (N.leb (N.of_nat k) 16) with true by (symmetry; apply N.leb_le; lia).
  rewrite Nnat.Nat2N.id. unfold lastn. rewrite app_length, repeat_length.
  replace (length x + k - k)%nat with (length x) by lia.
  rewrite skipn_app, skipn_all, Nat.sub_diag, skipn_O. cbn [app].
  rewrite forallb_repeat_eq. cbn [andb].
  rewrite firstn_app, Nat.sub_diag, firstn_O, app_nil_r, firstn_all. reflexivity.
Qed.

Lemma forallb_eq_repeat v (l : bytes) : forallb (fun x => N.eqb x v) l = true -> l = repeat v (length l).
Proof.
  induction l as [|y l IH]; cbn [forallb length repeat]; [reflexivity|].
  intros H. apply andb_true_iff in H as [E H]. apply N.eqb_eq in E. subst y. f_equal. now apply IH.
Qed.

(* unpad accepts exactly the padded strings *)
Lemma unpad_only_pad_l b x : unpad b = Ok x -> b = pad x.
Proof.
  unfold unpad. destruct (Nat.ltb (length b) 16) eqn:Hlt; [discriminate|].
  destruct (Nat.eqb (length b mod 16) 0) eqn:Hmod; [|discriminate]. cbn [orb negb].
  destruct (N.leb 1 (last b 0%N)) eqn:H1; [|discriminate].
  destruct (N.leb (last b 0%N) 16) eqn:H16; [|discriminate]. cbn [andb].
  destruct (forallb _ _) eqn:Hall; [|discriminate].
  intros E. injection E as <-.
  apply Nat.ltb_ge in Hlt. apply Nat.eqb_eq in Hmod. apply N.leb_le in H1. apply N.leb_le in H16.
  set (p := last b 0%N) in *. set (k := N.to_nat p) in *.
  assert (Hk : (1 <= k <= 16)%nat) by lia.
  apply forallb_eq_repeat in Hall. unfold lastn in Hall. rewrite skipn_length in Hall.
  replace (length b - (length b - k))%nat with k in Hall by lia.
  assert (Hb : b = firstn (length b - k) b ++ repeat p k).
  { rewrite <- (firstn_skipn (length b - k) b) at 1. f_equal. exact Hall. }
  assert (Hpl : pad_len (length b - k) = k).
  { unfold pad_len. pose proof (Nat.div_mod (length b) 16 ltac:(lia)) as Hd. rewrite Hmod in Hd.
    assert (Hq : (1 <= length b / 16)%nat) by lia.
    replace (length b - k)%nat with ((16 - k) + (length b / 16 - 1) * 16)%nat by lia.
    rewrite Nat.mod_add by lia. destruct (Nat.eq_dec k 16) as [->|].
    - reflexivity.
    - rewrite Nat.mod_small by lia. lia. }
  unfold pad. rewrite firstn_length. replace (Nat.min (length b - k) (length b)) with (length b - k)%nat by lia.
  rewrite Hpl. replace (N.of_nat k) with p by (subst k; now rewrite Nnat.N2Nat.id). exact Hb.
Qed.

(* ---- CBC over an abstract block cipher ---------------------------------------------- *)

Section Writer.
  Variable enc : bytes -> bytes.

  Definition blocks16 (bs : list bytes) := Forall (fun b => length b = 16%nat) bs.

  Lemma cbc_enc_blocks_app prev a b :
    cbc_enc_blocks enc prev (a ++ b) =
    cbc_enc_blocks enc prev a ++ cbc_enc_blocks enc (fold_left (fun p x => enc (xor_bytes x p)) a prev) b.
  Proof.
    revert prev. induction a as [|x a IH]; intros prev; cbn [app cbc_enc_blocks fold_left]; [reflexivity|].
    now rewrite IH, app_assoc.
  Qed.

  (* ---- streams: encryptWriter under every write chunking ---- *)
  Lemma ew_feed_short x : forall pend prev, (length pend + length x < 16)%nat ->
    ew_feed enc prev pend x = ([], (prev, pend ++ x)).
  Proof.
    induction x as [|b x IH]; intros pend prev H; cbn [ew_feed]; [now rewrite app_nil_r|].
    cbn [length] in H.
    replace (Nat.leb 16 (length (pend ++ [b]))) with false
      by (symmetry; apply Nat.leb_gt; rewrite app_length; cbn [length]; lia).
    rewrite IH by (rewrite app_length; cbn [length]; lia). now rewrite <- app_assoc.
  Qed.

  Lemma ew_feed_block x : forall pend prev r, (length pend + length x = 16)%nat -> x <> [] ->
    ew_feed enc prev pend (x ++ r) =
    let c := enc (xor_bytes (pend ++ x) prev) in
    let '(out, st) := ew_feed enc c [] r in (c ++ out, st).
  Proof.
    induction x as [|b x IH]; intros pend prev r H Hne; [congruence|].
    cbn [app ew_feed]. cbn [length] in H.
    destruct x as [|b' x].
    - replace (Nat.leb 16 (length (pend ++ [b]))) with true
        by (symmetry; apply Nat.leb_le; rewrite app_length; cbn [length] in *; lia).
      reflexivity.
    - replace (Nat.leb 16 (length (pend ++ [b]))) with false
        by (symmetry; apply Nat.leb_gt; rewrite app_length; cbn [length] in *; lia).
      rewrite IH by (try discriminate; rewrite app_length; cbn [length] in *; lia).
      now rewrite <- app_assoc.
  Qed.

  Definition chain (prev : bytes) (bs : list bytes) : bytes :=
    fold_left (fun p x => enc (xor_bytes x p)) bs prev.

  Lemma ew_feed_blocks bs : forall prev tail, blocks16 bs -> (length tail < 16)%nat ->
    ew_feed enc prev [] (concat bs ++ tail) = (cbc_enc_blocks enc prev bs, (chain prev bs, tail)).
  Proof.
    induction bs as [|b bs IH]; intros prev tail Hbs Ht.
    - cbn [concat app cbc_enc_blocks chain fold_left]. now rewrite ew_feed_short by (cbn; lia).
    - inversion Hbs as [|? ? Hb Hbs']; subst. cbn [concat]. rewrite <- app_assoc.
      rewrite ew_feed_block by (try (destruct b; [cbn in Hb; lia|discriminate]); cbn; lia).
      cbn [app]. cbv zeta. rewrite IH by assumption. reflexivity.
  Qed.

  Lemma ew_feed_app a : forall prev pend b,
    ew_feed enc prev pend (a ++ b) =
    let '(o1, (p1, q1)) := ew_feed enc prev pend a in
    let '(o2, st) := ew_feed enc p1 q1 b in (o1 ++ o2, st).
  Proof.
    induction a as [|x a IH]; intros prev pend b; cbn [app ew_feed].
    - destruct (ew_feed enc prev pend b) as [o2 st]. reflexivity.
    - destruct (Nat.leb 16 (length (pend ++ [x]))).
      + rewrite IH. destruct (ew_feed enc _ [] a) as [o1 [p1 q1]].
        destruct (ew_feed enc p1 q1 b) as [o2 st]. now rewrite app_assoc.
      + apply IH.
  Qed.

  (* a sequence of writes is the same as one write of the concatenation *)
  Lemma ew_writes_concat writes : forall prev pend,
    ew_writes enc prev pend writes = ew_feed enc prev pend (concat writes).
  Proof.
    induction writes as [|w ws IH]; intros prev pend; cbn [ew_writes concat]; [reflexivity|].
    rewrite ew_feed_app. destruct (ew_feed enc prev pend w) as [o1 [p1 q1]]. now rewrite IH.
  Qed.

  Lemma encrypt_stream_chunking_l iv writes : length iv = 16%nat ->
    encrypt_stream_aes enc iv writes = iv ++ cbc_enc enc iv (pad (concat writes)).
  Proof.
    intros Hi. unfold encrypt_stream_aes. rewrite ew_writes_concat.
    destruct (split_blocks 16 ltac:(lia) (concat writes)) as (bs & tail & E & F & T). rewrite E.
    rewrite ew_feed_blocks by assumption. f_equal.
    unfold cbc_enc, pad, ew_close.
    assert (Hlen : length (concat bs ++ tail) = (16 * length bs + length tail)%nat).
    { rewrite app_length. f_equal. clear -F. induction F as [|b bs' H F IH]; cbn [concat length]; [reflexivity|].
      rewrite app_length. lia. }
    assert (Hpl : pad_len (length (concat bs ++ tail)) = (16 - length tail)%nat).
    { unfold pad_len. rewrite Hlen. replace (16 * length bs + length tail)%nat with (length tail + length bs * 16)%nat by lia.
      rewrite Nat.mod_add, Nat.mod_small by lia. reflexivity. }
    rewrite Hpl, <- app_assoc.
    rewrite chunks_concat by (try assumption; try lia; rewrite app_length, repeat_length; lia).
    rewrite cbc_enc_blocks_app. cbn [cbc_enc_blocks]. now rewrite app_nil_r.
  Qed.

End Writer.

Section CBCProofs.
  Variable enc dec : bytes -> bytes.
  Hypothesis enc_len : forall b, length b = 16%nat -> length (enc b) = 16%nat.
  Hypothesis enc_wf : forall b, wfbs (enc b) = true.
  Hypothesis dec_enc : forall b, length b = 16%nat -> wfbs b = true -> dec (enc b) = b.

  Lemma cbc_enc_blocks_length prev bs : length prev = 16%nat -> blocks16 bs ->
    length (cbc_enc_blocks enc prev bs) = (16 * length bs)%nat.
  Proof.
    intros Hp Hbs. revert prev Hp. induction Hbs as [|b bs Hb Hbs IH]; intros prev Hp; cbn [cbc_enc_blocks length]; [lia|].
    rewrite app_length, enc_len, IH; [lia| |]; try apply enc_len; rewrite xor_bytes_length; lia.
  Qed.

  Lemma cbc_blocks_rt prev bs : length prev = 16%nat -> wfbs prev = true -> blocks16 bs ->
    Forall (fun b => wfbs b = true) bs ->
    cbc_dec_blocks dec prev (chunks 16 (cbc_enc_blocks enc prev bs)) = concat bs.
  Proof.
    intros Hp Hw Hbs. revert prev Hp Hw. induction Hbs as [|b bs Hb Hbs IH]; intros prev Hp Hw Hwf; [reflexivity|].
    inversion Hwf as [|? ? Hwb Hwr]; subst.
    cbn [cbc_enc_blocks concat].
    assert (Hx : length (xor_bytes b prev) = 16%nat) by (rewrite xor_bytes_length; lia).
    rewrite chunks_cons_app by (try lia; now apply enc_len).
    cbn [cbc_dec_blocks]. rewrite dec_enc by (try assumption; now apply wfbs_xor).
    rewrite xor_bytes_twice by lia. f_equal.
    apply IH; [now apply enc_len|apply enc_wf|assumption].
  Qed.

  Lemma chunks_blocks16 (data : bytes) : Nat.modulo (length data) 16 = 0%nat ->
    blocks16 (chunks 16 data) /\ concat (chunks 16 data) = data.
  Proof.
    intros Hm. destruct (split_blocks 16 ltac:(lia) data) as (bs & tail & E & F & T).
    assert (tail = []).
    { assert (length (concat bs) mod 16 = 0)%nat.
      { clear -F. induction F as [|b bs Hb F IH]; cbn [concat]; [reflexivity|].
        rewrite app_length, Hb. replace (16 + length (concat bs))%nat with (length (concat bs) + 1 * 16)%nat by lia.
        now rewrite Nat.mod_add by lia. }
      subst data. rewrite app_length in Hm.
      pose proof (Nat.div_mod (length (concat bs)) 16 ltac:(lia)).
      replace (length (concat bs) + length tail)%nat with (length tail + (length (concat bs) / 16) * 16)%nat in Hm by lia.
      rewrite Nat.mod_add, Nat.mod_small in Hm by lia. destruct tail; [reflexivity|cbn in Hm; lia]. }
    subst tail data. rewrite app_nil_r. rewrite chunks_concat0 by (try lia; assumption). split; [assumption|reflexivity].
  Qed.

  Lemma cbc_rt_l iv data : length iv = 16%nat -> wfbs iv = true -> wfbs data = true ->
    Nat.modulo (length data) 16 = 0%nat -> cbc_dec dec iv (cbc_enc enc iv data) = data.
  Proof.
    intros Hi Hw Hd Hm. unfold cbc_dec, cbc_enc. destruct (chunks_blocks16 data Hm) as [Hb Hc].
    rewrite cbc_blocks_rt; try assumption.
    apply wfbs_concat. now rewrite Hc.
  Qed.

  Lemma cbc_enc_length iv data : length iv = 16%nat -> Nat.modulo (length data) 16 = 0%nat ->
    length (cbc_enc enc iv data) = length data.
  Proof.
    intros Hi Hm. unfold cbc_enc. destruct (chunks_blocks16 data Hm) as [Hb Hc].
    rewrite cbc_enc_blocks_length by assumption. rewrite <- Hc at 2.
    clear -Hb. induction Hb as [|b bs H F IH]; cbn [concat length]; [reflexivity|]. rewrite app_length. lia.
  Qed.

  (* ---- strings ---- *)
  Lemma wfbs_pad x : wfbs x = true -> wfbs (pad x) = true.
  Proof.
    intros H. unfold pad. rewrite wfbs_app, H. cbn [andb]. apply wfbs_repeat.
    destruct (pad_len_range (length x)) as [Hr _]. unfold wfb. apply N.ltb_lt. lia.
  Qed.

  Lemma bytes_rt_aes_l iv data : length iv = 16%nat -> wfbs iv = true -> wfbs data = true ->
    decrypt_bytes_aes dec (encrypt_bytes_aes enc iv data) = Ok data.
  Proof.
    intros Hi Hw Hd. unfold decrypt_bytes_aes, encrypt_bytes_aes.
    destruct (pad_length data) as [Hm Hl].
    rewrite app_length, Hi, cbc_enc_length by assumption.
    replace (Nat.ltb (16 + length (pad data)) 32) with false by (symmetry; apply Nat.ltb_ge; lia).
    replace ((16 + length (pad data)) mod 16)%nat with 0%nat.
    2:{ replace (16 + length (pad data))%nat with (length (pad data) + 1 * 16)%nat by lia. rewrite Nat.mod_add by lia. now rewrite Hm. }
    cbn [orb negb Nat.eqb].
    rewrite firstn_app, Hi, Nat.sub_diag, firstn_O, app_nil_r, firstn_all2 by lia.
    rewrite skipn_app, Hi, Nat.sub_diag, skipn_O, skipn_all2 by lia. cbn [app].
    rewrite cbc_rt_l by (try assumption; now apply wfbs_pad). apply unpad_pad_l.
  Qed.

  Lemma stream_rt_aes_l iv writes : length iv = 16%nat -> wfbs iv = true -> wfbs (concat writes) = true ->
    decrypt_stream_aes dec (encrypt_stream_aes enc iv writes) = Ok (concat writes).
  Proof.
    intros Hi Hw Hd. rewrite encrypt_stream_chunking_l by assumption.
    set (data := concat writes) in *. destruct (pad_length data) as [Hm Hl].
    unfold decrypt_stream_aes. rewrite app_length, Hi.
    replace (Nat.ltb (16 + _) 16) with false by (symmetry; apply Nat.ltb_ge; lia).
    rewrite skipn_app, Hi, Nat.sub_diag, skipn_O, skipn_all2 by lia. cbn [app].
    rewrite firstn_app, Hi, Nat.sub_diag, firstn_O, app_nil_r, firstn_all2 by lia.
    pose proof (cbc_enc_length iv (pad data) Hi Hm) as Hcl.
    remember (cbc_enc enc iv (pad data)) as body eqn:Ec.
    destruct body as [|c0 cr]; [cbn in Hcl; lia|]. cbv beta iota.
    rewrite Hcl, Hm. cbn [negb Nat.eqb]. rewrite Ec.
    rewrite cbc_rt_l by (try assumption; now apply wfbs_pad). apply unpad_pad_l.
  Qed.
End CBCProofs.
