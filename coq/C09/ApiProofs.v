(* The permission algebra at the level of the API: for every PDF version and permission set NewWriter
   accepts, the revision it selects reports exactly the closed permission set to the user. *)
From Coq Require Import List NArith ZArith Bool Lia.
From GoPdf.Base Require Import Bytes Res.
From GoPdf.Gen Require Import Gen_Perm.
From GoPdf.C09 Require Import StdSec Perm PermProofs StdSecProofs AESCorrect.
Import ListNotations.
Open Scope Z_scope.

(* versions 1.1 .. 2.0 are numbered 1 .. 8 *)
Definition api_versions : list Z := map Z.of_nat (seq 1 8).

Definition writer_V (version : Z) : Z := snd (writer_cipher version).
Definition writer_keybytes (version : Z) : nat := Z.to_nat (snd (fst (writer_cipher version)) / 8).

Definition api_ok (version perm : Z) : bool :=
  match choose_R (writer_V version) perm with
  | Some R =>
    existsb (Z.eqb R) revisions
    && (if R =? 2 then canR2 perm else true)
    && (stdSecPToPerm R (stdSecPermToP perm) =? close perm)
    && (if version <=? 7 then (2 <=? R) && (R <=? 4) else R =? 6)
  | None => false
  end.

Lemma api_ok_b : forallb (fun v => forallb (api_ok v) perms) api_versions = true.
Proof. vm_compute. reflexivity. Qed.

Lemma api_ok_l version perm : 1 <= version <= 8 -> 0 <= perm < 128 -> api_ok version perm = true.
Proof.
  intros Hv Hp. pose proof api_ok_b as H. rewrite forallb_forall in H.
  assert (Hin : In version api_versions).
  { unfold api_versions. apply in_map_iff. exists (Z.to_nat version). split; [lia|]. apply in_seq. lia. }
  specialize (H version Hin). rewrite forallb_forall in H. apply H. now apply in_perms.
Qed.

Lemma perm_api_exact_l version perm : 1 <= version <= 8 -> 0 <= perm < 128 ->
  exists R, choose_R (writer_V version) perm = Some R /\ In R [2; 3; 4; 6]
            /\ (R = 2 -> canR2 perm = true)
            /\ (version <= 7 -> R = 2 \/ R = 3 \/ R = 4) /\ (version = 8 -> R = 6)
            /\ stdSecPToPerm R (stdSecPermToP perm) = close perm.
Proof.
  intros Hv Hp. pose proof (api_ok_l version perm Hv Hp) as H. unfold api_ok in H.
  destruct (choose_R (writer_V version) perm) as [R|]; [|discriminate]. exists R.
  repeat (apply andb_true_iff in H; destruct H as [H ?]).
  split; [reflexivity|]. split.
  - apply existsb_exists in H as (x & Hx & E). apply Z.eqb_eq in E. now subst x.
  - split; [intros ->; assumption|]. split; [|split].
    + intros Hle. replace (version <=? 7) with true in * by (symmetry; apply Z.leb_le; lia).
      apply andb_true_iff in H0 as [A B]. apply Z.leb_le in A, B. lia.
    + intros ->. cbn in H0. now apply Z.eqb_eq.
    + now apply Z.eqb_eq.
Qed.

(* what a user sees after opening a file NewWriter wrote at a version below 2.0 *)
Lemma api_user_perm_legacy_l version perm id user owner pm R c :
  1 <= version <= 7 -> 0 <= perm < 128 -> choose_R (writer_V version) perm = Some R ->
  let h := fst (create_legacy R id user owner perm (writer_keybytes version) pm) in
  StdSec.auth_owner h (pad_passwd user) = Err c ->
  authenticate h user = Ok (close perm, snd (create_legacy R id user owner perm (writer_keybytes version) pm)).
Proof.
  intros Hv Hp HR h E.
  destruct (perm_api_exact_l version perm ltac:(lia) Hp) as (R' & HR' & _ & Hcan & Hleg & _ & _).
  rewrite HR in HR'. injection HR' as <-.
  apply (auth_user_legacy_l R id user owner perm (writer_keybytes version) pm c); auto. apply Hleg. lia.
Qed.

(* ... and at version 2.0 *)
Lemma api_user_perm_r6_l perm id user owner pm fkey usalt osalt fill h c :
  0 <= perm < 128 -> choose_R (writer_V 8) perm = Some 6 ->
  create6 id user owner perm pm fkey usalt osalt fill = Ok (h, fkey) -> r6_inputs fkey usalt osalt fill ->
  auth_owner6 h (trunc_passwd user) = Err c ->
  authenticate h user = Ok (close perm, fkey).
Proof. intros Hp _ Hc Hi E. eapply (auth_user_r6_s aes_correct_l); eassumption. Qed.

(* ---- reading a stream through DecryptStream: independent of both chunkings --------------------------------- *)
From GoPdf.C09 Require Import AES AESProofs ReadModel ReadProofs.

Lemma stream_read_chunking_s aes okey buf sizes early cs : (aes = true -> aes_key_len okey) ->
  read_stream aes okey buf sizes early cs = decrypt_stream aes okey buf.
Proof.
  intros H. unfold read_stream, decrypt_stream. destruct aes; [|reflexivity].
  apply stream_read_chunking_l. intros b Hb. apply aes_dec_length; [apply H; reflexivity|assumption].
Qed.
