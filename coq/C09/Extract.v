Require Extraction.
Require Import ExtrOcamlBasic.
From GoPdf.Base Require Import WireAnchor.
From GoPdf.Gen Require Import Gen_Perm.
From GoPdf.C09 Require Import MD5 RC4 SHA2 AES Pkcs7 StdSec ParseModel.
Separate Extraction wire_anchor md5 rc4 sha256 sha384 sha512 aes_encrypt_block aes_decrypt_block
  pad_passwd trunc_passwd authenticate open_handler open_handler_prep create_legacy create6 create5 choose_R key_for_ref
  encrypt_bytes decrypt_bytes encrypt_stream decrypt_stream read_stream parse_and_open as_dict writer_cipher as_dict_V as_dict_keys
  stdSecPermToP stdSecPToPerm canR2 slow_hash pad unpad.
