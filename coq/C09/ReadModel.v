(* DecryptStream + decryptReader (crypto.go) with explicit chunking on both sides: the source hands
   out its bytes in pieces of arbitrary positive sizes (and may report EOF together with the last
   piece or on a separate call), the consumer calls Read with buffers of arbitrary positive sizes. *)
From Coq Require Import List NArith Bool.
From GoPdf.Base Require Import Bytes Res.
From GoPdf.C09 Require Import Word Pkcs7.
Import ListNotations.
Open Scope nat_scope.

(* the underlying io.Reader: remaining data, the sizes (minus one) of the pieces it will hand out,
   and whether it reports io.EOF together with the last piece *)
Record src := { s_data : bytes; s_sizes : list nat; s_early : bool }.

(* one Read into a buffer of [cap] bytes: (bytes delivered, io.EOF reported, source afterwards) *)
Definition src_read (cap : nat) (s : src) : bytes * bool * src :=
  match s_data s with
  | [] => ([], true, s)
  | _ :: _ =>
    let want := match s_sizes s with [] => cap | n :: _ => S n end in
    let d := firstn (Nat.min want cap) (s_data s) in
    let rest := skipn (Nat.min want cap) (s_data s) in
    (d, match rest with [] => s_early s | _ :: _ => false end,
     {| s_data := rest; s_sizes := tl (s_sizes s); s_early := s_early s |})
  end.

(* io.ReadFull(r, buf) with len(buf) = n; [acc] = bytes read so far *)
Fixpoint read_full (fuel n : nat) (acc : bytes) (s : src) : res (bytes * src) :=
  if Nat.leb n (length acc) then Ok (acc, s) else
  match fuel with
  | O => Err OutOfFuel
  | S f =>
    let '(d, eof, s') := src_read (n - length acc) s in
    let acc' := acc ++ d in
    if eof then (if Nat.leb n (length acc') then Ok (acc', s') else Err EOF)
    else read_full f n acc' s'
  end.

Section Reader.
  Variable dec : bytes -> bytes.   (* the block cipher's decryption under the object key *)

  (* the loop `for k <= 16 && r.r != nil` filling the 32-byte buffer; [acc] = buf[:k], [live] = (r.r != nil) *)
  Fixpoint fill (fuel : nat) (acc : bytes) (s : src) (live : bool) : res (bytes * src * bool) :=
    if Nat.leb (length acc) 16 && live then
      match fuel with
      | O => Err OutOfFuel
      | S f =>
        let '(d, eof, s') := src_read (32 - length acc) s in
        let acc' := acc ++ d in
        if eof then (if Nat.eqb (Nat.modulo (length acc') 16) 0 then fill f acc' s' false else Err Other)
        else fill f acc' s' true
      end
    else Ok (acc, s, live).

  Definition fill_fuel : nat := 40.

  Record rstate := { r_prev : bytes; r_src : src; r_live : bool; r_reserved : bytes; r_ready : bytes }.

  (* the body of `if len(r.ready) == 0 { ... }`; None = io.EOF *)
  Definition refill (st : rstate) : res (option rstate) :=
    match fill fill_fuel (r_reserved st) (r_src st) (r_live st) with
    | Err c => Err c
    | Ok (buf, s', live') =>
      let k := length buf in
      if Nat.ltb k 16 then Ok None else
      let l0 := if live' then k - 1 else k in   (* reserve the last block, it may be padding *)
      let l := l0 - Nat.modulo l0 16 in
      let c := firstn l buf in
      let plain := cbc_dec_blocks dec (r_prev st) (chunks 16 c) in
      let prev' := last (chunks 16 c) (r_prev st) in
      if live' then
        Ok (Some {| r_prev := prev'; r_src := s'; r_live := live'; r_reserved := skipn l buf; r_ready := plain |})
      else
        match unpad plain with
        | Err e => Err e
        | Ok u => Ok (Some {| r_prev := prev'; r_src := s'; r_live := live'; r_reserved := skipn l buf; r_ready := u |})
        end
    end.

  (* the consumer calls Read until io.EOF; [cs] = sizes (minus one) of its buffers, 512 afterwards *)
  Fixpoint read_all (fuel : nat) (st : rstate) (cs : list nat) (out : bytes) : res bytes :=
    match fuel with
    | O => Err OutOfFuel
    | S f =>
      let p := match cs with [] => 512 | n :: _ => S n end in
      match r_ready st with
      | [] =>
        match refill st with
        | Err c => Err c
        | Ok None => Ok out
        | Ok (Some st') =>
          read_all f {| r_prev := r_prev st'; r_src := r_src st'; r_live := r_live st';
                        r_reserved := r_reserved st'; r_ready := skipn p (r_ready st') |}
                   (tl cs) (out ++ firstn p (r_ready st'))
        end
      | _ :: _ =>
        read_all f {| r_prev := r_prev st; r_src := r_src st; r_live := r_live st;
                      r_reserved := r_reserved st; r_ready := skipn p (r_ready st) |}
                 (tl cs) (out ++ firstn p (r_ready st))
      end
    end.

  (* DecryptStream (AES): read the IV with io.ReadFull, then hand the rest to a decryptReader *)
  Definition read_stream_aes (data : bytes) (sizes : list nat) (early : bool) (cs : list nat) : res bytes :=
    match read_full 20 16 [] {| s_data := data; s_sizes := sizes; s_early := early |} with
    | Err OutOfFuel => Err OutOfFuel
    | Err _ => Err EOF
    | Ok (iv, s) =>
      read_all (length data + 8) {| r_prev := iv; r_src := s; r_live := true; r_reserved := []; r_ready := [] |} cs []
    end.
End Reader.
