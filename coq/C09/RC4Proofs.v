From Coq Require Import List NArith Lia.
From GoPdf.Base Require Import Bytes.
From GoPdf.C09 Require Import Tab RC4.
Import ListNotations.
Open Scope N_scope.

Lemma lxor_twice (k x : N) : N.lxor (N.lxor x k) k = x.
Proof. rewrite N.lxor_assoc, N.lxor_nilpotent, N.lxor_0_r. reflexivity. Qed.

Lemma rc4_prga_length s i j d : length (rc4_prga s i j d) = length d.
Proof. revert s i j. induction d as [|x d IH]; intros; cbn [rc4_prga length]; [reflexivity|]. now rewrite IH. Qed.

(* the state evolution does not depend on the data *)
Lemma rc4_prga_involution s i j d : rc4_prga s i j (rc4_prga s i j d) = d.
Proof.
  revert s i j. induction d as [|x d IH]; intros; [reflexivity|].
  cbn [rc4_prga]. rewrite IH, lxor_twice. reflexivity.
Qed.

Lemma rc4_involution_l key data : rc4 key (rc4 key data) = data.
Proof. unfold rc4. apply rc4_prga_involution. Qed.

Lemma rc4_length key data : length (rc4 key data) = length data.
Proof. unfold rc4. apply rc4_prga_length. Qed.

Lemma rc4_prga_app s i j a b :
  exists s' i' j', rc4_prga s i j (a ++ b) = rc4_prga s i j a ++ rc4_prga s' i' j' b.
Proof.
  revert s i j. induction a as [|x a IH]; intros.
  - exists s, i, j. reflexivity.
  - cbn [rc4_prga app].
    edestruct IH as (s' & i' & j' & H). exists s', i', j'. rewrite H. reflexivity.
Qed.
