From Coq Require Import List NArith Bool Lia PeanoNat.
From GoPdf.Base Require Import Bytes Res.
From GoPdf.C09 Require Import Word Pkcs7 ListX Pkcs7Proofs MD5Proofs ReadModel.
Import ListNotations.
Open Scope nat_scope.
Set Default Timeout 120.

(* ---- the source --------------------------------------------------------------------------- *)

Lemma src_read_spec cap s : 0 < cap ->
  let '(d, eof, s') := src_read cap s in
  d ++ s_data s' = s_data s /\ length d <= cap /\
  (s_data s <> [] -> d <> []) /\ (eof = true -> s_data s' = []) /\ (s_data s = [] -> d = [] /\ eof = true).
Proof.
  intros Hc. unfold src_read. destruct (s_data s) as [|x r] eqn:E.
  - rewrite E. repeat split; auto; try congruence. cbn. lia.
  - set (want := match s_sizes s with [] => cap | n :: _ => S n end).
    assert (Hw : 0 < Nat.min want cap) by (subst want; destruct (s_sizes s); lia).
    cbn [s_data]. split; [|split; [|split; [|split]]].
    + apply firstn_skipn.
    + rewrite firstn_length. lia.
    + intros _. destruct (Nat.min want cap); [lia|]. discriminate.
    + destruct (skipn (Nat.min want cap) (x :: r)); [reflexivity|discriminate].
    + discriminate.
Qed.

(* ---- io.ReadFull --------------------------------------------------------------------------- *)

Lemma read_full_spec n : forall fuel acc s, length acc <= n -> n - length acc < fuel ->
  match read_full fuel n acc s with
  | Ok (b, s') => b = firstn n (acc ++ s_data s) /\ s_data s' = skipn n (acc ++ s_data s) /\ n <= length (acc ++ s_data s)
  | Err EOF => length (acc ++ s_data s) < n
  | Err _ => False
  end.
Proof.
  induction fuel as [|f IH]; intros acc s Ha Hf; [lia|].
  cbn [read_full]. destruct (Nat.leb n (length acc)) eqn:El.
  - apply Nat.leb_le in El. assert (length acc = n) by lia.
    rewrite firstn_app, skipn_app, H, Nat.sub_diag, firstn_O, skipn_O, app_nil_r, firstn_all2, skipn_all2 by lia.
    rewrite app_length. split; [|split]; try reflexivity; lia.
  - apply Nat.leb_gt in El.
    pose proof (src_read_spec (n - length acc) s ltac:(lia)) as Hs.
    destruct (src_read (n - length acc) s) as [[d eof] s']. destruct Hs as (H1 & H2 & H3 & H4 & H5).
    assert (Hd : (acc ++ d) ++ s_data s' = acc ++ s_data s) by (rewrite <- app_assoc; now f_equal).
    destruct eof.
    + rewrite (H4 eq_refl) in Hd. rewrite app_nil_r in Hd. rewrite <- Hd.
      destruct (Nat.leb n (length (acc ++ d))) eqn:E2.
      * apply Nat.leb_le in E2. rewrite app_length in E2. assert (length (acc ++ d) = n) by (rewrite app_length; lia).
        rewrite firstn_all2, skipn_all2 by lia. split; [reflexivity|split; [apply H4; reflexivity|lia]].
      * apply Nat.leb_gt in E2. exact E2.
    + destruct (s_data s) as [|x r] eqn:Es; [destruct (H5 eq_refl); discriminate|].
      assert (d <> []) by (apply H3; discriminate).
      specialize (IH (acc ++ d) s'). rewrite Hd in IH. apply IH.
      * rewrite app_length. lia.
      * rewrite app_length. destruct d; [congruence|]. cbn [length]. lia.
Qed.

(* ---- filling the buffer ----------------------------------------------------------------------- *)

Section ReaderProofs.
  Variable dec : bytes -> bytes.
  Hypothesis dec_len : forall b, length b = 16 -> length (dec b) = 16.

  Lemma fill_spec : forall fuel acc s, length acc <= 16 -> 34 - length acc <= fuel ->
    match fill fuel acc s true with
    | Ok (buf, s', true) => buf ++ s_data s' = acc ++ s_data s /\ 17 <= length buf <= 32
    | Ok (buf, s', false) => buf = acc ++ s_data s /\ s_data s' = [] /\ Nat.modulo (length buf) 16 = 0 /\ length buf <= 32
    | Err Other => Nat.modulo (length (acc ++ s_data s)) 16 <> 0 /\ length (acc ++ s_data s) <= 32
    | Err _ => False
    end.
  Proof.
    induction fuel as [|f IH]; intros acc s Ha Hf; [lia|].
    cbn [fill]. replace (Nat.leb (length acc) 16) with true by (symmetry; now apply Nat.leb_le). cbn [andb].
    pose proof (src_read_spec (32 - length acc) s ltac:(lia)) as Hs.
    destruct (src_read (32 - length acc) s) as [[d eof] s']. destruct Hs as (H1 & H2 & H3 & H4 & H5).
    assert (Hd : (acc ++ d) ++ s_data s' = acc ++ s_data s) by (rewrite <- app_assoc; now f_equal).
    assert (Hl : length (acc ++ d) <= 32) by (rewrite app_length; lia).
    destruct eof.
    - rewrite (H4 eq_refl), app_nil_r in Hd.
      destruct (Nat.eqb (length (acc ++ d) mod 16) 0) eqn:Em.
      + apply Nat.eqb_eq in Em. destruct f; [lia|]. cbn [fill]. rewrite andb_false_r.
        rewrite <- Hd. split; [reflexivity|split; [now apply H4|split; assumption]].
      + apply Nat.eqb_neq in Em. rewrite <- Hd. split; assumption.
    - destruct (Nat.leb (length (acc ++ d)) 16) eqn:E16.
      + apply Nat.leb_le in E16.
        destruct (s_data s) as [|x r] eqn:Es; [destruct (H5 eq_refl); discriminate|].
        assert (d <> []) by (apply H3; discriminate).
        specialize (IH (acc ++ d) s' E16). rewrite Hd in IH. apply IH.
        rewrite app_length. destruct d; [congruence|]. cbn [length]. lia.
      + apply Nat.leb_gt in E16. destruct f; [lia|]. cbn [fill].
        replace (Nat.leb (length (acc ++ d)) 16) with false by (symmetry; now apply Nat.leb_gt). cbn [andb].
        split; [assumption|lia].
  Qed.

  Lemma fill_dead fuel acc s : fill fuel acc s false = Ok (acc, s, false).
  Proof. destruct fuel; cbn [fill]; now rewrite andb_false_r. Qed.

  (* ---- the one-shot reading of the remaining ciphertext [C] with chaining value [prev] -------------- *)

  Definition spec_from (prev C : bytes) : res bytes :=
    if negb (Nat.eqb (Nat.modulo (length C) 16) 0) then Err Other
    else match C with [] => Ok [] | _ :: _ => unpad (cbc_dec_blocks dec prev (chunks 16 C)) end.

  Lemma cbc_dec_blocks_length bs : Forall (fun b => length b = 16) bs -> forall prev, length prev = 16 ->
    length (cbc_dec_blocks dec prev bs) = 16 * length bs.
  Proof.
    induction 1 as [|b bs Hb F IH]; intros prev Hp; cbn [cbc_dec_blocks length]; [reflexivity|].
    rewrite app_length, xor_bytes_length, dec_len, Hp, IH by assumption. lia.
  Qed.

  Lemma cbc_dec_length prev C : length prev = 16 -> Nat.modulo (length C) 16 = 0 ->
    length (cbc_dec_blocks dec prev (chunks 16 C)) = length C.
  Proof.
    intros Hp Hm. destruct (chunks_full 16 C ltac:(lia) Hm) as [F L].
    rewrite cbc_dec_blocks_length by assumption. unfold bytes in *. rewrite L.
    pose proof (Nat.div_mod (length C) 16 ltac:(lia)). lia.
  Qed.

  Lemma last_app_ne (a b : bytes) d : b <> [] -> last (a ++ b) d = last b d.
  Proof.
    intros Hb. induction a as [|x a IH]; [reflexivity|]. cbn [app last].
    destruct (a ++ b) eqn:E; [destruct a; [cbn in E; congruence|discriminate]|]. exact IH.
  Qed.

  Lemma unpad_app a b : Nat.modulo (length a) 16 = 0 -> 16 <= length b -> Nat.modulo (length b) 16 = 0 ->
    unpad (a ++ b) = match unpad b with Ok x => Ok (a ++ x) | Err e => Err e end.
  Proof.
    intros Ha Hb Hm. unfold unpad. rewrite app_length.
    assert (Hs : (length a + length b) mod 16 = 0).
    { pose proof (Nat.div_mod (length a) 16 ltac:(lia)). pose proof (Nat.div_mod (length b) 16 ltac:(lia)).
      replace (length a + length b) with ((length a / 16 + length b / 16) * 16) by lia. apply Nat.mod_mul. lia. }
    rewrite Hs, Hm.
    replace (Nat.ltb (length a + length b) 16) with false by (symmetry; apply Nat.ltb_ge; lia).
    replace (Nat.ltb (length b) 16) with false by (symmetry; apply Nat.ltb_ge; lia).
    cbn [orb negb Nat.eqb].
    assert (Hne : b <> []) by (destruct b; [cbn in Hb; lia|discriminate]).
    rewrite last_app_ne by assumption. set (p := last b 0%N).
    destruct (N.leb 1 p) eqn:H1; [|reflexivity]. destruct (N.leb p 16) eqn:H16; [|reflexivity]. cbn [andb].
    apply N.leb_le in H1, H16.
    assert (Hp : N.to_nat p <= 16) by lia.
    assert (Hl : lastn (N.to_nat p) (a ++ b) = lastn (N.to_nat p) b).
    { unfold lastn. rewrite app_length, skipn_app.
      rewrite skipn_all2 by lia. cbn [app]. f_equal. lia. }
    rewrite Hl. destruct (forallb _ _); [|reflexivity].
    f_equal. rewrite firstn_app. rewrite firstn_all2 by lia. f_equal. f_equal. lia.
  Qed.

  Lemma match_ne (l : bytes) (a b : res bytes) : l <> [] -> match l with [] => a | _ :: _ => b end = b.
  Proof. destruct l; [congruence|reflexivity]. Qed.

  Lemma spec_step prev C : length prev = 16 -> 17 <= length C ->
    spec_from prev C =
    match spec_from (firstn 16 C) (skipn 16 C) with
    | Ok p => Ok (xor_bytes (dec (firstn 16 C)) prev ++ p)
    | Err e => Err e
    end.
  Proof.
    intros Hp Hc. set (c := firstn 16 C). set (C' := skipn 16 C).
    assert (Hcl : length c = 16) by (subst c; rewrite firstn_length; lia).
    assert (Hc' : length C' = length C - 16) by (subst C'; apply skipn_length).
    assert (E : C = c ++ C') by (symmetry; apply firstn_skipn).
    unfold spec_from.
    assert (Hmod : length C mod 16 = length C' mod 16).
    { replace (length C) with (length C' + 1 * 16) by lia. apply Nat.mod_add. lia. }
    rewrite Hmod. destruct (Nat.eqb (length C' mod 16) 0) eqn:Em; cbn [negb]; [|reflexivity].
    apply Nat.eqb_eq in Em.
    assert (NC : C <> []) by (intros ->; cbn in Hc; lia).
    assert (NC' : C' <> []) by (intros X; rewrite X in Hc'; cbn in Hc'; lia).
    rewrite (match_ne C), (match_ne C') by assumption.
    rewrite E at 1. rewrite chunks_cons_app by (try lia; assumption). cbn [cbc_dec_blocks].
    assert (HL : length (cbc_dec_blocks dec c (chunks 16 C')) = length C') by (now apply cbc_dec_length).
    rewrite unpad_app.
    - reflexivity.
    - rewrite xor_bytes_length, dec_len, Hp by assumption. reflexivity.
    - rewrite HL. pose proof (Nat.div_mod (length C') 16 ltac:(lia)).
      destruct (length C' / 16) eqn:Eq; [|lia]. lia.
    - now rewrite HL.
  Qed.
  (* ---- the consumer loop --------------------------------------------------------------------------- *)

  Definition inv (st : rstate) : Prop :=
    (r_live st = true -> length (r_prev st) = 16) /\ length (r_reserved st) <= 16 /\
    (r_live st = false -> r_reserved st = []).

  Definition tail (st : rstate) : res bytes :=
    if r_live st then spec_from (r_prev st) (r_reserved st ++ s_data (r_src st)) else Ok [].

  Definition need (st : rstate) : nat :=
    length (r_ready st) + (if r_live st then length (r_reserved st) + length (s_data (r_src st)) + 2 else 1).

  Lemma unpad_length b u : unpad b = Ok u -> length u <= length b.
  Proof.
    unfold unpad. destruct (_ || _); [discriminate|]. destruct (_ && _); [|discriminate].
    intros E. injection E as <-. rewrite firstn_length. lia.
  Qed.

  Lemma skipn_shorter (l : bytes) p : 0 < p -> l <> [] -> length (skipn p l) < length l.
  Proof. intros Hp Hl. rewrite skipn_length. destruct l; [congruence|cbn [length]; lia]. Qed.

  Lemma read_all_spec : forall fuel st cs out, inv st -> need st <= fuel ->
    read_all dec fuel st cs out =
    match tail st with Ok p => Ok (out ++ r_ready st ++ p) | Err e => Err e end.
  Proof.
    induction fuel as [|f IH]; intros st cs out Hinv Hneed.
    { unfold need in Hneed. destruct (r_live st); lia. }
    cbn [read_all]. set (p := match cs with [] => 512 | n :: _ => S n end).
    assert (Hp : 0 < p) by (subst p; destruct cs; lia).
    destruct Hinv as (Iprev & Ires & Idead).
    destruct (r_ready st) as [|x rdy] eqn:Erdy.
    2:{ (* bytes are still ready *)
      rewrite IH.
      - unfold tail. cbn [r_live r_prev r_reserved r_src r_ready].
        destruct (if r_live st then _ else _); [|reflexivity].
        f_equal. rewrite <- !app_assoc. f_equal. rewrite app_assoc, firstn_skipn. reflexivity.
      - unfold inv. cbn [r_live r_prev r_reserved]. auto.
      - unfold need in *. cbn [r_live r_prev r_reserved r_src r_ready]. rewrite Erdy in Hneed.
        pose proof (skipn_shorter (x :: rdy) p Hp ltac:(discriminate)). destruct (r_live st); lia. }
    (* refill *)
    unfold refill. destruct (r_live st) eqn:Elive.
    2:{ rewrite fill_dead, (Idead eq_refl). cbn [length Nat.ltb Nat.leb]. unfold tail. rewrite Elive.
        now rewrite !app_nil_r. }
    pose proof (fill_spec fill_fuel (r_reserved st) (r_src st) Ires ltac:(unfold fill_fuel; lia)) as HF.
    unfold tail. rewrite Elive. set (C := r_reserved st ++ s_data (r_src st)) in *.
    assert (HneedC : length C + 2 <= S f).
    { unfold need in Hneed. rewrite Erdy, Elive in Hneed. subst C. rewrite app_length. cbn [length] in Hneed. lia. }
    destruct (fill fill_fuel (r_reserved st) (r_src st) true) as [[[buf s'] live']|e].
    2:{ destruct e; try contradiction. destruct HF as [Hm _]. unfold spec_from.
        replace (Nat.eqb (length C mod 16) 0) with false by (symmetry; now apply Nat.eqb_neq). reflexivity. }
    destruct live'.
    - (* the source is still alive: exactly one block is decrypted, 1..16 bytes are kept back *)
      destruct HF as [HC Hk].
      replace (Nat.ltb (length buf) 16) with false by (symmetry; apply Nat.ltb_ge; lia).
      assert (Hl : length buf - 1 - (length buf - 1) mod 16 = 16).
      { replace (length buf - 1) with ((length buf - 17) + 1 * 16) by lia.
        rewrite Nat.mod_add, Nat.mod_small by lia. lia. }
      rewrite Hl. set (c := firstn 16 buf).
      assert (Hc : length c = 16) by (subst c; rewrite firstn_length; lia).
      assert (Hch : chunks 16 c = [c]).
      { rewrite <- (app_nil_r c) at 1. now rewrite chunks_cons_app by (try lia; assumption). }
      rewrite Hch. cbn [cbc_dec_blocks last]. rewrite app_nil_r.
      set (plain := xor_bytes (dec c) (r_prev st)).
      assert (Hpl : length plain = 16) by (subst plain; rewrite xor_bytes_length, dec_len, (Iprev eq_refl) by assumption; reflexivity).
      cbn [r_prev r_src r_live r_reserved r_ready].
      rewrite IH.
      + unfold tail. cbn [r_live r_prev r_reserved r_src r_ready].
        assert (EC1 : firstn 16 C = c).
        { rewrite <- HC. rewrite firstn_app. replace (16 - length buf) with 0 by lia. now rewrite firstn_O, app_nil_r. }
        assert (EC2 : skipn 16 C = skipn 16 buf ++ s_data s').
        { rewrite <- HC. rewrite skipn_app. replace (16 - length buf) with 0 by lia. now rewrite skipn_O. }
        rewrite (spec_step (r_prev st) C (Iprev eq_refl)) by (rewrite <- HC, app_length; lia).
        rewrite EC1, EC2. fold plain.
        destruct (spec_from c (skipn 16 buf ++ s_data s')); [|reflexivity].
        f_equal. cbn [app]. rewrite <- !app_assoc. f_equal. rewrite app_assoc, firstn_skipn. reflexivity.
      + unfold inv. cbn [r_live r_prev r_reserved]. split; [auto|]. split; [rewrite skipn_length; lia|discriminate].
      + unfold need. cbn [r_live r_prev r_reserved r_src r_ready].
        pose proof (skipn_shorter plain p Hp ltac:(intros X; rewrite X in Hpl; discriminate Hpl)).
        assert (length (skipn 16 buf) + length (s_data s') = length C - 16).
        { rewrite <- HC, app_length, skipn_length. lia. }
        assert (16 <= length C) by (rewrite <- HC, app_length; lia). lia.
    - (* EOF has been seen: the whole rest is in the buffer *)
      destruct HF as (HC & HD & Hm & Hk). subst buf.
      destruct (Nat.ltb (length C) 16) eqn:E16.
      + apply Nat.ltb_lt in E16. assert (C = []).
        { rewrite Nat.mod_small in Hm by lia. destruct C; [reflexivity|discriminate]. }
        rewrite H. cbn. now rewrite !app_nil_r.
      + apply Nat.ltb_ge in E16. rewrite Hm, Nat.sub_0_r, firstn_all, skipn_all.
        assert (NC : C <> []) by (intros X; rewrite X in E16; cbn in E16; lia).
        unfold spec_from. rewrite Hm. cbn [Nat.eqb negb]. rewrite (match_ne C) by assumption.
        set (plain := cbc_dec_blocks dec (r_prev st) (chunks 16 C)).
        assert (Hpl : length plain = length C) by (subst plain; apply cbc_dec_length; auto).
        destruct (unpad plain) as [u|e] eqn:Eu; [|reflexivity].
        cbn [r_prev r_src r_live r_reserved r_ready].
        rewrite IH.
        * unfold tail. cbn [r_live r_ready]. f_equal. cbn [app]. rewrite app_nil_r, <- app_assoc. f_equal. apply firstn_skipn.
        * unfold inv. cbn [r_live r_prev r_reserved]. split; [discriminate|]. split; [cbn; lia|reflexivity].
        * unfold need. cbn [r_live r_ready]. apply unpad_length in Eu. rewrite skipn_length. lia.
  Qed.

  (* ---- DecryptStream, read with arbitrary chunkings = the one-shot function ----------------------------- *)

  Lemma stream_read_chunking_l data sizes early cs :
    read_stream_aes dec data sizes early cs = decrypt_stream_aes dec data.
  Proof.
    unfold read_stream_aes, decrypt_stream_aes.
    pose proof (read_full_spec 16 20 [] {| s_data := data; s_sizes := sizes; s_early := early |} ltac:(cbn; lia) ltac:(cbn; lia)) as HR.
    cbn [app s_data] in HR.
    destruct (read_full 20 16 [] _) as [[iv s]|e].
    - destruct HR as (-> & Hs & Hlen).
      replace (Nat.ltb (length data) 16) with false by (symmetry; apply Nat.ltb_ge; lia).
      rewrite read_all_spec.
      + unfold tail. cbn [r_live r_prev r_reserved r_src r_ready app]. rewrite Hs.
        unfold spec_from, cbc_dec. destruct (skipn 16 data) as [|y body] eqn:Eb; [reflexivity|].
        destruct (Nat.eqb (length (y :: body) mod 16) 0); cbn [negb]; [|reflexivity].
        destruct (unpad _); reflexivity.
      + unfold inv. cbn [r_live r_prev r_reserved]. split; [intros _; rewrite firstn_length; lia|]. split; [cbn; lia|discriminate].
      + unfold need. cbn [r_live r_prev r_reserved r_src r_ready length]. rewrite Hs, skipn_length. lia.
    - destruct e; try contradiction.
      replace (Nat.ltb (length data) 16) with true by (symmetry; apply Nat.ltb_lt; lia). reflexivity.
  Qed.
End ReaderProofs.
