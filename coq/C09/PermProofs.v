From Coq Require Import ZArith Bool List Lia.
From GoPdf.Gen Require Import Gen_Perm.
From GoPdf.C09 Require Import Perm.
Import ListNotations.
Open Scope Z_scope.

Definition ok (R perm : Z) : bool :=
  if (Z.eqb R 2) && negb (canR2 perm) then true
  else Z.eqb (stdSecPToPerm R (stdSecPermToP perm)) (close perm).

Lemma perm_exact_b : forallb (fun R => forallb (ok R) perms) revisions = true.
Proof. vm_compute. reflexivity. Qed.

Lemma in_perms perm : 0 <= perm < 128 -> In perm perms.
Proof.
  intros H. unfold perms. apply in_map_iff. exists (Z.to_nat perm). split; [lia|]. apply in_seq. lia.
Qed.

Lemma perm_exact_l : forall R perm, In R revisions -> 0 <= perm < 128 ->
  (R = 2 -> canR2 perm = true) ->
  stdSecPToPerm R (stdSecPermToP perm) = close perm.
Proof.
  intros R perm HR Hp Hc.
  pose proof perm_exact_b as H. rewrite forallb_forall in H. specialize (H R HR).
  rewrite forallb_forall in H. specialize (H perm (in_perms perm Hp)). unfold ok in H.
  destruct (Z.eqb_spec R 2) as [->|]; cbn [andb] in H.
  - rewrite (Hc eq_refl) in H. cbn in H. now apply Z.eqb_eq.
  - now apply Z.eqb_eq.
Qed.

Lemma p_shape_b : forallb (fun perm => p_shape_ok (stdSecPermToP perm) && p_bits_ok perm (stdSecPermToP perm)) perms = true.
Proof. vm_compute. reflexivity. Qed.

Lemma p_shape_l : forall perm, 0 <= perm < 128 ->
  p_shape_ok (stdSecPermToP perm) = true /\ p_bits_ok perm (stdSecPermToP perm) = true.
Proof.
  intros perm Hp. pose proof p_shape_b as H. rewrite forallb_forall in H.
  specialize (H perm (in_perms perm Hp)). now apply andb_true_iff in H.
Qed.

(* close is a closure operator on [0,128) and canR2 sets are exactly those where revision 2 loses nothing *)
Lemma close_props_b : forallb (fun p => (Z.eqb (close (close p)) (close p)) && (Z.eqb (Z.land (close p) p) p)
                                        && (0 <=? close p) && (close p <? 128)) perms = true.
Proof. vm_compute. reflexivity. Qed.

Lemma close_props_l : forall p, 0 <= p < 128 ->
  close (close p) = close p /\ Z.land (close p) p = p /\ 0 <= close p < 128.
Proof.
  intros p Hp. pose proof close_props_b as H. rewrite forallb_forall in H.
  specialize (H p (in_perms p Hp)).
  repeat (apply andb_true_iff in H; destruct H as [H ?]).
  repeat split; try (now apply Z.eqb_eq); lia.
Qed.

(* owner access: all permissions *)
Lemma perm_all_b : forallb (fun R => Z.eqb (stdSecPToPerm R (2^32 - 1)) 127) revisions = true.
Proof. vm_compute. reflexivity. Qed.
