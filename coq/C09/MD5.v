(* MD5 (RFC 1321), executable. *)
From Coq Require Import List NArith.
From GoPdf.Base Require Import Bytes.
From GoPdf.C09 Require Import Word Nib NWord.
Import ListNotations.
Open Scope N_scope.

(* (round kind, message word index, constant, rotation) *)
Definition md5_steps : list (N * N * N * N) := [
   (0, 0, 3614090360, 7); (0, 1, 3905402710, 12); (0, 2, 606105819, 17); (0, 3, 3250441966, 22);
   (0, 4, 4118548399, 7); (0, 5, 1200080426, 12); (0, 6, 2821735955, 17); (0, 7, 4249261313, 22);
   (0, 8, 1770035416, 7); (0, 9, 2336552879, 12); (0, 10, 4294925233, 17); (0, 11, 2304563134, 22);
   (0, 12, 1804603682, 7); (0, 13, 4254626195, 12); (0, 14, 2792965006, 17); (0, 15, 1236535329, 22);
   (1, 1, 4129170786, 5); (1, 6, 3225465664, 9); (1, 11, 643717713, 14); (1, 0, 3921069994, 20);
   (1, 5, 3593408605, 5); (1, 10, 38016083, 9); (1, 15, 3634488961, 14); (1, 4, 3889429448, 20);
   (1, 9, 568446438, 5); (1, 14, 3275163606, 9); (1, 3, 4107603335, 14); (1, 8, 1163531501, 20);
   (1, 13, 2850285829, 5); (1, 2, 4243563512, 9); (1, 7, 1735328473, 14); (1, 12, 2368359562, 20);
   (2, 5, 4294588738, 4); (2, 8, 2272392833, 11); (2, 11, 1839030562, 16); (2, 14, 4259657740, 23);
   (2, 1, 2763975236, 4); (2, 4, 1272893353, 11); (2, 7, 4139469664, 16); (2, 10, 3200236656, 23);
   (2, 13, 681279174, 4); (2, 0, 3936430074, 11); (2, 3, 3572445317, 16); (2, 6, 76029189, 23);
   (2, 9, 3654602809, 4); (2, 12, 3873151461, 11); (2, 15, 530742520, 16); (2, 2, 3299628645, 23);
   (3, 0, 4096336452, 6); (3, 7, 1126891415, 10); (3, 14, 2878612391, 15); (3, 5, 4237533241, 21);
   (3, 12, 1700485571, 6); (3, 3, 2399980690, 10); (3, 10, 4293915773, 15); (3, 1, 2240044497, 21);
   (3, 8, 1873313359, 6); (3, 15, 4264355552, 10); (3, 6, 2734768916, 15); (3, 13, 1309151649, 21);
   (3, 4, 4149444226, 6); (3, 11, 3174756917, 10); (3, 2, 718787259, 15); (3, 9, 3951481745, 21)].

Definition w32 (n : N) : word := word_of_N 8 n.

(* the table with constants and rotations converted once *)
Definition md5_steps_w : list (N * nat * word * (nat * nat)) :=
  map (fun s => let '(kind, g, k, r) := s in (kind, N.to_nat g, w32 k, qr (32 - N.to_nat r))) md5_steps.

Definition md5_f (kind : N) (b c d : word) : word :=
  if kind =? 0 then wor (wand b c) (wand (wnot b) d)
  else if kind =? 1 then wor (wand d b) (wand (wnot d) c)
  else if kind =? 2 then wxor b (wxor c d)
  else wxor c (wor b (wnot d)).

Definition md5_state := (word * word * word * word)%type.

Definition md5_step (m : list word) (st : md5_state) (s : N * nat * word * (nat * nat)) : md5_state :=
  let '(a, b, c, d) := st in
  let '(kind, g, k, r) := s in
  let f := wadd (wadd (wadd (md5_f kind b c d) a) k) (nth g m []) in
  (d, wadd b (wrotr_qr r f)  (* rotate left by s = right by 32 - s *), b, c).

Definition md5_block (st : md5_state) (blk : bytes) : md5_state :=
  let m := map word_of_le (chunks 4 blk) in
  let '(a, b, c, d) := st in
  let '(a', b', c', d') := fold_left (md5_step m) md5_steps_w st in
  (wadd a a', wadd b b', wadd c c', wadd d d').

(* number of zero bytes after the 0x80 so that the padded length is a multiple of [blk] *)
Definition pad_zeros (blk lenfield : N) (len : N) : nat :=
  N.to_nat ((blk - lenfield + blk - ((len + 1) mod blk)) mod blk).

Definition md5_pad (msg : bytes) : bytes :=
  let len := N.of_nat (length msg) in
  msg ++ 128 :: zeros (pad_zeros 64 8 len) ++ le_bytes 8 (8 * len).

Definition md5_iv : md5_state := (w32 1732584193, w32 4023233417, w32 2562383102, w32 271733878).

Definition md5 (msg : bytes) : bytes :=
  let '(a, b, c, d) := fold_left md5_block (chunks 64 (md5_pad msg)) md5_iv in
  le_of_word a ++ le_of_word b ++ le_of_word c ++ le_of_word d.
