(* 256-entry tables as perfect binary trees of depth 8 (index bits consumed low bit first).
   Used for the RC4 state and the AES S-boxes so that the extracted model is fast. *)
From Coq Require Import List NArith.
Import ListNotations.
Open Scope N_scope.

Inductive tab := TLeaf (v : N) | TNode (l r : tab).

Fixpoint tab_const (d : nat) (v : N) : tab :=
  match d with O => TLeaf v | S d' => let t := tab_const d' v in TNode t t end.

Fixpoint tab_get (t : tab) (i : N) : N :=
  match t with
  | TLeaf v => v
  | TNode l r => if N.odd i then tab_get r (N.div2 i) else tab_get l (N.div2 i)
  end.

Fixpoint tab_set (t : tab) (i : N) (v : N) : tab :=
  match t with
  | TLeaf _ => TLeaf v
  | TNode l r => if N.odd i then TNode l (tab_set r (N.div2 i) v) else TNode (tab_set l (N.div2 i) v) r
  end.

Fixpoint tab_fill (t : tab) (i : N) (l : list N) : tab :=
  match l with [] => t | x :: r => tab_fill (tab_set t i x) (i + 1) r end.

Definition tab_of_list (l : list N) : tab := tab_fill (tab_const 8 0) 0 l.
