From Coq Require Import List NArith ZArith Bool Lia PeanoNat.
From Coq Require Import ZifyN ZifyNat ZifyBool.
From GoPdf.Base Require Import Bytes Res.
From GoPdf.Gen Require Import Gen_Consts Gen_Perm.
From GoPdf.C09 Require Import Word Tab MD5 RC4 SHA2 AES Pkcs7 StdSec Perm ListX RC4Proofs PermProofs Pkcs7Proofs.
Import ListNotations.
Open Scope N_scope.
Set Default Timeout 60.

(* ---- password padding -------------------------------------------------------------- *)

Lemma pad_bytes_length : length pad_bytes = 32%nat.
Proof. reflexivity. Qed.

Lemma pad_passwd_length p : length (pad_passwd p) = 32%nat.
Proof. unfold pad_passwd. rewrite firstn_length, app_length, pad_bytes_length. lia. Qed.

Lemma pad_passwd_long p : (32 <= length p)%nat -> pad_passwd p = firstn 32 p.
Proof.
  intros H. unfold pad_passwd. rewrite firstn_app.
  replace (32 - length p)%nat with 0%nat by lia. now rewrite firstn_O, app_nil_r.
Qed.

Lemma pad_passwd_short p : (length p <= 32)%nat -> pad_passwd p = p ++ firstn (32 - length p) pad_bytes.
Proof. intros H. unfold pad_passwd. rewrite firstn_app, firstn_all2 by lia. reflexivity. Qed.

(* two passwords are "the same after preparation" iff their 32-byte forms coincide; for short
   passwords of equal length this means equality, for long ones equality of the first 32 bytes *)
Lemma pad_equiv_l p q :
  (pad_passwd p = pad_passwd q <-> firstn 32 (p ++ pad_bytes) = firstn 32 (q ++ pad_bytes))
  /\ ((32 <= length p)%nat -> (32 <= length q)%nat -> (pad_passwd p = pad_passwd q <-> firstn 32 p = firstn 32 q))
  /\ ((length p <= 32)%nat -> length q = length p -> (pad_passwd p = pad_passwd q <-> p = q)).
Proof.
  split; [reflexivity|]. split.
  - intros Hp Hq. now rewrite !pad_passwd_long by assumption.
  - intros Hp Hq. rewrite !pad_passwd_short by lia. rewrite Hq. split; [|now intros ->].
    intros H. apply app_inv_tail in H. assumption.
Qed.

Lemma trunc_passwd_equiv p q :
  ((length p <= 127)%nat -> (length q <= 127)%nat -> (trunc_passwd p = trunc_passwd q <-> p = q))
  /\ length (trunc_passwd p) = Nat.min 127 (length p).
Proof.
  unfold trunc_passwd. split; [|apply firstn_length].
  intros Hp Hq. now rewrite !firstn_all2 by lia.
Qed.

(* ---- Algorithm 1: the five bytes fed into the per-object key ------------------------- *)

Lemma three_bytes n : n < 16777216 ->
  n = n mod 256 + 256 * ((n / 256) mod 256) + 65536 * ((n / 65536) mod 256).
Proof.
  intros H.
  pose proof (N.div_mod n 256 ltac:(discriminate)) as H1.
  pose proof (N.div_mod (n / 256) 256 ltac:(discriminate)) as H2.
  pose proof (N.div_div n 256 256 ltac:(discriminate) ltac:(discriminate)) as H3.
  change (256 * 256) with 65536 in H3.
  assert (H4 : n / 65536 < 256) by (apply N.div_lt_upper_bound; [discriminate|exact H]).
  rewrite (N.mod_small (n / 65536) 256 H4). rewrite <- H3.
  remember (n mod 256) as a. remember ((n / 256) mod 256) as b. remember (n / 256 / 256) as c.
  remember (n / 256) as d. clear -H1 H2. lia.
Qed.

Lemma two_bytes g : g <= 65535 -> g = g mod 256 + 256 * ((g / 256) mod 256).
Proof.
  intros H.
  pose proof (N.div_mod g 256 ltac:(discriminate)) as H1.
  assert (H4 : g / 256 < 256) by (apply N.div_lt_upper_bound; [discriminate|lia]).
  rewrite (N.mod_small (g / 256) 256 H4).
  remember (g mod 256) as a. remember (g / 256) as d. clear -H1. lia.
Qed.

Lemma key_input_inj_l n g n' g' : n < 2^24 -> n' < 2^24 -> g <= 65535 -> g' <= 65535 ->
  key_input n g = key_input n' g' -> n = n' /\ g = g'.
Proof.
  unfold key_input. intros Hn Hn' Hg Hg' E. injection E as E0 E1 E2 E3 E4.
  change (2^24) with 16777216 in *. split.
  - rewrite (three_bytes n Hn), (three_bytes n' Hn'). now rewrite E0, E1, E2.
  - rewrite (two_bytes g Hg), (two_bytes g' Hg'). now rewrite E3, E4.
Qed.

Lemma key_input_collides : exists n g n' g', (n, g) <> (n', g') /\ key_input n g = key_input n' g'.
Proof. exists 1, 0, (1 + 2^24), 0. split; [discriminate|reflexivity]. Qed.

(* ---- RC4 rounds ------------------------------------------------------------------------ *)

Lemma xor_key_0 key : xor_key key 0 = key.
Proof. unfold xor_key. induction key as [|b k IH]; cbn [map]; [reflexivity|]. now rewrite N.lxor_0_r, IH. Qed.

Lemma rc4_rounds_length key is d : length (rc4_rounds key is d) = length d.
Proof.
  unfold rc4_rounds. revert d. induction is as [|i is IH]; intros d; cbn [fold_left]; [reflexivity|].
  now rewrite IH, rc4_length.
Qed.

Lemma rc4_rounds_rev key is d : rc4_rounds key (rev is) (rc4_rounds key is d) = d.
Proof.
  unfold rc4_rounds. revert d. induction is as [|i is IH]; intros d; cbn [fold_left rev]; [reflexivity|].
  rewrite fold_left_app. cbn [fold_left]. rewrite IH. apply rc4_involution_l.
Qed.

Lemma rounds_0_19 key d : rc4_rounds key one_to_19 (rc4 key d) = rc4_rounds key (iota 20 0) d.
Proof. unfold rc4_rounds. change (iota 20 0) with (0 :: one_to_19). cbn [fold_left]. now rewrite xor_key_0. Qed.

Lemma copy32_id s : length s = 32%nat -> copy32 s = s.
Proof. intros H. unfold copy32. rewrite firstn_app, H, Nat.sub_diag, firstn_O, app_nil_r. apply firstn_all2. lia. Qed.

(* ---- revisions 2 to 4 -------------------------------------------------------------------- *)

Definition legacy_R (R : Z) : Prop := (R = 2 \/ R = 3 \/ R = 4)%Z.

Lemma file_key_ext h1 h2 q :
  hO h1 = hO h2 -> hP h1 = hP h2 -> hID h1 = hID h2 -> hPlainMeta h1 = hPlainMeta h2 ->
  hR h1 = hR h2 -> hKeyBytes h1 = hKeyBytes h2 -> file_key h1 q = file_key h2 q.
Proof. intros E1 E2 E3 E4 E5 E6. unfold file_key. now rewrite E1, E2, E3, E4, E5, E6. Qed.

Section Legacy.
  Variables (R : Z) (id user owner : bytes) (perm : Z) (kb : nat) (plain_meta : bool).
  Hypothesis HR : legacy_R R.

  Let pu := pad_passwd user.
  Let po := pad_passwd owner.
  Let o := compute_O R kb pu po.
  Let mk (u : bytes) : handler :=
    {| hR := R; hID := id; hO := o; hU := u; hOE := []; hUE := []; hPerms := [];
       hP := stdSecPermToP perm; hKeyBytes := kb; hPlainMeta := plain_meta |}.
  Let key := file_key (mk []) pu.
  Let h := mk (compute_U R id key).

  Lemma create_legacy_eq : create_legacy R id user owner perm kb plain_meta = (h, key).
  Proof. reflexivity. Qed.

  Lemma key_eq : file_key h pu = key.
  Proof. apply file_key_ext; reflexivity. Qed.

  Lemma compute_O_length : length o = 32%nat.
  Proof.
    unfold o, compute_O. destruct (3 <=? R)%Z.
    - rewrite rc4_rounds_length, rc4_length. apply pad_passwd_length.
    - rewrite rc4_length. apply pad_passwd_length.
  Qed.

  (* Algorithm 7 recovers the padded user password from /O *)
  Lemma recover_user_owner : recover_user h po = pu.
  Proof.
    unfold recover_user. change (hO h) with o. change (hR h) with R. change (hKeyBytes h) with kb.
    rewrite copy32_id by apply compute_O_length.
    unfold o, compute_O. set (k := owner_rc4_key R kb po).
    destruct HR as [->|[->| ->]].
    - change (2 =? 2)%Z with true. change (3 <=? 2)%Z with false. cbv iota. apply rc4_involution_l.
    - change (3 =? 2)%Z with false. change (3 <=? 3)%Z with true. cbv iota.
      rewrite rounds_0_19. apply rc4_rounds_rev.
    - change (4 =? 2)%Z with false. change (3 <=? 4)%Z with true. cbv iota.
      rewrite rounds_0_19. apply rc4_rounds_rev.
  Qed.

  (* Algorithm 6 accepts the padded user password and returns the file key *)
  Lemma auth_user_ok : auth_user h pu = Ok key.
  Proof.
    unfold auth_user. rewrite key_eq. change (hR h) with R. change (hID h) with id.
    change (hU h) with (compute_U R id key).
    destruct (R =? 2)%Z; now rewrite bytes_eqb_refl.
  Qed.

  Lemma auth_owner_ok : StdSec.auth_owner h po = Ok key.
  Proof. unfold StdSec.auth_owner. rewrite recover_user_owner. apply auth_user_ok. Qed.

  Lemma h_lt5 : (hR h <? 5)%Z = true.
  Proof. change (hR h) with R. destruct HR as [->|[->| ->]]; reflexivity. Qed.

  Lemma authenticate_owner : authenticate h owner = Ok (PermAll, key).
  Proof. unfold authenticate. rewrite h_lt5. fold po. now rewrite auth_owner_ok. Qed.

  Lemma auth_legacy_no_fuel p q : StdSec.auth_owner h p <> Err OutOfFuel /\ auth_user h q <> Err OutOfFuel.
  Proof.
    unfold StdSec.auth_owner, auth_user. split.
    - destruct (if (hR h =? 2)%Z then _ else _); discriminate.
    - destruct (if (hR h =? 2)%Z then _ else _); discriminate.
  Qed.

  Lemma authenticate_user_any : exists p k, authenticate h user = Ok (p, k).
  Proof.
    unfold authenticate. rewrite h_lt5. fold pu. unfold try2.
    destruct (StdSec.auth_owner h pu) as [k|c] eqn:E.
    - eauto.
    - rewrite auth_user_ok. destruct c; eauto.
      exfalso. now apply (proj1 (auth_legacy_no_fuel pu pu)).
  Qed.

  Hypothesis Hperm : (0 <= perm < 128)%Z.
  Hypothesis Hcan : (R = 2)%Z -> canR2 perm = true.

  Lemma user_perm : stdSecPToPerm (hR h) (hP h) = close perm.
  Proof.
    change (hR h) with R. change (hP h) with (stdSecPermToP perm). apply perm_exact_l; try assumption.
    unfold revisions. destruct HR as [->|[->| ->]]; cbn [In]; tauto.
  Qed.

  Lemma authenticate_user c : StdSec.auth_owner h pu = Err c -> authenticate h user = Ok (close perm, key).
  Proof.
    intros E. unfold authenticate. rewrite h_lt5. fold pu. unfold try2. rewrite E, auth_user_ok, user_perm.
    destruct c; try reflexivity. exfalso. now apply (proj1 (auth_legacy_no_fuel pu pu)).
  Qed.

  (* wrong passwords *)
  Definition u_part (x : bytes) : bytes := if (R =? 2)%Z then x else firstn 16 x.
  Definition u_of (q : bytes) : bytes := u_part (compute_U R id (file_key h q)).

  Lemma auth_user_ok_inv q k : auth_user h q = Ok k -> u_of q = u_of pu.
  Proof.
    unfold auth_user, u_of, u_part. rewrite key_eq. change (hR h) with R. change (hID h) with id.
    change (hU h) with (compute_U R id key).
    destruct (R =? 2)%Z.
    - destruct (bytes_eqb _ _) eqn:E; [|discriminate]. intros _. now apply bytes_eqb_eq in E.
    - destruct (bytes_eqb _ _) eqn:E; [|discriminate]. intros _. now apply bytes_eqb_eq in E.
  Qed.

  Lemma authenticate_wrong p :
    (* no collision of the password-to-/U map on the two candidates the algorithm forms ... *)
    (forall q, q = pad_passwd p \/ q = recover_user h (pad_passwd p) -> u_of q = u_of pu -> q = pu) ->
    (* ... nor of the decryption of /O under the candidate's owner key *)
    (recover_user h (pad_passwd p) = pu -> pad_passwd p = po) ->
    pad_passwd p <> pu -> pad_passwd p <> po ->
    authenticate h p = Err Auth.
  Proof.
    intros HU HO Nu No. unfold authenticate. rewrite h_lt5. unfold try2.
    destruct (StdSec.auth_owner h (pad_passwd p)) as [k|c] eqn:Eo.
    - exfalso. unfold StdSec.auth_owner in Eo. apply auth_user_ok_inv in Eo.
      apply HU in Eo; [|now right]. apply HO in Eo. contradiction.
    - destruct (auth_user h (pad_passwd p)) as [k|c'] eqn:Eu.
      + exfalso. apply auth_user_ok_inv in Eu. apply HU in Eu; [|now left]. contradiction.
      + destruct c; try (destruct c'; try reflexivity;
          exfalso; now apply (proj2 (auth_legacy_no_fuel (pad_passwd p) (pad_passwd p)))).
        exfalso. now apply (proj1 (auth_legacy_no_fuel (pad_passwd p) (pad_passwd p))).
  Qed.
End Legacy.

(* ---- the empty password is always tried first ------------------------------------------ *)

Lemma open_handler_empty_ok h supplied p r : authenticate h [] = Ok r -> open_handler h supplied p = Ok r.
Proof. intros E. unfold open_handler. now rewrite E. Qed.

Lemma open_handler_supplied h p c : authenticate h [] = Err c -> open_handler h true p = authenticate h p.
Proof. intros E. unfold open_handler. now rewrite E. Qed.

(* ---- Algorithm 2.B: 288 rounds of fuel always suffice ------------------------------------- *)

Lemma land_255 x : N.land x 255 <= 255.
Proof.
  change 255 with (N.ones 8). rewrite N.land_ones.
  pose proof (N.mod_upper_bound x (2 ^ 8) ltac:(discriminate)) as H. change (N.ones 8) with 255. change (2 ^ 8) with 256 in H.
  remember (x mod 256) as y. clear -H. lia.
Qed.

Lemma slow_loop_fuel fuel : forall i passwd udata k e, 288 <= i + N.of_nat fuel ->
  slow_loop fuel i passwd udata k e <> Err OutOfFuel.
Proof.
  induction fuel as [|f IH]; intros i passwd udata k e H.
  - cbn [slow_loop]. pose proof (land_255 (last e 0)) as Hl.
    replace (i <? 64) with false by (symmetry; apply N.ltb_ge; lia).
    replace (i <? N.land (last e 0) 255 + 32) with false by (symmetry; apply N.ltb_ge; lia).
    discriminate.
  - cbn [slow_loop]. destruct ((i <? 64) || (i <? N.land (last e 0) 255 + 32)); [|discriminate].
    destruct (slow_round passwd udata k) as [k' e']. apply IH. lia.
Qed.

Lemma slow_hash_no_fuel passwd salt udata : slow_hash passwd salt udata <> Err OutOfFuel.
Proof. unfold slow_hash. apply slow_loop_fuel. reflexivity. Qed.

Lemma fix32_length k : length (fix32 k) = 32%nat.
Proof. unfold fix32. rewrite firstn_length, app_length. assert (length (zeros 32) = 32%nat) by reflexivity. lia. Qed.

Lemma slow_loop_length fuel : forall i passwd udata k e r,
  slow_loop fuel i passwd udata k e = Ok r -> length r = 32%nat.
Proof.
  induction fuel as [|f IH]; intros i passwd udata k e r; cbn [slow_loop].
  - destruct (_ || _); [discriminate|]. intros E. injection E as <-. apply fix32_length.
  - destruct (_ || _).
    + destruct (slow_round passwd udata k) as [k' e']. apply IH.
    + intros E. injection E as <-. apply fix32_length.
Qed.

Lemma slow_hash_length passwd salt udata r : slow_hash passwd salt udata = Ok r -> length r = 32%nat.
Proof. unfold slow_hash. apply slow_loop_length. Qed.

Lemma slow_hash_cases passwd salt udata : (exists r, slow_hash passwd salt udata = Ok r /\ length r = 32%nat).
Proof.
  destruct (slow_hash passwd salt udata) as [r|c] eqn:E.
  - exists r. split; [reflexivity|]. now apply slow_hash_length in E.
  - exfalso. revert E. unfold slow_hash. set (f := slow_fuel). assert (Hf : 288 <= 0 + N.of_nat f) by reflexivity.
    revert Hf. generalize 0 at 1 2. generalize (sha256 (passwd ++ salt ++ udata)). generalize (@nil byte).
    induction f as [|f IH]; intros e k i Hf; cbn [slow_loop].
    + pose proof (land_255 (last e 0)) as Hl.
      replace (i <? 64) with false by (symmetry; apply N.ltb_ge; lia).
      replace (i <? N.land (last e 0) 255 + 32) with false by (symmetry; apply N.ltb_ge; lia). discriminate.
    + destruct (_ || _); [|discriminate]. destruct (slow_round passwd udata k) as [k' e']. apply IH. lia.
Qed.

(* ---- revision 6 ---------------------------------------------------------------------------- *)

Lemma le_bytes_wf k x : wfbs (le_bytes k x) = true.
Proof.
  revert x. induction k as [|k IH]; intros x; cbn [le_bytes wfbs forallb]; [reflexivity|].
  apply andb_true_iff. split; [|apply IH]. unfold wfb. apply N.ltb_lt. pose proof (land_255 x). lia.
Qed.

Lemma le_bytes_length k x : length (le_bytes k x) = k.
Proof. revert x. induction k as [|k IH]; intros x; cbn [le_bytes length]; [reflexivity|]. now rewrite IH. Qed.

Lemma zeros_wf n : wfbs (zeros n) = true.
Proof. induction n; cbn [zeros wfbs forallb]; [reflexivity|assumption]. Qed.
Lemma zeros_length n : length (zeros n) = n.
Proof. induction n; cbn [zeros length]; [reflexivity|]. now rewrite IHn. Qed.

Lemma perms_plain_shape P pm fill : wfbs fill = true ->
  length (perms_plain P pm fill) = 16%nat /\ wfbs (perms_plain P pm fill) = true
  /\ firstn 12 (perms_plain P pm fill) = firstn 12 (perms_plain P pm []).
Proof.
  intros Hf. unfold perms_plain, p_bytes.
  pose proof (le_bytes_length 4 (Z.to_N P)) as HL. pose proof (le_bytes_wf 4 (Z.to_N P)) as HW.
  destruct (le_bytes 4 (Z.to_N P)) as [|a [|b [|c [|d [|? ?]]]]]; try discriminate HL.
  assert (H4 : length (firstn 4 (fill ++ zeros 4)) = 4%nat).
  { rewrite firstn_length, app_length, zeros_length. lia. }
  split; [|split].
  - cbn [app length]. rewrite H4. reflexivity.
  - rewrite !wfbs_app. rewrite HW. cbn [andb]. replace (wfbs [255; 255; 255; 255]) with true by reflexivity.
    replace (wfbs [97; 100; 98]) with true by reflexivity. cbn [andb].
    apply andb_true_iff. split; [destruct pm; reflexivity|].
    assert (wfbs (fill ++ zeros 4) = true) by (rewrite wfbs_app, Hf; apply zeros_wf).
    rewrite <- (firstn_skipn 4 (fill ++ zeros 4)), wfbs_app in H. now apply andb_true_iff in H as [? _].
  - cbn [app firstn]. reflexivity.
Qed.

Section R6.
  (* the block cipher: premises about the executable AES of AES.v (256-bit keys) *)
  Hypothesis aes_inv : forall key b, length key = 32%nat -> length b = 16%nat -> wfbs b = true ->
    decrypt_with (round_keys key) (encrypt_with (round_keys key) b) = b.
  Hypothesis aes_len : forall key b, length key = 32%nat -> length b = 16%nat ->
    length (encrypt_with (round_keys key) b) = 16%nat.
  Hypothesis aes_wf : forall key b, wfbs (encrypt_with (round_keys key) b) = true.

  Lemma wrap_unwrap key fkey : length key = 32%nat -> length fkey = 32%nat -> wfbs fkey = true ->
    aes_cbc_nopad_dec key zero16 (aes_cbc_nopad_enc key zero16 fkey) = fkey.
  Proof.
    intros Hk Hf Hw. unfold aes_cbc_nopad_dec, aes_cbc_nopad_enc.
    apply cbc_rt_l; try (intros; now (apply aes_len || apply aes_wf || apply aes_inv)).
    - reflexivity.
    - reflexivity.
    - assumption.
    - now rewrite Hf.
  Qed.

  Variables (id user owner : bytes) (perm : Z) (plain_meta : bool) (fkey usalt osalt fill : bytes).
  Variable h : handler.
  Hypothesis Hcreate : create6 id user owner perm plain_meta fkey usalt osalt fill = Ok (h, fkey).
  Hypothesis Hfkey : length fkey = 32%nat /\ wfbs fkey = true.
  Hypothesis Husalt : length usalt = 16%nat.
  Hypothesis Hosalt : length osalt = 16%nat.
  Hypothesis Hfill : wfbs fill = true.

  Let pu := trunc_passwd user.
  Let po := trunc_passwd owner.

  Lemma create6_inv : exists uh ukey oh okey,
    slow_hash pu (firstn 8 usalt) [] = Ok uh /\ slow_hash pu (skipn 8 usalt) [] = Ok ukey /\
    slow_hash po (firstn 8 osalt) (uh ++ usalt) = Ok oh /\ slow_hash po (skipn 8 osalt) (uh ++ usalt) = Ok okey /\
    length uh = 32%nat /\ length ukey = 32%nat /\ length oh = 32%nat /\ length okey = 32%nat /\
    h = {| hR := 6; hID := id; hO := oh ++ osalt; hU := uh ++ usalt;
           hOE := aes_cbc_nopad_enc okey zero16 fkey; hUE := aes_cbc_nopad_enc ukey zero16 fkey;
           hPerms := aes_encrypt_block fkey (perms_plain (stdSecPermToP perm) plain_meta fill);
           hP := stdSecPermToP perm; hKeyBytes := 32; hPlainMeta := plain_meta |}.
  Proof.
    revert Hcreate. unfold create6. fold pu po.
    destruct (slow_hash pu (firstn 8 usalt) []) as [uh|] eqn:E1; [|discriminate]. cbn [bind].
    destruct (slow_hash pu (skipn 8 usalt) []) as [ukey|] eqn:E2; [|discriminate]. cbn [bind].
    destruct (slow_hash po (firstn 8 osalt) (uh ++ usalt)) as [oh|] eqn:E3; [|discriminate]. cbn [bind].
    destruct (slow_hash po (skipn 8 osalt) (uh ++ usalt)) as [okey|] eqn:E4; [|discriminate]. cbn [bind].
    intros E. injection E as <-. exists uh, ukey, oh, okey.
    repeat split; try reflexivity; eauto using slow_hash_length.
  Qed.

  Lemma slices (a s : bytes) : length a = 32%nat -> length s = 16%nat ->
    firstn 32 (a ++ s) = a /\ slice 32 40 (a ++ s) = firstn 8 s /\ slice 40 48 (a ++ s) = skipn 8 s.
  Proof.
    intros Ha Hs. unfold slice. repeat split.
    - rewrite firstn_app, Ha. change (32 - 32)%nat with 0%nat. rewrite firstn_O, app_nil_r. apply firstn_all2. lia.
    - rewrite skipn_app, Ha. change (32 - 32)%nat with 0%nat. rewrite skipn_O, skipn_all2 by lia. reflexivity.
    - rewrite skipn_app, Ha. change (40 - 32)%nat with 8%nat. change (48 - 40)%nat with 8%nat.
      rewrite skipn_all2 by lia. cbn [app]. apply firstn_all2. rewrite skipn_length. lia.
  Qed.

  Lemma check_perms_ok : check_perms h fkey = true.
  Proof.
    destruct create6_inv as (uh & ukey & oh & okey & _ & _ & _ & _ & _ & _ & _ & _ & ->).
    unfold check_perms. cbn [hPerms hP hPlainMeta].
    destruct Hfkey as [Hl Hw].
    destruct (perms_plain_shape (stdSecPermToP perm) plain_meta fill Hfill) as (L & W & F).
    unfold aes_decrypt_block, aes_encrypt_block. rewrite aes_inv by assumption.
    rewrite F. apply bytes_eqb_refl.
  Qed.

  Lemma auth_user6_ok : auth_user6 h pu = Ok fkey.
  Proof.
    pose proof check_perms_ok as HC.
    destruct create6_inv as (uh & ukey & oh & okey & E1 & E2 & E3 & E4 & L1 & L2 & L3 & L4 & Hh).
    destruct (slices uh usalt L1 Husalt) as (S1 & S2 & S3).
    unfold auth_user6, auth6. rewrite Hh in *. cbn [hR hU hUE] in *.
    unfold hash_rev. change (6 =? 5)%Z with false. cbv iota.
    rewrite S1, S2, S3, E1. cbn [bind]. rewrite bytes_eqb_refl. cbn [negb]. rewrite E2. cbn [bind].
    destruct Hfkey as [Hl Hw]. rewrite wrap_unwrap by assumption. now rewrite HC.
  Qed.

  Lemma auth_owner6_ok : auth_owner6 h po = Ok fkey.
  Proof.
    pose proof check_perms_ok as HC.
    destruct create6_inv as (uh & ukey & oh & okey & E1 & E2 & E3 & E4 & L1 & L2 & L3 & L4 & Hh).
    destruct (slices oh osalt L3 Hosalt) as (S1 & S2 & S3).
    unfold auth_owner6, auth6. rewrite Hh in *. cbn [hR hO hOE hU] in *.
    unfold hash_rev. change (6 =? 5)%Z with false. cbv iota.
    rewrite S1, S2, S3, E3. cbn [bind]. rewrite bytes_eqb_refl. cbn [negb]. rewrite E4. cbn [bind].
    destruct Hfkey as [Hl Hw]. rewrite wrap_unwrap by assumption. now rewrite HC.
  Qed.

  Lemma h6_R : hR h = 6%Z /\ hP h = stdSecPermToP perm.
  Proof. destruct create6_inv as (uh & ukey & oh & okey & _ & _ & _ & _ & _ & _ & _ & _ & ->). split; reflexivity. Qed.

  Lemma auth6_no_fuel q ou w ud : auth6 h q ou w ud <> Err OutOfFuel.
  Proof.
    unfold auth6, hash_rev. destruct (hR h =? 5)%Z; cbn [bind].
    - destruct (negb _); [discriminate|]. destruct (check_perms _ _); discriminate.
    - destruct (slow_hash q (slice 32 40 ou) ud) as [x|c] eqn:E1; cbn [bind].
      + destruct (negb _); [discriminate|].
        destruct (slow_hash q (slice 40 48 ou) ud) as [y|c] eqn:E2; cbn [bind].
        * destruct (check_perms _ _); discriminate.
        * intros H. injection H as ->. now apply slow_hash_no_fuel in E2.
      + intros H. injection H as ->. now apply slow_hash_no_fuel in E1.
  Qed.

  Lemma authenticate6_owner : authenticate h owner = Ok (PermAll, fkey).
  Proof.
    unfold authenticate. destruct h6_R as [-> _]. change (6 <? 5)%Z with false. cbv iota.
    fold po. now rewrite auth_owner6_ok.
  Qed.

  Lemma authenticate6_user_any : exists p k, authenticate h user = Ok (p, k).
  Proof.
    unfold authenticate. destruct h6_R as [-> _]. change (6 <? 5)%Z with false. cbv iota. fold pu. unfold try2.
    destruct (auth_owner6 h pu) as [k|c] eqn:E; [eauto|].
    rewrite auth_user6_ok. destruct c; eauto. exfalso. revert E. apply auth6_no_fuel.
  Qed.

  Hypothesis Hperm : (0 <= perm < 128)%Z.

  Lemma authenticate6_user c : auth_owner6 h pu = Err c -> authenticate h user = Ok (close perm, fkey).
  Proof.
    intros E. unfold authenticate. destruct h6_R as [HR6 HP]. rewrite HR6, HP.
    change (6 <? 5)%Z with false. cbv iota. fold pu. unfold try2. rewrite E, auth_user6_ok.
    assert (HX : stdSecPToPerm 6 (stdSecPermToP perm) = close perm).
    { apply perm_exact_l; [unfold revisions; cbn [In]; tauto|assumption|intros X; discriminate X]. }
    rewrite HX. destruct c; try reflexivity. exfalso. revert E. apply auth6_no_fuel.
  Qed.

  (* wrong passwords: the validation hashes of Algorithms 11/12 must not collide *)
  Lemma authenticate6_wrong p :
    (forall x, slow_hash (trunc_passwd p) (slice 32 40 (hU h)) [] = Ok x -> bytes_eqb x (firstn 32 (hU h)) = true ->
               trunc_passwd p = pu) ->
    (forall x, slow_hash (trunc_passwd p) (slice 32 40 (hO h)) (hU h) = Ok x -> bytes_eqb x (firstn 32 (hO h)) = true ->
               trunc_passwd p = po) ->
    trunc_passwd p <> pu -> trunc_passwd p <> po ->
    authenticate h p = Err Auth.
  Proof.
    intros HU HO Nu No. unfold authenticate. destruct h6_R as [HR6 _]. rewrite HR6.
    change (6 <? 5)%Z with false. cbv iota. unfold try2, auth_owner6, auth_user6, auth6, hash_rev. rewrite HR6.
    change (6 =? 5)%Z with false. cbv iota.
    destruct (slow_hash_cases (trunc_passwd p) (slice 32 40 (hO h)) (hU h)) as (x & E1 & _).
    destruct (slow_hash_cases (trunc_passwd p) (slice 32 40 (hU h)) []) as (y & E2 & _).
    rewrite E1. cbn [bind].
    destruct (bytes_eqb x (firstn 32 (hO h))) eqn:B1; cbn [negb].
    - exfalso. apply No. exact (HO x E1 B1).
    - rewrite E2. cbn [bind].
      destruct (bytes_eqb y (firstn 32 (hU h))) eqn:B2; cbn [negb]; [|reflexivity].
      exfalso. apply Nu. exact (HU y E2 B2).
  Qed.
End R6.

(* ---- strings and streams ---------------------------------------------------------------------- *)

Definition aes_key_len (k : bytes) : Prop := (length k = 16 \/ length k = 32)%nat.

Section RoundTrip.
  Hypothesis aes_inv : forall key b, aes_key_len key -> length b = 16%nat -> wfbs b = true ->
    decrypt_with (round_keys key) (encrypt_with (round_keys key) b) = b.
  Hypothesis aes_len : forall key b, aes_key_len key -> length b = 16%nat ->
    length (encrypt_with (round_keys key) b) = 16%nat.
  Hypothesis aes_wf : forall key b, wfbs (encrypt_with (round_keys key) b) = true.

  Definition aes_side (aes : bool) (okey iv data : bytes) : Prop :=
    aes = true -> aes_key_len okey /\ length iv = 16%nat /\ wfbs iv = true /\ wfbs data = true.

  Lemma bytes_rt_l aes okey iv data : aes_side aes okey iv data ->
    decrypt_bytes aes okey (encrypt_bytes aes okey iv data) = Ok data.
  Proof.
    intros H. unfold decrypt_bytes, encrypt_bytes. destruct aes.
    - destruct (H eq_refl) as (Hk & Hi & Hw & Hd).
      apply bytes_rt_aes_l; try assumption; intros; now (apply aes_len || apply aes_wf || apply aes_inv).
    - now rewrite rc4_involution_l.
  Qed.

  Lemma stream_rt_l aes okey iv writes : aes_side aes okey iv (concat writes) ->
    decrypt_stream aes okey (encrypt_stream aes okey iv writes) = Ok (concat writes).
  Proof.
    intros H. unfold decrypt_stream, encrypt_stream. destruct aes.
    - destruct (H eq_refl) as (Hk & Hi & Hw & Hd).
      apply stream_rt_aes_l; try assumption; intros; now (apply aes_len || apply aes_wf || apply aes_inv).
    - now rewrite rc4_involution_l.
  Qed.

  (* the ciphertext does not depend on how the data was cut into Write calls *)
  Lemma stream_chunking_l aes okey iv w1 w2 : (aes = true -> length iv = 16%nat) -> concat w1 = concat w2 ->
    encrypt_stream aes okey iv w1 = encrypt_stream aes okey iv w2.
  Proof.
    intros Hi E. unfold encrypt_stream. destruct aes; [|now rewrite E].
    rewrite !encrypt_stream_chunking_l by (now apply Hi). now rewrite E.
  Qed.
End RoundTrip.

(* ---- statements in the form used by Prop_C09 --------------------------------------------------- *)

Lemma auth_owner_legacy_l R id user owner perm kb pm : legacy_R R ->
  authenticate (fst (create_legacy R id user owner perm kb pm)) owner
  = Ok (PermAll, snd (create_legacy R id user owner perm kb pm)).
Proof. intros HR. exact (authenticate_owner R id user owner perm kb pm HR). Qed.

Lemma auth_user_opens_legacy_l R id user owner perm kb pm : legacy_R R ->
  exists p k, authenticate (fst (create_legacy R id user owner perm kb pm)) user = Ok (p, k).
Proof. intros HR. exact (authenticate_user_any R id user owner perm kb pm HR). Qed.

Lemma auth_user_legacy_l R id user owner perm kb pm c : legacy_R R -> (0 <= perm < 128)%Z ->
  ((R = 2)%Z -> canR2 perm = true) ->
  StdSec.auth_owner (fst (create_legacy R id user owner perm kb pm)) (pad_passwd user) = Err c ->
  authenticate (fst (create_legacy R id user owner perm kb pm)) user
  = Ok (close perm, snd (create_legacy R id user owner perm kb pm)).
Proof. intros HR Hp Hc. exact (authenticate_user R id user owner perm kb pm HR Hp Hc c). Qed.

Lemma empty_user_legacy_l R id owner perm kb pm supplied pw : legacy_R R ->
  is_ok (open_handler (fst (create_legacy R id [] owner perm kb pm)) supplied pw) = true.
Proof.
  intros HR. destruct (auth_user_opens_legacy_l R id [] owner perm kb pm HR) as (p & k & E).
  now rewrite (open_handler_empty_ok _ supplied pw _ E).
Qed.

Definition u_cmp (R : Z) (x : bytes) : bytes := if (R =? 2)%Z then x else firstn 16 x.

Lemma wrong_pw_legacy_l R id user owner perm kb pm p : legacy_R R ->
  let h := fst (create_legacy R id user owner perm kb pm) in
  let uval q := u_cmp R (compute_U R id (file_key h q)) in
  (forall q, q = pad_passwd p \/ q = recover_user h (pad_passwd p) -> uval q = uval (pad_passwd user) -> q = pad_passwd user) ->
  (recover_user h (pad_passwd p) = pad_passwd user -> pad_passwd p = pad_passwd owner) ->
  pad_passwd p <> pad_passwd user -> pad_passwd p <> pad_passwd owner ->
  authenticate h p = Err Auth.
Proof. intros HR. exact (authenticate_wrong R id user owner perm kb pm HR p). Qed.

(* the premise about the executable AES of AES.v, in one piece *)
Definition AES_correct : Prop :=
  (forall key b, aes_key_len key -> length b = 16%nat -> wfbs b = true ->
     decrypt_with (round_keys key) (encrypt_with (round_keys key) b) = b) /\
  (forall key b, aes_key_len key -> length b = 16%nat -> length (encrypt_with (round_keys key) b) = 16%nat) /\
  (forall key b, wfbs (encrypt_with (round_keys key) b) = true).

Lemma bytes_rt_s : AES_correct -> forall aes okey iv data, aes_side aes okey iv data ->
  decrypt_bytes aes okey (encrypt_bytes aes okey iv data) = Ok data.
Proof. intros (A & B & C). now apply bytes_rt_l. Qed.

Lemma stream_rt_s : AES_correct -> forall aes okey iv writes, aes_side aes okey iv (concat writes) ->
  decrypt_stream aes okey (encrypt_stream aes okey iv writes) = Ok (concat writes).
Proof. intros (A & B & C). now apply stream_rt_l. Qed.

Definition r6_inputs (fkey usalt osalt fill : bytes) : Prop :=
  (length fkey = 32%nat /\ wfbs fkey = true) /\ length usalt = 16%nat /\ length osalt = 16%nat /\ wfbs fill = true.

Lemma aes32 : AES_correct ->
  (forall key b, length key = 32%nat -> length b = 16%nat -> wfbs b = true ->
     decrypt_with (round_keys key) (encrypt_with (round_keys key) b) = b) /\
  (forall key b, length key = 32%nat -> length b = 16%nat -> length (encrypt_with (round_keys key) b) = 16%nat) /\
  (forall key b, wfbs (encrypt_with (round_keys key) b) = true).
Proof.
  intros (A & B & C). repeat split; intros.
  - apply A; try assumption. now right.
  - apply B; try assumption. now right.
  - apply C.
Qed.

Lemma auth_owner_r6_s : AES_correct -> forall id user owner perm pm fkey usalt osalt fill h,
  create6 id user owner perm pm fkey usalt osalt fill = Ok (h, fkey) -> r6_inputs fkey usalt osalt fill ->
  authenticate h owner = Ok (PermAll, fkey).
Proof.
  intros HA id user owner perm pm fkey usalt osalt fill h Hc (Hk & Hu & Ho & Hf).
  destruct (aes32 HA) as (A & B & C). eapply authenticate6_owner; eassumption.
Qed.

Lemma auth_user_opens_r6_s : AES_correct -> forall id user owner perm pm fkey usalt osalt fill h,
  create6 id user owner perm pm fkey usalt osalt fill = Ok (h, fkey) -> r6_inputs fkey usalt osalt fill ->
  exists p k, authenticate h user = Ok (p, k).
Proof.
  intros HA id user owner perm pm fkey usalt osalt fill h Hc (Hk & Hu & Ho & Hf).
  destruct (aes32 HA) as (A & B & C). eapply authenticate6_user_any; eassumption.
Qed.

Lemma auth_user_r6_s : AES_correct -> forall id user owner perm pm fkey usalt osalt fill h c,
  create6 id user owner perm pm fkey usalt osalt fill = Ok (h, fkey) -> r6_inputs fkey usalt osalt fill ->
  (0 <= perm < 128)%Z -> auth_owner6 h (trunc_passwd user) = Err c ->
  authenticate h user = Ok (close perm, fkey).
Proof.
  intros HA id user owner perm pm fkey usalt osalt fill h c Hc (Hk & Hu & Ho & Hf) Hp E.
  destruct (aes32 HA) as (A & B & C). eapply authenticate6_user; eassumption.
Qed.

Lemma empty_user_r6_s : AES_correct -> forall id owner perm pm fkey usalt osalt fill h supplied pw,
  create6 id [] owner perm pm fkey usalt osalt fill = Ok (h, fkey) -> r6_inputs fkey usalt osalt fill ->
  is_ok (open_handler h supplied pw) = true.
Proof.
  intros HA id owner perm pm fkey usalt osalt fill h supplied pw Hc Hi.
  destruct (auth_user_opens_r6_s HA _ _ _ _ _ _ _ _ _ _ Hc Hi) as (p & k & E).
  now rewrite (open_handler_empty_ok _ supplied pw _ E).
Qed.

Lemma create6_total id user owner perm pm fkey usalt osalt fill :
  exists h, create6 id user owner perm pm fkey usalt osalt fill = Ok (h, fkey).
Proof.
  unfold create6.
  destruct (slow_hash_cases (trunc_passwd user) (firstn 8 usalt) []) as (uh & -> & _). cbn [bind].
  destruct (slow_hash_cases (trunc_passwd user) (skipn 8 usalt) []) as (uk & -> & _). cbn [bind].
  destruct (slow_hash_cases (trunc_passwd owner) (firstn 8 osalt) (uh ++ usalt)) as (oh & -> & _). cbn [bind].
  destruct (slow_hash_cases (trunc_passwd owner) (skipn 8 osalt) (uh ++ usalt)) as (ok & -> & _). cbn [bind].
  eauto.
Qed.

(* ---- candidates of every kind, including those the preparation is not defined on ------------------------ *)

Lemma open_prep_some h supplied p : open_handler_prep h supplied (Some p) = open_handler h supplied p.
Proof. reflexivity. Qed.

Lemma open_prep_none h c : authenticate h [] = Err c -> open_handler_prep h true None = Err Auth.
Proof. intros E. unfold open_handler_prep. now rewrite E. Qed.

(* R2-R4: [prep] is the (partial) PDFDocEncoding of an arbitrary candidate string *)
Lemma wrong_password_rejected_legacy_l R id user owner perm kb pm (prep : option bytes) c : legacy_R R ->
  let h := fst (create_legacy R id user owner perm kb pm) in
  let uval q := u_cmp R (compute_U R id (file_key h q)) in
  authenticate h [] = Err c ->        (* the user password is not empty after preparation *)
  (forall p, prep = Some p ->
     (forall q, q = pad_passwd p \/ q = recover_user h (pad_passwd p) -> uval q = uval (pad_passwd user) -> q = pad_passwd user) /\
     (recover_user h (pad_passwd p) = pad_passwd user -> pad_passwd p = pad_passwd owner) /\
     pad_passwd p <> pad_passwd user /\ pad_passwd p <> pad_passwd owner) ->
  open_handler_prep h true prep = Err Auth.
Proof.
  intros HR h uval E H. unfold open_handler_prep. rewrite E. destruct prep as [p|]; [|reflexivity].
  destruct (H p eq_refl) as (A & B & C & D). cbn [authenticate_prep].
  exact (wrong_pw_legacy_l R id user owner perm kb pm p HR A B C D).
Qed.

(* R6: [prep] is the (partial) SASLprep of an arbitrary candidate string *)
Lemma wrong_password_rejected_r6_l id user owner perm pm fkey usalt osalt fill h (prep : option bytes) c :
  create6 id user owner perm pm fkey usalt osalt fill = Ok (h, fkey) ->
  authenticate h [] = Err c ->
  (forall p, prep = Some p ->
     (forall x, slow_hash (trunc_passwd p) (slice 32 40 (hU h)) [] = Ok x -> bytes_eqb x (firstn 32 (hU h)) = true ->
                trunc_passwd p = trunc_passwd user) /\
     (forall x, slow_hash (trunc_passwd p) (slice 32 40 (hO h)) (hU h) = Ok x -> bytes_eqb x (firstn 32 (hO h)) = true ->
                trunc_passwd p = trunc_passwd owner) /\
     trunc_passwd p <> trunc_passwd user /\ trunc_passwd p <> trunc_passwd owner) ->
  open_handler_prep h true prep = Err Auth.
Proof.
  intros Hc E H. unfold open_handler_prep. rewrite E. destruct prep as [p|]; [|reflexivity].
  destruct (H p eq_refl) as (A & B & C & D). cbn [authenticate_prep].
  exact (authenticate6_wrong id user owner perm pm fkey usalt osalt fill h Hc p A B C D).
Qed.
