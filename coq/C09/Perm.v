(* Specification side of the permission algebra: the documented implications between
   permissions and the bit layout of /P (ISO 32000-1 Table 22).  The implementation side is
   GoPdf.Gen.Gen_Perm (translated from crypto.go on every run). *)
From Coq Require Import ZArith Bool List.
From GoPdf.Gen Require Import Gen_Perm.
Import ListNotations.
Open Scope Z_scope.

Definition has (p f : Z) : bool := negb (Z.eqb (Z.land p f) 0).

(* Print => PrintDegraded, Annotate => Forms, Modify => Assemble *)
Definition close (p : Z) : Z :=
  let p := if has p PermPrint then Z.lor p PermPrintDegraded else p in
  let p := if has p PermAnnotate then Z.lor p PermForms else p in
  let p := if has p PermModify then Z.lor p PermAssemble else p in p.

Definition perms : list Z := map Z.of_nat (seq 0 128).
Definition revisions : list Z := [2; 3; 4; 6].

(* bits of /P, numbered from 1 as in the standard *)
Definition pbit (P : Z) (n : Z) : bool := Z.testbit P (n - 1).
(* the bits the standard assigns a meaning to in revision >= 3 *)
Definition meaningful : list Z := [3; 4; 5; 6; 9; 10; 11; 12].
(* bit 10 is "extract for accessibility", deprecated in PDF 2.0 and always set *)
Definition reserved_one (n : Z) : bool := (7 <=? n) && (n <=? 8) || (n =? 10) || (13 <=? n) && (n <=? 32).

Definition p_shape_ok (P : Z) : bool :=
  negb (pbit P 1) && negb (pbit P 2)
  && forallb (fun n => if reserved_one n then pbit P n else true) (map Z.of_nat (seq 1 32))
  && (0 <=? P) && (P <? 2^32).

(* the value written to the file: the same 32 bits read as a signed integer *)
Definition p_signed (P : Z) : Z := if P <? 2^31 then P else P - 2^32.

(* what each revision-3 bit of /P must say, in terms of the requested permission set *)
Definition p_bits_ok (perm P : Z) : bool :=
  Bool.eqb (pbit P 5) (has perm PermCopy)
  && Bool.eqb (pbit P 12) (has perm PermPrint)
  && Bool.eqb (pbit P 3) (has perm PermPrint || has perm PermPrintDegraded)
  && Bool.eqb (pbit P 6) (has perm PermAnnotate)
  && Bool.eqb (pbit P 9) (has perm PermAnnotate || has perm PermForms)
  && Bool.eqb (pbit P 4) (has perm PermModify)
  && Bool.eqb (pbit P 11) (has perm PermAssemble).
