(* The executable AES of AES.v inverts itself: decrypt (encrypt b) = b for 16-byte blocks and
   16- or 32-byte keys; ciphertext blocks are 16 well-formed bytes. *)
From Coq Require Import List NArith Bool Lia.
From GoPdf.Base Require Import Bytes.
From GoPdf.C09 Require Import Word Nib AESTab AES.
Import ListNotations.
Set Default Timeout 300.

(* ---- digits and bytes under xor ------------------------------------------------------------ *)

Lemma nxor_assoc a b c : nxor a (nxor b c) = nxor (nxor a b) c.
Proof. destruct a, b, c; reflexivity. Qed.
Lemma nxor_comm a b : nxor a b = nxor b a.
Proof. destruct a, b; reflexivity. Qed.
Lemma nxor_nilp a : nxor a a = X0.
Proof. destruct a; reflexivity. Qed.
Lemma nxor_0_r a : nxor a X0 = a.
Proof. destruct a; reflexivity. Qed.

Lemma bx_assoc a b c : bx a (bx b c) = bx (bx a b) c.
Proof. destruct a, b, c. unfold bx. cbn [fst snd]. now rewrite !nxor_assoc. Qed.
Lemma bx_comm a b : bx a b = bx b a.
Proof. destruct a, b. unfold bx. cbn [fst snd]. now rewrite (nxor_comm n), (nxor_comm n0). Qed.
Lemma bx_nilp a : bx a a = b2zero.
Proof. destruct a. unfold bx, b2zero. cbn [fst snd]. now rewrite !nxor_nilp. Qed.
Lemma bx_0_r a : bx a b2zero = a.
Proof. destruct a. unfold bx, b2zero. cbn [fst snd]. now rewrite !nxor_0_r. Qed.
Lemma bx_0_l a : bx b2zero a = a.
Proof. now rewrite bx_comm, bx_0_r. Qed.
Lemma bx_cancel a k : bx (bx a k) k = a.
Proof. now rewrite <- bx_assoc, bx_nilp, bx_0_r. Qed.

(* (a+b)+(c+d) = (a+c)+(b+d) *)
Lemma bx_medial a b c d : bx (bx a b) (bx c d) = bx (bx a c) (bx b d).
Proof.
  rewrite <- (bx_assoc a b), (bx_assoc b c d), (bx_comm b c), <- (bx_assoc c b d), (bx_assoc a c). reflexivity.
Qed.

Lemma bx4_interleave p q r s p' q' r' s' :
  bx4 (bx p p') (bx q q') (bx r r') (bx s s') = bx (bx4 p q r s) (bx4 p' q' r' s').
Proof. unfold bx4. now rewrite (bx_medial r r' s s'), (bx_medial q q'), (bx_medial p p'). Qed.

(* ---- the tables ----------------------------------------------------------------------------- *)

Lemma isbox_sbox b : isbox2 (sbox2 b) = b.
Proof. destruct b as [[] []]; reflexivity. Qed.

Definition all_nib : list nib := [X0; X1; X2; X3; X4; X5; X6; X7; X8; X9; XA; XB; XC; XD; XE; XF].
Definition all_b2 : list byte2 := list_prod all_nib all_nib.

Lemma in_all_nib a : In a all_nib.
Proof. destruct a; cbn; tauto. Qed.
Lemma in_all_b2 b : In b all_b2.
Proof. destruct b as [h l]. apply in_prod; apply in_all_nib. Qed.

Definition nib_eqb (a b : nib) : bool := N.eqb (nib_to_N a) (nib_to_N b).
Lemma nib_eqb_eq a b : nib_eqb a b = true -> a = b.
Proof. destruct a, b; cbn; intros H; try reflexivity; discriminate H. Qed.
Definition b2_eqb (a b : byte2) : bool := nib_eqb (fst a) (fst b) && nib_eqb (snd a) (snd b).
Lemma b2_eqb_eq a b : b2_eqb a b = true -> a = b.
Proof.
  destruct a, b. unfold b2_eqb. cbn [fst snd]. intros H. apply andb_true_iff in H as [H1 H2].
  apply nib_eqb_eq in H1, H2. now subst.
Qed.

Definition additive_b (f : byte2 -> byte2) : bool :=
  forallb (fun a => forallb (fun b => b2_eqb (f (bx a b)) (bx (f a) (f b))) all_b2) all_b2.

Lemma additive_sound f : additive_b f = true -> forall a b, f (bx a b) = bx (f a) (f b).
Proof.
  intros H a b. unfold additive_b in H. rewrite forallb_forall in H. specialize (H a (in_all_b2 a)).
  rewrite forallb_forall in H. specialize (H b (in_all_b2 b)). now apply b2_eqb_eq.
Qed.

Lemma add2 : forall a b, gmul2 (bx a b) = bx (gmul2 a) (gmul2 b).
Proof. apply additive_sound. vm_compute. reflexivity. Qed.
Lemma add3 : forall a b, gmul3 (bx a b) = bx (gmul3 a) (gmul3 b).
Proof. apply additive_sound. vm_compute. reflexivity. Qed.
Lemma add9 : forall a b, gmul9 (bx a b) = bx (gmul9 a) (gmul9 b).
Proof. apply additive_sound. vm_compute. reflexivity. Qed.
Lemma add11 : forall a b, gmul11 (bx a b) = bx (gmul11 a) (gmul11 b).
Proof. apply additive_sound. vm_compute. reflexivity. Qed.
Lemma add13 : forall a b, gmul13 (bx a b) = bx (gmul13 a) (gmul13 b).
Proof. apply additive_sound. vm_compute. reflexivity. Qed.
Lemma add14 : forall a b, gmul14 (bx a b) = bx (gmul14 a) (gmul14 b).
Proof. apply additive_sound. vm_compute. reflexivity. Qed.

(* ---- MixColumns ------------------------------------------------------------------------------- *)

Definition mc0 a b c d := bx4 (gmul2 a) (gmul3 b) c d.
Definition mc1 a b c d := bx4 a (gmul2 b) (gmul3 c) d.
Definition mc2 a b c d := bx4 a b (gmul2 c) (gmul3 d).
Definition mc3 a b c d := bx4 (gmul3 a) b c (gmul2 d).
Definition ic0 a b c d := bx4 (gmul14 a) (gmul11 b) (gmul13 c) (gmul9 d).
Definition ic1 a b c d := bx4 (gmul9 a) (gmul14 b) (gmul11 c) (gmul13 d).
Definition ic2 a b c d := bx4 (gmul13 a) (gmul9 b) (gmul14 c) (gmul11 d).
Definition ic3 a b c d := bx4 (gmul11 a) (gmul13 b) (gmul9 c) (gmul14 d).

Definition additive4 (f : byte2 -> byte2 -> byte2 -> byte2 -> byte2) : Prop :=
  forall a b c d a' b' c' d', f (bx a a') (bx b b') (bx c c') (bx d d') = bx (f a b c d) (f a' b' c' d').

Lemma mc0_add : additive4 mc0. Proof. intros a b c d a' b' c' d'. unfold mc0. now rewrite add2, add3, bx4_interleave. Qed.
Lemma mc1_add : additive4 mc1. Proof. intros a b c d a' b' c' d'. unfold mc1. now rewrite add2, add3, bx4_interleave. Qed.
Lemma mc2_add : additive4 mc2. Proof. intros a b c d a' b' c' d'. unfold mc2. now rewrite add2, add3, bx4_interleave. Qed.
Lemma mc3_add : additive4 mc3. Proof. intros a b c d a' b' c' d'. unfold mc3. now rewrite add2, add3, bx4_interleave. Qed.
Lemma ic0_add : additive4 ic0. Proof. intros a b c d a' b' c' d'. unfold ic0. now rewrite add14, add11, add13, add9, bx4_interleave. Qed.
Lemma ic1_add : additive4 ic1. Proof. intros a b c d a' b' c' d'. unfold ic1. now rewrite add14, add11, add13, add9, bx4_interleave. Qed.
Lemma ic2_add : additive4 ic2. Proof. intros a b c d a' b' c' d'. unfold ic2. now rewrite add14, add11, add13, add9, bx4_interleave. Qed.
Lemma ic3_add : additive4 ic3. Proof. intros a b c d a' b' c' d'. unfold ic3. now rewrite add14, add11, add13, add9, bx4_interleave. Qed.

Definition comp (f : byte2 -> byte2 -> byte2 -> byte2 -> byte2) a b c d :=
  f (mc0 a b c d) (mc1 a b c d) (mc2 a b c d) (mc3 a b c d).

Lemma comp_add f : additive4 f -> additive4 (comp f).
Proof. intros Hf a b c d a' b' c' d'. unfold comp. now rewrite mc0_add, mc1_add, mc2_add, mc3_add, Hf. Qed.

(* an additive function of four bytes is the sum of its four one-variable parts *)
Lemma additive4_split f : additive4 f -> forall a b c d,
  f a b c d = bx (f a b2zero b2zero b2zero) (bx (f b2zero b b2zero b2zero) (bx (f b2zero b2zero c b2zero) (f b2zero b2zero b2zero d))).
Proof.
  intros Hf a b c d.
  rewrite <- !Hf. now rewrite !bx_0_r, !bx_0_l.
Qed.

Ltac all256 := let b := fresh in intros b; destruct b as [[] []]; reflexivity.

Lemma k0a : forall a, comp ic0 a b2zero b2zero b2zero = a. Proof. all256. Qed.
Lemma k0b : forall a, comp ic0 b2zero a b2zero b2zero = b2zero. Proof. all256. Qed.
Lemma k0c : forall a, comp ic0 b2zero b2zero a b2zero = b2zero. Proof. all256. Qed.
Lemma k0d : forall a, comp ic0 b2zero b2zero b2zero a = b2zero. Proof. all256. Qed.
Lemma k1a : forall a, comp ic1 a b2zero b2zero b2zero = b2zero. Proof. all256. Qed.
Lemma k1b : forall a, comp ic1 b2zero a b2zero b2zero = a. Proof. all256. Qed.
Lemma k1c : forall a, comp ic1 b2zero b2zero a b2zero = b2zero. Proof. all256. Qed.
Lemma k1d : forall a, comp ic1 b2zero b2zero b2zero a = b2zero. Proof. all256. Qed.
Lemma k2a : forall a, comp ic2 a b2zero b2zero b2zero = b2zero. Proof. all256. Qed.
Lemma k2b : forall a, comp ic2 b2zero a b2zero b2zero = b2zero. Proof. all256. Qed.
Lemma k2c : forall a, comp ic2 b2zero b2zero a b2zero = a. Proof. all256. Qed.
Lemma k2d : forall a, comp ic2 b2zero b2zero b2zero a = b2zero. Proof. all256. Qed.
Lemma k3a : forall a, comp ic3 a b2zero b2zero b2zero = b2zero. Proof. all256. Qed.
Lemma k3b : forall a, comp ic3 b2zero a b2zero b2zero = b2zero. Proof. all256. Qed.
Lemma k3c : forall a, comp ic3 b2zero b2zero a b2zero = b2zero. Proof. all256. Qed.
Lemma k3d : forall a, comp ic3 b2zero b2zero b2zero a = a. Proof. all256. Qed.

Lemma imix_mix_col a b c d :
  imix_col (mc0 a b c d) (mc1 a b c d) (mc2 a b c d) (mc3 a b c d) = [a; b; c; d].
Proof.
  change (imix_col (mc0 a b c d) (mc1 a b c d) (mc2 a b c d) (mc3 a b c d))
    with [comp ic0 a b c d; comp ic1 a b c d; comp ic2 a b c d; comp ic3 a b c d].
  rewrite (additive4_split _ (comp_add _ ic0_add)), (additive4_split _ (comp_add _ ic1_add)),
          (additive4_split _ (comp_add _ ic2_add)), (additive4_split _ (comp_add _ ic3_add)).
  rewrite k0a, k0b, k0c, k0d, k1a, k1b, k1c, k1d, k2a, k2b, k2c, k2d, k3a, k3b, k3c, k3d.
  now rewrite !bx_0_r, !bx_0_l.
Qed.

(* ---- blocks ------------------------------------------------------------------------------------- *)

Ltac destruct16 st H :=
  do 16 (destruct st as [|? st]; [discriminate H|]); destruct st; [|discriminate H]; clear H.

Lemma imix_mix_columns st : length st = 16%nat -> imix_columns (mix_columns st) = st.
Proof.
  intros H. destruct16 st H. unfold mix_columns, imix_columns, on_cols.
  change (mix_col ?a ?b ?c ?d) with [mc0 a b c d; mc1 a b c d; mc2 a b c d; mc3 a b c d].
  cbn [app]. now rewrite !imix_mix_col.
Qed.

Lemma mix_columns_length st : length st = 16%nat -> length (mix_columns st) = 16%nat.
Proof. intros H. destruct16 st H. reflexivity. Qed.

Lemma ishift_shift st : length st = 16%nat -> ishift_rows (shift_rows st) = st.
Proof. intros H. destruct16 st H. reflexivity. Qed.
Lemma shift_rows_length st : length st = 16%nat -> length (shift_rows st) = 16%nat.
Proof. intros H. destruct16 st H. reflexivity. Qed.

Lemma isub_sub st : isub_bytes (sub_bytes st) = st.
Proof. unfold isub_bytes, sub_bytes. rewrite map_map. induction st as [|b st IH]; cbn [map]; [reflexivity|]. now rewrite isbox_sbox, IH. Qed.
Lemma sub_bytes_length st : length (sub_bytes st) = length st.
Proof. apply map_length. Qed.

Lemma xor_block_length a b : length (xor_block a b) = Nat.min (length a) (length b).
Proof. revert b. induction a as [|x a IH]; intros [|y b]; cbn [xor_block length]; try reflexivity. now rewrite IH. Qed.
Lemma xor_block_cancel a k : (length a <= length k)%nat -> xor_block (xor_block a k) k = a.
Proof.
  revert k. induction a as [|x a IH]; intros [|y k] H; cbn [xor_block length] in *; try reflexivity; try lia.
  rewrite bx_cancel, IH by lia. reflexivity.
Qed.

Definition len16 (b : block2) : Prop := length b = 16%nat.

Lemma enc_round_length st rk : len16 st -> len16 rk -> len16 (enc_round st rk).
Proof.
  unfold len16, enc_round. intros Hs Hk.
  assert (H1 : length (shift_rows (sub_bytes st)) = 16%nat) by (rewrite shift_rows_length; [reflexivity|now rewrite sub_bytes_length]).
  now rewrite xor_block_length, mix_columns_length, Hk.
Qed.

Lemma dec_enc_round st rk : len16 st -> len16 rk -> dec_round (enc_round st rk) rk = st.
Proof.
  unfold len16, enc_round, dec_round. intros Hs Hk.
  assert (H1 : length (shift_rows (sub_bytes st)) = 16%nat) by (rewrite shift_rows_length; [reflexivity|now rewrite sub_bytes_length]).
  rewrite xor_block_cancel by (rewrite mix_columns_length, Hk; [lia|assumption]).
  rewrite imix_mix_columns by assumption.
  rewrite ishift_shift by (now rewrite sub_bytes_length). apply isub_sub.
Qed.

Lemma enc_rounds_length mid : Forall len16 mid -> forall st, len16 st -> len16 (fold_left enc_round mid st).
Proof.
  induction 1 as [|k mid Hk Hm IH]; intros st Hs; cbn [fold_left]; [assumption|].
  apply IH. now apply enc_round_length.
Qed.

Lemma dec_enc_rounds mid : Forall len16 mid -> forall st, len16 st ->
  fold_left dec_round (rev mid) (fold_left enc_round mid st) = st.
Proof.
  induction 1 as [|k mid Hk Hm IH]; intros st Hs; cbn [fold_left rev]; [reflexivity|].
  rewrite fold_left_app. cbn [fold_left]. rewrite IH by (now apply enc_round_length).
  now apply dec_enc_round.
Qed.

Lemma forall_removelast (P : block2 -> Prop) l : Forall P l -> Forall P (removelast l).
Proof.
  induction 1 as [|x l Hx Hl IH]; cbn [removelast]; [constructor|].
  destruct l; [constructor|]. constructor; assumption.
Qed.
Lemma forall_last (P : block2 -> Prop) l d : l <> [] -> Forall P l -> P (last l d).
Proof.
  intros Hne H. induction H as [|x l Hx Hl IH]; [congruence|].
  destruct l as [|y l]; [exact Hx|]. cbn [last]. apply IH. discriminate.
Qed.

Lemma encrypt2_length k0 rest blk : rest <> [] -> len16 k0 -> Forall len16 rest -> len16 blk ->
  len16 (encrypt2 (k0 :: rest) blk).
Proof.
  intros Hne Hk0 Hr Hb. unfold encrypt2.
  assert (Hl : len16 (last rest [])) by (now apply forall_last).
  assert (Hs : len16 (fold_left enc_round (removelast rest) (xor_block blk k0))).
  { apply enc_rounds_length; [now apply forall_removelast|]. unfold len16 in *. now rewrite xor_block_length, Hb, Hk0. }
  unfold len16 in *.
  assert (H1 : length (shift_rows (sub_bytes (fold_left enc_round (removelast rest) (xor_block blk k0)))) = 16%nat)
    by (rewrite shift_rows_length; [reflexivity|now rewrite sub_bytes_length]).
  now rewrite xor_block_length, H1, Hl.
Qed.

Lemma decrypt2_encrypt2 k0 rest blk : rest <> [] -> len16 k0 -> Forall len16 rest -> len16 blk ->
  decrypt2 (k0 :: rest) (encrypt2 (k0 :: rest) blk) = blk.
Proof.
  intros Hne Hk0 Hr Hb. unfold encrypt2, decrypt2.
  assert (Hl : len16 (last rest [])) by (now apply forall_last).
  assert (Hm : Forall len16 (removelast rest)) by (now apply forall_removelast).
  assert (H0 : len16 (xor_block blk k0)) by (unfold len16 in *; now rewrite xor_block_length, Hb, Hk0).
  pose proof (enc_rounds_length _ Hm _ H0) as Hs. unfold len16 in *.
  assert (H1 : length (shift_rows (sub_bytes (fold_left enc_round (removelast rest) (xor_block blk k0)))) = 16%nat)
    by (rewrite shift_rows_length; [reflexivity|now rewrite sub_bytes_length]).
  rewrite xor_block_cancel by (rewrite H1, Hl; lia).
  rewrite ishift_shift by (now rewrite sub_bytes_length). rewrite isub_sub.
  rewrite dec_enc_rounds by assumption. apply xor_block_cancel. lia.
Qed.

(* ---- key expansion: shape ------------------------------------------------------------------------ *)

Definition good_keys (rks : list block2) : Prop :=
  exists k0 rest, rks = k0 :: rest /\ rest <> [] /\ len16 k0 /\ Forall len16 rest.

Definition shape_ok (rks : list block2) : bool :=
  match rks with
  | k0 :: (_ :: _) as rest => forallb (fun b => Nat.eqb (length b) 16) rks
  | _ => false
  end.

Lemma shape_good rks : shape_ok rks = true -> good_keys rks.
Proof.
  destruct rks as [|k0 [|k1 rest]]; try discriminate. intros H.
  cbn [shape_ok] in H. rewrite forallb_forall in H.
  exists k0, (k1 :: rest). repeat split; [discriminate| |].
  - apply PeanoNat.Nat.eqb_eq. apply H. now left.
  - apply Forall_forall. intros b Hb. apply PeanoNat.Nat.eqb_eq. apply H. now right.
Qed.

Lemma round_keys_good key : (length key = 16 \/ length key = 32)%nat -> good_keys (round_keys key).
Proof.
  intros [H|H]; apply shape_good.
  - do 16 (destruct key as [|? key]; [discriminate H|]). destruct key; [|discriminate H]. vm_compute. reflexivity.
  - do 32 (destruct key as [|? key]; [discriminate H|]). destruct key; [|discriminate H]. vm_compute. reflexivity.
Qed.

(* ---- the byte interface ------------------------------------------------------------------------------ *)

Lemma b2_of_to b : b2_of_N (b2_to_N b) = b.
Proof. destruct b as [[] []]; reflexivity. Qed.

Lemma b2_to_N_wf b : wfb (b2_to_N b) = true.
Proof. destruct b as [[] []]; reflexivity. Qed.

Lemma b2_to_of_b : forallb (fun n => N.eqb (b2_to_N (b2_of_N n)) n) (map N.of_nat (seq 0 256)) = true.
Proof. vm_compute. reflexivity. Qed.

Lemma b2_to_of n : wfb n = true -> b2_to_N (b2_of_N n) = n.
Proof.
  unfold wfb. rewrite N.ltb_lt. intros H. pose proof b2_to_of_b as F. rewrite forallb_forall in F.
  apply N.eqb_eq. apply F. apply in_map_iff. exists (N.to_nat n). split; [lia|]. apply in_seq. lia.
Qed.

Lemma map_of_to (x : block2) : map b2_of_N (map b2_to_N x) = x.
Proof. rewrite map_map. induction x as [|b x IH]; cbn [map]; [reflexivity|]. now rewrite b2_of_to, IH. Qed.

Lemma map_to_of (blk : bytes) : wfbs blk = true -> map b2_to_N (map b2_of_N blk) = blk.
Proof.
  rewrite map_map. induction blk as [|n blk IH]; cbn [map wfbs forallb]; [reflexivity|].
  intros H. apply andb_true_iff in H as [H1 H2]. now rewrite b2_to_of, IH.
Qed.

(* ---- the theorems -------------------------------------------------------------------------------------- *)

Theorem aes_with_inv : forall key blk : bytes,
  (length key = 16 \/ length key = 32)%nat -> length blk = 16%nat -> wfbs blk = true ->
  decrypt_with (round_keys key) (encrypt_with (round_keys key) blk) = blk.
Proof.
  intros key blk Hk Hb Hw. destruct (round_keys_good key Hk) as (k0 & rest & -> & Hne & H0 & Hr).
  unfold decrypt_with, encrypt_with. rewrite map_of_to.
  rewrite decrypt2_encrypt2; try assumption; [now apply map_to_of|].
  unfold len16. now rewrite map_length.
Qed.

Theorem aes_block_inv : forall key blk : bytes,
  (length key = 16 \/ length key = 32)%nat -> length blk = 16%nat -> wfbs blk = true ->
  aes_decrypt_block key (aes_encrypt_block key blk) = blk.
Proof. exact aes_with_inv. Qed.

Theorem aes_enc_length : forall key blk : bytes,
  (length key = 16 \/ length key = 32)%nat -> length blk = 16%nat ->
  length (encrypt_with (round_keys key) blk) = 16%nat.
Proof.
  intros key blk Hk Hb. destruct (round_keys_good key Hk) as (k0 & rest & -> & Hne & H0 & Hr).
  unfold encrypt_with. rewrite map_length. apply encrypt2_length; try assumption.
  unfold len16. now rewrite map_length.
Qed.

Theorem aes_enc_wf : forall rks blk, wfbs (encrypt_with rks blk) = true.
Proof.
  intros rks blk. unfold encrypt_with, wfbs. induction (encrypt2 rks (map b2_of_N blk)) as [|b l IH]; cbn [map forallb]; [reflexivity|].
  now rewrite b2_to_N_wf, IH.
Qed.

(* ---- decryption also maps 16 bytes to 16 bytes ---------------------------------------------------------- *)

Lemma imix_columns_length st : length st = 16%nat -> length (imix_columns st) = 16%nat.
Proof. intros H. destruct16 st H. reflexivity. Qed.
Lemma ishift_rows_length st : length st = 16%nat -> length (ishift_rows st) = 16%nat.
Proof. intros H. destruct16 st H. reflexivity. Qed.

Lemma dec_round_length st rk : len16 st -> len16 rk -> len16 (dec_round st rk).
Proof.
  unfold len16, dec_round, isub_bytes. intros Hs Hk. rewrite map_length.
  apply ishift_rows_length, imix_columns_length. now rewrite xor_block_length, Hs, Hk.
Qed.

Lemma dec_rounds_length mid : Forall len16 mid -> forall st, len16 st -> len16 (fold_left dec_round mid st).
Proof.
  induction 1 as [|k mid Hk Hm IH]; intros st Hs; cbn [fold_left]; [assumption|].
  apply IH. now apply dec_round_length.
Qed.

Lemma decrypt2_length k0 rest blk : rest <> [] -> len16 k0 -> Forall len16 rest -> len16 blk ->
  len16 (decrypt2 (k0 :: rest) blk).
Proof.
  intros Hne Hk0 Hr Hb. unfold decrypt2.
  assert (Hl : len16 (last rest [])) by (now apply forall_last).
  assert (Hm : Forall len16 (rev (removelast rest))).
  { apply Forall_rev. now apply forall_removelast. }
  assert (H0 : len16 (isub_bytes (ishift_rows (xor_block blk (last rest []))))).
  { unfold len16, isub_bytes in *. rewrite map_length. apply ishift_rows_length. now rewrite xor_block_length, Hb, Hl. }
  pose proof (dec_rounds_length _ Hm _ H0) as Hs. unfold len16 in *. now rewrite xor_block_length, Hs, Hk0.
Qed.

Theorem aes_dec_length : forall key blk : bytes,
  (length key = 16 \/ length key = 32)%nat -> length blk = 16%nat ->
  length (decrypt_with (round_keys key) blk) = 16%nat.
Proof.
  intros key blk Hk Hb. destruct (round_keys_good key Hk) as (k0 & rest & -> & Hne & H0 & Hr).
  unfold decrypt_with. rewrite map_length. apply decrypt2_length; try assumption.
  unfold len16. now rewrite map_length.
Qed.
