(* The executable MD5 always returns 16 bytes (so the per-object key of Algorithm 1 has the
   length the AES theorems ask for). *)
From Coq Require Import List NArith Bool Lia PeanoNat.
From GoPdf.Base Require Import Bytes.
From GoPdf.C09 Require Import Word Nib NWord MD5 ListX.
Import ListNotations.
Set Default Timeout 120.

Lemma wmap2_length f a b : length (wmap2 f a b) = Nat.min (length a) (length b).
Proof. revert b. induction a as [|x a IH]; intros [|y b]; cbn [wmap2 length]; try reflexivity. now rewrite IH. Qed.

Lemma wadd_c_length a b c : length (wadd_c a b c) = Nat.min (length a) (length b).
Proof.
  revert b c. induction a as [|x a IH]; intros [|y b] c; cbn [wadd_c length]; try reflexivity.
  destruct (if c then nadd1 x y else nadd0 x y) as [d c']. cbn [length]. now rewrite IH.
Qed.

Lemma wadd_length a b : length (wadd a b) = Nat.min (length a) (length b).
Proof. apply wadd_c_length. Qed.

Lemma shr_go_length f top l : length (shr_go f top l) = length l.
Proof. induction l as [|x l IH]; cbn [shr_go length]; [reflexivity|]. now rewrite IH. Qed.

Lemma shr_bits_length r l top : length (shr_bits r l top) = length l.
Proof. unfold shr_bits. destruct r as [|[|[|r]]]; try reflexivity; apply shr_go_length. Qed.

Lemma wrotr_qr_length n l : length (wrotr_qr n l) = length l.
Proof.
  destruct n as [q r]. unfold wrotr_qr.
  assert (H : length (skipn q l ++ firstn q l) = length l).
  { rewrite app_length, skipn_length, firstn_length. lia. }
  destruct q; [destruct r; [reflexivity|]|]; now rewrite shr_bits_length.
Qed.

Definition w8 (w : word) : Prop := length w = 8%nat.

Lemma md5_f_w8 kind b c d : w8 b -> w8 c -> w8 d -> w8 (md5_f kind b c d).
Proof.
  unfold w8, md5_f, wor, wand, wxor, wnot. intros Hb Hc Hd.
  repeat (destruct (N.eqb kind _)); repeat (rewrite ?wmap2_length, ?map_length); rewrite ?Hb, ?Hc, ?Hd; reflexivity.
Qed.

Definition st8 (st : md5_state) : Prop :=
  let '(a, b, c, d) := st in w8 a /\ w8 b /\ w8 c /\ w8 d.

Definition step_ok (s : N * nat * word * (nat * nat)) : bool :=
  let '(_, g, k, _) := s in Nat.ltb g 16 && Nat.eqb (length k) 8.

Lemma steps_ok : forallb step_ok md5_steps_w = true.
Proof. vm_compute. reflexivity. Qed.

Definition m16 (m : list word) : Prop := length m = 16%nat /\ Forall w8 m.

Lemma md5_step_w8 m st s : m16 m -> step_ok s = true -> st8 st -> st8 (md5_step m st s).
Proof.
  intros [Hm1 Hm2] Hs. destruct st as [[[a b] c] d]. destruct s as [[[kind g] k] r].
  unfold step_ok in Hs. apply andb_true_iff in Hs as [Hg Hk]. apply Nat.ltb_lt in Hg. apply Nat.eqb_eq in Hk.
  intros (Ha & Hb & Hc & Hd). unfold md5_step, st8.
  assert (Hn : w8 (nth g m [])). { rewrite Forall_forall in Hm2. apply Hm2. apply nth_In. lia. }
  pose proof (md5_f_w8 kind b c d Hb Hc Hd) as Hf.
  unfold w8 in *. repeat split; try assumption.
  rewrite wadd_length, wrotr_qr_length, !wadd_length, Hf, Ha, Hk, Hn, Hb. reflexivity.
Qed.

Lemma md5_steps_w8 m : m16 m -> forall steps st, forallb step_ok steps = true -> st8 st ->
  st8 (fold_left (md5_step m) steps st).
Proof.
  intros Hm. induction steps as [|s steps IH]; intros st Hs Hst; cbn [fold_left]; [assumption|].
  cbn [forallb] in Hs. apply andb_true_iff in Hs as [H1 H2]. apply IH; [assumption|]. now apply md5_step_w8.
Qed.

Lemma byte_digits_length b : length (byte_digits b) = 2%nat.
Proof. reflexivity. Qed.

Lemma word_of_le_length bs : length (word_of_le bs) = (2 * length bs)%nat.
Proof.
  unfold word_of_le. induction bs as [|b bs IH]; cbn [map concat length]; [reflexivity|].
  rewrite app_length, IH. cbn [byte_digits length]. lia.
Qed.

(* chunks of a list whose length is a multiple of n *)
Lemma chunks_full n (data : bytes) : (0 < n)%nat -> Nat.modulo (length data) n = 0%nat ->
  Forall (fun b => length b = n) (chunks n data) /\ length (chunks n data) = Nat.div (length data) n.
Proof.
  intros Hn Hm. destruct (split_blocks n Hn data) as (bs & tail & E & F & T).
  assert (Hc : length (concat bs) = (length bs * n)%nat).
  { clear -F. induction F as [|b bs Hb F IH]; cbn [concat length]; [reflexivity|]. rewrite app_length, Hb, IH. lia. }
  assert (tail = []).
  { subst data. rewrite app_length, Hc in Hm.
    replace (length bs * n + length tail)%nat with (length tail + length bs * n)%nat in Hm by lia.
    rewrite Nat.mod_add, Nat.mod_small in Hm by lia. destruct tail; [reflexivity|cbn in Hm; lia]. }
  subst tail data. rewrite app_nil_r, chunks_concat0 by assumption. split; [assumption|].
  rewrite Hc. now rewrite Nat.div_mul by lia.
Qed.

Lemma md5_block_w8 st blk : length blk = 64%nat -> st8 st -> st8 (md5_block st blk).
Proof.
  intros Hb Hst. unfold md5_block.
  assert (Hm : m16 (map word_of_le (chunks 4 blk))).
  { destruct (chunks_full 4 blk ltac:(lia)) as [F L]; [now rewrite Hb|]. split.
    - rewrite map_length, L, Hb. reflexivity.
    - apply Forall_map. eapply Forall_impl; [|exact F]. intros c Hc. unfold w8. now rewrite word_of_le_length, Hc. }
  pose proof (md5_steps_w8 _ Hm md5_steps_w st steps_ok Hst) as H.
  destruct st as [[[a b] c] d]. destruct (fold_left _ md5_steps_w _) as [[[a' b'] c'] d'].
  destruct Hst as (Ha & Hb' & Hc & Hd). destruct H as (Ha' & Hb'' & Hc' & Hd').
  unfold st8, w8 in *. now rewrite !wadd_length, Ha, Hb', Hc, Hd, Ha', Hb'', Hc', Hd'.
Qed.

Lemma zeros_length' n : length (zeros n) = n.
Proof. induction n; cbn [zeros length]; [reflexivity|]. now rewrite IHn. Qed.
Lemma le_bytes_length' k x : length (le_bytes k x) = k.
Proof. revert x. induction k as [|k IH]; intros x; cbn [le_bytes length]; [reflexivity|]. now rewrite IH. Qed.

Lemma md5_pad_length msg : Nat.modulo (length (md5_pad msg)) 64 = 0%nat.
Proof.
  unfold md5_pad, pad_zeros. rewrite app_length. cbn [length]. rewrite app_length, zeros_length', le_bytes_length'.
  set (len := length msg).
  replace (N.to_nat ((64 - 8 + 64 - (N.of_nat len + 1) mod 64) mod 64)) with ((120 - (len + 1) mod 64) mod 64)%nat.
  2:{ change (64 - 8 + 64)%N with 120%N.
      assert (E : ((N.of_nat len + 1) mod 64)%N = N.of_nat ((len + 1) mod 64)).
      { replace (N.of_nat len + 1)%N with (N.of_nat (len + 1)) by lia. change 64%N with (N.of_nat 64).
        symmetry. apply Nnat.Nat2N.inj_mod. }
      rewrite E. pose proof (Nat.mod_upper_bound (len + 1) 64 ltac:(lia)) as Hb.
      replace (120 - N.of_nat ((len + 1) mod 64))%N with (N.of_nat (120 - (len + 1) mod 64)) by lia.
      change 64%N with (N.of_nat 64). rewrite <- Nnat.Nat2N.inj_mod. now rewrite Nnat.Nat2N.id. }
  pose proof (Nat.div_mod (len + 1) 64 ltac:(lia)) as H1.
  pose proof (Nat.mod_upper_bound (len + 1) 64 ltac:(lia)) as Hb.
  set (r := ((len + 1) mod 64)%nat) in *. set (q := ((len + 1) / 64)%nat) in *.
  pose proof (Nat.div_mod (120 - r) 64 ltac:(lia)) as H2.
  pose proof (Nat.mod_upper_bound (120 - r) 64 ltac:(lia)) as Hb2.
  set (z := ((120 - r) mod 64)%nat) in *. set (p := ((120 - r) / 64)%nat) in *.
  replace (len + S (z + 8))%nat with ((q + 2 - p) * 64)%nat.
  - apply Nat.mod_mul. lia.
  - assert (p <= 1)%nat by (destruct p as [|[|p]]; lia). lia.
Qed.

Lemma le_of_word_length w : w8 w -> length (le_of_word w) = 4%nat.
Proof.
  unfold w8. intros H. do 8 (destruct w as [|? w]; [discriminate H|]). destruct w; [reflexivity|discriminate H].
Qed.

Lemma md5_length msg : length (md5 msg) = 16%nat.
Proof.
  unfold md5.
  destruct (chunks_full 64 (md5_pad msg) ltac:(lia) (md5_pad_length msg)) as [F _].
  assert (H : st8 (fold_left md5_block (chunks 64 (md5_pad msg)) md5_iv)).
  { assert (H0 : st8 md5_iv) by (repeat split). revert H0. generalize md5_iv.
    induction F as [|blk bs Hb F IH]; intros st Hst; cbn [fold_left]; [assumption|].
    apply IH. now apply md5_block_w8. }
  destruct (fold_left md5_block _ md5_iv) as [[[a b] c] d]. destruct H as (Ha & Hb & Hc & Hd).
  now rewrite !app_length, !le_of_word_length.
Qed.
