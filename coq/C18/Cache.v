(* C18 - executable model of the Extractor cache protocol of /repo/resource.go
   (cacheGet, cacheStoreOrLoad, StoreOrLoadPair) and /repo/cursor.go (Decode,
   DecodeExclusive): a small-step interleaving semantics.

   Definitions only.  One model step is the code a goroutine executes between two
   consecutive scheduling hooks (build tag verif: "cacheGet", "get", "decode",
   "storeOrLoad", "excl:enter", "excl:wait", "excl:publish", "storePair");
   every such stretch contains at most one critical section of Extractor.mu (or
   one channel receive), so it is atomic with respect to the other goroutines.

   The file (reference graph and decoders) is static:
     next r      = Some r'   object r is itself the reference r'
                 = None      object r is a real object (or missing: Get returns null)
     body e t    the cache operations the decode function of type t performs on
                 object e before it returns (nested decodes: mutually referential
                 objects; errors of nested calls are ignored by the decoder)
     fails e t   the decode function returns an error for object e
     isnil e t   the decode function returns a nil value (interface type T)
     maxdepth    limits.MaxExtractDepth
   A value identity is a number: 0 is nil, every successful decoder run
   allocates a fresh one (Go: a new pointer). *)
From Coq Require Import List Arith Bool.
Import ListNotations.

Definition ref := nat.
Definition ty := nat.
Definition val := nat.
Definition pid := nat.
Definition key := (ref * ty)%type.

Definition key_eqb (a b : key) : bool := Nat.eqb (fst a) (fst b) && Nat.eqb (snd a) (snd b).

Inductive errc := ECycle | EDepth | EDecode.
Inductive outcome := Ok (v : val) | Err (x : errc).

(* np = true: the call uses a fresh cursor (CursorAt(x, nil)); false: the cursor
   handed to the decode function (cycle-check path inherited). *)
Inductive op :=
| ODecode (np : bool) (r : ref) (t : ty)
| OExcl (np : bool) (r : ref) (t : ty)
| OPair (r : ref) (ta tb : ty).

(* one invocation of pdf.Decode: the reference and type it was called with, the
   cursor path at the call, and - when it is the inner call of a DecodeExclusive
   that registered itself in wip - the pending entry it will publish *)
Record call := { cref : ref; cty : ty; cpath : list ref; cex : option pid }.

(* where a goroutine is parked *)
Inductive pcs :=
| PIdle                                                     (* not started *)
| PProbe (c : call) (cur : ref) (refs path : list ref)      (* before cacheGet (cur, T) *)
| PGet (c : call) (cur : ref) (refs path : list ref)        (* before R.Get(cur); refs, path already extended by cur *)
| PDecode (c : call) (e : ref) (refs path : list ref)       (* before decode(...) on the object e *)
| PStore (c : call) (v : val) (refs : list ref)             (* before cacheStoreOrLoad(refs, T, v) *)
| PExEnter (r : ref) (t : ty) (path : list ref)             (* DecodeExclusive before its first critical section *)
| PExWait (r : ref) (t : ty) (p : pid)                      (* before <-p.done *)
| PExPub (r : ref) (t : ty) (p : pid) (o : outcome)         (* before the publishing critical section *)
| PPair (r : ref) (ta tb : ty) (a b : val)                  (* StoreOrLoadPair before its critical section *)
| PDone.

(* an active decode function (or, at the bottom, the goroutine's program):
   the operations still to do, the path of its cursor, and the Decode call that
   invoked it together with the object and the references that call followed *)
Record frame := { frest : list op; fpath : list ref; fown : option (call * ref * list ref) }.

Inductive event :=
| EDec (tid : nat) (c : call) (o : outcome)              (* a pdf.Decode call made by a program/decoder returned *)
| EExc (tid : nat) (r : ref) (t : ty) (o : outcome)      (* a pdf.DecodeExclusive call returned *)
| EPair (tid : nat) (r : ref) (ta tb : ty) (a b : val)   (* StoreOrLoadPair returned (a, b) *)
| ERun (tid : nat) (c : call) (e : ref)                  (* the decode function was entered by call c for object e *)
| EPub (r : ref) (t : ty) (p : pid) (o : outcome).       (* pending entry p of key (r,t) published *)

Definition cachet := list (key * val).

Record shared := {
  cache : cachet;
  wip : list (key * pid);
  pends : list (key * option outcome);   (* index = pid; None = done not yet closed *)
  fresh : nat;
  log : list event                        (* newest first *)
}.

Record thread := { tpc : pcs; tstk : list frame }.
Record state := { sh : shared; ths : list thread }.

Fixpoint lookup {A} (c : list (key * A)) (k : key) : option A :=
  match c with
  | [] => None
  | (k', v) :: t => if key_eqb k' k then Some v else lookup t k
  end.

Fixpoint remove_key {A} (c : list (key * A)) (k : key) : list (key * A) :=
  match c with
  | [] => []
  | (k', v) :: t => if key_eqb k' k then remove_key t k else (k', v) :: remove_key t k
  end.

Fixpoint set_nth {A} (n : nat) (x : A) (l : list A) : list A :=
  match n, l with
  | O, _ :: t => x :: t
  | S n', y :: t => y :: set_nth n' x t
  | _, [] => []
  end.

Fixpoint mem (r : ref) (l : list ref) : bool :=
  match l with [] => false | x :: t => Nat.eqb x r || mem r t end.

(* ---- cacheStoreOrLoad as it is now (after fix F14) ---- *)
Fixpoint first_cached (ca : cachet) (refs : list ref) (t : ty) : option val :=
  match refs with
  | [] => None
  | r :: tl => match lookup ca (r, t) with Some v => Some v | None => first_cached ca tl t end
  end.

Fixpoint fill (ca : cachet) (refs : list ref) (t : ty) (v : val) : cachet :=
  match refs with
  | [] => ca
  | r :: tl => match lookup ca (r, t) with
               | Some _ => fill ca tl t v
               | None => fill (((r, t), v) :: ca) tl t v
               end
  end.

Definition store_or_load (ca : cachet) (refs : list ref) (t : ty) (v : val) : cachet * val :=
  let v' := match first_cached ca refs t with Some x => x | None => v end in
  (fill ca refs t v', v').

(* ---- cacheStoreOrLoad before fix F14: tests refs[0] only, then overwrites ---- *)
Fixpoint overwrite (ca : cachet) (refs : list ref) (t : ty) (v : val) : cachet :=
  match refs with [] => ca | r :: tl => overwrite (((r, t), v) :: ca) tl t v end.

Definition store_or_load_prefix (ca : cachet) (refs : list ref) (t : ty) (v : val) : cachet * val :=
  match refs with
  | r0 :: _ => match lookup ca (r0, t) with
               | Some v' => (ca, v')
               | None => (overwrite ca refs t v, v)
               end
  | [] => (ca, v)
  end.

(* StoreOrLoadPair: each view separately - load if present, store otherwise *)
Definition load_or_store (ca : cachet) (k : key) (v : val) : cachet * val :=
  match lookup ca k with Some x => (ca, x) | None => ((k, v) :: ca, v) end.

Section Model.
Variable next : ref -> option ref.
Variable body : ref -> ty -> list op.
Variable fails : ref -> ty -> bool.
Variable isnil : ref -> ty -> bool.
Variable maxdepth : nat.
Variable sol : cachet -> list ref -> ty -> val -> cachet * val.   (* the store-or-load in use *)

(* the first hook an operation reaches *)
Definition start (o : op) (path : list ref) (fr : nat) : pcs * nat :=
  match o with
  | ODecode np r t =>
      let p := if np then [] else path in
      (PProbe {| cref := r; cty := t; cpath := p; cex := None |} r [] p, fr)
  | OExcl np r t => (PExEnter r t (if np then [] else path), fr)
  | OPair r ta tb => (PPair r ta tb fr (S fr), S (S fr))
  end.

(* run the goroutine from the end of an operation to its next hook: start the
   next operation of the innermost active body, or - if that body is finished -
   return from the decode function into the Decode call that invoked it *)
Fixpoint next_op (tid : nat) (stk : list frame) (fr : nat) (lg : list event)
  : pcs * list frame * nat * list event :=
  match stk with
  | [] => (PDone, [], fr, lg)
  | f :: below =>
      match frest f with
      | o :: rest =>
          let '(p, fr') := start o (fpath f) fr in
          (p, {| frest := rest; fpath := fpath f; fown := fown f |} :: below, fr', lg)
      | [] =>
          match fown f with
          | None => (PDone, below, fr, lg)
          | Some (c, e, refs) =>
              if fails e (cty c) then
                match cex c with
                | Some p => (PExPub (cref c) (cty c) p (Err EDecode), below, fr, lg)
                | None => next_op tid below fr (EDec tid c (Err EDecode) :: lg)
                end
              else
                (PStore c (if isnil e (cty c) then 0 else fr) refs, below, S fr, lg)
          end
      end
  end.

(* pdf.Decode call c returns o *)
Definition ret_decode (tid : nat) (c : call) (o : outcome) (stk : list frame) (fr : nat) (lg : list event)
  : pcs * list frame * nat * list event :=
  match cex c with
  | Some p => (PExPub (cref c) (cty c) p o, stk, fr, lg)
  | None => next_op tid stk fr (EDec tid c o :: lg)
  end.

Definition upd (s : shared) (ca : cachet) (wi : list (key * pid)) (pe : list (key * option outcome))
  (r : pcs * list frame * nat * list event) : shared * thread :=
  let '(p, stk, fr, lg) := r in
  ({| cache := ca; wip := wi; pends := pe; fresh := fr; log := lg |}, {| tpc := p; tstk := stk |}).

Definition same (s : shared) (r : pcs * list frame * nat * list event) : shared * thread :=
  upd s (cache s) (wip s) (pends s) r.

Definition park (s : shared) (p : pcs) (stk : list frame) : shared * thread :=
  (s, {| tpc := p; tstk := stk |}).

(* one atomic step of goroutine tid; None: not enabled (blocked on an open
   channel, or finished) *)
Definition step_thread (tid : nat) (s : shared) (th : thread) : option (shared * thread) :=
  let stk := tstk th in
  match tpc th with
  | PIdle => Some (same s (next_op tid stk (fresh s) (log s)))
  | PProbe c cur refs path =>
      match lookup (cache s) (cur, cty c) with
      | Some v => Some (same s (ret_decode tid c (Ok v) stk (fresh s) (log s)))
      | None =>
          if mem cur path then Some (same s (ret_decode tid c (Err ECycle) stk (fresh s) (log s)))
          else if Nat.ltb maxdepth (S (length path)) then
            Some (same s (ret_decode tid c (Err EDepth) stk (fresh s) (log s)))
          else Some (park s (PGet c cur (refs ++ [cur]) (cur :: path)) stk)
      end
  | PGet c cur refs path =>
      match next cur with
      | Some r' => Some (park s (PProbe c r' refs path) stk)
      | None => Some (park s (PDecode c cur refs path) stk)
      end
  | PDecode c e refs path =>
      Some (same s (next_op tid
                      ({| frest := body e (cty c); fpath := path; fown := Some (c, e, refs) |} :: stk)
                      (fresh s) (ERun tid c e :: log s)))
  | PStore c v refs =>
      let '(ca, v') := sol (cache s) refs (cty c) v in
      Some (upd s ca (wip s) (pends s) (ret_decode tid c (Ok v') stk (fresh s) (log s)))
  | PExEnter r t path =>
      match lookup (cache s) (r, t) with
      | Some v => Some (same s (next_op tid stk (fresh s) (EExc tid r t (Ok v) :: log s)))
      | None =>
          match lookup (wip s) (r, t) with
          | Some p => Some (park s (PExWait r t p) stk)
          | None =>
              let p := length (pends s) in
              Some ({| cache := cache s; wip := ((r, t), p) :: wip s;
                       pends := pends s ++ [((r, t), None)];
                       fresh := fresh s; log := log s |},
                    {| tpc := PProbe {| cref := r; cty := t; cpath := path; cex := Some p |} r [] path;
                       tstk := stk |})
          end
      end
  | PExWait r t p =>
      match nth_error (pends s) p with
      | Some (_, Some o) => Some (same s (next_op tid stk (fresh s) (EExc tid r t o :: log s)))
      | _ => None
      end
  | PExPub r t p o =>
      Some (upd s (cache s) (remove_key (wip s) (r, t)) (set_nth p ((r, t), Some o) (pends s))
              (next_op tid stk (fresh s) (EExc tid r t o :: EPub r t p o :: log s)))
  | PPair r ta tb a b =>
      let '(ca1, a') := load_or_store (cache s) (r, ta) a in
      let '(ca2, b') := load_or_store ca1 (r, tb) b in
      Some (upd s ca2 (wip s) (pends s) (next_op tid stk (fresh s) (EPair tid r ta tb a' b' :: log s)))
  | PDone => None
  end.

Definition step (s : state) (tid : nat) : option state :=
  match nth_error (ths s) tid with
  | None => None
  | Some th =>
      match step_thread tid (sh s) th with
      | None => None
      | Some (s', th') => Some {| sh := s'; ths := set_nth tid th' (ths s) |}
      end
  end.

(* a schedule is a list of goroutine numbers; a choice that is not enabled
   stops the run (the harness never makes one) *)
Fixpoint run (s : state) (sched : list nat) : state * bool :=
  match sched with
  | [] => (s, true)
  | t :: rest => match step s t with Some s' => run s' rest | None => (s, false) end
  end.

Definition init_shared : shared :=
  {| cache := []; wip := []; pends := []; fresh := 1; log := [] |}.

Definition init (progs : list (list op)) : state :=
  {| sh := init_shared;
     ths := map (fun p => {| tpc := PIdle; tstk := [{| frest := p; fpath := []; fown := None |}] |}) progs |}.

(* status of a goroutine as the controller sees it: 0 finished, 1 enabled, 2 blocked *)
Definition status (s : shared) (th : thread) : nat :=
  match tpc th with
  | PDone => 0
  | PExWait _ _ p => match nth_error (pends s) p with Some (_, Some _) => 1 | _ => 2 end
  | _ => 1
  end.

Definition statuses (s : state) : list nat := map (status (sh s)) (ths s).

(* what a call returns when it runs alone on an empty cache: the class of its
   outcome (value identities aside) *)
Inductive oclass := COk | CErr (x : errc).

Definition class_of (o : outcome) : oclass := match o with Ok _ => COk | Err x => CErr x end.

Fixpoint walk (fuel : nat) (cur : ref) (path : list ref) (t : ty) : oclass :=
  match fuel with
  | O => CErr EDepth
  | S f =>
      if mem cur path then CErr ECycle
      else if Nat.ltb maxdepth (S (length path)) then CErr EDepth
      else match next cur with
           | Some r' => walk f r' (cur :: path) t
           | None => if fails cur t then CErr EDecode else COk
           end
  end.

Definition alone (r : ref) (path : list ref) (t : ty) : oclass := walk (S maxdepth - length path) r path t.

End Model.

(* the tie: run a schedule from the initial state and report everything the
   harness observes *)
Fixpoint run_trace (next : ref -> option ref) (body : ref -> ty -> list op) (fails isnil : ref -> ty -> bool)
  (maxdepth : nat) (s : state) (sched : list nat) : list (list nat) * state * bool :=
  match sched with
  | [] => ([statuses s], s, true)
  | t :: rest =>
      match step next body fails isnil maxdepth store_or_load s t with
      | Some s' =>
          let '(tr, s'', ok) := run_trace next body fails isnil maxdepth s' rest in
          (statuses s :: tr, s'', ok)
      | None => ([statuses s], s, false)
      end
  end.
