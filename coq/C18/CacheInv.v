(* C18 - the core invariant of the cache protocol (DESIGN.md Appendix C "Cache"):
   (b) every cached reference has a chain end that is cached with the same value
       (hence (a): cached values depend only on the chain end),
   (c) entries never change,
   (d) every returned value is the one cached for the chain end of its reference,
   together with the thread-local facts that make them inductive. *)
From Coq Require Import List Arith Bool Lia.
From GoPdf.C18 Require Import Cache CacheLemmas.
Import ListNotations.

Section Inv.
Variable next : ref -> option ref.
Variable body : ref -> ty -> list op.
Variable fails isnil : ref -> ty -> bool.
Variable maxdepth : nat.

Notation stepT := (step_thread next body fails isnil maxdepth store_or_load).
Notation stepS := (step next body fails isnil maxdepth store_or_load).
Notation nextop := (next_op fails isnil).
Notation retdec := (ret_decode fails isnil).
Notation ce := (ce next).
Notation walked := (walked next).
Notation chain_ok := (chain_ok next).

Inductive reach (progs : list (list op)) : state -> Prop :=
| reach_init : reach progs (init progs)
| reach_step s tid s' : reach progs s -> stepS s tid = Some s' -> reach progs s'.

Lemma run_reach : forall progs sched s s' b,
  reach progs s -> run next body fails isnil maxdepth store_or_load s sched = (s', b) -> reach progs s'.
Proof.
  induction sched; simpl; intros.
  - inversion H0; subst; auto.
  - destruct (stepS s a) eqn:E.
    + eapply IHsched; [|eauto]. econstructor; eauto.
    + inversion H0; subst; auto.
Qed.

(* predicates on the operations that occur anywhere in the programs and decoders *)
Variable Pd Px : ref -> ty -> Prop.
Variable Pp : ref -> ty -> ty -> Prop.

Definition op_ok (o : op) : Prop :=
  match o with
  | ODecode _ r t => Pd r t
  | OExcl _ r t => Px r t
  | OPair r ta tb => Pp r ta tb
  end.

Definition pkey (pe : list (key * option outcome)) (p : pid) (k : key) : Prop :=
  exists o, nth_error pe p = Some (k, o).

Definition pends_le (pe pe' : list (key * option outcome)) : Prop :=
  forall p k, pkey pe p k -> pkey pe' p k.

Definition call_ok (pe : list (key * option outcome)) (c : call) : Prop :=
  match cex c with
  | None => Pd (cref c) (cty c)
  | Some p => Px (cref c) (cty c) /\ pkey pe p (cref c, cty c)
  end.

Hypothesis Pp_direct : forall r ta tb, Pp r ta tb -> next r = None.
Hypothesis body_ok : forall e t, Forall op_ok (body e t).

Definition holds (ca : cachet) (r : ref) (t : ty) (v : val) : Prop :=
  exists e, ce r e /\ lookup ca (e, t) = Some v.

Definition out_holds (ca : cachet) (r : ref) (t : ty) (o : outcome) : Prop :=
  match o with Ok v => holds ca r t v | Err _ => True end.

Definition closed (ca : cachet) : Prop :=
  forall r t v, lookup ca (r, t) = Some v -> holds ca r t v.

Definition pc_ok (ca : cachet) (pe : list (key * option outcome)) (p : pcs) : Prop :=
  match p with
  | PIdle | PDone => True
  | PProbe c cur refs path => call_ok pe c /\ walked (cref c) refs cur
  | PGet c cur refs path => call_ok pe c /\ exists refs0, refs = refs0 ++ [cur] /\ walked (cref c) refs0 cur
  | PDecode c e refs path => call_ok pe c /\ chain_ok (cref c) refs e
  | PStore c v refs => call_ok pe c /\ exists e, chain_ok (cref c) refs e
  | PExEnter r t path => Px r t
  | PExWait r t p => Px r t /\ pkey pe p (r, t)
  | PExPub r t p o => Px r t /\ pkey pe p (r, t) /\ out_holds ca r t o
  | PPair r ta tb a b => Pp r ta tb
  end.

Definition frame_ok (pe : list (key * option outcome)) (f : frame) : Prop :=
  Forall op_ok (frest f) /\
  match fown f with
  | None => True
  | Some (c, e, refs) => call_ok pe c /\ chain_ok (cref c) refs e
  end.

Definition ev_ok (ca : cachet) (ev : event) : Prop :=
  match ev with
  | EDec _ c o => out_holds ca (cref c) (cty c) o
  | EExc _ r t o => out_holds ca r t o
  | EPair _ r ta tb a b => lookup ca (r, ta) = Some a /\ lookup ca (r, tb) = Some b
  | ERun _ _ _ => True
  | EPub r t p o => out_holds ca r t o
  end.

Definition log_ok (ca : cachet) (lg : list event) : Prop := forall ev, In ev lg -> ev_ok ca ev.

Definition pends_ok (ca : cachet) (pe : list (key * option outcome)) : Prop :=
  forall p r t o, nth_error pe p = Some ((r, t), Some o) -> out_holds ca r t o.

Definition wip_ok (wi : list (key * pid)) (pe : list (key * option outcome)) : Prop :=
  forall k p, lookup wi k = Some p -> pkey pe p k.

Definition shared_ok (s : shared) : Prop :=
  closed (cache s) /\ log_ok (cache s) (log s) /\ pends_ok (cache s) (pends s) /\ wip_ok (wip s) (pends s).

Definition th_ok (ca : cachet) (pe : list (key * option outcome)) (th : thread) : Prop :=
  pc_ok ca pe (tpc th) /\ Forall (frame_ok pe) (tstk th).

Definition inv (s : state) : Prop :=
  shared_ok (sh s) /\ forall th, In th (ths s) -> th_ok (cache (sh s)) (pends (sh s)) th.

(* monotonicity *)
Lemma holds_mono : forall ca ca' r t v, cache_le ca ca' -> holds ca r t v -> holds ca' r t v.
Proof. intros ca ca' r t v L [e [H1 H2]]; exists e; auto. Qed.

Lemma out_holds_mono : forall ca ca' r t o, cache_le ca ca' -> out_holds ca r t o -> out_holds ca' r t o.
Proof. intros ca ca' r t o L H; destruct o; simpl in H |- *; eauto using holds_mono. Qed.

Lemma pends_le_refl : forall pe, pends_le pe pe.
Proof. unfold pends_le; auto. Qed.

Lemma call_ok_mono : forall pe pe' c, pends_le pe pe' -> call_ok pe c -> call_ok pe' c.
Proof. unfold call_ok; intros pe pe' c L H; destruct (cex c); auto. destruct H; split; auto. Qed.

Lemma pc_ok_mono : forall ca ca' pe pe' p, cache_le ca ca' -> pends_le pe pe' -> pc_ok ca pe p -> pc_ok ca' pe' p.
Proof.
  intros ca ca' pe pe' p L1 L2 H; destruct p; simpl in H |- *; auto;
    repeat match goal with H : _ /\ _ |- _ => destruct H end;
    repeat split; eauto using out_holds_mono, call_ok_mono.
Qed.

Lemma frame_ok_mono : forall pe pe' f, pends_le pe pe' -> frame_ok pe f -> frame_ok pe' f.
Proof.
  unfold frame_ok; intros pe pe' f L [H1 H2]; split; auto.
  destruct (fown f) as [[[c e] refs]|]; auto. destruct H2; split; eauto using call_ok_mono.
Qed.

Lemma frames_ok_mono : forall pe pe' stk, pends_le pe pe' -> Forall (frame_ok pe) stk -> Forall (frame_ok pe') stk.
Proof. intros; eapply Forall_impl; [|eauto]. intros; eapply frame_ok_mono; eauto. Qed.

Lemma ev_ok_mono : forall ca ca' ev, cache_le ca ca' -> ev_ok ca ev -> ev_ok ca' ev.
Proof.
  intros ca ca' ev L H; destruct ev; simpl in H |- *; eauto using out_holds_mono.
  destruct H; split; auto.
Qed.

Lemma log_ok_mono : forall ca ca' lg, cache_le ca ca' -> log_ok ca lg -> log_ok ca' lg.
Proof. unfold log_ok; intros; eauto using ev_ok_mono. Qed.

Lemma pends_ok_mono : forall ca ca' pe, cache_le ca ca' -> pends_ok ca pe -> pends_ok ca' pe.
Proof. unfold pends_ok; intros; eauto using out_holds_mono. Qed.

Lemma th_ok_mono : forall ca ca' pe pe' th, cache_le ca ca' -> pends_le pe pe' -> th_ok ca pe th -> th_ok ca' pe' th.
Proof. unfold th_ok; intros ca ca' pe pe' th L1 L2 [H1 H2]; split; eauto using pc_ok_mono, frames_ok_mono. Qed.

Lemma log_ok_cons : forall ca ev lg, ev_ok ca ev -> log_ok ca lg -> log_ok ca (ev :: lg).
Proof. unfold log_ok; intros. destruct H1; subst; auto. Qed.

(* the local continuation *)
Definition res_ok (ca : cachet) (pe : list (key * option outcome)) (r : pcs * list frame * nat * list event) : Prop :=
  match r with (p, stk, _, lg) => pc_ok ca pe p /\ Forall (frame_ok pe) stk /\ log_ok ca lg end.

Lemma start_ok : forall ca pe o path fr, op_ok o -> pc_ok ca pe (fst (start o path fr)).
Proof.
  intros; destruct o; simpl in *; auto.
  split; [exact H | constructor].
Qed.

Lemma next_op_ok : forall ca pe tid stk fr lg,
  Forall (frame_ok pe) stk -> log_ok ca lg -> res_ok ca pe (nextop tid stk fr lg).
Proof.
  induction stk as [|f below IH]; intros fr lg Hs Hl; simpl.
  - repeat split; auto.
  - inversion Hs as [|? ? Hf Hb]; subst.
    destruct f as [rest path own]; destruct Hf as [Hr Ho]; simpl in *.
    destruct rest as [|o rest].
    + destruct own as [[[c e] refs]|]; [|repeat split; auto].
      destruct Ho as [Hc Hch].
      destruct (fails e (cty c)).
      * destruct (cex c) eqn:Ex.
        -- simpl. unfold call_ok in Hc; rewrite Ex in Hc. destruct Hc. repeat split; auto.
        -- apply IH; auto. apply log_ok_cons; simpl; auto.
      * simpl. repeat split; auto. exists e; auto.
    + inversion Hr; subst.
      pose proof (start_ok ca pe o path fr H1) as Hst.
      destruct (start o path fr) as [p fr'] eqn:Es; simpl in *.
      repeat split; auto. constructor; auto. split; simpl; auto.
Qed.

Lemma ret_decode_ok : forall ca pe tid c o stk fr lg,
  call_ok pe c -> out_holds ca (cref c) (cty c) o -> Forall (frame_ok pe) stk -> log_ok ca lg ->
  res_ok ca pe (retdec tid c o stk fr lg).
Proof.
  intros. unfold ret_decode. destruct (cex c) eqn:Ex.
  - simpl. unfold call_ok in H; rewrite Ex in H. destruct H. repeat split; auto.
  - apply next_op_ok; auto. apply log_ok_cons; simpl; auto.
Qed.

(* the store-or-load of the repaired code keeps the cache closed *)
Lemma sol_ok : forall ca r0 refs e t v ca' v',
  closed ca -> chain_ok r0 refs e -> store_or_load ca refs t v = (ca', v') ->
  cache_le ca ca' /\ closed ca' /\ holds ca' r0 t v'.
Proof.
  intros ca r0 refs e t v ca' v' Hcl Hch Hs.
  unfold store_or_load in Hs. inversion Hs; subst ca'; clear Hs.
  destruct (chain_ok_ce _ _ _ _ Hch) as [Hr0 [Hin Hall]].
  set (x := match first_cached ca refs t with Some x => x | None => v end) in *.
  subst v'.
  assert (HA : lookup (fill ca refs t x) (e, t) = Some x).
  { rewrite fill_spec. destruct (lookup ca (e, t)) as [y|] eqn:Ey.
    - f_equal. unfold x. destruct (first_cached ca refs t) as [z|] eqn:Ef.
      + destruct (first_cached_some _ _ _ _ Ef) as [r [Hr Hz]].
        destruct (Hcl _ _ _ Hz) as [e' [He' Hz']].
        assert (e' = e) by (eapply ce_fun; eauto). subst e'. congruence.
      + rewrite (first_cached_none _ _ _ Ef e Hin) in Ey; discriminate.
    - assert (inrefs refs t (e, t) = true) by (apply inrefs_true; exists e; auto).
      rewrite H; auto. }
  split; [apply fill_le|]. split.
  - intros r t0 v0 H0. rewrite fill_spec in H0.
    destruct (lookup ca (r, t0)) as [y|] eqn:Ey.
    + inversion H0; subst y. eapply holds_mono; [apply fill_le|]. apply Hcl; auto.
    + destruct (inrefs refs t (r, t0)) eqn:Ei; try discriminate.
      inversion H0; subst v0. apply inrefs_true in Ei. destruct Ei as [r' [Hr' Heq]].
      inversion Heq; subst r' t0. exists e; split; auto.
  - exists e; split; auto.
Qed.

Lemma pair_store_ok : forall ca r t v ca' x,
  closed ca -> next r = None -> load_or_store ca (r, t) v = (ca', x) -> cache_le ca ca' /\ closed ca'.
Proof.
  intros ca r t v ca' x Hcl Hn Hs.
  destruct (load_or_store_spec _ _ _ _ _ Hs) as [Hle [Hk [Ho _]]].
  split; auto. intros r1 t1 v1 H1.
  destruct (key_dec (r1, t1) (r, t)) as [E|N].
  - inversion E; subst. exists r; split; [constructor; auto|auto].
  - rewrite Ho in H1; auto. eapply holds_mono; eauto.
Qed.

Definition sh_le (s s' : shared) : Prop := cache_le (cache s) (cache s') /\ pends_le (pends s) (pends s').

Lemma upd_ok : forall s ca wi pe r s' th',
  cache_le (cache s) ca -> pends_le (pends s) pe -> closed ca -> pends_ok ca pe -> wip_ok wi pe -> res_ok ca pe r ->
  upd s ca wi pe r = (s', th') ->
  sh_le s s' /\ shared_ok s' /\ th_ok (cache s') (pends s') th'.
Proof.
  intros s ca wi pe [[[p stk] fr] lg] s' th' Hle Hpl Hcl Hpe Hwi [Hp [Hs Hl]] Hu.
  unfold upd in Hu; inversion Hu; subst; clear Hu; simpl.
  repeat split; auto.
Qed.

Lemma pends_le_app : forall pe x, pends_le pe (pe ++ [x]).
Proof.
  intros pe x p k [o H]. exists o. rewrite nth_error_app1; auto. eapply nth_error_lt; eauto.
Qed.

Lemma pends_le_set : forall pe p k o, pkey pe p k -> pends_le pe (set_nth p (k, o) pe).
Proof.
  intros pe p k o [o0 H0] p' k' [o' H'].
  destruct (Nat.eq_dec p p') as [<-|N].
  - exists o. rewrite nth_set_nth_eq; [|eapply nth_error_lt; eauto]. congruence.
  - exists o'. rewrite nth_set_nth_neq; auto.
Qed.

Lemma step_thread_ok : forall tid s th s' th',
  shared_ok s -> th_ok (cache s) (pends s) th -> stepT tid s th = Some (s', th') ->
  sh_le s s' /\ shared_ok s' /\ th_ok (cache s') (pends s') th'.
Proof.
  intros tid s [pc stk] s' th' [Hcl [Hlg [Hpe Hwi]]] [Hpc Hst] Hstep.
  unfold step_thread, same, park in Hstep; cbn [tpc tstk] in Hstep, Hpc, Hst.
  destruct pc; cbn [pc_ok] in Hpc.
  - (* PIdle *)
    apply some_inj in Hstep. eapply upd_ok; eauto using cache_le_refl, pends_le_refl.
    apply next_op_ok; auto.
  - (* PProbe *)
    destruct Hpc as [Hc Hw].
    destruct (lookup (cache s) (cur, cty c)) as [v|] eqn:El.
    + apply some_inj in Hstep. eapply upd_ok; eauto using cache_le_refl, pends_le_refl.
      apply ret_decode_ok; auto. simpl.
      destruct (Hcl _ _ _ El) as [e [He Hv]]. exists e; split; auto.
      destruct (walked_ce _ _ _ _ Hw _ He); auto.
    + destruct (mem cur path).
      { apply some_inj in Hstep. eapply upd_ok; eauto using cache_le_refl, pends_le_refl.
        apply ret_decode_ok; simpl; auto. }
      destruct (maxdepth <? S (length path)).
      { apply some_inj in Hstep. eapply upd_ok; eauto using cache_le_refl, pends_le_refl.
        apply ret_decode_ok; simpl; auto. }
      inversion Hstep; subst; clear Hstep. split; [split; [apply cache_le_refl|apply pends_le_refl]|].
      split; [repeat split; auto|]. split; simpl; auto. split; auto. exists refs; auto.
  - (* PGet *)
    destruct Hpc as [Hc [refs0 [-> Hw]]].
    destruct (next cur) as [r'|] eqn:En; inversion Hstep; subst; clear Hstep;
      (split; [split; [apply cache_le_refl|apply pends_le_refl]|]; split; [repeat split; auto|]; split; simpl; auto; split; auto).
    + econstructor; eauto.
    + exists refs0; auto.
  - (* PDecode *)
    destruct Hpc as [Hc Hch].
    apply some_inj in Hstep. eapply upd_ok; eauto using cache_le_refl, pends_le_refl.
    apply next_op_ok.
    + constructor; auto. split; simpl; auto.
    + apply log_ok_cons; simpl; auto.
  - (* PStore *)
    destruct Hpc as [Hc [e Hch]].
    destruct (store_or_load (cache s) refs (cty c) v) as [ca v'] eqn:Es.
    destruct (sol_ok _ _ _ _ _ _ _ _ Hcl Hch Es) as [Hle [Hcl' Hh]].
    apply some_inj in Hstep. eapply upd_ok; eauto using pends_ok_mono, pends_le_refl.
    apply ret_decode_ok; auto. eapply log_ok_mono; eauto.
  - (* PExEnter *)
    destruct (lookup (cache s) (r, t)) as [v|] eqn:El.
    + apply some_inj in Hstep. eapply upd_ok; eauto using cache_le_refl, pends_le_refl.
      apply next_op_ok; auto. apply log_ok_cons; auto. simpl. apply Hcl; auto.
    + destruct (lookup (wip s) (r, t)) as [p|] eqn:Ew; inversion Hstep; subst; clear Hstep; simpl.
      * split; [split; [apply cache_le_refl|apply pends_le_refl]|]. split; [repeat split; auto|]. split; simpl; auto.
      * pose proof (pends_le_app (pends s) ((r, t), None)) as Hla.
        split; [split; [apply cache_le_refl|exact Hla]|]. split.
        -- repeat split; simpl; auto.
           ++ intros p r0 t0 o Hn.
              destruct (Nat.lt_ge_cases p (length (pends s))).
              ** rewrite nth_error_app1 in Hn; eauto.
              ** rewrite nth_error_app2 in Hn; auto.
                 destruct (p - length (pends s)) as [|[|k]]; simpl in Hn; discriminate.
           ++ intros k p Hk. simpl in Hk. destruct (key_eqb (r, t) k) eqn:Ek.
              ** apply key_eqb_eq in Ek; subst k. inversion Hk; subst p.
                 exists None. apply nth_error_app_last.
              ** apply Hla; auto.
        -- split; simpl; [|eapply frames_ok_mono; eauto].
           split; [|constructor]. unfold call_ok; simpl. split; auto.
           exists None. apply nth_error_app_last.
  - (* PExWait *)
    destruct Hpc as [Hx [o0 Hk]].
    rewrite Hk in Hstep. destruct o0 as [o|]; try discriminate.
    apply some_inj in Hstep. eapply upd_ok; eauto using cache_le_refl, pends_le_refl.
    apply next_op_ok; auto. apply log_ok_cons; auto. simpl. eapply Hpe; eauto.
  - (* PExPub *)
    destruct Hpc as [Hx [Hk Ho]].
    pose proof (pends_le_set _ _ _ (Some o) Hk) as Hls.
    apply some_inj in Hstep. eapply upd_ok; eauto using cache_le_refl.
    + intros p' r0 t0 o0 Hn.
      destruct (Nat.eq_dec p p') as [<-|N].
      * destruct Hk as [ok Hk]. rewrite nth_set_nth_eq in Hn; [|eapply nth_error_lt; eauto].
        inversion Hn; subst; auto.
      * rewrite nth_set_nth_neq in Hn; eauto.
    + intros k p' Hl.
      destruct (key_dec k (r, t)) as [->|N].
      * rewrite lookup_remove_eq in Hl; discriminate.
      * rewrite lookup_remove_neq in Hl; auto.
    + apply next_op_ok; [eapply frames_ok_mono; eauto|]. apply log_ok_cons; auto. apply log_ok_cons; auto.
  - (* PPair *)
    destruct (load_or_store (cache s) (r, ta) a) as [ca1 a'] eqn:E1.
    destruct (load_or_store ca1 (r, tb) b) as [ca2 b'] eqn:E2.
    pose proof (Pp_direct _ _ _ Hpc) as Hn.
    destruct (pair_store_ok _ _ _ _ _ _ Hcl Hn E1) as [L1 C1].
    destruct (pair_store_ok _ _ _ _ _ _ C1 Hn E2) as [L2 C2].
    assert (L : cache_le (cache s) ca2) by (eapply cache_le_trans; eauto).
    apply some_inj in Hstep. eapply upd_ok; eauto using pends_ok_mono, pends_le_refl.
    apply next_op_ok; auto. apply log_ok_cons; [|eapply log_ok_mono; eauto].
    simpl. destruct (load_or_store_spec _ _ _ _ _ E1) as [_ [K1 _]].
    destruct (load_or_store_spec _ _ _ _ _ E2) as [_ [K2 _]]. split; auto.
  - discriminate.
Qed.

(* ---- the invariant holds in every reachable state ---- *)
Lemma step_inv : forall s tid s', inv s -> stepS s tid = Some s' -> inv s' /\ sh_le (sh s) (sh s').
Proof.
  intros s tid s' [Hsh Hth] Hstep. unfold step in Hstep.
  destruct (nth_error (ths s) tid) as [th|] eqn:En; try discriminate.
  destruct (stepT tid (sh s) th) as [[sh' th']|] eqn:Et; try discriminate.
  inversion Hstep; subst; clear Hstep; simpl.
  destruct (step_thread_ok _ _ _ _ _ Hsh (Hth _ (nth_error_In _ _ En)) Et) as [[L1 L2] [Hs' Ht']].
  split; [|split; auto]. split; auto. simpl.
  intros th0 Hin. apply in_set_nth in Hin. destruct Hin as [->|Hin]; auto.
  eapply th_ok_mono; eauto.
Qed.

Lemma init_inv : forall progs, Forall (Forall op_ok) progs -> inv (init progs).
Proof.
  intros progs Hp. split.
  - split; [|split; [|split]]; simpl.
    + intros r t v H; discriminate.
    + intros ev [].
    + intros p r t o H; destruct p; discriminate.
    + intros k p H; discriminate.
  - simpl. intros th Hin. apply in_map_iff in Hin. destruct Hin as [pr [<- Hin]].
    split; simpl; auto. constructor; auto. split; simpl; auto.
    rewrite Forall_forall in Hp; auto.
Qed.

Lemma reach_inv : forall progs s, Forall (Forall op_ok) progs -> reach progs s -> inv s.
Proof.
  intros progs s Hp Hr. induction Hr.
  - apply init_inv; auto.
  - eapply step_inv; eauto.
Qed.

(* (c) a published entry never changes *)
Lemma step_monotone : forall progs s tid s', Forall (Forall op_ok) progs -> reach progs s ->
  stepS s tid = Some s' -> cache_le (cache (sh s)) (cache (sh s')).
Proof.
  intros. destruct (step_inv s tid s') as [_ [L _]]; auto. eapply reach_inv; eauto.
Qed.

(* (d) what a call returned is what the cache holds for the chain end of its reference *)
Definition returned (lg : list event) (r : ref) (t : ty) (v : val) : Prop :=
  (exists tid c, In (EDec tid c (Ok v)) lg /\ cref c = r /\ cty c = t) \/
  (exists tid, In (EExc tid r t (Ok v)) lg) \/
  (exists tid tb b, In (EPair tid r t tb v b) lg) \/
  (exists tid ta a, In (EPair tid r ta t a v) lg).

Lemma returned_holds : forall s r t v, inv s -> returned (log (sh s)) r t v -> holds (cache (sh s)) r t v.
Proof.
  intros s r t v [[Hcl [Hlg _]] _] H.
  destruct H as [[tid [c [Hin [<- <-]]]]|[[tid Hin]|[[tid [tb [b Hin]]]|[tid [ta [a Hin]]]]]];
    apply Hlg in Hin; simpl in Hin; auto.
  - destruct Hin; apply Hcl; auto.
  - destruct Hin; apply Hcl; auto.
Qed.

Lemma agree_inv : forall s r r' e t v v', inv s ->
  returned (log (sh s)) r t v -> returned (log (sh s)) r' t v' -> ce r e -> ce r' e -> v = v'.
Proof.
  intros s r r' e t v v' Hi H1 H2 C1 C2.
  destruct (returned_holds _ _ _ _ Hi H1) as [e1 [E1 L1]].
  destruct (returned_holds _ _ _ _ Hi H2) as [e2 [E2 L2]].
  assert (e1 = e) by (eapply ce_fun; eauto). assert (e2 = e) by (eapply ce_fun; eauto).
  subst. congruence.
Qed.

End Inv.
